"""Tie of the composed outbound model (lean/Mqtt5V/Model/Trace.lean) to the real client: every H-client transcript, abstracted by
trace_abs.abstract, must be an event list the model accepts.  A refusal is a broken correspondence; the guard that failed names the
property it stands for (C01/C03/C05/C07/C08/C14, or `model` when it is none of them)."""
from vlib import *
import trace_abs

TRACE_PROPS = {"C01", "C02", "C03", "C04", "C05", "C06", "C07", "C08", "C09", "C13", "C14"}
INBOUND = {"C04", "C13"}
CONTENT_PROPS = {"C01", "C17"}
DISC_PROPS = {"C09"}
KA_PROPS = {"C12"}
# guards of the model that stand for a clause of another property as well (C02: same identifier / same bytes on retransmission; C09: nothing succeeds after a finished disconnect)
RELATED = {"C02": ("C03", "C08"), "C09": ("C05",)}


def check(ctx, prop, collected):
    """collected = [(seed, scenario)].  Every engine that serves `prop` must accept every transcript."""
    rel = []
    if prop in TRACE_PROPS:
        rel += check_engine(ctx, prop, collected, "tracein " if prop in INBOUND else "trace ",
                            trace_abs.abstract_in if prop in INBOUND else trace_abs.abstract,
                            "Model/TraceIn.lean" if prop in INBOUND else "Model/Trace.lean", accept_tags=RELATED.get(prop))
    if prop in DISC_PROPS:
        rel += check_engine(ctx, prop, collected, "tracedisc ", trace_abs.abstract_disc, "Model/TraceDisc.lean")
        rel += check_engine(ctx, prop, collected, "tracedisct ", trace_abs.abstract_disct, "Model/TraceDiscT.lean")
    if prop in KA_PROPS:
        rel += check_engine(ctx, prop, collected, "traceka ", trace_abs.abstract_ka, "Model/TraceKA.lean")
    if prop in CONTENT_PROPS:
        rel += check_engine(ctx, prop, collected, "tracecontent ", trace_abs.abstract_content, "Model/TraceContent.lean", accept_tags=("C17", prop))
    return rel


def check_engine(ctx, prop, collected, cmd, abstract_fn, model_name, accept_tags=None):
    mdrv, mlog = build_mdrv()
    if mdrv is None:
        ctx.ties_broken.append("mdrv does not build: " + mlog[-800:]); return []
    lines = []; keep = []
    short = cmd.strip()
    for seed, s in collected:
        try:
            toks, skip = abstract_fn(s)
        except Exception as e:
            import traceback
            ctx.ties_broken.append("correspondence:trace front end raised on scenario seed %s: %s" % (seed, traceback.format_exc()[-400:])); continue
        if skip: ctx.count(short + ":skipped"); continue
        keep.append((seed, s, toks)); lines.append(cmd + " ".join(toks))
    if not lines: return []
    out, rc, err = run_lines(mdrv, lines)
    rel = []; nev = 0
    kinds = {}
    for (seed, s, toks), o in zip(keep, out):
        nev += len(toks)
        for t in toks:
            k = t.split(":")[0] + (":" + t.split(":")[1] if t.startswith(("p:", "a:", "P:", "d:")) and short not in ("traceka", "tracedisct") else "")
            kinds[k] = kinds.get(k, 0) + 1
        if o == "accept": continue
        ws = o.split(" ", 3)
        if ws[0] != "reject":
            ctx.ties_broken.append(f"correspondence:{short} driver answered `{o[:120]}` for scenario seed {seed}"); continue
        idx = int(ws[1]); reason = ws[3] if len(ws) > 3 else "model ?"
        tag = reason.split()[0]
        ctx.count(short + ":refused:" + tag)
        if tag == prop or tag == "model" or (accept_tags and tag in accept_tags):
            rel.append((seed, s, toks, idx, reason))
    ctx.count(short + ":transcripts-replayed-through-composed-model", len(keep))
    ctx.count(short + ":events", nev)
    for k, v in sorted(kinds.items()): ctx.count(short + ":ev:" + k, v)
    if len(out) != len(keep):
        ctx.ties_broken.append(f"correspondence:{short} driver answered {len(out)} of {len(keep)} transcripts (rc={rc}): {err[-300:]}")
    if rel:
        seed, s, toks, idx, reason = rel[0]
        ctx.ties_broken.append(f"correspondence:composed model ({model_name}) refuses a transcript of the real client at event {idx} `{toks[idx]}`: {reason} [{len(rel)} transcripts; first: scenario seed {seed}]")
        ctx.notes.append({"trace_refusal": {"model": model_name, "scenario_seed": seed, "event_index": idx, "event": toks[idx], "reason": reason,
                                            "events_before": toks[max(0, idx - 40):idx + 1], "script": [l for l, _, _, _ in s.tr]}})
        # a refusal by a guard that stands for a clause of the property (not a bookkeeping guard of the model) on a transcript of the real client is a
        # concrete failing history: report it with the script as the replay
        tagged = [r for r in rel if r[4].split()[0] != "model"]
        if tagged and not getattr(ctx, "found_by_trace", False):
            seed, s, toks, idx, reason = tagged[0]
            ctx.violation("composed-model", {"what": f"{prop}: the real client (H-client) produced a history the composed model ({model_name}) refuses, at the guard `{reason}`",
                                             "scenario_seed": seed, "event_index": idx, "event": toks[idx], "events_before": toks[max(0, idx - 60):idx + 1],
                                             "script": [l for l, _, _, _ in s.tr], "events": [" | ".join(e)[:400] for _, e, _, _ in s.tr],
                                             "replay_hint": "feed `script` line by line to .build/h/h_client/*; abstract with lib/trace_abs.py; `mdrv " + short + " <tokens>`"})
            ctx.found_by_trace = True
    return rel
