"""Scenario generator on top of client_sim.Session: API user + broker + faults, then a healing suffix and a final cancel."""
import mqtt_ref as ref
from client_sim import Session, Op

PUBACK_RCS = [0, 0, 0, 0x10, 0x80, 0x87, 0x97]
SUBACK_RCS = [0, 1, 2, 0x80, 0x87, 0x97]
UNSUBACK_RCS = [0, 0x11, 0x80, 0x87]


class Scenario(Session):
    def __init__(self, harness, rng, profile="mixed"):
        super().__init__(harness, rng)
        self.profile = profile
        self.inflight2 = {}          # broker side: pid -> state for client->broker QoS2
        self.sub_ok = False
        self.bq = []                 # broker->client messages in flight: dict(pid,qos,state,tag)
        self.next_bpid = 1
        self.bmsg = 0
        self.hostile = profile == "hostile"
        self.ka = 0
        self.ended = False
        self.recv_ops = []
        self.terminal_seen = False
        self.held = []               # broker responses held back (delivered later / after reconnect are dropped)
        self.bsent = []              # every QoS>0 message the broker sent: dict(pid,qos,tag,acked)
        self.silent_broker = False

    # ---------------------------------------------------------------- API
    def start(self):
        self.do("new")
        self.ka = self.rng.choice([0, 0, 5, 10, 60])
        self.do(f"cfg ka={self.ka} cid=636c69 brokers=6c6f63616c686f7374")
        self.ops["R"] = Op("R", "run"); self.ops["R"].t_init = self.now
        self.do("run R")

    def new_name(self, prefix):
        self.nop += 1
        return f"{prefix}{self.nop}"

    def rand_props(self, kind, p=0.25):
        ps = []
        for pid in sorted(ref.ALLOWED[kind]):
            if pid in (0x0B, 0x23): continue     # subscription identifier / topic alias need broker caps: separate
            k = ref.PROP_KIND[pid]
            reps = self.rng.choice([0, 0, 0, 1, 2]) if pid == 0x26 else (1 if self.rng.random() < p else 0)
            for _ in range(reps):
                if k == "u8": v = self.rng.choice([0, 1])
                elif k == "u16": v = self.rng.randrange(65536)
                elif k == "u32": v = self.rng.randrange(2 ** 32)
                elif k in ("str", "bin"): v = self.rng.choice([b"", b"ab", "é".encode(), b"resp/t"])
                else: v = (self.rng.choice([b"k", b""]), self.rng.choice([b"v", "ü".encode()]))
                ps.append((pid, v))
        return ps

    def api_pub(self, qos=None):
        qos = self.rng.choice([0, 1, 1, 2, 2]) if qos is None else qos
        name = self.new_name("P")
        topic = self.rng.choice([b"a/b", b"t", "tö/x".encode()])
        payload = name.encode() + b":" + bytes(self.rng.choice(b"xyz") for _ in range(self.rng.randint(0, 6)))
        retain = self.rng.randint(0, 1)
        ps = self.rand_props("publish")
        if self.rng.random() < 0.15: ps.append((0x23, self.rng.choice([0, 1, 2, 5, 6])))     # topic alias
        if self.rng.random() < 0.1: payload = name.encode() + b":" + b"L" * self.rng.choice([10, 30, 60, 190])
        if ps and any(pid == 0x01 and v == 1 for pid, v in ps): payload = name.encode() + b":utf8"
        op = Op(name, "pub", qos=qos, topic=topic, payload=payload, retain=retain, props=ps, conn_at_init=self.conn, caps_at_init=dict(self.caps) if self.connected else None)
        op.t_init = self.now; op.idx = len(self.tr)
        self.ops[name] = op
        self.do(self.at() + f"pub {name} {qos} {retain} {topic.hex()} {payload.hex()} {ref.plist_text(ps)}")
        self.count(f"pub-qos{qos}")

    def api_sub(self):
        name = self.new_name("S")
        n = self.rng.choice([1, 1, 2, 3])
        ts = [(self.rng.choice([b"a/#", b"t", b"+/x", b"a/b", b"$share/g/t", b"$share/g/a/#"]), dict(qos=self.rng.randint(0, 2), nl=self.rng.randint(0, 1), rap=self.rng.randint(0, 1), rh=self.rng.randint(0, 2))) for _ in range(n)]
        ps = self.rand_props("subscribe")
        if self.rng.random() < 0.2: ps.append((0x0B, self.rng.choice([1, 127, 268435455])))
        op = Op(name, "sub", topics=ts, props=ps, conn_at_init=self.conn, caps_at_init=dict(self.caps) if self.connected else None); op.t_init = self.now; op.idx = len(self.tr)
        self.ops[name] = op
        self.do(self.at() + f"sub {name} {ref.plist_text(ps)} {n} " + " ".join(f"{f.hex()} {o['qos']} {o['nl']} {o['rap']} {o['rh']}" for f, o in ts))
        self.count("sub")

    def at(self):
        """a quarter of the API calls are made from inside a completion handler running on the io_context (C05: never inline)"""
        return "@" if self.rng.random() < 0.25 else ""

    def api_unsub(self):
        name = self.new_name("U")
        n = self.rng.choice([1, 2]); ts = [self.rng.choice([b"a/#", b"t"]) for _ in range(n)]
        ps = self.rand_props("unsubscribe")
        op = Op(name, "unsub", topics=ts, props=ps); op.t_init = self.now; op.idx = len(self.tr)
        self.ops[name] = op
        self.do(self.at() + f"unsub {name} {ref.plist_text(ps)} {n} " + " ".join(f.hex() for f in ts))
        self.count("unsub")

    def api_recv(self):
        name = self.new_name("V")
        op = Op(name, "recv"); op.t_init = self.now; op.idx = len(self.tr)
        self.ops[name] = op; self.recv_ops.append(name)
        self.do(f"recv {name}")

    def api_sig(self):
        cands = [o for o in self.ops.values() if o.kind in ("pub", "sub", "unsub", "recv") and not o.done and not o.cancelled]
        if not cands: return
        o = self.rng.choice(cands); ty = self.rng.choice(["total", "partial", "total", "partial", "terminal"])
        if ty == "terminal" and self.rng.random() < 0.7: ty = "total"
        o.cancelled = True; o.cancel_type = ty
        whole = ty == "terminal" and o.kind != "recv"     # terminal on publish/subscribe/unsubscribe = cancel() of the whole client; on async_receive only that receive
        if whole: self.mark_all_cancelled()
        self.do(f"sig {o.name} {ty}")
        self.count("sig-" + ty)
        if whole: self.after_close()

    def mark_all_cancelled(self):
        for o in self.ops.values():
            if not o.done: o.cancelled = True
        self.terminal_seen = True

    def after_close(self):
        """the client closed its stream: pending I/O of the old stream ends with operation_aborted"""
        for sid in list(self.write_pending):
            self.write_pending.pop(sid); self.do(f"wdone {sid} aborted")
        for sid in list(self.read_pending):
            self.read_pending.pop(sid); self.do(f"rdone {sid} aborted")
        for sid in sorted(self.shut_pending):
            self.shut_pending.discard(sid); self.do(f"shutdone {sid}")
        self.connected = False; self.broker_out = bytearray(); self.held = []

    # ---------------------------------------------------------------- broker
    def damage(self, data):
        """hostile broker: the packet is damaged (or replaced) before it is sent"""
        rng = self.rng; b = bytearray(data)
        k = rng.choice(["trunc", "flip", "byte", "len", "insert", "random", "extend", "flags", "shortprops", "rl", "zero-rl", "pid0"])
        if k == "trunc" and len(b) > 1: del b[rng.randrange(1, len(b)):]
        elif k == "flip": i = rng.randrange(len(b)); b[i] ^= 1 << rng.randrange(8)
        elif k == "byte": i = rng.randrange(len(b)); b[i] = (b[i] + rng.choice([1, 255])) & 0xFF
        elif k == "len": i = rng.randrange(len(b)); b[i] = rng.choice([0x7F, 0x80, 0xFF, 0x00])
        elif k == "insert": i = rng.randint(0, len(b)); b[i:i] = bytes(rng.randrange(256) for _ in range(rng.randint(1, 4)))
        elif k == "random": b = bytearray(rng.randrange(256) for _ in range(rng.randint(1, 24)))
        elif k == "extend": b += bytes(rng.randrange(256) for _ in range(rng.randint(1, 6)))
        elif k == "flags": b[0] = (b[0] & 0xF0) | rng.randrange(16)
        elif k == "shortprops" and len(b) > 4: i = rng.randrange(2, len(b)); b[i] = rng.randrange(b[i]) if b[i] else 1
        elif k == "rl" and len(b) > 1: b[1] = (b[1] + rng.choice([1, 2, 255, 254])) & 0x7F
        elif k == "zero-rl" and len(b) > 1: b[1:] = b"\x00"
        elif k == "pid0" and len(b) >= 4 and (b[0] >> 4) in (4, 5, 6, 7, 9, 11): b[2] = b[3] = 0
        self.count("hostile-" + k)
        return bytes(b)

    def q(self, data, hold=False):
        if self.silent_broker: return
        if self.hostile and self.rng.random() < 0.12: data = self.damage(data)
        if hold or self.held or (self.rng.random() < 0.08): self.held.append(bytes(data))      # a stalled broker: later replies queue behind (order kept)
        else: self.broker_out += data

    def ack_props(self):
        r = self.rng.random()
        if r < 0.7: return []
        if r < 0.85: return [(0x1F, b"why")]
        return [(0x26, (b"k", b"v")), (0x1F, b"r"), (0x26, (b"k2", b""))]

    def on_broker_packet(self, d):
        t = d["type"]
        if t == "publish":
            if d["qos"] == 1:
                rc = self.rng.choice(PUBACK_RCS); ps = self.ack_props()
                self.q(ref.e_ack("puback", d["pid"], rc, ps, short=self.rng.random() < 0.5))
            elif d["qos"] == 2:
                if self.inflight2.get(d["pid"]) == "rel-wait":
                    rc, ps = 0, []       # retransmission: same answer
                else:
                    rc = self.rng.choice([0, 0, 0, 0, 0x10, 0x80, 0x97]); ps = self.ack_props()
                if rc < 0x80: self.inflight2[d["pid"]] = "rel-wait"
                self.q(ref.e_ack("pubrec", d["pid"], rc, ps, short=self.rng.random() < 0.5))
        elif t == "pubrel":
            known = d["pid"] in self.inflight2
            self.inflight2.pop(d["pid"], None)
            rc = 0 if known else 0x92
            if self.rng.random() < 0.04: rc = self.rng.choice([0x10, 0x80, 0x97]); self.count("pubcomp-with-inadmissible-code")   # not a PUBCOMP code: malformed for the client
            self.q(ref.e_ack("pubcomp", d["pid"], rc, self.ack_props() if known and rc == 0 else [], short=self.rng.random() < 0.5))
        elif t == "subscribe":
            rcs = [self.rng.choice(SUBACK_RCS) for _ in d["topics"]]
            rcs = self.maybe_bad_verdicts(rcs, SUBACK_RCS)
            if any(r < 0x80 for r in rcs) and len(rcs) == len(d["topics"]): self.sub_ok = True
            self.q(ref.e_suback("suback", d["pid"], rcs, self.ack_props()), hold=self.profile == "session" and self.rng.random() < 0.4)
        elif t == "unsubscribe":
            rcs = self.maybe_bad_verdicts([self.rng.choice(UNSUBACK_RCS) for _ in d["topics"]], UNSUBACK_RCS)
            self.q(ref.e_suback("unsuback", d["pid"], rcs, self.ack_props()))
        elif t == "pingreq":
            self.q(ref.e_pingresp())
        elif t == "puback":
            for m in self.bq:
                if m["pid"] == d["pid"] and m["qos"] == 1: self.mark_acked(m)
            self.bq = [m for m in self.bq if not (m["pid"] == d["pid"] and m["qos"] == 1)]
        elif t == "pubrec":
            for m in self.bq:
                if m["pid"] == d["pid"] and m["qos"] == 2: m["state"] = "rel"
            self.q(ref.e_ack("pubrel", d["pid"], 0, [], short=self.rng.random() < 0.5))
        elif t == "pubcomp":
            for m in self.bq:
                if m["pid"] == d["pid"] and m["qos"] == 2: self.mark_acked(m)
            self.bq = [m for m in self.bq if not (m["pid"] == d["pid"] and m["qos"] == 2)]
        elif t == "disconnect":
            self.broker_out = bytearray(); self.held = []   # the broker closes the connection

    def mark_acked(self, m):
        for b in self.bsent:
            if b["tag"] == m["tag"]: b["acked"] = True

    def reconnect(self, sp, caps):
        """the broker side of a reconnect: with Session Present = 1 it retransmits what is unacknowledged (PUBLISH with DUP = 1 while it
        has not seen the PUBACK / PUBREC, PUBREL afterwards), in the original order; with Session Present = 0 its session state is gone"""
        super().reconnect(sp, caps)
        if not sp:
            self.bq = []; self.inflight2 = {}
            return
        for m in self.bq:
            if m["state"] == "pub": self.q(ref.e_publish(b"a/b", m["tag"], m["qos"], 0, 1, m["pid"], m["ps"])); self.count("broker-retransmit-publish")
            else: self.q(ref.e_ack("pubrel", m["pid"], 0, [], short=self.rng.random() < 0.5)); self.count("broker-retransmit-pubrel")

    def maybe_bad_verdicts(self, rcs, good):
        """a broker that occasionally acknowledges with a wrong count or an inadmissible code (must never be surfaced as success)"""
        if self.rng.random() > 0.08: return rcs
        self.count("bad-verdicts")
        k = self.rng.choice(["extra-invalid", "extra-valid", "missing", "invalid"])
        if k == "extra-invalid": pos = self.rng.randint(0, len(rcs)); return rcs[:pos] + [0xFF] + rcs[pos:]
        if k == "extra-valid": return rcs + [self.rng.choice(good)]
        if k == "missing": return rcs[:-1] if len(rcs) > 1 else rcs + [0x42]
        return [0x42] + rcs[1:]

    def stray_ack(self):
        """a well-formed acknowledgement nobody asked for (duplicate of an earlier one, or for an identifier the client is about
        to use): it must never complete an operation whose request it does not follow"""
        rng = self.rng
        seen = [d.get("pid") for _, d, _ in self.broker_seen if d.get("pid")]
        hi = max(seen) if seen else 0
        pid = rng.choice(seen[-6:] + [hi + 1, hi + 1, hi + 2, 1, 2]) if seen else rng.choice([1, 2])
        kind = rng.choice(["puback", "puback", "pubrec", "pubcomp", "suback", "unsuback"])
        if kind in ("suback", "unsuback"):
            good = SUBACK_RCS if kind == "suback" else UNSUBACK_RCS
            data = ref.e_suback(kind, pid, [rng.choice(good) for _ in range(rng.choice([1, 1, 2, 3]))], self.ack_props())
        else:
            # now and then a reason code that exists in MQTT 5 but not for this packet type (must be treated as malformed, never surfaced)
            rc = rng.choice(PUBACK_RCS + [0x92]) if kind != "pubcomp" else rng.choice([0, 0x92, 0x92, 0x10, 0x80])
            data = ref.e_ack(kind, pid, rc, self.ack_props(), short=rng.random() < 0.5)
        if self.silent_broker: return
        self.broker_out += data
        self.count("stray-" + kind)

    def broker_publish(self):
        qos = self.rng.choice([0, 1, 2])
        self.bmsg += 1
        tag = f"B{self.bmsg}".encode()
        pid = None
        if qos:
            # like a real broker: the lowest identifier it has no exchange open for
            used = {m["pid"] for m in self.bq}
            pid = next(i for i in range(1, 65536) if i not in used)
        ps = [] if self.rng.random() < 0.6 else [(0x26, (b"bk", b"bv")), (0x03, b"text/plain")]
        if self.rng.random() < 0.2: ps.append((0x0B, self.rng.choice([1, 127, 128])))
        if qos:
            self.bq.append(dict(pid=pid, qos=qos, state="pub", tag=tag, conn=self.conn, ps=ps))
            self.bsent.append(dict(pid=pid, qos=qos, tag=tag, acked=False))
        self.q(ref.e_publish(b"a/b", tag, qos, 0, 0, pid, ps))
        self.count(f"broker-pub-qos{qos}")

    # ---------------------------------------------------------------- scheduling
    def handle_shutdown(self):
        """the client asked the stream to shut down (malformed packet, sentry, DISCONNECT from the broker): finish it and,
        as the real stream would, reconnect"""
        if self.shut_pending and not self.ended:
            self.shutdone()
            if self.running:
                self.reconnect(self.rng.randint(0, 1), self.new_caps())

    def new_caps(self):
        caps = {}
        r = self.rng.random()
        if r < (0.85 if self.profile == "inbound" else 0.45): caps[0x21] = self.rng.choice([1, 1, 2, 3, 10, 65535])      # receive maximum
        if self.rng.random() < 0.15: caps[0x13] = self.rng.choice([0, 3, 7])   # server keep alive
        if self.rng.random() < 0.2: caps[0x24] = self.rng.choice([0, 1])        # maximum QoS
        if self.rng.random() < 0.15: caps[0x25] = 0                             # retain available
        if self.rng.random() < 0.15: caps[0x27] = self.rng.choice([20, 40, 64, 200])   # maximum packet size
        if self.rng.random() < 0.2: caps[0x22] = self.rng.choice([1, 5])        # topic alias maximum
        if self.rng.random() < 0.12: caps[0x28] = 0                             # wildcard subscription available
        if self.rng.random() < 0.12: caps[0x29] = 0                             # subscription identifier available
        if self.rng.random() < 0.12: caps[0x2A] = 0                             # shared subscription available
        return caps

    def step(self):
        rng = self.rng
        acts = []
        if self.running:
            if self.profile == "session": acts += [("pub", 8), ("sub", 16), ("unsub", 2), ("sig", 1), ("advance", 4)]
            else: acts += [("pub", 22), ("sub", 4), ("unsub", 3), ("sig", 3), ("advance", 8)]
            if len(self.recv_ops) < 4: acts.append(("recv", 5))
            if not self.connected: acts.append(("connect", 25))
            else:
                acts.append(("drop", 12 if self.profile == "session" else 5))
                if self.profile == "inbound": acts.append(("bpub", 32))          # a busy broker: many inbound messages, acknowledgements pile up behind throttled publishes
                elif self.sub_ok or rng.random() < 0.1: acts.append(("bpub", 6))
            if self.sid in self.write_pending and self.connected: acts += [("wok", 30), ("early", 6)]
            if self.sid in self.read_pending and self.connected and self.broker_out: acts.append(("rx", 35))
            if self.held and self.connected: acts.append(("release", 6))
            if self.connected and self.profile != "session": acts.append(("stray", 4))
        if not acts: return False
        tot = sum(w for _, w in acts); x = rng.uniform(0, tot)
        for a, w in acts:
            x -= w
            if x <= 0: break
        if a == "pub": self.api_pub()
        elif a == "sub": self.api_sub()
        elif a == "unsub": self.api_unsub()
        elif a == "recv": self.api_recv()
        elif a == "sig": self.api_sig()
        elif a == "advance":
            self.advance(rng.choice([1, 50, 999, 1000, 2999, 3001, 4000, 9000, 21000]) + rng.randint(0, 3)); self.count("advance")
        elif a == "connect": self.reconnect(rng.randint(0, 1), self.new_caps()); self.count("connect")
        elif a == "drop":
            # connection lost: partial delivery of the write in progress, then reconnect
            pk = self.write_pending.get(self.sid)
            already = pk is not None and any(w["result"] is None and w["pk"] == pk and w.get("early") for w in self.wlog)
            if pk is not None and not already and rng.random() < 0.5:
                k = rng.randint(0, len(pk))
                for w in reversed(self.wlog):
                    if w["result"] is None and w["pk"] == pk: w["delivered"] = k; break
                for b in pk[:k]: self.broker_receive(b)
            sp = rng.randint(0, 1) if rng.random() < 0.6 else 1
            if self.profile == "session": sp = 0 if rng.random() < 0.7 else 1
            self.reconnect(sp, self.new_caps()); self.count("drop")
        elif a == "bpub": self.broker_publish()
        elif a == "wok": self.wdone("ok"); self.count("wok")
        elif a == "rx":
            size, _ = self.read_pending[self.sid]
            n = min(len(self.broker_out), size, rng.choice([1, 2, 3, 5, 8, 64, 4096]))
            data = bytes(self.broker_out[:n]); del self.broker_out[:n]
            self.rx(data); self.count("rx")
        elif a == "release":
            self.broker_out += self.held.pop(0)
        elif a == "stray":
            self.stray_ack()
        elif a == "early":
            self.deliver_early(); self.count("early-delivery")
        self.handle_shutdown()
        return True

    def heal(self):
        """fault-free suffix: the broker stays reachable, every write succeeds, everything the broker owes is delivered"""
        self.heal_start = len(self.tr)
        for o in self.ops.values(): o.cancelled_before_heal = o.cancelled
        for it in range(400):
            if self.crashed or not self.running: break
            if not self.connected:
                self.reconnect(1, {0x21: 65535} if self.rng.random() < 0.5 else {}); self.handle_shutdown(); continue
            if self.shut_pending: self.handle_shutdown(); continue
            if self.sid in self.write_pending: self.wdone("ok"); self.handle_shutdown(); continue
            if self.held: self.broker_out += self.held.pop(0)
            if self.broker_out and self.sid in self.read_pending:
                size, _ = self.read_pending[self.sid]
                n = min(len(self.broker_out), size); data = bytes(self.broker_out[:n]); del self.broker_out[:n]
                self.rx(data); self.handle_shutdown(); continue
            # quiescent: is anything still owed?  (QoS exchanges the broker must continue are driven by its replies above)
            pend = [o for o in self.ops.values() if o.kind in ("pub", "sub", "unsub") and not o.done and not o.cancelled]
            if not pend and (not self.bq or it > 60): break
            # unanswered requests whose reply was lost on an earlier connection: the 20 s sentry makes the client reconnect and resend
            self.advance(3001); self.handle_shutdown()
        # take everything the receive channel still holds
        if self.running and not self.crashed:
            for _ in range(30):
                free = [n for n in self.recv_ops if not self.ops[n].done]
                if free: break
                self.api_recv()
            self.channel_drained = True
        self.heal_ok = self.running and not self.crashed
        self.heal_end = len(self.tr)

    def finish(self):
        """cancel(): everything outstanding must end with operation_aborted and the context must run out of work"""
        self.ended = True
        if self.crashed: return
        self.cancel_idx = len(self.tr)
        self.mark_all_cancelled()
        self.do("cancel")
        self.after_close()
        self.do("nop")
        self.advance(4000)
        self.do("nop")
        self.final_stopped = self.tr[-1][2]

    def end_disc(self):
        """async_disconnect at an arbitrary moment, then one of the network behaviours"""
        rng = self.rng
        self.ended = True
        name = self.new_name("D")
        rc = rng.choice([0, 4, 0x80, 0x98])
        ps = rng.choice([[], [], [(0x1F, b"bye"), (0x26, (b"k", b"v"))], [(0x1F, b"a long reason string, longer than a small Maximum Packet Size")]])
        op = Op(name, "disc", rc=rc, props=ps, conn_at_init=self.conn, caps_at_init=dict(self.caps)); op.t_init = self.now; op.idx = len(self.tr)
        op.write_in_progress = self.sid in self.write_pending
        op.was_connected = self.connected
        self.ops[name] = op
        self.disc_idx = len(self.tr); self.disc_sid = self.sid
        self.mark_all_cancelled(); op.cancelled = False
        self.do(f"disc {name} {rc} {ref.plist_text(ps)}")
        self.count("disc")
        behaviour = rng.choice(["ok", "ok", "silent", "drop", "slow-shutdown", "late-ok", "fatal"])
        op.behaviour = behaviour
        old = self.disc_sid
        for it in range(40):
            if op.done or self.crashed: break
            if not self.running:
                # the client closed the stream (5 s timer or completed shutdown): the layer below aborts whatever is pending, promptly
                self.after_close(); self.do("nop"); continue
            if behaviour in ("ok", "slow-shutdown", "late-ok") :
                if old in self.shut_pending:
                    if behaviour == "slow-shutdown" and it < 4: self.advance(2000); continue
                    self.shut_pending.discard(old); self.do(f"shutdone {old}"); continue
                if old in self.write_pending:
                    if behaviour == "late-ok" and it < 3: self.advance(rng.choice([100, 1500])); continue
                    pk = self.write_pending.pop(old)
                    if self.connected:
                        for w in reversed(self.wlog):
                            if w["result"] is None and w["pk"] == pk:
                                w["result"] = "ok"; w["i_done"] = len(self.tr)
                                if not w.get("early"):
                                    w["delivered"] = len(pk)
                                    for b in pk: self.broker_receive(b)
                                break
                        else:
                            for b in pk: self.broker_receive(b)
                        self.do(f"wdone {old} ok")
                    else:
                        # never connected: the write cannot succeed; the stream keeps trying to connect
                        self.write_pending[old] = pk; self.advance(rng.choice([1000, 2500])); 
                    continue
                self.advance(rng.choice([1, 1000]))
            elif behaviour == "fatal":
                # the write in progress (the DISCONNECT, or what it waits behind) ends with an error that is not worth a reconnect
                if old in self.write_pending:
                    pk = self.write_pending.pop(old)
                    for w in reversed(self.wlog):
                        if w["result"] is None and w["pk"] == pk: w["result"] = "no_recovery"; w["i_done"] = len(self.tr); break
                    self.do(f"wdone {old} no_recovery"); self.count("disc-write-fatal")
                behaviour = "ok"
            elif behaviour == "silent":
                self.advance(rng.choice([1000, 2000, 4999, 5000]))
            elif behaviour == "drop":
                if it == 0 and self.running:
                    self.reconnect(1, self.new_caps()); continue
                behaviour = "ok"
        # whatever is still pending on the old stream ends with operation_aborted once the client closed it
        if old in self.write_pending: self.write_pending.pop(old); self.do(f"wdone {old} aborted")
        if old in self.read_pending: self.read_pending.pop(old); self.do(f"rdone {old} aborted")
        if old in self.shut_pending: self.shut_pending.discard(old); self.do(f"shutdone {old}")
        self.do("nop")
        self.after_disc_idx = len(self.tr)
        self.advance(rng.choice([4000, 7000, 30000]))     # silence afterwards (a 3 s sentry tick armed just before the close may still be due)
        self.do("nop")
        self.final_stopped = self.tr[-1][2]

    def run(self, nsteps):
        self.start()
        self.ending = self.rng.choice(["cancel", "cancel", "disc"])
        for _ in range(nsteps):
            if self.crashed or not self.step(): break
        if self.crashed: return self
        if self.ending == "disc" and self.running:
            self.end_disc()
        else:
            self.ending = "cancel"
            self.heal()
            self.finish()
        return self
