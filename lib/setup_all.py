"""MANIFEST.setup_cmd: build the Lean library, mdrv and every harness once (all cached by content)."""
import concurrent.futures, sys
import vlib

HARNESSES = ["h_rc", "h_pid", "h_mutex", "h_order", "h_utf8", "h_codec", "h_client", "h_sender", "h_replies", "h_guard", "h_stream", "h_frame", "h_pubsend"]


def main():
    fails = vlib.run_translators()
    for t, m in fails:
        print("translator failed:", t, m)
    rc, out = vlib.lake(["build", "Mqtt5V", "mdrv"])
    print(out[-2000:])
    ok = rc == 0
    with concurrent.futures.ThreadPoolExecutor(max_workers=8) as ex:
        for name, (p, log) in zip(HARNESSES, ex.map(vlib.build_harness, HARNESSES)):
            print("harness", name, "->", p or ("FAILED\n" + log))
            ok = ok and p is not None
    # a failing library build is not a setup failure by itself (a broken proof is reported by the checks)
    return 0
