"""Independent MQTT 5.0 reference codec (written from the OASIS text, not from the library):
strict decoder used as the monitor for everything the client emits, and an encoder for what a broker sends."""

PROP_KIND = {
    0x01: "u8", 0x02: "u32", 0x03: "str", 0x08: "str", 0x09: "bin", 0x0B: "vint", 0x11: "u32", 0x12: "str", 0x13: "u16", 0x15: "str",
    0x16: "bin", 0x17: "u8", 0x18: "u32", 0x19: "u8", 0x1A: "str", 0x1C: "str", 0x1F: "str", 0x21: "u16", 0x22: "u16", 0x23: "u16",
    0x24: "u8", 0x25: "u8", 0x26: "pair", 0x27: "u32", 0x28: "u8", 0x29: "u8", 0x2A: "u8",
}
# which properties each packet type may carry (MQTT 5.0 table 2-4)
ALLOWED = {
    "connect": {0x11, 0x21, 0x27, 0x22, 0x19, 0x17, 0x26, 0x15, 0x16},
    "will": {0x18, 0x01, 0x02, 0x03, 0x08, 0x09, 0x26},
    "connack": {0x11, 0x21, 0x24, 0x25, 0x27, 0x12, 0x22, 0x1F, 0x26, 0x28, 0x29, 0x2A, 0x13, 0x1A, 0x1C, 0x15, 0x16},
    "publish": {0x01, 0x02, 0x03, 0x08, 0x09, 0x0B, 0x23, 0x26},
    "puback": {0x1F, 0x26}, "pubrec": {0x1F, 0x26}, "pubrel": {0x1F, 0x26}, "pubcomp": {0x1F, 0x26},
    "subscribe": {0x0B, 0x26}, "suback": {0x1F, 0x26}, "unsubscribe": {0x26}, "unsuback": {0x1F, 0x26},
    "disconnect": {0x11, 0x1F, 0x26, 0x1C}, "auth": {0x15, 0x16, 0x1F, 0x26},
}
TYPE_NAME = {1: "connect", 2: "connack", 3: "publish", 4: "puback", 5: "pubrec", 6: "pubrel", 7: "pubcomp", 8: "subscribe", 9: "suback",
             10: "unsubscribe", 11: "unsuback", 12: "pingreq", 13: "pingresp", 14: "disconnect", 15: "auth"}


class Malformed(Exception):
    pass


class R:
    def __init__(self, b):
        self.b = b; self.i = 0

    def need(self, n):
        if self.i + n > len(self.b):
            raise Malformed("truncated")

    def u8(self):
        self.need(1); v = self.b[self.i]; self.i += 1; return v

    def u16(self):
        self.need(2); v = int.from_bytes(self.b[self.i:self.i + 2], "big"); self.i += 2; return v

    def u32(self):
        self.need(4); v = int.from_bytes(self.b[self.i:self.i + 4], "big"); self.i += 4; return v

    lenient = False

    def vint(self):
        v = 0
        for k in range(4):
            c = self.u8(); v |= (c & 0x7F) << (7 * k)
            if not c & 0x80:
                if k > 0 and c == 0 and not self.lenient:
                    raise Malformed("non-minimal variable byte integer")
                return v
        raise Malformed("variable byte integer longer than 4 bytes")

    def bin(self):
        n = self.u16(); self.need(n); v = bytes(self.b[self.i:self.i + n]); self.i += n; return v

    def rest(self):
        v = bytes(self.b[self.i:]); self.i = len(self.b); return v

    def eof(self):
        return self.i == len(self.b)


def props(r, kind, strict_once=True):
    """list of (id, value) in wire order"""
    n = r.vint(); r.need(n)
    sub = R(r.b[r.i:r.i + n]); r.i += n
    sub.lenient = r.lenient
    if r.lenient: strict_once = False
    out = []; seen = set()
    while not sub.eof():
        pid = sub.u8()
        if pid not in PROP_KIND:
            raise Malformed(f"unknown property {pid:#x}")
        if pid not in ALLOWED[kind]:
            raise Malformed(f"property {pid:#x} not allowed in {kind}")
        if strict_once and pid in seen and pid != 0x26 and not (pid == 0x0B and kind == "publish"):
            raise Malformed(f"property {pid:#x} repeated")
        seen.add(pid)
        k = PROP_KIND[pid]
        if k == "u8": v = sub.u8()
        elif k == "u16": v = sub.u16()
        elif k == "u32": v = sub.u32()
        elif k == "vint": v = sub.vint()
        elif k in ("str", "bin"): v = sub.bin()
        else: v = (sub.bin(), sub.bin())
        out.append((pid, v))
    return out


def split_stream(data):
    """split a byte string into complete packets (bytes) + remainder"""
    pkts = []; i = 0
    while i < len(data):
        j = i + 1; v = 0; ok = False
        for k in range(4):
            if j >= len(data): break
            c = data[j]; j += 1; v |= (c & 0x7F) << (7 * k)
            if not c & 0x80: ok = True; break
        if not ok or j + v > len(data): break
        pkts.append(bytes(data[i:j + v])); i = j + v
    return pkts, bytes(data[i:])


def decode(pkt, lenient=False):
    """strict decode of one complete packet -> dict; raises Malformed.
    lenient=True tolerates what DESIGN.md lists as receiver-side leniencies the properties do not forbid: non-minimal variable byte
    integers, a repeated single-valued property, DUP with QoS 0 and Packet Identifier 0 in an inbound packet"""
    r = R(pkt); r.lenient = lenient
    b0 = r.u8(); t = b0 >> 4; fl = b0 & 15
    rl = r.vint()
    if len(pkt) - r.i != rl:
        raise Malformed(f"remaining length {rl} != actual {len(pkt) - r.i}")
    if t not in TYPE_NAME:
        raise Malformed("reserved packet type 0")
    kind = TYPE_NAME[t]
    if kind == "publish":
        dup, qos, retain = fl >> 3, (fl >> 1) & 3, fl & 1
        if qos == 3: raise Malformed("QoS 3")
        if qos == 0 and dup and not lenient: raise Malformed("DUP with QoS 0")
        topic = r.bin(); pid = r.u16() if qos else None
        if qos and pid == 0 and not lenient: raise Malformed("packet id 0")
        p = props(r, kind)
        return {"type": kind, "dup": dup, "qos": qos, "retain": retain, "topic": topic, "pid": pid, "props": p, "payload": r.rest()}
    want = 2 if kind in ("pubrel", "subscribe", "unsubscribe") else 0
    if fl != want:
        raise Malformed(f"fixed header flags {fl:#x} for {kind}")
    d = {"type": kind}
    if kind == "connect":
        if r.bin() != b"MQTT": raise Malformed("protocol name")
        if r.u8() != 5: raise Malformed("protocol level")
        cf = r.u8()
        if cf & 1: raise Malformed("reserved connect flag")
        d["clean_start"] = (cf >> 1) & 1; wf = (cf >> 2) & 1; wq = (cf >> 3) & 3; wr = (cf >> 5) & 1; pf = (cf >> 6) & 1; uf = (cf >> 7) & 1
        if wq == 3 or (not wf and (wq or wr)): raise Malformed("will flags")
        d["keep_alive"] = r.u16(); d["props"] = props(r, "connect"); d["client_id"] = r.bin()
        d["will"] = None
        if wf:
            wp = props(r, "will"); wt = r.bin(); wm = r.bin()
            d["will"] = {"props": wp, "topic": wt, "message": wm, "qos": wq, "retain": wr}
        d["user"] = r.bin() if uf else None
        d["pass"] = r.bin() if pf else None
    elif kind == "connack":
        f = r.u8()
        if f & 0xFE: raise Malformed("connack flags")
        d["sp"] = f & 1; d["rc"] = r.u8(); d["props"] = props(r, kind)
    elif kind in ("puback", "pubrec", "pubrel", "pubcomp"):
        d["pid"] = r.u16(); d["rc"] = 0; d["props"] = []
        if d["pid"] == 0 and not lenient: raise Malformed("packet id 0")
        if not r.eof():
            d["rc"] = r.u8()
            if not r.eof(): d["props"] = props(r, kind)
    elif kind == "subscribe":
        d["pid"] = r.u16(); d["props"] = props(r, kind); d["topics"] = []
        if d["pid"] == 0: raise Malformed("packet id 0")
        while not r.eof():
            f = r.bin(); o = r.u8()
            if o & 0xC0 or (o & 3) == 3 or ((o >> 4) & 3) == 3: raise Malformed("subscription options")
            d["topics"].append((f, {"qos": o & 3, "nl": (o >> 2) & 1, "rap": (o >> 3) & 1, "rh": (o >> 4) & 3}))
        if not d["topics"]: raise Malformed("no topic filter")
    elif kind == "unsubscribe":
        d["pid"] = r.u16(); d["props"] = props(r, kind); d["topics"] = []
        if d["pid"] == 0: raise Malformed("packet id 0")
        while not r.eof(): d["topics"].append(r.bin())
        if not d["topics"]: raise Malformed("no topic filter")
    elif kind in ("suback", "unsuback"):
        d["pid"] = r.u16(); d["props"] = props(r, kind); d["rcs"] = list(r.rest())
        if not d["rcs"]: raise Malformed("no reason code")
    elif kind in ("pingreq", "pingresp"):
        pass
    elif kind in ("disconnect", "auth"):
        d["rc"] = 0; d["props"] = []
        if not r.eof():
            d["rc"] = r.u8()
            if not r.eof(): d["props"] = props(r, kind)
    if not r.eof():
        raise Malformed("trailing bytes")
    return d


# ---------------------------------------------------------------- encoder (what a broker sends)

def e_vint(n):
    out = bytearray()
    while True:
        c = n & 0x7F; n >>= 7
        if n: out.append(c | 0x80)
        else: out.append(c); return bytes(out)


def e_bin(b):
    return len(b).to_bytes(2, "big") + b


def e_props(ps):
    body = bytearray()
    for pid, v in ps:
        body.append(pid); k = PROP_KIND[pid]
        if k == "u8": body += bytes([v])
        elif k == "u16": body += v.to_bytes(2, "big")
        elif k == "u32": body += v.to_bytes(4, "big")
        elif k == "vint": body += e_vint(v)
        elif k in ("str", "bin"): body += e_bin(v)
        else: body += e_bin(v[0]) + e_bin(v[1])
    return e_vint(len(body)) + bytes(body)


def e_packet(b0, body):
    return bytes([b0]) + e_vint(len(body)) + body


def e_connack(sp, rc, ps=()):
    return e_packet(0x20, bytes([sp, rc]) + e_props(ps))


def e_ack(kind, pid, rc=0, ps=(), short=False):
    b0 = {"puback": 0x40, "pubrec": 0x50, "pubrel": 0x62, "pubcomp": 0x70}[kind]
    body = pid.to_bytes(2, "big")
    if not (short and rc == 0 and not ps):
        body += bytes([rc])
        if ps or not short: body += e_props(ps) if (ps or not short) else b""
    return e_packet(b0, body)


def e_suback(kind, pid, rcs, ps=()):
    return e_packet(0x90 if kind == "suback" else 0xB0, pid.to_bytes(2, "big") + e_props(ps) + bytes(rcs))


def e_publish(topic, payload, qos=0, retain=0, dup=0, pid=None, ps=()):
    body = e_bin(topic) + (pid.to_bytes(2, "big") if qos else b"") + e_props(ps) + payload
    return e_packet(0x30 | dup << 3 | qos << 1 | retain, body)


def e_disconnect(rc=0, ps=()):
    return e_packet(0xE0, bytes([rc]) + e_props(ps))


def e_pingresp():
    return b"\xd0\x00"


# ---------------------------------------------------------------- text form used by the line protocol

def plist_text(ps):
    """[(id, value)] -> 'id=#n;id=hex;id=hex/hex' (bytes as hex, '-' for empty)"""
    if not ps: return "-"
    out = []
    for pid, v in ps:
        if isinstance(v, int): out.append(f"{pid}=#{v}")
        elif isinstance(v, tuple): out.append(f"{pid}={v[0].hex() or '-'}/{v[1].hex() or '-'}")
        else: out.append(f"{pid}={v.hex() or '-'}")
    return ";".join(out)
