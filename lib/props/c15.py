"""C15 — client-level check (monitors on the real client through H-client; Lean obligations from Props/C15.lean)."""
from vlib import *
import client_check as CC
import validate_check
import stream_check as SC


def run(ctx):
    standard_lean_phase(ctx)
    n = 250 if ctx.tier == "quick" else 6000
    fails = CC.run_scenarios(ctx, "C15", n, steps=60)
    ctx.cov["rule"] = ("generated scenarios through the real mqtt_client on the scripted stream: API calls (publish QoS 0/1/2 with properties, subscribe, unsubscribe, receive, per-operation "
                       "cancellation signals), a broker (acks with reason codes/properties, inbound QoS 0/1/2 messages, held-back replies), byte chunking, connection loss with partial delivery, "
                       "reconnects with changing Receive Maximum / Server Keep Alive / Session Present, virtual time, then a fault-free suffix and cancel() or async_disconnect; "
                       "the C15 monitor runs on every transcript; non-trivial = distinct scenario with >= 2 (re)connections and > 3 operations")
    found_v = validate_check.run(ctx, 500 if ctx.tier == "quick" else 20000)
    ctx.cov["rule"] += "; plus request validation correspondence: publish/subscribe requests at and around every capability boundary (Maximum QoS, Retain Available, Topic Alias Maximum, Maximum Packet Size, wildcard/shared/identifier availability, malformed strings) through the real client holding a CONNACK with those capabilities, result (packet bytes or immediate error) compared with the Lean Validate model"
    found = found_v or CC.report(ctx, "C15", fails)
    # the capabilities the validators consult must be the ones the accepted CONNACK carried: real connect_op (with and without an
    # authenticator, AUTH rounds before the CONNACK) on H-stream
    found = SC.phase(ctx, "C15", 200 if ctx.tier == "quick" else 5000, 120) or found
    ctx.cov["rule"] += "; plus H-stream handshakes (real connect_op, 25% with a scripted authenticator and 0-2 AUTH rounds): CONNACK properties and Session Present stored in the context = the CONNACK's"
    report_broken_ties(ctx, found)
    if ctx.tier == "thorough" and not ctx.ties_broken:
        for m, msg in leanchecker(ctx.lean.get("modules", [])):
            ctx.violation("leanchecker", {"module": m, "msg": msg}, found_input=False)
