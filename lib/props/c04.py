"""C04 — client-level check (monitors on the real client through H-client; Lean obligations from Props/C04.lean)."""
from vlib import *
import client_check as CC
import replies_check


def run(ctx):
    standard_lean_phase(ctx)
    n = 250 if ctx.tier == "quick" else 6000
    # the recorded findings first, as fixed scripts (lib/directed.py): reported as KNOWN-FINDING while they are still present
    import directed
    fails = []
    for cls in (directed.F24, directed.F25, directed.F26):
        fails += CC.run_scenarios(ctx, "C04", 1, scenario_cls=cls, seeds=[0])
    fails += CC.run_scenarios(ctx, "C04", n, steps=60)
    # a busy broker (many inbound messages, small Receive Maximum): acknowledgements queue up behind throttled publishes
    fails += CC.run_scenarios(ctx, "C04", 150 if ctx.tier == "quick" else 4000, steps=70, profile="inbound")
    ctx.cov["rule"] = ("generated scenarios through the real mqtt_client on the scripted stream: API calls (publish QoS 0/1/2 with properties, subscribe, unsubscribe, receive, per-operation "
                       "cancellation signals), a broker (acks with reason codes/properties, inbound QoS 0/1/2 messages, held-back replies), byte chunking, connection loss with partial delivery, the broker's retransmissions after a reconnect (PUBLISH with DUP, PUBREL), "
                       "reconnects with changing Receive Maximum / Server Keep Alive / Session Present, virtual time, then a fault-free suffix and cancel() or async_disconnect; "
                       "the C04 monitor runs on every transcript; non-trivial = distinct scenario with >= 2 (re)connections and > 3 operations")
    found_s = replies_check.run(ctx, 300 if ctx.tier == "quick" else 20000)
    ctx.cov["rule"] += "; plus lock-step of the real detail::replies against the Lean model (and, for C14, SUBACK/UNSUBACK code lists through the real client against the Lean verdict model)"
    found = found_s or CC.report(ctx, "C04", fails)
    report_broken_ties(ctx, found)
    if ctx.tier == "thorough" and not ctx.ties_broken:
        for m, msg in leanchecker(ctx.lean.get("modules", [])):
            ctx.violation("leanchecker", {"module": m, "msg": msg}, found_input=False)
