"""C09 — client-level check (monitors on the real client through H-client; Lean obligations from Props/C09.lean)."""
from vlib import *
import client_check as CC
import sender_check


def run(ctx):
    standard_lean_phase(ctx)
    n = 250 if ctx.tier == "quick" else 6000
    import directed
    fails = CC.run_scenarios(ctx, "C09", 1, scenario_cls=directed.F21, seeds=[0])      # the recorded finding F21 as a fixed script
    fails += CC.run_scenarios(ctx, "C09", n, steps=60)
    ctx.cov["rule"] = ("generated scenarios through the real mqtt_client on the scripted stream: API calls (publish QoS 0/1/2 with properties, subscribe, unsubscribe, receive, per-operation "
                       "cancellation signals), a broker (acks with reason codes/properties, inbound QoS 0/1/2 messages, held-back replies), byte chunking, connection loss with partial delivery, "
                       "reconnects with changing Receive Maximum / Server Keep Alive / Session Present, virtual time, then a fault-free suffix and cancel() or async_disconnect; "
                       "the C09 monitor runs on every transcript; non-trivial = distinct scenario with >= 2 (re)connections and > 3 operations")
    found_s = sender_check.run(ctx, 600 if ctx.tier == "quick" else 20000)
    ctx.cov["rule"] += "; plus async_sender lock-step: scripts of send (PUBLISH/PUBREL/SUBSCRIBE/PINGREQ/terminal DISCONNECT flags), write completions with every result, replies, Receive Maximum changes, read-path resends and cancel() on the real async_sender (mock service) against the Lean sender model, output by output"
    found = found_s or CC.report(ctx, "C09", fails)
    report_broken_ties(ctx, found)
    if ctx.tier == "thorough" and not ctx.ties_broken:
        for m, msg in leanchecker(ctx.lean.get("modules", [])):
            ctx.violation("leanchecker", {"module": m, "msg": msg}, found_input=False)
