"""C06 — PUBLISH packets leave in initiation order (comparator + stable sort level; sender level via H-client)."""
from vlib import *
import client_check as CC
import sender_check

H = 2 ** 31
W = 2 ** 32


def parse_queue(line):
    return [(int(t.split(":")[0]), int(t.split(":")[1])) for t in line.split()[2:]]


def sort_monitor(q, out):
    """property on one real stable_sort result: a permutation; prioritized first; equal priority in serial
    (= initiation) order with ties (no_serial requests) in original order.  Returns None or why."""
    order = [] if out == "-" else [int(x) for x in out.split()]
    if sorted(order) != list(range(len(q))):
        return "sorted queue is not a permutation of the queue"
    exp = sorted(range(len(q)), key=lambda i: (0 if q[i][0] else 1, q[i][1]))  # python sort is stable
    if order != exp:
        return f"order {order} differs from stable (prioritized, serial) order {exp}"
    return None


def gen_queue(rng, window=True):
    n = rng.choice([0, 1, 2, 3, 5, 8, 15, 16, 17, 33, 40]) if rng.random() < 0.3 else rng.randint(0, 40)
    base = rng.choice([1, 1, 100, H - 50, rng.randint(1, H - 50)])
    q = []
    s = base
    for _ in range(n):
        r = rng.random()
        if r < 0.35:
            q.append((0, 0))                       # sub/unsub/ping/puback ...: no_serial
        elif r < 0.85:
            s = min(s + rng.randint(1, 3), H - 1); q.append((0, s))        # PUBLISH
        else:
            q.append((1, rng.randint(base, max(base, s))))                 # PUBREL: prioritized, serial of its publish
    rng.shuffle(q) if rng.random() < 0.5 else None
    return q


def run(ctx):
    standard_lean_phase(ctx)
    mdrv, mlog = build_mdrv()
    hb, hlog = build_harness("h_order")
    if hb is None: ctx.ties_broken.append("harness:h_order does not compile: " + hlog[-800:])
    if mdrv is None: ctx.ties_broken.append("mdrv does not build: " + mlog[-800:])
    rng = ctx.rng
    # family 1: comparator on boundary and random pairs over the whole uint32 range
    pts = [0, 1, 2, 3, H - 2, H - 1, H, H + 1, H + 2, W - 2, W - 1] + [rng.randrange(W) for _ in range(30 if ctx.tier == "quick" else 200)]
    lt_lines = [f"ord lt {p1} {a} {p2} {b}" for a in pts for b in pts for p1 in (0, 1) for p2 in (0, 1)]
    for _ in range(2000 if ctx.tier == "quick" else 100000):
        a = rng.randrange(W); d = rng.choice([0, 1, H - 1, H, H + 1, rng.randrange(W)])
        lt_lines.append(f"ord lt {rng.randint(0, 1)} {a} {rng.randint(0, 1)} {(a + d) % W}")
    nxt_lines = [f"ord next {s}" for s in (0, 1, H - 1, H, W - 2, W - 1)]
    # family 2: stable_sort of queues inside the window
    nq = 3000 if ctx.tier == "quick" else 100000
    queues = [gen_queue(rng) for _ in range(nq)]
    sort_lines = ["ord sort " + " ".join(f"{p}:{s}" for p, s in q) for q in queues]
    lines = lt_lines + nxt_lines + sort_lines
    ctx.count("lt-pairs", len(lt_lines)); ctx.count("sort-queues-in-window", len(sort_lines)); ctx.count("next-serial", len(nxt_lines))
    ctx.cov["evaluations"] = len(lines)
    ctx.cov["rule"] = ("real write_req::operator< on boundary/random (prioritized, serial) pairs over the whole uint32 range and real std::stable_sort over "
                       "vector<write_req> queues (no_serial requests, PUBLISH serials, prioritized PUBRELs; sizes 0-40 incl. the 15/16 insertion-sort threshold) "
                       "inside the 2^31 window, compared with the Lean model and an independent stable-sort oracle; non-trivial = distinct queue with >=2 PUBLISH serials and >=1 no_serial request")
    found = False
    if hb:
        impl, rc, err = run_lines(hb, lines)
        if rc != 0: ctx.ties_broken.append(f"harness:h_order exited with {rc}: {err[-500:]}")
        off = len(lt_lines) + len(nxt_lines)
        nontriv = set()
        for q, l, o in zip(queues, sort_lines, impl[off:]):
            why = sort_monitor(q, o)
            if len([1 for p, s in q if s and not p]) >= 2 and any(s == 0 for p, s in q): nontriv.add(l)
            if why and not found:
                found = True
                ctx.violation("monitor", {"what": "resend sort violates C06: " + why, "input": l, "impl_output": o})
        ctx.cov["distinct_nontrivial"] = len(nontriv)
        ctx.sample({"input": sort_lines[7] if len(sort_lines) > 7 else "", "impl": impl[off + 7] if len(impl) > off + 7 else ""})
        if mdrv:
            model, _, _ = run_lines(mdrv, lines)
            mism = diff_outputs(lines, impl, model)
            ctx.cov["traces_validated_against_impl"] = len(lines) - len(mism)
            if mism:
                ctx.ties_broken.append(f"correspondence:comparator/sort model differs from implementation on {len(mism)} inputs, first: {mism[0]}")
        # known finding F9: replay on the implementation
        for f in ctx.kf["findings"]:
            if f["property"] != "C06": continue
            rl = open(os.path.join(VERIF, f["replay"])).read().split("\n")[0]
            o, _, _ = run_lines(hb, [rl])
            q = parse_queue(rl)
            if o and sort_monitor(q, o[0]) and any(s >= H for _, s in q):
                ctx.known(f"{f['id']}: {f['what']} [replay {f['replay']}: real stable_sort order {o[0]}]")
    found = sender_check.run(ctx, 400 if ctx.tier == "quick" else 20000) or found
    fails = CC.run_scenarios(ctx, "C06", 200 if ctx.tier == "quick" else 5000, steps=60)
    found = CC.report(ctx, "C06", fails) or found
    report_broken_ties(ctx, found)
    if ctx.tier == "thorough" and not ctx.ties_broken:
        for m, msg in leanchecker(ctx.lean.get("modules", [])):
            ctx.violation("leanchecker", {"module": m, "msg": msg}, found_input=False)
