"""C10 — each connection starts with the configured CONNECT and is gated on CONNACK.

Lean obligations: Props/C10.lean (first packet decodes to the configuration with Clean Start 0; back-off bounds; rotation rule for
every outcome sequence; established only after a complete successful CONNACK; handshake reads exactly the packet).
Ties: (1) timing constants and back-off arithmetic regenerated from reconnect_op.hpp (extract_timing.py);
(2) H-stream: the real autoconnect_stream + reconnect_op + connect_op + resolve_op + endpoints parser over a scripted socket/resolver/clock:
    bytes of the first packet vs the Lean encoder (`enc connect`), handshake verdict and framing vs `hs`/`frame`, the action trace of
    every reconnect operation vs `rot`;
(3) the C10 monitor (executable statement of the property) on every transcript = search for a failing history."""
from vlib import *
import stream_check as SC


def run(ctx):
    standard_lean_phase(ctx)
    n = 300 if ctx.tier == "quick" else 6000
    found = SC.phase(ctx, "C10", n, 150)
    ctx.cov["rule"] = ("generated H-stream scenarios: broker lists of 1-3 hosts (with and without ports) resolving to 0-2 endpoints, keep-alive 0/2/10/60, credentials, Will with "
                       "properties, CONNECT properties; network outcomes per attempt (resolve failure/time-out, refused, timed out, silent 5 s, write error, CONNACK ok/refused/"
                       "malformed/mutated/wrong type/random/absent in any chunking), established-phase faults, shutdown, cancel-all + restart, immediate or deferred cancellation "
                       "completions, virtual time steps around every timer boundary; non-trivial = scenario with >= 2 connection attempts")
    report_broken_ties(ctx, found)
    if ctx.tier == "thorough" and not ctx.ties_broken:
        for m, msg in leanchecker(ctx.lean.get("modules", [])):
            ctx.violation("leanchecker", {"module": m, "msg": msg}, found_input=False)
