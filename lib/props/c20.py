"""C20 — reason codes admitted exactly as the MQTT 5 tables allow (exhaustive 9 x 256)."""
from vlib import *

CATS = ["connack", "puback", "pubrec", "pubrel", "pubcomp", "suback", "unsuback", "auth", "disconnect"]

# independent copy of the standard's tables for the implementation-side monitor (same content as Spec/ReasonCodes.lean;
# the Lean theorems use the Lean copy, the monitor on the implementation uses this one and the two are cross-checked via mdrv)
LISTED = {
    "connack": [0x00, 0x80, 0x81, 0x82, 0x83, 0x84, 0x85, 0x86, 0x87, 0x88, 0x89, 0x8A, 0x8C, 0x90, 0x95, 0x97, 0x99, 0x9A, 0x9B, 0x9C, 0x9D, 0x9F],
    "puback": [0x00, 0x10, 0x80, 0x83, 0x87, 0x90, 0x91, 0x97, 0x99],
    "pubrel": [0x00, 0x92],
    "suback": [0x00, 0x01, 0x02, 0x80, 0x83, 0x87, 0x8F, 0x91, 0x97, 0x9E, 0xA1, 0xA2],
    "unsuback": [0x00, 0x11, 0x80, 0x83, 0x87, 0x8F, 0x91],
    "auth": [0x00, 0x18, 0x19],
    "disconnect": [0x00, 0x04, 0x80, 0x81, 0x82, 0x83, 0x87, 0x89, 0x8B, 0x8D, 0x8E, 0x8F, 0x90, 0x93, 0x94, 0x95, 0x96, 0x97,
                   0x98, 0x99, 0x9A, 0x9B, 0x9C, 0x9D, 0x9E, 0x9F, 0xA0, 0xA1, 0xA2],
}
LISTED["pubrec"] = LISTED["puback"]
LISTED["pubcomp"] = LISTED["pubrel"]
CLIENT_ONLY = {"disconnect": [0x04], "auth": [0x19]}


def monitor(cat, b, out):
    """the property itself on one implementation result; returns None or a description of the failure"""
    if out == "oob":
        return "lookup left its table (sanitizer fault)"
    if out.startswith("hit "):
        v = int(out.split()[1])
        if v != b:
            return f"accepted code reported as {v}"
        if b not in LISTED[cat]:
            return "accepted although MQTT 5 does not list it for this packet type"
        return None
    if out == "miss":
        if b in LISTED[cat] and b not in CLIENT_ONLY.get(cat, []):
            return "rejected although MQTT 5 allows a Server to send it"
        return None
    return "unexpected harness output " + out


def call_sites(ctx):
    """the category each call site asks for: every byte as the reason code of a PUBACK, PUBREC and PUBCOMP through the real
    publish_send_op (H-pubsend): admitted (operation goes on / completes with that code) iff the standard lists it for *that* packet"""
    hb, hlog = build_harness("h_pubsend")
    if hb is None:
        ctx.ties_broken.append("harness:h_pubsend does not compile: " + hlog[-800:]); return False
    lines = []; meta = []
    for b in range(256):
        lines += ["pbs new 1", "pbs sent ok", f"pbs reply ack {b} 0"]; meta.append(("puback", b, len(lines) - 1))
        lines += ["pbs new 2", "pbs sent ok", f"pbs reply ack {b} 0"]; meta.append(("pubrec", b, len(lines) - 1))
        lines += ["pbs new 2", "pbs sent ok", "pbs reply ack 0 0", "pbs sent ok", f"pbs reply ack {b} 0"]; meta.append(("pubcomp", b, len(lines) - 1))
    impl, rc, err = run_lines(hb, lines)
    if rc != 0 or len(impl) != len(lines):
        ctx.ties_broken.append(f"harness:h_pubsend exited with {rc}: {err[-500:]}"); return False
    bad = []
    for cat, b, i in meta:
        o = impl[i]
        admitted = "disconnectMalformed" not in o
        if admitted != (b in LISTED[cat]):
            bad.append({"packet": cat, "code": b, "observed": o, "why": ("accepted although MQTT 5 does not list it for " if admitted else "rejected although MQTT 5 lists it for ") + cat.upper()})
        elif admitted and f"completeOk {b} " not in o and not (cat == "pubrec" and b < 0x80 and "sendPubrel" in o):
            bad.append({"packet": cat, "code": b, "observed": o, "why": "admitted code not passed on unchanged"})
    ctx.count("call-site-cases", len(meta))
    if bad:
        ctx.violation("call-site", {"what": "publish_send_op admits reason codes of the wrong packet type (C20 at the call site)", "failures": bad[:30], "n_failures": len(bad),
                                    "replay_hint": "pbs new <q> / pbs sent ok / pbs reply ack <code> 0 through .build/h/h_pubsend/*"})
        return True
    return False


def run(ctx):
    standard_lean_phase(ctx)
    mdrv, mlog = build_mdrv()
    hb, hlog = build_harness("h_rc")
    if hb is None:
        ctx.ties_broken.append("harness:h_rc does not compile: " + hlog[-800:])
    if mdrv is None:
        ctx.ties_broken.append("mdrv does not build: " + mlog[-800:])
    lines = [f"rc {c} {b}" for c in CATS for b in range(256)]
    found = False
    if hb:
        impl, rc, err = run_lines(hb, ["tables"] + lines, args=["--isolate"])
        impl_tables, impl = impl[:9], impl[9:]
        ctx.cov["evaluations"] = len(impl)
        ctx.cov["exhaustive"] = True
        ctx.cov["rule"] = ("all 9 categories x 256 byte values through the real to_reason_code<cat>() under ASan "
                           "(tables with internal linkage, one forked child per case), compared with the Lean model "
                           "(mdrv) and with the MQTT 5 tables; non-trivial = the byte is listed for some category or lies within +-1 of a table entry or is a fault")
        nontriv = set()
        for c in CATS:
            for b in range(256):
                if any(abs(b - x) <= 1 for x in LISTED[c]):
                    nontriv.add((c, b))
        ctx.cov["distinct_nontrivial"] = len(nontriv)
        # monitor on the implementation
        bad = []
        for (l, o) in zip(lines, impl):
            _, c, b = l.split()
            why = monitor(c, int(b), o)
            if why:
                bad.append({"input": l, "observed": o, "why": why})
        ctx.count("rc-cases", len(impl))
        ctx.sample({"input": lines[147 + 256 * 4], "impl": impl[147 + 256 * 4] if len(impl) > 147 + 256 * 4 else None})
        ctx.sample({"input": lines[0x97 + 256], "impl": impl[0x97 + 256] if len(impl) > 0x97 + 256 else None})
        if bad:
            found = True
            ctx.violation("monitor", {"what": "to_reason_code violates C20 on the implementation",
                                      "failures": bad[:40], "n_failures": len(bad),
                                      "replay_hint": "echo '<input>' | .build/h/h_rc/* --isolate"})
        if mdrv:
            model, rc2, _ = run_lines(mdrv, ["tables"] + lines)
            model_tables, model = model[0].split("\n") if False else model[:9], model[9:]
            if impl_tables != model_tables:
                ctx.ties_broken.append("correspondence:tables extracted by the translator differ from valid_codes<cat>() of the compiled code")
                ctx.notes.append({"impl_tables": impl_tables, "model_tables": model_tables})
            mism = diff_outputs(lines, impl, model)
            ctx.cov["traces_validated_against_impl"] = len(lines) - len(mism)
            if mism:
                ctx.ties_broken.append(f"correspondence:model and implementation differ on {len(mism)} of {len(lines)} inputs, first: {mism[0]}")
                if not found:
                    # disagreement but the monitor is satisfied: property still holds on every input (exhaustive) -> model is stale
                    ctx.notes.append("model/implementation disagree although the implementation satisfies the monitor on all 2304 inputs")
    found = call_sites(ctx) or found
    if ctx.tier == "thorough" and not ctx.ties_broken:
        bad = leanchecker(ctx.lean.get("modules", []))
        for m, msg in bad:
            ctx.ties_broken.append(f"leanchecker:{m}: {msg}")
        ctx.notes.append(f"leanchecker re-checked {len(ctx.lean.get('modules', []))} modules")
    report_broken_ties(ctx, found)
