"""C11 — reconnection is single-flight (async_mutex level; the stream level is added by H-stream)."""
from vlib import *
import stream_check as SC


class PyMutex:
    """generator-side bookkeeping to keep scripts inside the holder discipline"""
    def __init__(self):
        self.locked = False; self.waiting = []; self.posted = []; self.holder_delivered = False
        self.slots = set()

    def lock(self, w, slot):
        if slot: self.slots.add(w)
        if self.locked: self.waiting.append(w)
        else: self.locked = True; self.posted.append(("grant", w))

    def unlock(self):
        self.holder_delivered = False
        while self.waiting:
            w = self.waiting.pop(0)
            if w is None: continue
            self.posted.append(("grant", w)); return
        self.locked = False

    def emit(self, w, inside):
        if w in self.waiting:
            self.waiting[self.waiting.index(w)] = None
            if not inside: self.posted.append(("abort", w))

    def cancel(self, w, ty, inside):
        if ty == "none" or w not in self.slots:
            if inside and w in self.slots: self.posted.append(("emit", 0))
            return
        if inside: self.posted.append(("emit", w))
        else: self.emit(w, False)

    def cancelall(self):
        for w in self.waiting:
            if w is not None: self.posted.append(("abort", w))
        self.waiting = []

    def run1(self):
        if not self.posted: return
        k, w = self.posted.pop(0)
        if k == "grant": self.holder_delivered = True
        elif k == "emit": self.emit(w, True)


def gen_case(rng):
    m = PyMutex(); lines = ["mtx new"]; nid = 1; ids = []
    n = rng.randint(8, 60)
    for _ in range(n):
        r = rng.random()
        if r < 0.3 and len(ids) < 12:
            slot = 0 if rng.random() < 0.15 else 1
            lines.append(f"mtx lock {nid} {slot}"); m.lock(nid, slot); ids.append(nid); nid += 1
        elif r < 0.5 and m.holder_delivered:
            lines.append("mtx unlock"); m.unlock()
        elif r < 0.7 and ids:
            w = rng.choice(ids); ty = rng.choice(["terminal", "total", "partial", "all", "none"]) if rng.random() < 0.8 else "none"
            inside = 1 if rng.random() < 0.3 else 0
            # a second effective signal for a waiter whose (emptied) deque entry is already gone would touch a stale
            # deque iterator in the real code; keep to one non-none signal per waiter
            if ty != "none":
                if getattr(m, "signalled", None) is None: m.signalled = set()
                if w in m.signalled: continue
                m.signalled.add(w)
            lines.append(f"mtx cancel {w} {ty} {inside}"); m.cancel(w, ty, inside)
        elif r < 0.75:
            lines.append("mtx cancelall"); m.cancelall()
        elif r < 0.78:
            lines.append("mtx destroy"); m.cancelall(); m.locked = False; m.holder_delivered = False
            # after destruction a stale grant may still be delivered; start a fresh case instead
            lines.append("mtx drain"); break
        elif r < 0.95:
            lines.append("mtx run1"); m.run1()
        else:
            lines.append("mtx drain")
            while m.posted: m.run1()
    lines += ["mtx drain", "mtx cancelall", "mtx drain"]
    return lines


def legal(script):
    """holder discipline: unlock only by a waiter whose grant has run"""
    m = PyMutex()
    for l in script:
        ws = l.split()
        if ws[1] == "new": m = PyMutex()
        elif ws[1] == "lock": m.lock(int(ws[2]), ws[3] == "1")
        elif ws[1] == "unlock":
            if not m.holder_delivered: return False
            m.unlock()
        elif ws[1] == "cancel": m.cancel(int(ws[2]), ws[3], ws[4] == "1")
        elif ws[1] == "cancelall": m.cancelall()
        elif ws[1] == "destroy": m.cancelall(); m.locked = False; m.holder_delivered = False
        elif ws[1] == "run1": m.run1()
        elif ws[1] == "drain":
            while m.posted: m.run1()
    return True


def monitor(case, outs):
    """the property on the implementation's outputs; None or a description"""
    arrival = []; resolved = {}; holder = None; cancelled_effective = set(); granted = []
    for l, o in zip(case, outs):
        ws = l.split(); evs = o.split(" locked=")[0]
        evl = [] if evs == "-" else evs.split(",")
        if ws[1] == "new": arrival = []; resolved = {}; holder = None; granted = []
        if ws[1] == "lock":
            arrival.append(int(ws[2]))
            if evl: return "lock() ran a completion inline: " + o
        if ws[1] in ("unlock", "cancelall", "destroy") and evl:
            return f"{ws[1]}() ran a completion inline: " + o
        if ws[1] == "unlock": holder = None
        if ws[1] == "destroy": holder = None
        for e in evl:
            k, w = e.split(); w = int(w)
            if w in resolved: return f"waiter {w} completed twice ({resolved[w]} then {k})"
            resolved[w] = k
            if k == "grant":
                if holder is not None: return f"waiter {w} granted while {holder} still holds the lock"
                holder = w; granted.append(w)
    # FIFO among granted
    order = [w for w in arrival if resolved.get(w) == "grant"]
    if order != granted: return f"grants out of arrival order: granted {granted}, arrival order {order}"
    for w in arrival:
        if w not in resolved: return f"waiter {w} never resolved after cancel-all and drain"
    return None


def run(ctx):
    standard_lean_phase(ctx)
    mdrv, mlog = build_mdrv()
    hb, hlog = build_harness("h_mutex")
    if hb is None: ctx.ties_broken.append("harness:h_mutex does not compile: " + hlog[-800:])
    if mdrv is None: ctx.ties_broken.append("mdrv does not build: " + mlog[-800:])
    ncases = 1500 if ctx.tier == "quick" else 40000
    cases = [["mtx new", "mtx lock 1 1", "mtx lock 2 1", "mtx lock 3 1", "mtx run1", "mtx cancel 2 total 0", "mtx unlock", "mtx drain",
              "mtx unlock", "mtx drain", "mtx lock 4 1", "mtx lock 5 1", "mtx cancel 5 terminal 1", "mtx run1", "mtx run1", "mtx run1", "mtx cancelall", "mtx drain"]]
    for _ in range(ncases):
        cases.append(gen_case(ctx.rng))
    lines = [l for c in cases for l in c]
    kinds = {}
    for l in lines:
        k = l.split()[1]; kinds[k] = kinds.get(k, 0) + 1
    ctx.cov["families"] = kinds
    ctx.cov["evaluations"] = len(cases)
    ctx.cov["rule"] = ("scripts of lock / unlock (holder discipline) / per-waiter cancellation signals of every type emitted from outside and from inside a handler / "
                       "cancel-all / destructor / single executor steps on the real async_mutex, each waiter with its own cancellation slot, in lock-step with the Lean model "
                       "(events per line and is_locked()) and checked by a trace monitor; non-trivial = distinct script with at least one queued waiter and one cancellation")
    found = False
    if hb:
        impl, rc, err = run_lines(hb, lines)
        if rc != 0:
            ctx.ties_broken.append(f"harness:h_mutex exited with {rc}: {err[-600:]}")
        idx = 0; nontriv = set()
        for c in cases:
            outs = impl[idx: idx + len(c)]; idx += len(c)
            if len(outs) < len(c): break
            why = monitor(c, outs)
            if sum(1 for l in c if " lock " in l) >= 2 and any(" cancel " in l for l in c): nontriv.add(tuple(c))
            if why and not found:
                found = True
                TAIL = ["mtx drain", "mtx cancelall", "mtx drain"]
                def fails(sub):
                    sc = ["mtx new"] + sub + TAIL
                    if not legal(sc): return False
                    o, _, _ = run_lines(hb, sc); return len(o) == len(sc) and monitor(sc, o) is not None
                small = ["mtx new"] + ddmin(c[1:-3], fails) + TAIL
                o, _, _ = run_lines(hb, small)
                ctx.violation("monitor", {"what": "async_mutex violates C11: " + why, "script": small, "impl_output": o})
        ctx.cov["distinct_nontrivial"] = len(nontriv)
        ctx.sample({"script": cases[1][:16], "impl": impl[len(cases[0]): len(cases[0]) + 16]})
        if mdrv:
            model, _, _ = run_lines(mdrv, lines)
            mism = diff_outputs(lines, impl, model)
            ctx.cov["traces_validated_against_impl"] = len(cases) if not mism else 0
            if mism:
                i0 = mism[0][0]; pos = 0
                for c in cases:
                    if pos + len(c) > i0: break
                    pos += len(c)
                def differs(sub):
                    a, _, _ = run_lines(hb, ["mtx new"] + sub); b, _, _ = run_lines(mdrv, ["mtx new"] + sub); return a != b
                small = ["mtx new"] + ddmin(c[1:], differs)
                a, _, _ = run_lines(hb, small); b, _, _ = run_lines(mdrv, small)
                ctx.ties_broken.append("correspondence:async_mutex lock-step differs (model vs implementation)")
                ctx.notes.append({"mutex_mismatch_script": small, "impl": a, "model": b})
    # stream level: the real autoconnect_stream / reconnect_op / shutdown_op / read_op / write_op around the lock
    found = SC.phase(ctx, "C11", 300 if ctx.tier == "quick" else 6000, 150) or found
    ctx.cov["rule"] += ("; plus H-stream scenarios (real autoconnect_stream over a scripted socket/resolver/clock): simultaneous read/write/time-out/shutdown failures, "
                        "cancel-all with restart, deferred cancellation completions; monitor: at most one connection attempt in progress, connect only under the lock, "
                        "every operation completes exactly once")
    report_broken_ties(ctx, found)
    if ctx.tier == "thorough" and not ctx.ties_broken:
        for m, msg in leanchecker(ctx.lean.get("modules", [])):
            ctx.violation("leanchecker", {"module": m, "msg": msg}, found_input=False)
