"""C05 — client-level check (monitors on the real client through H-client; Lean obligations from Props/C05.lean)."""
from vlib import *
import client_check as CC
import sender_check


def run(ctx):
    standard_lean_phase(ctx)
    n = 250 if ctx.tier == "quick" else 6000
    fails = CC.run_scenarios(ctx, "C05", n, steps=60)
    ctx.cov["rule"] = ("generated scenarios through the real mqtt_client on the scripted stream: API calls (publish QoS 0/1/2 with properties, subscribe, unsubscribe, receive, per-operation "
                       "cancellation signals), a broker (acks with reason codes/properties, inbound QoS 0/1/2 messages, held-back replies), byte chunking, connection loss with partial delivery, "
                       "reconnects with changing Receive Maximum / Server Keep Alive / Session Present, virtual time, then a fault-free suffix and cancel() or async_disconnect; "
                       "the C05 monitor runs on every transcript; non-trivial = distinct scenario with >= 2 (re)connections and > 3 operations")
    found_s = sender_check.run(ctx, 300 if ctx.tier == "quick" else 20000)
    import replies_check
    found_s = replies_check.run(ctx, 200 if ctx.tier == "quick" else 20000) or found_s
    ctx.cov["rule"] += "; plus lock-step of the real async_sender (mock service) and detail::replies against their Lean models"
    found = found_s or CC.report(ctx, "C05", fails)
    # below the client: the real autoconnect_stream / reconnect_op / connect_op over a scripted socket (H-stream) — a cancelled and closed
    # stream stays closed, also when a connection attempt that was in flight at the cancel succeeds afterwards
    import stream_check as SC
    found = SC.phase(ctx, "C05", 250 if ctx.tier == "quick" else 6000, 150) or found
    ctx.cov["rule"] += "; plus H-stream scenarios (cancel/close at arbitrary moments, cancelled socket operations that complete late): after cancel()+close() the stream never opens again by itself, every stream operation completes, the connection lock is released"
    # the publish operation itself: real publish_send_op on a mock service, lock-step with Model/PubSend.lean, operation rules on its traces
    import pubsend_check
    found = pubsend_check.run(ctx, 1500 if ctx.tier == "quick" else 60000) or found
    ctx.cov["rule"] += "; plus H-pubsend: scripts of async_send / async_wait_reply completions (ok, try_again, aborted; lost, undecodable, inadmissible and failing acknowledgements; cancellation) on the real publish_send_op QoS 1 and 2"
    report_broken_ties(ctx, found)
    if ctx.tier == "thorough" and not ctx.ties_broken:
        for m, msg in leanchecker(ctx.lean.get("modules", [])):
            ctx.violation("leanchecker", {"module": m, "msg": msg}, found_input=False)
