"""C03 — client-level check (monitors on the real client through H-client; Lean obligations from Props/C03.lean)."""
from vlib import *
import client_check as CC
from props import c17 as C17


def run(ctx):
    standard_lean_phase(ctx)
    n = 250 if ctx.tier == "quick" else 6000
    fails = CC.run_scenarios(ctx, "C03", n, steps=60)
    ctx.cov["rule"] = ("generated scenarios through the real mqtt_client on the scripted stream: API calls (publish QoS 0/1/2 with properties, subscribe, unsubscribe, receive, per-operation "
                       "cancellation signals), a broker (acks with reason codes/properties, inbound QoS 0/1/2 messages, held-back replies), byte chunking, connection loss with partial delivery, "
                       "reconnects with changing Receive Maximum / Server Keep Alive / Session Present, virtual time, then a fault-free suffix and cancel() or async_disconnect; "
                       "the C03 monitor runs on every transcript; non-trivial = distinct scenario with >= 2 (re)connections and > 3 operations")
    # set_dup() correspondence: stored PUBLISH packets with DUP set by the real control_packet vs the encoder model
    mdrv, _ = build_mdrv(); hb, hlog = build_harness("h_codec")
    if hb and mdrv:
        qs = []
        while len(qs) < (400 if ctx.tier == "quick" else 20000):
            l, e = C17.gen_packet(ctx.rng)
            if e["type"] == "publish" and e["qos"] > 0: qs.append("dup" + l)
        a, rc, err = run_lines(hb, qs); b, _, _ = run_lines(mdrv, qs)
        mism = diff_outputs(qs, a, b)
        ctx.count("set_dup-cases", len(qs)); ctx.cov["evaluations"] += len(qs)
        if mism: ctx.ties_broken.append(f"correspondence:set_dup model differs from control_packet::set_dup on {len(mism)} packets, first: {str(mism[0])[:400]}")
    else:
        ctx.ties_broken.append("harness:h_codec / mdrv unavailable: " + (hlog or "")[-300:])
    found = CC.report(ctx, "C03", fails)
    # the publish operation itself: real publish_send_op on a mock service, lock-step with Model/PubSend.lean, operation rules on its traces
    import pubsend_check
    found = pubsend_check.run(ctx, 1500 if ctx.tier == "quick" else 60000) or found
    ctx.cov["rule"] += "; plus H-pubsend: scripts of async_send / async_wait_reply completions (ok, try_again, aborted; lost, undecodable, inadmissible and failing acknowledgements; cancellation) on the real publish_send_op QoS 1 and 2"
    report_broken_ties(ctx, found)
    if ctx.tier == "thorough" and not ctx.ties_broken:
        for m, msg in leanchecker(ctx.lean.get("modules", [])):
            ctx.violation("leanchecker", {"module": m, "msg": msg}, found_input=False)
