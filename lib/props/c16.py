"""C16 — request validation accepts exactly the well-formed MQTT inputs (string / topic level)."""
from vlib import *
import itertools


# ----- independent specification (Python's strict RFC 3629 decoder + the MQTT character/topic rules)
def cps(b):
    try:
        return [ord(ch) for ch in b.decode("utf-8")]
    except UnicodeDecodeError:
        return None


def allowed(c):
    return not (c == 0 or 1 <= c <= 0x1F or 0x7F <= c <= 0x9F or 0xFDD0 <= c <= 0xFDEF or (c & 0xFFFF) in (0xFFFE, 0xFFFF))


def spec_string(b):
    c = cps(b)
    return len(b) <= 65535 and c is not None and all(allowed(x) for x in c)


def spec_name(b, allow_empty=False):
    c = cps(b)
    return (allow_empty or len(b) > 0) and len(b) <= 65535 and c is not None and all(allowed(x) and x not in (35, 43) for x in c)


def spec_filter(b):
    c = cps(b)
    if not (0 < len(b) <= 65535) or c is None or not all(allowed(x) for x in c):
        return False
    levels = []
    cur = []
    for x in c:
        if x == 47:
            levels.append(cur); cur = []
        else:
            cur.append(x)
    levels.append(cur)
    for i, lv in enumerate(levels):
        if 35 in lv and not (lv == [35] and i == len(levels) - 1):
            return False
        if 43 in lv and lv != [43]:
            return False
    return True


def spec_shared(b, wild):
    if not (0 < len(b) <= 65535) or not b.startswith(b"$share/"):
        return False
    rest = b[7:]
    i = rest.find(b"/")
    if i < 0:
        return False
    name, flt = rest[:i], rest[i + 1:]
    cn = cps(name)
    if not (len(name) > 0 and cn is not None and all(allowed(x) and x not in (35, 43) for x in cn)):
        return False
    return spec_filter(flt) if wild else spec_name(flt)


def hx(b):
    return b.hex() if b else "-"


def enc(cp):
    """raw encoder that does not refuse surrogates / out-of-range"""
    if cp < 0x80: return bytes([cp])
    if cp < 0x800: return bytes([0xC0 | cp >> 6, 0x80 | cp & 0x3F])
    if cp < 0x10000: return bytes([0xE0 | cp >> 12, 0x80 | (cp >> 6) & 0x3F, 0x80 | cp & 0x3F])
    return bytes([(0xF0 | cp >> 18) & 0xFF, 0x80 | (cp >> 12) & 0x3F, 0x80 | (cp >> 6) & 0x3F, 0x80 | cp & 0x3F])


def gen(ctx):
    rng = ctx.rng
    quick = ctx.tier == "quick"
    items = []   # (kind, bytes, wild)

    def add(kind, b, w=1, fam=""):
        items.append((kind, b, w)); ctx.count(fam or kind)

    # 1. all byte strings of length <= 2 (utf8 always; name/filter: quick = every 7th)
    for n in (0, 1, 2):
        for t in itertools.product(range(256), repeat=n):
            b = bytes(t)
            add("utf8", b, fam="exhaustive-len<=2")
            if not quick or (sum(t) % 7 == 0) or n < 2:
                add("name", b, fam="exhaustive-len<=2"); add("filter", b, fam="exhaustive-len<=2")
    # 2. code points: all (thorough) / boundaries + stride (quick), incl. surrogates and > U+10FFFF as raw encodings
    special = [0, 1, 0x1F, 0x20, 0x22, 0x23, 0x24, 0x2A, 0x2B, 0x2C, 0x2F, 0x7E, 0x7F, 0x80, 0x9F, 0xA0, 0xFD, 0xFE, 0xFF, 0x100, 0x1FE, 0x1FF, 0x7FF, 0x800,
               0xD7FF, 0xD800, 0xDFFF, 0xE000, 0xFDCF, 0xFDD0, 0xFDEF, 0xFDF0, 0xFEFF, 0xFFFD, 0xFFFE, 0xFFFF, 0x10000, 0x1FFFD, 0x1FFFE, 0x1FFFF, 0x20000,
               0x10FFFD, 0x10FFFE, 0x10FFFF, 0x110000, 0x1FFFFF]
    pts = set(special)
    for s in special:
        pts.update({max(0, s - 1), s + 1})
    pts.update(range(0, 0x200))
    if quick:
        pts.update(range(0, 0x200000, 997))
        for pl in range(17): pts.update({pl * 0x10000 + 0xFFFE, pl * 0x10000 + 0xFFFF, pl * 0x10000 + 0xFFFD, pl * 0x10000})
    else:
        pts.update(range(0, 0x200000, 1 if True else 3))
    for cp in sorted(pts):
        if cp >= 0x200000: continue
        b = enc(cp)
        add("utf8", b"a" + b + b"z", fam="code-points")
        if cp % 5 == 0 or cp in special: add("name", b, fam="code-points"); add("filter", b"t/" + b, fam="code-points")
    # 3. lead byte x continuation classes (ill-formed forms: bad continuation, overlong, > U+10FFFF, F8-FF leads, truncation)
    cls = [0x00, 0x41, 0x7F, 0x80, 0x8F, 0x90, 0x9F, 0xA0, 0xBF, 0xC0, 0xE0, 0xFF]
    for lead in range(0xC0, 0x100):
        for c1 in cls:
            add("utf8", bytes([lead, c1]), fam="lead-x-continuation")
            for c2 in cls:
                add("utf8", bytes([lead, c1, c2]), fam="lead-x-continuation")
                if lead >= 0xE0:
                    for c3 in (cls if (not quick or lead >= 0xF0) else cls[::3]):
                        add("utf8", bytes([lead, c1, c2, c3]), fam="lead-x-continuation")
    # 4. sizes
    for n in (65534, 65535, 65536):
        for kind in ("utf8", "name", "alias", "filter"):
            items.append((kind, ("rep", "61", n), 1)); ctx.count("size-boundary")
        items.append(("utf8", ("rep2", "c3a9", n // 2, "61" if n % 2 else ""), 1)); ctx.count("size-boundary")
    add("alias", b"", fam="size-boundary"); add("name", b"", fam="size-boundary"); add("filter", b"", fam="size-boundary")
    # 5. filters over a small alphabet, exhaustively up to a length
    alpha = [b"a", b"/", b"+", b"#", b"$", "é".encode()]
    for n in range(1, (6 if quick else 8)):
        for t in itertools.product(alpha, repeat=n):
            b = b"".join(t)
            add("filter", b, fam="filter-alphabet"); 
            if n <= 4: add("name", b, fam="filter-alphabet"); add("alias", b, fam="filter-alphabet")
    # 6. $share forms
    names = [b"", b"g", b"grp", b"g+", b"#g", b"g#", "é".encode(), b"\x01", b"g\xc3", b"+"]
    flts = [b"", b"t", b"t/u", b"#", b"+", b"+/t/#", b"t#", b"t/+x", b"/", b"$share/g/t", b"\x7f", b"t/\xff"]
    prefixes = [b"$share/", b"$shared/", b"$share", b"$Share/", b"share/", b"/$share/", b"$share//"]
    for p in prefixes:
        for n_ in names:
            for f in flts:
                for w in (0, 1):
                    add("shared", p + n_ + b"/" + f, w, fam="shared-templates")
                    add("shared", p + n_ + f, w, fam="shared-templates")
    # 7. random mostly-valid strings with injected defects
    pool = [b"a", b"b", b"/", b"+", b"#", b"$", " ".encode(), "é".encode(), "€".encode(), "\U0001F600".encode(), b"\x00", b"\x1f", b"\x7f",
            b"\xc2\x80", b"\xef\xbf\xbe", b"\xef\xb7\x90", b"\xed\xa0\x80", b"\xc0\x80", b"\xf4\x90\x80\x80", b"\x80", b"\xc3", b"\xe2\x82", b"\xc3\xbe", b"\xc3\xbf"]
    for _ in range(20000 if quick else 400000):
        k = rng.randint(1, 12)
        b = b"".join(rng.choice(pool[:10]) if rng.random() < 0.85 else rng.choice(pool) for _ in range(k))
        kind = rng.choice(["utf8", "name", "alias", "filter", "shared"])
        if kind == "shared" and rng.random() < 0.8: b = b"$share/" + b
        add(kind, b, rng.randint(0, 1), fam="random")
    # 8. user-property pairs
    for _ in range(300):
        a = b"".join(rng.choice(pool) for _ in range(rng.randint(0, 4))); b2 = b"".join(rng.choice(pool[:10]) for _ in range(rng.randint(0, 4)))
        items.append(("pair", (a, b2), 1)); ctx.count("pairs")
    return items


def to_line(it):
    kind, b, w = it
    if kind == "pair":
        return f"u8 pair {hx(b[0])} {hx(b[1])}"
    if isinstance(b, tuple):
        if b[0] == "rep": arg = f"{b[1]}*{b[2]}"
        else: arg = f"{b[1]}*{b[2]}" + (f"+{b[3]}" if b[3] else "")
    else:
        arg = hx(b)
    return f"u8 {kind} {arg}" + (f" {w}" if kind == "shared" else "")


def expand(b):
    if isinstance(b, tuple):
        if b[0] == "rep": return bytes.fromhex(b[1]) * b[2]
        return bytes.fromhex(b[1]) * b[2] + bytes.fromhex(b[3])
    return b


def monitor(it, out):
    kind, b, w = it
    if kind == "pair":
        exp = spec_string(b[0]) and spec_string(b[1])
    else:
        b = expand(b)
        exp = {"utf8": spec_string, "name": spec_name, "alias": lambda x: spec_name(x, True), "filter": spec_filter,
               "shared": lambda x: spec_shared(x, bool(w))}[kind](b)
    got = (out == "0")
    if got and not exp: return "accepted although ill-formed"
    if exp and not got: return "rejected although well-formed"
    return None


def run(ctx):
    standard_lean_phase(ctx)
    mdrv, mlog = build_mdrv()
    hb, hlog = build_harness("h_utf8")
    if hb is None: ctx.ties_broken.append("harness:h_utf8 does not compile: " + hlog[-800:])
    if mdrv is None: ctx.ties_broken.append("mdrv does not build: " + mlog[-800:])
    items = gen(ctx)
    lines = [to_line(it) for it in items]
    ctx.cov["evaluations"] = len(lines)
    ctx.cov["rule"] = ("byte strings through the real validators under ASan (exact-size heap copies) vs the Lean model and an independent spec (Python strict UTF-8 decoder + MQTT character and topic rules): "
                       "all strings of length <=2; encodings of code points (all below 0x200000 in thorough, boundaries+stride in quick, incl. surrogates, non-characters of every plane, > U+10FFFF); "
                       "every lead byte C0-FF x continuation classes; sizes 65534/65535/65536; filters over {a / + # $ e-acute} exhaustively to length 5 (7 thorough); $share templates; random strings with defects. "
                       "non-trivial = distinct input containing a byte >= 0x80 or a wildcard or a size at the limit")
    found = False
    if hb:
        impl, rc, err = run_lines(hb, lines)
        if rc != 0 or len(impl) != len(lines):
            ctx.ties_broken.append(f"harness:h_utf8 exited with {rc} after {len(impl)} of {len(lines)} lines: {err[-600:]}")
            if len(impl) < len(lines):
                found = True
                ctx.violation("fault", {"what": "validator crashed / sanitizer fault", "input": lines[len(impl)], "stderr": err[-1500:]})
        bad = []
        nontriv = set()
        for it, l, o in zip(items, lines, impl):
            why = monitor(it, o)
            b = it[1]
            if isinstance(b, tuple) or (isinstance(b, bytes) and (any(x >= 0x80 or x in (35, 43) for x in b))): nontriv.add(l)
            if why: bad.append({"input": l, "observed": o, "why": why})
        ctx.cov["distinct_nontrivial"] = len(nontriv)
        ctx.sample({"input": "u8 utf8 c3be", "meaning": "U+00FE", "impl": impl[lines.index("u8 utf8 61c3be7a")] if "u8 utf8 61c3be7a" in lines else None})
        ctx.sample({"input": lines[-5], "impl": impl[-5] if len(impl) == len(lines) else None})
        if bad:
            found = True
            bad.sort(key=lambda d: len(d["input"]))
            ctx.violation("monitor", {"what": "validation differs from the MQTT 5 well-formedness spec", "n_failures": len(bad), "failures": bad[:30],
                                      "replay_hint": "echo '<input>' | .build/h/h_utf8/*"})
        if mdrv:
            model, _, _ = run_lines(mdrv, lines)
            mism = diff_outputs(lines, impl, model)
            ctx.cov["traces_validated_against_impl"] = len(lines) - len(mism)
            if mism:
                ctx.ties_broken.append(f"correspondence:utf8/topic model differs from implementation on {len(mism)} inputs, first (shortest): {min(mism, key=lambda m: len(m[1]))}")
    # request level: the same rules applied by the operations to every string of a request (user properties, content type, response topic),
    # also when other valid properties stand next to the ill-formed one; through the real client, against the Lean Validate model and an
    # independent oracle
    import validate_check
    found = validate_check.run(ctx, 400 if ctx.tier == "quick" else 20000, focus=True) or found
    ctx.cov["rule"] += "; plus requests through the real client (publish / subscribe with several properties, at most one ill-formed string among them): accepted iff every string is well-formed (independent oracle) and exactly as the Lean request-validation model says"
    report_broken_ties(ctx, found)
    if ctx.tier == "thorough" and not ctx.ties_broken:
        for m, msg in leanchecker(ctx.lean.get("modules", [])):
            ctx.violation("leanchecker", {"module": m, "msg": msg}, found_input=False)
