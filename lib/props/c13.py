"""C13 — client-level check (monitors on the real client through H-client; Lean obligations from Props/C13.lean)."""
from vlib import *
import client_check as CC
import stream_check as SC


def run(ctx):
    standard_lean_phase(ctx)
    n = 250 if ctx.tier == "quick" else 6000
    collected = []
    fails = CC.run_scenarios(ctx, "C13", n, steps=60, on_scenario=lambda seed, s: collected.append((seed, s)))
    # session-heavy scenarios: many subscriptions, SUBACKs outstanding across connection losses, reconnects without Session Present
    fails_s = CC.run_scenarios(ctx, "C13", n, steps=70, profile="session", on_scenario=lambda seed, s: collected.append((seed, s)))
    CC.session_corr(ctx, collected)
    ctx.cov["rule"] = ("generated scenarios through the real mqtt_client on the scripted stream: API calls (publish QoS 0/1/2 with properties, subscribe, unsubscribe, receive, per-operation "
                       "cancellation signals), a broker (acks with reason codes/properties, inbound QoS 0/1/2 messages, held-back replies), byte chunking, connection loss with partial delivery, "
                       "reconnects with changing Receive Maximum / Server Keep Alive / Session Present, virtual time, then a fault-free suffix and cancel() or async_disconnect; "
                       "the C13 monitor runs on every transcript; non-trivial = distinct scenario with >= 2 (re)connections and > 3 operations")
    found = CC.report(ctx, "C13", fails) or CC.report(ctx, "C13", fails_s, profile="session")
    # stream level (real connect_op, with and without an authenticator): the Session Present flag stored for the session bookkeeping is the CONNACK's
    found = SC.phase(ctx, "C13", 300 if ctx.tier == "quick" else 6000, 150) or found
    report_broken_ties(ctx, found)
    if ctx.tier == "thorough" and not ctx.ties_broken:
        for m, msg in leanchecker(ctx.lean.get("modules", [])):
            ctx.violation("leanchecker", {"module": m, "msg": msg}, found_input=False)
