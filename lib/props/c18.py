"""C18 — well-formed packets from the broker decode to exactly their contents."""
from vlib import *
import dec_check as D
import mqtt_ref as ref


def run(ctx):
    standard_lean_phase(ctx)
    n = 5000 if ctx.tier == "quick" else 150000
    cases = [D.gen_wellformed(ctx.rng) for _ in range(n)]
    lines = [c[0] for c in cases]
    ctx.cov["evaluations"] = n
    ctx.cov["rule"] = ("packets a broker may send (CONNACK, PUBLISH, PUBACK/PUBREC/PUBREL/PUBCOMP, SUBACK, UNSUBACK, DISCONNECT, AUTH) from an independent reference encoder: "
                       "any property order, repeated user properties, several Subscription Identifiers in PUBLISH, omitted reason code / omitted property length; decoded by the real "
                       "decoders (exact-size blocks, ASan) and compared with the values sent, with the Lean decoder model, and re-encoded by the library and decoded again by the reference; "
                       "non-trivial = distinct packet with at least one property")
    found = False
    r = D.run_batch(ctx, lines, "wellformed")
    if r:
        impl, crashed = r
        if crashed:
            found = True; ctx.violation("fault", {"what": "decoder fault on a well-formed packet", "input": crashed[0], "stderr": crashed[1]})
        bad = []; nontriv = set()
        for (l, e, k), o in zip(cases, impl):
            why = D.wf_monitor(e, o, k)
            if why: bad.append({"input": l[:400], "observed": o[:300], "why": why})
            if e.get("props"): nontriv.add(l)
        ctx.cov["distinct_nontrivial"] = len(nontriv)
        ctx.sample({"input": lines[3][:200], "decoded": impl[3][:200]})
        if bad:
            found = True; bad.sort(key=lambda d: len(d["input"]))
            ctx.violation("monitor", {"what": "a well-formed packet was not decoded to exactly its contents", "n_failures": len(bad), "failures": bad[:20]})
        # re-encode what was decoded (acks): same contents again
        hb, _ = build_harness("h_codec")
        if hb:
            re = []; exp = []
            for (l, e, k), o in zip(cases, impl):
                if k in D.ACKS and o.startswith("ok"):
                    d = D.parse_out(o); re.append(f"enc {k} 7 {d['rc']} {d['props']}"); exp.append((k, e))
            outs, _, _ = run_lines(hb, re)
            nre = 0
            for (k, e), o in zip(exp, outs):
                try:
                    dd = ref.decode(bytes.fromhex(o)); nre += 1
                    if dd["rc"] != e["rc"] or D.canon(dd["props"]) != e["props"]:
                        if not found:
                            found = True; ctx.violation("reencode", {"what": "re-encoding the decoded packet does not reproduce its contents", "kind": k, "expected": str(e), "bytes": o})
                except Exception as ex:
                    ctx.notes.append(f"re-encode decode error {ex}")
            ctx.count("re-encoded", nre)
    report_broken_ties(ctx, found)
    if ctx.tier == "thorough" and not ctx.ties_broken:
        for m, msg in leanchecker(ctx.lean.get("modules", [])):
            ctx.violation("leanchecker", {"module": m, "msg": msg}, found_input=False)
