"""C08 — packet identifiers unique among outstanding exchanges, never zero (allocator level)."""
from vlib import *
import client_check as CC


def gen_case(rng, kind):
    lines = ["pid reset"]
    live = set()
    nxt = lambda: min(set(range(1, max(live | {0}) + 2)) - live)  # lowest unused (small cases only)
    if kind == "walk":
        n = rng.randint(10, 120)
        p_alloc = rng.choice([0.4, 0.5, 0.6, 0.8])
        last_freed = None
        for _ in range(n):
            if not live or rng.random() < p_alloc:
                lines.append("pid a"); live.add(nxt())
            else:
                r = rng.random()
                cands = sorted(live)
                if last_freed is not None and r < 0.4:
                    near = [x for x in cands if abs(x - last_freed) <= 2]
                    p = rng.choice(near) if near else rng.choice(cands)
                elif r < 0.55:
                    p = cands[0]
                elif r < 0.7:
                    p = cands[-1]
                else:
                    p = rng.choice(cands)
                lines.append(f"pid f {p}"); live.discard(p); last_freed = p
    elif kind == "stairs":
        k = rng.randint(4, 60)
        for _ in range(k):
            lines.append("pid a")
        ids = list(range(1, k + 1))
        a = [x for x in ids if x % 2 == 0]; b = [x for x in ids if x % 2 == 1]
        if rng.random() < 0.5:
            a.reverse()
        if rng.random() < 0.5:
            rng.shuffle(b)
        for x in a + b:
            lines.append(f"pid f {x}")
        for _ in range(rng.randint(1, k)):
            lines.append("pid a")
    elif kind == "exhaust":
        pre = rng.randint(0, 5)
        for _ in range(pre):
            lines.append("pid a")
        lines.append(f"pid an {65535 - pre}")
        lines.append("pid a")            # must be 0 (overrun)
        holes = rng.sample(range(1, 65536), rng.randint(1, 8))
        if rng.random() < 0.5:
            base = rng.randint(2, 65530)
            holes = [base, base + 2, base + 1, 65535, 1][: rng.randint(2, 5)]
        for h in holes:
            lines.append(f"pid f {h}")
        for _ in range(len(holes) + 1):
            lines.append("pid a")        # refills lowest first, then 0
    return lines


class Oracle:
    """set model: the monitor (the property itself, independent of the Lean model)"""
    def __init__(self):
        self.live = set()

    def check(self, line, out):
        ws = line.split()
        if ws[1] == "reset":
            self.live = set(); return None
        idtxt = out.split("|")[0].strip()
        if ws[1] == "a":
            p = int(idtxt)
            if p == 0:
                return None if len(self.live) == 65535 else f"allocate returned 0 with only {len(self.live)} ids in use"
            if p in self.live:
                return f"id {p} handed out while still outstanding"
            if not (1 <= p <= 65535):
                return f"id {p} out of range"
            self.live.add(p); return None
        if ws[1] == "an":
            n = int(ws[2])
            # bulk: ids lowest-first; emulate
            free = None
            cnt = 65535 - len(self.live)
            if n >= cnt:
                self.live = set(range(1, 65536))
                exp = 0 if n > cnt else None
            else:
                exp = None
                k = 0; p = 0
                while k < n:
                    p += 1
                    if p not in self.live:
                        self.live.add(p); k += 1
            return None
        if ws[1] == "f":
            self.live.discard(int(ws[2])); return None
        return None


def exhaustion(ctx):
    """the whole identifier space through the real client: 65535 QoS 1 publishes outstanding, the next one is refused with pid_overrun,
    one acknowledgement frees an identifier, the next publish must get exactly that identifier (overrun iff all 65535 are in use)"""
    import random
    import mqtt_ref as ref
    from client_sim import Harness, Session
    hb, hlog = build_harness("h_client")
    if hb is None: return False
    h = Harness(hb); s = Session(h, random.Random(ctx.seed))
    why = None
    try:
        s.do("new"); s.do("cfg ka=0 cid=636c69 brokers=6c6f63616c686f7374"); s.do("run R")
        s.reconnect(0, {})
        s.do("pubn A 65535 1")
        if s.sid in s.write_pending: s.wdone("ok")
        for _ in range(4):
            if s.sid in s.write_pending: s.wdone("ok")
        pids = sorted(d["pid"] for _, d, _ in s.broker_seen if d["type"] == "publish")
        ctx.count("exhaustion-publishes-on-the-wire", len(pids))
        if pids != list(range(1, 65536)): why = f"65535 outstanding QoS 1 publishes do not use the identifiers 1..65535 exactly once (got {len(pids)} packets, {len(set(pids))} distinct)"
        evs = s.do("pub X 1 0 74 58 -")
        if not why and not any(e.startswith("done X client:103") for e in evs): why = f"publish with all 65535 identifiers in use was not refused with pid_overrun: {evs}"
        k = random.Random(ctx.seed).choice([1, 2, 77, 4096, 65535])
        if not why:
            s.rx(ref.e_ack("puback", k, 0, []))
            evs = s.do("pub Y 1 0 74 59 -")
            if any(e.startswith("done Y client:103") for e in evs): why = f"pid_overrun reported although identifier {k} had been released (65534 in use)"
            else:
                if s.sid in s.write_pending: s.wdone("ok")
                got = [d["pid"] for _, d, _ in s.broker_seen if d["type"] == "publish" and d["payload"] == b"Y"]
                if got != [k]: why = f"after releasing identifier {k} the next publish used {got} (the only free identifier is {k})"
        if s.crashed: why = f"harness died: {s.crashed}"
    finally:
        h.close()
    ctx.count("exhaustion-scenarios")
    if why:
        ctx.violation("exhaustion", {"what": "C08 violated on the real client at identifier exhaustion: " + why,
                                     "script": ["new", "cfg ka=0 cid=636c69 brokers=6c6f63616c686f7374", "run R", "reconnect <sid> 0 -", "pubn A 65535 1", "wdone <sid> ok", "pub X 1 0 74 58 -",
                                                "rx <sid> <PUBACK id k>", "pub Y 1 0 74 59 -", "wdone <sid> ok"], "replay_hint": "feed to .build/h/h_client/*"})
        return True
    return False


def run(ctx):
    standard_lean_phase(ctx)
    mdrv, mlog = build_mdrv()
    hb, hlog = build_harness("h_pid")
    if hb is None:
        ctx.ties_broken.append("harness:h_pid does not compile: " + hlog[-800:])
    if mdrv is None:
        ctx.ties_broken.append("mdrv does not build: " + mlog[-800:])
    ncases = 400 if ctx.tier == "quick" else 6000
    cases = []
    # corpus first
    cases.append(["pid reset", "pid a", "pid a", "pid a", "pid f 2", "pid a", "pid f 1", "pid f 3", "pid an 65535", "pid a",
                  "pid f 40000", "pid f 39999", "pid f 40001", "pid a", "pid a", "pid a", "pid a"])
    for i in range(ncases):
        kind = "exhaust" if i % 25 == 0 else ("stairs" if i % 5 == 0 else "walk")
        cases.append(gen_case(ctx.rng, kind)); ctx.count(kind)
    lines = [l for c in cases for l in c]
    ctx.cov["evaluations"] = len(lines)
    ctx.cov["rule"] = ("alloc/free scripts on the real packet_id_allocator (random walks biased to neighbours of freed ids, lowest/highest; "
                       "even/odd staircases forcing splits and merges; full exhaustion of 65535 ids, holes, refill) in lock-step with the Lean model "
                       "(returned id AND the private interval vector after every operation) and a set oracle; non-trivial = a distinct case whose script frees an id that is not the highest outstanding (forces an interval split)")
    found = False
    if hb:
        impl, rc, err = run_lines(hb, lines)
        if rc != 0:
            ctx.ties_broken.append(f"harness:h_pid exited with {rc}: {err[-400:]}")
        # monitor on the implementation
        orc = Oracle()
        idx = 0
        nontriv = set()
        for c in cases:
            bad = None
            for j, l in enumerate(c):
                if idx + j >= len(impl):
                    break
                why = orc.check(l, impl[idx + j])
                if why and not bad:
                    bad = (j, why)
            if any(l.startswith("pid f") for l in c[1:-1]):
                nontriv.add(tuple(c))
            if bad and not found:
                found = True
                def fails(sub, c=c):
                    o = Oracle(); outs, _, _ = run_lines(hb, ["pid reset"] + sub)
                    return any(o.check(l, x) for l, x in zip(["pid reset"] + sub, outs))
                small = ["pid reset"] + ddmin(c[1:], fails)
                outs, _, _ = run_lines(hb, small)
                ctx.violation("monitor", {"what": "packet_id_allocator violates C08: " + bad[1], "script": small, "impl_output": outs})
            idx += len(c)
        ctx.cov["distinct_nontrivial"] = len(nontriv)
        ctx.sample({"script": cases[1][:14], "impl": impl[len(cases[0]):len(cases[0]) + 14]})
        if mdrv:
            model, rc2, _ = run_lines(mdrv, lines)
            mism = diff_outputs(lines, impl, model)
            ctx.cov["traces_validated_against_impl"] = len(cases) if not mism else 0
            if mism:
                i0 = mism[0][0]
                # locate the case and minimise
                pos = 0
                for c in cases:
                    if pos + len(c) > i0:
                        break
                    pos += len(c)
                def differs(sub):
                    a, _, _ = run_lines(hb, ["pid reset"] + sub); b, _, _ = run_lines(mdrv, ["pid reset"] + sub)
                    return a != b
                small = ["pid reset"] + ddmin(c[1:], differs)
                a, _, _ = run_lines(hb, small); b, _, _ = run_lines(mdrv, small)
                ctx.ties_broken.append("correspondence:pid lock-step differs (model vs implementation)")
                ctx.notes.append({"pid_mismatch_script": small, "impl": a, "model": b})
    found = exhaustion(ctx) or found
    fails = CC.run_scenarios(ctx, "C08", 200 if ctx.tier == "quick" else 5000, steps=60)
    found = CC.report(ctx, "C08", fails) or found
    # the publish operation itself: real publish_send_op on a mock service, lock-step with Model/PubSend.lean, operation rules on its traces
    import pubsend_check
    found = pubsend_check.run(ctx, 1500 if ctx.tier == "quick" else 60000) or found
    ctx.cov["rule"] += "; plus H-pubsend: scripts of async_send / async_wait_reply completions (ok, try_again, aborted; lost, undecodable, inadmissible and failing acknowledgements; cancellation) on the real publish_send_op QoS 1 and 2"
    report_broken_ties(ctx, found)
    if ctx.tier == "thorough" and not ctx.ties_broken:
        for m, msg in leanchecker(ctx.lean.get("modules", [])):
            ctx.ties_broken.append(f"leanchecker:{m}: {msg}")
            ctx.violation("leanchecker", {"module": m, "msg": msg}, found_input=False)
