"""C19 — hostile broker bytes never cause out-of-bounds access, crash or hang; recognised packets do not depend on the chunking;
a malformed packet never completes a user operation successfully.

Lean obligations: Props/C19.lean — decoders (index model of base_decoders/message_decoders): no read outside the packet for every buffer
content, position and Remaining Length, nothing left over in an accepted packet; frame reassembly (model of assemble_op): verdict stability,
progress, chunking independence for every byte string and every pair of chunkings.
Ties and search:
 (1) decoders: mutated packets on the real decoders (exact-size heap blocks, ASan+UBSan) vs the Lean `dec` engine;
 (2) frames: broker byte streams in three chunkings on the real assemble_op vs the Lean `frm` engine (events and read sizes), and the chunking
     independence predicate evaluated on the implementation's own outputs;
 (3) whole client with a hostile broker (H-client, ASan): no fault, no operation completed by a malformed acknowledgement, no message delivered
     from a malformed PUBLISH;
 (4) handshake (H-stream, ASan): damaged / random CONNACK bytes in any chunking."""
from vlib import *
import dec_check as D
import frame_check as F
import client_check as CC
import stream_check as SC
import client_gen


class HostileScenario(client_gen.Scenario):
    def __init__(self, harness, rng, profile="hostile"):
        super().__init__(harness, rng, profile="hostile")


def run(ctx):
    standard_lean_phase(ctx)
    quick = ctx.tier == "quick"
    found = False
    # (1) decoders on damaged packets
    n = 4000 if quick else 120000
    lines = []
    for _ in range(n):
        l, e, k = D.gen_wellformed(ctx.rng)
        lines.append(D.mutate(ctx.rng, l) if ctx.rng.random() < 0.85 else l)
    r = D.run_batch(ctx, lines, "mutated-packets")
    if r:
        impl, crashed = r
        if crashed:
            found = True
            ctx.violation("decoder-fault", {"what": "sanitizer fault / crash in a decoder on broker bytes (packet in an exact-size heap block)", "input": crashed[0], "stderr": crashed[1]})
        acc = sum(1 for o in impl if o.startswith("ok")); ctx.count("mutated-accepted", acc); ctx.count("mutated-rejected", len(impl) - acc)
    # (2) frame reassembly
    found = F.run(ctx, 250 if quick else 8000, ctx.seed) or found
    # (3) the whole client against a hostile broker
    fails = CC.run_scenarios(ctx, "C19", 200 if quick else 6000, steps=60, profile="hostile", scenario_cls=HostileScenario)
    found = CC.report(ctx, "C19", fails, profile="hostile", scenario_cls=HostileScenario) or found
    # (4) handshake
    found = SC.phase(ctx, "C19", 150 if quick else 4000, 120) or found
    ctx.cov["rule"] = ("(1) packets from the reference encoder damaged by truncation, bit flips, length bytes +-1 / 0x7F / 0x80 / 0xFF, insertions, extensions, random bytes, fed to the "
                       "real decoders in exact-size heap blocks under ASan/UBSan and to the Lean decoder model; (2) streams of 1-8 broker packets (each well-formed, or damaged in its "
                       "flags / Remaining Length / type / continuation bytes, or random) delivered whole, byte by byte and in random pieces to the real assemble_op, lock-step with the "
                       "Lean frame model; (3) generated client scenarios (publish QoS 0-2, subscribe, unsubscribe, receive, reconnects) in which 12% of the broker's packets are damaged; "
                       "(4) handshakes with damaged / random CONNACK bytes in any chunking; non-trivial = scenario / stream with at least one damaged packet")
    report_broken_ties(ctx, found)
    if ctx.tier == "thorough" and not ctx.ties_broken:
        for m, msg in leanchecker(ctx.lean.get("modules", [])):
            ctx.violation("leanchecker", {"module": m, "msg": msg}, found_input=False)
