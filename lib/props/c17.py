"""C17 — every packet written is well-formed MQTT 5 and says exactly what was asked (encoder level)."""
from vlib import *
import mqtt_ref as ref

STRS = [b"", b"a", b"topic/level", "é€😀".encode(), b"x" * 127, b"y" * 128, b"z" * 300]


def rstr(rng, big=False):
    r = rng.random()
    if big and r < 0.03: return ("rep", "61", rng.choice([16383, 16384, 65534, 65535]))
    if r < 0.7: return rng.choice(STRS)
    return bytes(rng.randrange(256) for _ in range(rng.randint(0, 40)))


def sval(s):
    return bytes.fromhex(s[1]) * s[2] if isinstance(s, tuple) else s


def shex(s):
    if isinstance(s, tuple): return f"{s[1]}*{s[2]}"
    return s.hex() if s else "-"


def gen_props(rng, kind, p_each=0.35):
    ps = []
    for pid in sorted(ref.ALLOWED[kind]):
        k = ref.PROP_KIND[pid]
        reps = 1
        if pid == 0x26: reps = rng.choice([0, 0, 1, 1, 2, 3])
        elif rng.random() > p_each: reps = 0
        for _ in range(reps):
            if k == "u8": v = rng.choice([0, 1, 2, 255])
            elif k == "u16": v = rng.choice([0, 1, 255, 256, 65535, rng.randrange(65536)])
            elif k == "u32": v = rng.choice([0, 1, 65536, 2 ** 32 - 1, rng.randrange(2 ** 32)])
            elif k == "vint": v = rng.choice([1, 127, 128, 16383, 16384, 2097151, 2097152, 268435455])
            elif k in ("str", "bin"): v = sval(rstr(rng))
            else: v = (sval(rstr(rng)), sval(rstr(rng)))
            ps.append((pid, v))
    rng.shuffle(ps)
    return ps


def canon(ps):
    d = {}
    for pid, v in ps: d.setdefault(pid, []).append(v)
    return d


def gen_packet(rng):
    kind = rng.choice(["publish"] * 4 + ["puback", "pubrec", "pubrel", "pubcomp", "subscribe", "subscribe", "unsubscribe", "pingreq", "disconnect", "auth",
                       "connect", "connect", "connack", "suback", "unsuback", "pingresp"])
    exp = {"type": kind}
    if kind == "publish":
        qos = rng.randint(0, 2); pid = rng.choice([1, 2, 255, 256, 65535, rng.randint(1, 65535)])
        t, pl = rstr(rng, True), rstr(rng, True); r_, d_ = rng.randint(0, 1), (rng.randint(0, 1) if qos else 0)
        ps = gen_props(rng, kind)
        exp.update(qos=qos, pid=pid if qos else None, topic=sval(t), payload=sval(pl), retain=r_, dup=d_, props=canon(ps))
        line = f"enc publish {pid} {shex(t)} {shex(pl)} {qos} {r_} {d_} {ref.plist_text(ps)}"
    elif kind in ("puback", "pubrec", "pubrel", "pubcomp"):
        pid = rng.choice([1, 65535, rng.randint(1, 65535)]); rc = rng.choice([0, 0, 0x10, 0x80, 0x92, 0x97])
        ps = gen_props(rng, kind, 0.3) if rng.random() < 0.5 else []
        exp.update(pid=pid, rc=rc, props=canon(ps)); line = f"enc {kind} {pid} {rc} {ref.plist_text(ps)}"
    elif kind == "subscribe":
        pid = rng.randint(1, 65535); ps = gen_props(rng, kind); n = rng.choice([1, 1, 2, 3, 8])
        ts = [(sval(rstr(rng)), dict(qos=rng.randint(0, 2), nl=rng.randint(0, 1), rap=rng.randint(0, 1), rh=rng.randint(0, 2))) for _ in range(n)]
        exp.update(pid=pid, props=canon(ps), topics=ts)
        line = f"enc subscribe {pid} {ref.plist_text(ps)} {n} " + " ".join(f"{shex(f)} {o['qos']} {o['nl']} {o['rap']} {o['rh']}" for f, o in ts)
    elif kind == "unsubscribe":
        pid = rng.randint(1, 65535); ps = gen_props(rng, kind); n = rng.choice([1, 2, 5]); ts = [sval(rstr(rng)) for _ in range(n)]
        exp.update(pid=pid, props=canon(ps), topics=ts); line = f"enc unsubscribe {pid} {ref.plist_text(ps)} {n} " + " ".join(shex(f) for f in ts)
    elif kind in ("suback", "unsuback"):
        pid = rng.randint(1, 65535); ps = gen_props(rng, kind); n = rng.randint(1, 4); rcs = [rng.choice([0, 1, 2, 0x80, 0x11]) for _ in range(n)]
        exp.update(pid=pid, props=canon(ps), rcs=rcs); line = f"enc {kind} {pid} {ref.plist_text(ps)} {n} " + " ".join(map(str, rcs))
    elif kind in ("pingreq", "pingresp"):
        line = f"enc {kind}"
    elif kind in ("disconnect", "auth"):
        rc = rng.choice([0, 4, 0x18, 0x81, 0x8E]); ps = gen_props(rng, kind)
        exp.update(rc=rc, props=canon(ps)); line = f"enc {kind} {rc} {ref.plist_text(ps)}"
    elif kind == "connack":
        sp, rc = rng.randint(0, 1), rng.choice([0, 0x80, 0x87]); ps = gen_props(rng, kind)
        exp.update(sp=sp, rc=rc, props=canon(ps)); line = f"enc connack {sp} {rc} {ref.plist_text(ps)}"
    else:  # connect
        cid = sval(rstr(rng)); user = sval(rstr(rng)) if rng.random() < 0.5 else None; pw = sval(rstr(rng)) if rng.random() < 0.5 else None
        ka = rng.choice([0, 1, 60, 65535]); cs = rng.randint(0, 1); ps = gen_props(rng, "connect")
        w = None; wtxt = "0"
        if rng.random() < 0.6:
            wp = gen_props(rng, "will"); w = dict(topic=sval(rstr(rng)), message=sval(rstr(rng)), qos=rng.randint(0, 2), retain=rng.randint(0, 1), props=canon(wp))
            wtxt = f"1 {shex(w['topic'])} {shex(w['message'])} {w['qos']} {w['retain']} {ref.plist_text(wp)}"
        exp.update(client_id=cid, user=user, **{"pass": pw}, keep_alive=ka, clean_start=cs, props=canon(ps), will=w)
        line = f"enc connect {shex(cid)} {shex(user) if user is not None else 'none'} {shex(pw) if pw is not None else 'none'} {ka} {cs} {ref.plist_text(ps)} {wtxt}"
    return line, exp


def boundary_packets():
    """Remaining Length exactly at every variable-byte-integer boundary (PUBLISH QoS 0, topic 't', no properties: RL = 4 + payload)"""
    out = []
    for rl in (0x7F, 0x80, 0x3FFF, 0x4000, 0x1FFFFF, 0x200000):
        n = rl - 4
        out.append((f"enc publish 0 74 61*{n} 0 0 0 -", {"type": "publish", "qos": 0, "pid": None, "topic": b"t", "payloadlen": n, "retain": 0, "dup": 0, "props": {}, "rl": rl}))
    return out


def monitor(exp, out):
    """decode the real bytes with the independent decoder and compare with what was asked"""
    if out.startswith("big "):
        _, ln, _h, head = out.split()
        b = bytes.fromhex(head); r = ref.R(b); r.u8(); rl = r.vint()
        if int(ln) - r.i != rl: return f"Remaining Length {rl} != actual body size {int(ln) - r.i}"
        if "rl" in exp and rl != exp["rl"]: return f"Remaining Length {rl}, expected {exp['rl']}"
        return None
    b = bytes.fromhex(out) if out != "-" else b""
    try:
        d = ref.decode(b)
    except ref.Malformed as e:
        return f"independent decoder rejects the packet: {e}"
    if "payloadlen" in exp:
        exp = dict(exp); exp["payload"] = b"a" * exp.pop("payloadlen"); exp.pop("rl", None)
    for k, v in exp.items():
        got = d.get(k)
        if k == "props": got = canon(got)
        if k == "will" and v is not None and got is not None: got = dict(got, props=canon(got["props"]))
        if k == "topics" and d["type"] == "subscribe": got = [(f, o) for f, o in got]
        if got != v:
            return f"field {k}: decoded {str(got)[:80]} != supplied {str(v)[:80]}"
    return None


def run(ctx):
    standard_lean_phase(ctx)
    mdrv, mlog = build_mdrv()
    hb, hlog = build_harness("h_codec")
    if hb is None: ctx.ties_broken.append("harness:h_codec does not compile: " + hlog[-800:])
    if mdrv is None: ctx.ties_broken.append("mdrv does not build: " + mlog[-800:])
    rng = ctx.rng
    n = 6000 if ctx.tier == "quick" else 150000
    cases = boundary_packets() + [gen_packet(rng) for _ in range(n)]
    vl = [f"varlen {v}" for v in (0, 1, 127, 128, 16383, 16384, 2097151, 2097152, 268435455, 268435456, 2 ** 31 - 1)] + [f"varlen {rng.randrange(2 ** 28)}" for _ in range(200)]
    lines = [c[0] for c in cases] + vl
    for l, e in cases: ctx.count(e["type"])
    ctx.cov["evaluations"] = len(lines)
    ctx.cov["rule"] = ("packets of every type the library can encode, built from its own types (random subsets of the properties each packet allows, repeated user properties, "
                       "empty/short/127/128/300-byte and 16383-65535-byte strings, multi-byte variable integers, 1-8 topics, every option/flag combination, CONNECT with/without Will, credentials) "
                       "plus Remaining Length at each variable-byte-integer boundary (127/128, 16383/16384, 2097151/2097152): real encoder output vs the Lean encoder model byte for byte, "
                       "and decoded by an independent strict MQTT 5 decoder and compared with the supplied values; non-trivial = distinct packet with at least one property or a multi-byte length")
    found = False
    if hb:
        impl, rc, err = run_lines(hb, lines, timeout=3000)
        if rc != 0 or len(impl) != len(lines):
            ctx.ties_broken.append(f"harness:h_codec exited with {rc} after {len(impl)}/{len(lines)} lines: {err[-500:]}")
            if len(impl) < len(lines):
                found = True
                ctx.violation("fault", {"what": "encoder crashed / sanitizer fault", "input": lines[len(impl)], "stderr": err[-1500:]})
        bad = []; nontriv = set()
        for (l, e), o in zip(cases, impl):
            why = monitor(e, o)
            if why: bad.append({"input": l[:600], "bytes": o[:400], "why": why})
            if e.get("props") or len(o) > 260: nontriv.add(l)
        ctx.cov["distinct_nontrivial"] = len(nontriv)
        ctx.sample({"input": cases[7][0][:300], "impl_bytes": impl[7][:300] if len(impl) > 7 else None})
        if bad:
            found = True
            bad.sort(key=lambda d: len(d["input"]))
            ctx.violation("monitor", {"what": "an emitted packet is not well-formed MQTT 5 or does not say what was asked", "n_failures": len(bad), "failures": bad[:20]})
        if mdrv:
            model, _, _ = run_lines(mdrv, lines, timeout=3000)
            mism = diff_outputs(lines, impl, model)
            ctx.cov["traces_validated_against_impl"] = len(lines) - len(mism)
            if mism:
                m0 = min(mism, key=lambda m: len(m[1]))
                ctx.ties_broken.append(f"correspondence:encoder model differs from implementation on {len(mism)} inputs, shortest: {str(m0)[:700]}")
    # what the real client writes: every packet must be accepted by the independent decoder (C17 monitor) and every PUBLISH must say what its
    # async_publish call said (composed content model, Props/C17 `composed_request_says_what_was_asked`)
    import client_check as CC
    fails = CC.run_scenarios(ctx, "C17", 120 if ctx.tier == "quick" else 3000, steps=60)
    found = CC.report(ctx, "C17", fails) or found
    ctx.cov["rule"] += "; plus generated scenarios through the real mqtt_client (H-client): every packet written is decoded by the independent decoder, every PUBLISH is compared with the arguments of its async_publish call through the content model"
    report_broken_ties(ctx, found)
    if ctx.tier == "thorough" and not ctx.ties_broken:
        for m, msg in leanchecker(ctx.lean.get("modules", [])):
            ctx.violation("leanchecker", {"module": m, "msg": msg}, found_input=False)
