"""C12 — client-level check (monitors on the real client through H-client; Lean obligations from Props/C12.lean)."""
from vlib import *
import client_check as CC
import stream_check as SC


def run(ctx):
    standard_lean_phase(ctx)
    n = 250 if ctx.tier == "quick" else 6000
    fails = CC.run_scenarios(ctx, "C12", n, steps=60)
    ctx.cov["rule"] = ("generated scenarios through the real mqtt_client on the scripted stream: API calls (publish QoS 0/1/2 with properties, subscribe, unsubscribe, receive, per-operation "
                       "cancellation signals), a broker (acks with reason codes/properties, inbound QoS 0/1/2 messages, held-back replies), byte chunking, connection loss with partial delivery, "
                       "reconnects with changing Receive Maximum / Server Keep Alive / Session Present, virtual time, then a fault-free suffix and cancel() or async_disconnect; "
                       "the C12 monitor runs on every transcript; non-trivial = distinct scenario with >= 2 (re)connections and > 3 operations")
    found = CC.report(ctx, "C12", fails)
    # stream level (real autoconnect_stream over a scripted socket/resolver/clock)
    found = SC.phase(ctx, "C12", 300 if ctx.tier == "quick" else 6000, 150) or found
    report_broken_ties(ctx, found)
    if ctx.tier == "thorough" and not ctx.ties_broken:
        for m, msg in leanchecker(ctx.lean.get("modules", [])):
            ctx.violation("leanchecker", {"module": m, "msg": msg}, found_input=False)
