"""Sender-level lock-step: the real async_sender (mock service) vs the Lean Sender model, plus sender-level monitors."""
from vlib import *


def gen_case(rng):
    lines = ["snd new"]
    nid = 1; serial = 0
    inflight = False; queue = 0; unans = []; written = []
    if rng.random() < 0.7: lines.append(f"snd rm {rng.choice([1, 1, 2, 3, 10, 65535])}")
    # the limit only takes effect at the first resend (as in the client: first connection)
    for _ in range(rng.randint(5, 60)):
        r = rng.random()
        if r < 0.40:
            kind = rng.choice(["pub", "pub", "pub", "pubq0", "sub", "pubrel", "ping", "disc"] if rng.random() < 0.9 else ["term"])
            if kind == "pub": serial += 1; fl, ser, aw = 1, serial, 1
            elif kind == "pubq0": serial += 1; fl, ser, aw = 0, serial, 0
            elif kind == "sub": fl, ser, aw = 0, 0, 1
            elif kind == "pubrel": fl, ser, aw = rng.choice([2, 3]), max(1, serial - rng.randint(0, 2)), 1
            elif kind == "ping": fl, ser, aw = 0, 0, 0
            else: fl, ser, aw = 4, 0, 0
            lines.append(f"snd send {nid} {fl} {ser} {aw}"); nid += 1
        elif r < 0.70: lines.append("snd wdone " + rng.choice(["ok"] * 6 + ["try_again"] * 2 + ["aborted", "no_recovery"] if rng.random() < 0.9 else ["ok"]))
        elif r < 0.85: lines.append(f"snd ack {rng.randint(1, max(1, nid - 1))}")
        elif r < 0.92: lines.append("snd rm " + rng.choice(["none", "1", "2", "3", "65535"]))
        elif r < 0.97: lines.append("snd resend")
        else: lines.append("snd cancel")
    return lines


def monitor(case, outs):
    """sender-level properties on the implementation's outputs"""
    limit = 65535; rm = None
    flags = {}; held = set(); alive = True
    queued_terminal = False
    writing = False
    for l, o in zip(case, outs):
        ws = l.split()
        if o == "bad-op": continue
        if ws[1] == "new": limit = 65535; rm = None; flags = {}; held = set(); writing = False
        if ws[1] == "send": flags[int(ws[2])] = int(ws[3])
        if ws[1] == "rm": rm = None if ws[2] == "none" else int(ws[2])
        if ws[1] == "ack": held.discard(int(ws[2]))       # the reply arrived: that exchange is complete
        if ws[1] == "wdone": writing = False
        # resend() takes the Receive Maximum of the new connection and starts the quota afresh - also when it has nothing to write;
        # from the read path it does nothing while a write is in progress
        if (ws[1] == "wdone" and ws[2] == "try_again") or (ws[1] == "resend" and not writing):
            limit = rm if rm is not None else 65535; held = set()
        for e in ([] if o == "-" else o.split()):
            if e.startswith("w:"):
                ids = [int(x) for x in e[2:].split(",")]
                writing = True
                terms = [i for i in ids if flags.get(i, 0) & 4]
                if terms and len(ids) != 1: return f"terminal request {terms} written together with others: {ids}"
                for i in ids:
                    if flags.get(i, 0) & 1: held.add(i)
                if len(held) > limit: return f"{len(held)} throttled requests in flight with Receive Maximum {limit}: {sorted(held)}"
            elif e.startswith("c:"):
                _, i, ec = e.split(":"); held.discard(int(i))
    return None


def run(ctx, n):
    mdrv, mlog = build_mdrv()
    hb, hlog = build_harness("h_sender")
    if hb is None: ctx.ties_broken.append("harness:h_sender does not compile: " + hlog[-800:]); return False
    if mdrv is None: ctx.ties_broken.append("mdrv does not build: " + mlog[-800:]); return False
    cases = [["snd new", "snd rm 1", "snd send 1 1 1 0", "snd send 2 1 2 0", "snd send 3 0 0 0", "snd wdone try_again", "snd wdone ok", "snd ack 1",
              "snd send 9 4 0 0", "snd wdone ok", "snd wdone ok", "snd cancel"]] + [gen_case(ctx.rng) for _ in range(n)]
    lines = [l for c in cases for l in c]
    impl, rc, err = run_lines(hb, lines)
    found = False
    if rc != 0: ctx.ties_broken.append(f"harness:h_sender exited with {rc}: {err[-500:]}")
    idx = 0
    for c in cases:
        outs = impl[idx: idx + len(c)]; idx += len(c)
        why = monitor(c, outs) if len(outs) == len(c) else None
        if why and not found:
            found = True
            ctx.violation("sender-monitor", {"what": "async_sender violates the property: " + why, "script": c, "impl_output": outs})
    model, _, _ = run_lines(mdrv, lines)
    mism = diff_outputs(lines, impl, model)
    ctx.count("sender-scripts", len(cases)); ctx.cov["evaluations"] = ctx.cov.get("evaluations", 0) + len(cases)
    ctx.cov["sender_lines_validated"] = len(lines) - len(mism)
    if mism:
        i0 = mism[0][0]; pos = 0
        for c in cases:
            if pos + len(c) > i0: break
            pos += len(c)
        def differs(sub):
            a, _, _ = run_lines(hb, ["snd new"] + sub); b, _, _ = run_lines(mdrv, ["snd new"] + sub); return a != b
        small = ["snd new"] + ddmin(c[1:], differs)
        a, _, _ = run_lines(hb, small); b, _, _ = run_lines(mdrv, small)
        ctx.ties_broken.append("correspondence:async_sender lock-step differs (model vs implementation)")
        ctx.notes.append({"sender_mismatch_script": small, "impl": a, "model": b})
    return found
