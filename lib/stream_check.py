"""Runs H-stream scenarios (real autoconnect_stream / reconnect_op / connect_op / read_op / write_op / shutdown_op / resolve_op / async_mutex
over a scripted socket, resolver and virtual clock), evaluates the stream monitors, shrinks failures and ties the CONNECT bytes to the Lean encoder."""
import os, random
import vlib, stream_gen, stream_mon
from client_sim import Harness


def replay_lines(binary, lines):
    """re-run a transcript (lines only) -> transcript with events"""
    h = Harness(binary)
    tr = []; now = 0
    for ln in lines:
        ln = ln.split(" #")[0]
        if ln.startswith("advance "): now += int(ln.split()[1])
        out = h.send(ln)
        if out is None:
            tr.append((ln, ["<crash>"], {}, now)); break
        if out == "bad-op":
            tr.append((ln, ["<bad-op>"], {}, now)); continue
        evs, st = stream_gen.parse(out)
        tr.append((ln, evs, st, now))
    dead = h.dead
    h.close()
    return tr, dead


def evaluate(tr, props, expected=None):
    v = stream_mon.SView(tr)
    res = []
    for p in props:
        if p == "C10": res += stream_mon.mon_c10(v, expected)
        else: res += stream_mon.MONITORS[p](v)
    return res


def run(ctx, binary, mdrv, props, n, steps, seed, tag="stream", profiles=("mixed", "mixed", "friendly", "hostile")):
    """returns ({prop: [(violation, lines, crashed, expected CONNECT)]}, [model-tie disagreements]); fills ctx counters"""
    found = {}
    stats = {}
    runs = []
    for k in range(n):
        rng = random.Random(f"{seed}-{tag}-{k}")
        h = Harness(binary)
        sc = stream_gen.StreamScenario(h, rng, profile=rng.choice(list(profiles))).run(steps)
        h.close()
        for a, b in sc.stat.items(): stats[a] = stats.get(a, 0) + b
        runs.append(sc)
    # expected CONNECT bytes from the Lean encoder model, one batch
    views = [stream_mon.SView(sc.tr) for sc in runs]
    exp = [None] * len(runs)
    if mdrv:
        lines = [v.cfg.enc_line() for v in views]
        outs, rc, err = vlib.run_lines(mdrv, lines)
        for j, o in enumerate(outs[:len(runs)]):
            if o and not o.startswith("bad") and not o.startswith("err"):
                try: exp[j] = bytes.fromhex(o.split()[-1])
                except ValueError: exp[j] = None
        ctx.count("connect-bytes-vs-lean-encoder", sum(1 for e in exp if e is not None))
    for sc, e in zip(runs, exp):
        res = evaluate(sc.tr, props, e)
        if sc.crashed and "C19" in props:
            pass
        for r in res:
            found.setdefault(r["prop"], []).append((r, [ln for ln, _, _, _ in sc.tr], sc.crashed, e))
    ctx.count("stream-scenarios", n)
    ctx.cov["evaluations"] = ctx.cov.get("evaluations", 0) + n
    nontriv = {hash(tuple(l for l, _, _, _ in sc.tr)) for sc in runs if sum(1 for _, evs, _, _ in sc.tr for e in evs if e.startswith("connect ")) >= 2}
    ctx.cov["distinct_nontrivial"] = ctx.cov.get("distinct_nontrivial", 0) + len(nontriv)
    for sc in runs[:2]: ctx.sample(" / ".join(f"{l} -> {' | '.join(e)}"[:120] for l, e, _, _ in sc.tr[:12]))
    ctx.count("stream-lines", sum(len(sc.tr) for sc in runs))
    for a, b in sorted(stats.items()): ctx.count("stream:" + a, b)
    ties = []
    if mdrv:
        ties = hs_tie(ctx, mdrv, runs) + rot_tie(ctx, mdrv, runs) + rd_tie(ctx, mdrv, runs)
    return found, ties


def shrink(binary, lines, prop, what_key, expected=None):
    """ddmin on whole lines keeping 'new', 'cfg', 'open'; a candidate must replay without bad-op and show the same kind of violation"""
    head = [l for l in lines if l.split()[0] in ("new", "cfg", "open")]
    body = [l for l in lines if l.split()[0] not in ("new", "cfg", "open")]

    def fails(sub):
        tr, dead = replay_lines(binary, head + sub)
        if any(evs == ["<bad-op>"] for _, evs, _, _ in tr): return False
        res = evaluate(tr, [prop], expected)
        return any(what_key(r) for r in res)
    if not fails(body): return lines
    return head + vlib.ddmin(body, fails)


# ------------------------------------------------------------------ model ties (Lean `hs` and `rot` engines)
def hs_cases(tr):
    """per socket that received handshake bytes: all bytes delivered before it carried a connection, the size of the read
    issued right after the 5th byte, and the outcome observed on the line of the last delivery.  Handshakes touched by a
    cancel/close, the 5 s timer or a transport error are not verdicts of the framing logic and are left out."""
    out = {}
    was_cur = set(); seen = set(); dirty = set()
    for i, (line, evs, st, t) in enumerate(tr):
        ws = line.split()
        for e in evs:
            w = e.split()
            if w[0] == "sock": seen.add(w[1])
            if w[0] in ("cancelled", "cancelreq") and len(w) > 2: dirty.add(w[2])
        cc = line.endswith((" +cc", " +ccb"))
        if ws and (ws[0] in ("cancel", "close") or cc):
            dirty |= {k for k in seen if k not in out or out[k]["outcome"] in (None, "need")}
            if cc: dirty.add(ws[1])
        if ws and ws[0] == "srdone": dirty.add(ws[1])
        if ws and ws[0] == "srx" and ws[1] not in was_cur and ws[1] not in dirty:
            k = ws[1]
            c = out.setdefault(k, dict(rx=bytearray(), after5=None, outcome=None))
            before = len(c["rx"]); c["rx"].extend(bytes.fromhex(ws[2]))
            srd = [int(e.split()[2]) for e in evs if e.startswith("srd " + k + " ")]
            if before < 5 <= len(c["rx"]) and c["after5"] is None:
                c["after5"] = srd[0] if srd else 0
            if st.get("cur") == k and st.get("wc") == "1": c["outcome"] = "established"; c["sp"] = st.get("sp"); c["caps"] = st.get("caps")
            elif any(e == "sshut " + k for e in evs): c["outcome"] = "shutdown"
            elif srd: c["outcome"] = "need"
            else: c["outcome"] = "other"
            if st.get("open") != "1": dirty.add(k)
        if st.get("wc") == "1": was_cur.add(st.get("cur"))
    return {k: c for k, c in out.items() if k not in dirty or c["outcome"] in ("established", "shutdown")}




def canon_plist(txt):
    """property list text `id=value;…` (model: in arrival order; harness: the container, single-valued slots keep the last value) -> comparable form"""
    out = {}
    for it in (txt or "-").split(";"):
        if it in ("", "-"): continue
        k, _, v = it.partition("=")
        if int(k) == 38: out.setdefault(38, []).append(v)
        else: out[int(k)] = [v]
    return out


def hs_tie(ctx, mdrv, runs):
    """Lean `handshake`/`frame` on the bytes the scripted broker delivered vs what the real connect_op did"""
    qs = []; meta = []
    for sc in runs:
        if getattr(sc, "auth", False): continue          # the handshake model covers the path without authenticator
        for k, c in hs_cases(sc.tr).items():
            if c["outcome"] is None: continue
            rx = bytes(c["rx"])
            qs.append("hs " + rx.hex()); meta.append((sc, k, c, "hs"))
            if len(rx) >= 5:
                qs.append("frame " + rx[:5].hex()); meta.append((sc, k, c, "frame"))
    if not qs: return []
    outs, rc, err = vlib.run_lines(mdrv, qs)
    bad = []
    for (sc, k, c, kind), o in zip(meta, outs):
        if kind == "hs":
            exp = {"established": "established", "retry": "shutdown", "malformed": "shutdown", "need": "need"}.get(o.split()[0], "?")
            if exp != c["outcome"]:
                bad.append(dict(what=f"handshake on {k}: model says '{o}', real connect_op: {c['outcome']}", rx=bytes(c["rx"]).hex(), lines=[l for l, _, _, _ in sc.tr]))
            elif exp == "established":
                # what connect_op stored for the rest of the client: the Session Present flag and the CONNACK properties
                msp = o.split("sp=")[1].split()[0]; mprops = o.split("props=")[1].strip()
                if c.get("sp") is not None and msp != c["sp"]:
                    bad.append(dict(what=f"handshake on {k}: model stores Session Present {msp}, real connect_op stored {c['sp']}", rx=bytes(c["rx"]).hex(), lines=[l for l, _, _, _ in sc.tr]))
                if c.get("caps") is not None:
                    ctx.count("hs-props-compared"); ctx.count("hs-props-nonempty", 1 if canon_plist(mprops) else 0)
                    if canon_plist(mprops) != canon_plist(c["caps"]):
                        bad.append(dict(what=f"handshake on {k}: model stores CONNACK properties {mprops}, real connect_op stored {c['caps']}", rx=bytes(c["rx"]).hex(), lines=[l for l, _, _, _ in sc.tr]))
            ctx.count("hs-model-vs-impl:" + o.split()[0])
        else:
            if o.startswith("more"):
                remain = int(o.split("remain=")[1])
                if c["after5"] is not None and remain != c["after5"]:
                    bad.append(dict(what=f"handshake on {k}: model reads {remain} more bytes after the 5-byte header, real connect_op asked for {c['after5']}", rx=bytes(c["rx"]).hex(), lines=[l for l, _, _, _ in sc.tr]))
            ctx.count("frame-model-vs-impl")
    return bad


def rot_ops(tr, hosts):
    """reconnect operations of a transcript as (outcome tokens, observed action tokens), chained from the start while every
    operation ends with an established connection and nobody cancels; the caller threads the rotation position"""
    ops = []
    cur = None          # dict(out=[], obs=[], eps=None)
    was_cur = set()
    socks = {}          # K -> (host index, ep index)
    host = None
    for i, (line, evs, st, t) in enumerate(tr):
        ws = line.split(); cmd = ws[0] if ws else ""
        if cmd in ("cancel", "close") or line.endswith((" +cc", " +ccb")): break
        failed_before = False
        for e in evs:
            w = e.split()
            if w[0] in ("cancelled", "cancelreq"): failed_before = True
            if w[0] == "resolve":
                if cur is None: cur = dict(out=[], obs=[], eps=None)
                if cur["eps"] is not None: cur["out"].append("".join(cur["eps"])); cur["eps"] = None
                if cmd == "advance" and not failed_before: cur["obs"].append("pause")
                host = hosts.index(w[1]) if w[1] in hosts else -1
                cur["obs"].append(f"resolve:{host}"); cur["pending_resolve"] = True
            elif w[0] == "cancelled" and w[1] == "resolve" and cur is not None:
                cur["out"].append("F"); cur["pending_resolve"] = False
            elif w[0] == "connect" and cur is not None:
                j = int(w[2].split(":")[0].split(".")[-1]) - 1
                socks[w[1]] = (host, j)
                if cur["eps"] is None: cur["eps"] = []
                cur["eps"].append("0")
                cur["obs"].append(f"connect:{host}.{j}")
        if cmd == "resolved" and cur is not None:
            if ws[1] == "0": cur["out"].append("F")
            cur["pending_resolve"] = False
        if cur is not None and st.get("wc") == "1" and st.get("locked") == "0" and st.get("cur") in socks and st.get("cur") not in was_cur:
            h, j = socks[st["cur"]]
            cur["eps"][-1] = "1"; cur["out"].append("".join(cur["eps"])); cur["eps"] = None
            cur["obs"].append(f"up:{h}.{j}")
            ops.append(cur); cur = None
        if st.get("wc") == "1": was_cur.add(st.get("cur"))
    return ops


def rot_tie(ctx, mdrv, runs):
    qs = []; meta = []
    for sc in runs:
        v = stream_mon.SView(sc.tr)
        if v.cfg is None or not v.cfg.hosts: continue
        ops = rot_ops(sc.tr, v.cfg.hosts)
        meta.append((sc, v, ops))
    bad = []
    # thread the position through the operations of each scenario: one mdrv call per "generation" of operations
    pos = {id(sc): 0 for sc, _, _ in meta}
    gen = 0
    while True:
        batch = [(sc, v, ops[gen]) for sc, v, ops in meta if len(ops) > gen and pos.get(id(sc)) is not None]
        if not batch: break
        outs, rc, err = vlib.run_lines(mdrv, [f"rot {len(v.cfg.hosts)} {pos[id(sc)]} 0 " + " ".join(op["out"]) for sc, v, op in batch])
        for (sc, v, op), o in zip(batch, outs):
            if ";" not in o:
                pos[id(sc)] = None; continue
            trace, tail = o.split(" ; ")
            model = [a.split(":")[0] if a.startswith("pause") else a for a in trace.split()]
            if model != op["obs"]:
                bad.append(dict(what=f"reconnect operation #{gen}: model trace {model} != observed {op['obs']} (outcomes {op['out']}, start position {pos[id(sc)]})",
                                lines=[l for l, _, _, _ in sc.tr]))
                pos[id(sc)] = None
            else:
                pos[id(sc)] = int(tail.split("pos=")[1].split()[0])
            ctx.count("rot-model-vs-impl-operations")
            ctx.count("rot-model-vs-impl-actions", len(model))
        gen += 1
    return bad


# ------------------------------------------------------------------ the phase shared by C10/C11/C12/C02/C19
def phase(ctx, prop, n, steps):
    """shared by C10/C11/C12/C02/C19: run H-stream scenarios, evaluate `prop`'s monitor, check the model ties; returns found_any"""
    hb, hlog = vlib.build_harness("h_stream")
    mdrv, mlog = vlib.build_mdrv()
    if hb is None:
        ctx.ties_broken.append("harness:h_stream does not compile against the current headers: " + hlog[-1200:]); return False
    if mdrv is None:
        ctx.ties_broken.append("mdrv does not build: " + mlog[-800:])
    hit = False
    # minimised past failures first
    import glob as _g, os
    for f in sorted(_g.glob(os.path.join(vlib.CORPUS, prop + "-*.txt"))):
        lines = [l.strip() for l in open(f) if l.strip() and not l.startswith("#")]
        if not lines or lines[0] != "new": continue
        tr, dead = replay_lines(hb, lines)
        res = evaluate(tr, [prop])
        ctx.count("corpus-replays")
        if any(e == ["<bad-op>"] for _, e, _, _ in tr):
            ctx.ties_broken.append(f"corpus:{os.path.basename(f)} no longer replays (a line was refused by the harness)")
        if res:
            ctx.violation("stream-corpus", {"what": f"{prop} violated on the real autoconnect_stream (H-stream), corpus {os.path.basename(f)}", "failure": res[0]["what"],
                                            "script": lines, "events": [" | ".join(e)[:300] for _, e, _, _ in tr]})
            hit = True
    found, ties = run(ctx, hb, mdrv, [prop], n, steps, ctx.seed, tag="stream-" + prop)
    for r, lines, crashed, exp in found.get(prop, [])[:1]:
        key = r["what"].split(":")[0][:30]
        small = shrink(hb, lines, prop, lambda x: x["what"].split(":")[0][:30] == key, exp)
        tr, dead = replay_lines(hb, small)
        ctx.violation("stream", {"what": f"{prop} violated on the real autoconnect_stream (H-stream)", "failure": r["what"], "all_failures": len(found[prop]),
                                 "script": small, "events": [" | ".join(e)[:300] for _, e, _, _ in tr],
                                 "stderr": (dead[1][-1500:] if dead else ""), "replay_hint": "feed `script` line by line to .build/h/h_stream/*"})
        hit = True
    if prop == "C12": ties = [b for b in ties if b.get("rd")]
    else: ties = [b for b in ties if not b.get("rd")]
    if prop == "C13": ties = [b for b in ties if "Session Present" in b["what"]]
    if prop == "C15": ties = [b for b in ties if "CONNACK properties" in b["what"]]
    if prop in ("C10", "C12", "C13", "C15"):
        for b in ties[:1]:
            tr, dead = replay_lines(hb, b["lines"])
            ctx.ties_broken.append(("correspondence:" if b.get("rd") else "correspondence:connection model differs from the implementation: ") + b["what"][:600])
            ctx.cov.setdefault("tie_replays", []).append({"what": b["what"], "script": b["lines"]})
    return hit




# ------------------------------------------------------------------ timed read (Lean `tracerd` engine, Model/TraceRd.lean)
def abstract_rd(tr):
    """the timed reads of an H-stream transcript as the alphabet of Model/TraceRd.lean: s:<limit|-> a read begins on a connected stream,
    t:<ms> time passes, f it ends for another reason (bytes, socket error, cancel, close), a the read timer cancelled the socket read, e end of line.
    Which socket read belongs to which read operation is observation; every comparison of times is left to the model."""
    toks = []
    cur = None          # (op id, socket) of the read in progress
    for i, (line, evs, st, t) in enumerate(tr):
        ws = line.split(); cmd = ws[0] if ws else ""
        if evs == ["<crash>"] or evs == ["<bad-op>"]: break
        if cmd == "advance": toks.append(f"t:{int(ws[1])}")
        new = None
        for e in evs:
            w = e.split()
            if w[0] == "srd" and cmd == "read":
                new = (int(ws[1]), w[1], "-" if ws[3] == "inf" else str(int(ws[3])))
            if cur and w[0] in ("cancelled", "cancelreq") and len(w) > 2 and w[1] == "srd" and w[2] == cur[1]:
                toks.append("a" if cmd == "advance" else "f"); cur = None
            if cur and w[0] == "rdone" and int(w[1]) == cur[0]: toks.append("f"); cur = None
            if cur and w[0] == "sclose" and w[1] == cur[1]: toks.append("f"); cur = None
        if cur and cmd in ("srx", "srdone") and ws[1] == cur[1]: toks.append("f"); cur = None
        if new:
            toks.append("s:" + new[2]); cur = (new[0], new[1])
        else:
            toks.append("e")
    return toks


def rd_tie(ctx, mdrv, runs):
    qs = []; keep = []
    for sc in runs:
        toks = abstract_rd(sc.tr)
        if not any(t.startswith("s:") for t in toks): continue
        qs.append("tracerd " + " ".join(toks)); keep.append((sc, toks))
    if not qs: return []
    outs, rc, err = vlib.run_lines(mdrv, qs)
    bad = []
    for (sc, toks), o in zip(keep, outs):
        ctx.count("tracerd:transcripts-replayed-through-timed-read-model")
        ctx.count("tracerd:reads", sum(1 for t in toks if t.startswith("s:")))
        ctx.count("tracerd:abandoned-by-timer", toks.count("a"))
        if o == "accept": continue
        ws = o.split(" ", 3)
        reason = ws[3] if len(ws) > 3 else o
        ctx.count("tracerd:refused:" + reason.split()[0])
        bad.append(dict(what=f"timed-read model (Model/TraceRd.lean) refuses a transcript of the real autoconnect_stream at event {ws[1] if len(ws) > 1 else '?'}: {reason}", lines=[l for l, _, _, _ in sc.tr], rd=True))
    return bad
