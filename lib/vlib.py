"""Core of the runner: translators, Lean build + axiom audit, harness build cache, line-protocol
diffing, violation reporting, known findings, evidence.  Python 3 stdlib only."""
import fcntl, glob, hashlib, json, os, random, re, shutil, subprocess, sys, time

VERIF = os.path.dirname(os.path.dirname(os.path.abspath(__file__)))
REPO = os.environ.get("VERIF_REPO", "/repo")
LEAN = os.path.join(VERIF, "lean")
BUILD = os.path.join(VERIF, ".build")
HARNESS = os.path.join(VERIF, "harness")
EVID = os.path.join(VERIF, "evidence")
REPLAYS = os.path.join(VERIF, "replays")
CORPUS = os.path.join(VERIF, "corpus")
NCPU = os.cpu_count() or 4

ALLOWED_AXIOMS = {"propext", "Quot.sound", "Classical.choice"}
FORBIDDEN_RX = re.compile(r"\bsorry\b|\badmit\b|^axiom |native_decide|bv_decide|implemented_by|\bunsafe |maxHeartbeats 0")

TRANSLATORS = ["extract_reason_codes.py", "extract_utf8_rule.py", "extract_props.py", "extract_timing.py"]

CXX = "clang++-14"
CXXFLAGS = ["-std=c++17", "-O1", "-g", "-fsanitize=address,undefined", "-fno-sanitize-recover=all",
            "-fno-omit-frame-pointer", "-Wno-everything"]


def log(msg):
    sys.stderr.write(msg + "\n")
    sys.stderr.flush()


class Lock:
    def __init__(self, name):
        os.makedirs(BUILD, exist_ok=True)
        self.path = os.path.join(BUILD, name + ".lock")

    def __enter__(self):
        self.f = open(self.path, "w")
        fcntl.flock(self.f, fcntl.LOCK_EX)
        return self

    def __exit__(self, *a):
        fcntl.flock(self.f, fcntl.LOCK_UN)
        self.f.close()


# ---------------------------------------------------------------- translators

def run_translators(only=None):
    """Regenerate lean/Mqtt5V/Gen/*.lean from /repo.  Returns list of (translator, message) failures."""
    failures = []
    with Lock("gen"):
        for t in TRANSLATORS:
            if only and t not in only:
                continue
            p = subprocess.run([sys.executable, os.path.join(VERIF, "tools", t)], capture_output=True, text=True,
                               env=dict(os.environ, VERIF_REPO=REPO))
            if p.returncode != 0:
                failures.append((t, (p.stdout + p.stderr).strip()))
    return failures


# ---------------------------------------------------------------- Lean

def lake(args, timeout=3600):
    with Lock("lake"):
        p = subprocess.run(["lake"] + args, cwd=LEAN, capture_output=True, text=True, timeout=timeout)
    return p.returncode, p.stdout + p.stderr


def theorems_in(path):
    """[(name, line)] of every `theorem` in a Props file"""
    out = []
    depth = 0
    with open(path) as f:
        for i, l in enumerate(f, 1):
            if depth == 0:
                m = re.match(r"\s*(?:@\[[^\]]*\]\s*)?(?:private\s+|protected\s+)?theorem\s+([A-Za-z_][\w.']*)", l)
                if m:
                    out.append((m.group(1), i))
            depth += l.count("/-") - l.count("-/")
            if depth < 0:
                depth = 0
    return out


def namespace_of(path):
    with open(path) as f:
        for l in f:
            m = re.match(r"namespace\s+(\S+)", l)
            if m:
                return m.group(1)
    return ""


def grep_forbidden(paths):
    hits = []
    for p in paths:
        in_block = 0
        with open(p) as f:
            for i, l in enumerate(f, 1):
                s = l
                # strip block comments (possibly nested) and line comments
                res = ""
                j = 0
                while j < len(s):
                    if s.startswith("/-", j):
                        in_block += 1; j += 2; continue
                    if s.startswith("-/", j) and in_block:
                        in_block -= 1; j += 2; continue
                    if not in_block:
                        if s.startswith("--", j):
                            break
                        res += s[j]
                    j += 1
                if FORBIDDEN_RX.search(res):
                    hits.append(f"{os.path.relpath(p, LEAN)}:{i}: {l.strip()}")
    return hits


def lean_sources():
    return sorted(glob.glob(os.path.join(LEAN, "Mqtt5V", "**", "*.lean"), recursive=True) +
                  glob.glob(os.path.join(LEAN, "Driver", "*.lean")))


def imports_closure(mod):
    """transitive closure of Mqtt5V.* imports of a module (file paths)"""
    seen, todo = {}, [mod]
    while todo:
        m = todo.pop()
        if m in seen:
            continue
        p = os.path.join(LEAN, *m.split(".")) + ".lean"
        if not os.path.exists(p):
            continue
        seen[m] = p
        with open(p) as f:
            for l in f:
                mm = re.match(r"import\s+((?:Mqtt5V|Driver)\.[\w.]+)", l)
                if mm:
                    todo.append(mm.group(1))
    return seen


def lean_check(prop_id, extra_modules=()):
    """Build Props.<id> (+ mdrv), audit axioms.  Returns dict with obligations etc."""
    res = {"obligations": [], "discharged": [], "failed": [], "axioms": {}, "bad_axioms": [], "forbidden": [],
           "build_log_tail": "", "mdrv_ok": False}
    mod = f"Mqtt5V.Props.{prop_id}"
    path = os.path.join(LEAN, "Mqtt5V", "Props", f"{prop_id}.lean")
    ths = theorems_in(path)
    ns = namespace_of(path)
    res["obligations"] = [n for n, _ in ths]
    closure = imports_closure(mod)
    res["modules"] = sorted(closure)
    res["forbidden"] = grep_forbidden(list(closure.values()))
    rc, out = lake(["build", mod] + list(extra_modules))
    res["build_log_tail"] = out[-4000:]
    failed_lines = set()
    other_errors = []
    if rc != 0:
        for m in re.finditer(r"error: (\S+?\.lean):(\d+):(\d+):", out):
            f, ln = m.group(1), int(m.group(2))
            if f.endswith(f"Props/{prop_id}.lean"):
                failed_lines.add(ln)
            else:
                other_errors.append(f"{f}:{ln}")
        if not failed_lines and not other_errors:
            other_errors.append("lake build failed: " + out[-600:])
    # map error lines to theorems: the last theorem starting at or before the line
    failed = set()
    for ln in failed_lines:
        cands = [n for n, l in ths if l <= ln]
        failed.add(cands[-1] if cands else f"line{ln}")
    if other_errors:
        res["failed"] = sorted(set(res["obligations"]) | {"import:" + e for e in other_errors})
        return res
    res["failed"] = sorted(failed)
    ok = [n for n in res["obligations"] if n not in failed]
    # axiom audit (only possible when the module compiled)
    if rc == 0 and ok:
        os.makedirs(BUILD, exist_ok=True)
        aud = os.path.join(BUILD, f"Audit_{prop_id}.lean")
        with open(aud, "w") as f:
            f.write(f"import {mod}\n")
            for n in ok:
                f.write(f"#print axioms {ns + '.' if ns else ''}{n}\n")
        rc2, out2 = lake(["env", "lean", aud])
        cur = None
        text = out2.replace("\n  ", " ")
        for m in re.finditer(r"'([^']+)' (depends on axioms: \[([^\]]*)\]|does not depend on any axioms)", text):
            name = m.group(1)
            if ns and name.startswith(ns + "."):
                name = name[len(ns) + 1:]
            axs = [a.strip() for a in (m.group(3) or "").split(",") if a.strip()]
            res["axioms"][name] = axs
            for a in axs:
                if a not in ALLOWED_AXIOMS:
                    res["bad_axioms"].append(f"{name}: {a}")
        for n in ok:
            if n in res["axioms"]:
                res["discharged"].append(n)
            else:
                res["failed"].append(n + " (no axiom report)")
    return res


def build_mdrv():
    rc, out = lake(["build", "mdrv"])
    if rc != 0:
        return None, out[-3000:]
    return os.path.join(LEAN, ".lake", "build", "bin", "mdrv"), ""


def leanchecker(modules):
    bad = []
    for m in modules:
        with Lock("lake"):
            p = subprocess.run(["lake", "env", "leanchecker", m], cwd=LEAN, capture_output=True, text=True)
        if p.returncode != 0:
            bad.append((m, (p.stdout + p.stderr)[-500:]))
    return bad


# ---------------------------------------------------------------- harness build cache

def _tree_hash(paths):
    h = hashlib.sha256()
    for root in paths:
        if os.path.isfile(root):
            files = [root]
        else:
            files = sorted(glob.glob(os.path.join(root, "**", "*"), recursive=True))
        for f in files:
            if os.path.isfile(f):
                h.update(f.encode())
                with open(f, "rb") as fh:
                    h.update(fh.read())
    return h.hexdigest()[:20]


def build_harness(name, extra_flags=(), sanitize=True):
    """Compile harness/<name>.cpp against /repo/include (content-hash cached). Returns (path|None, log)."""
    src = os.path.join(HARNESS, name + ".cpp")
    flags = list(CXXFLAGS if sanitize else ["-std=c++17", "-O1", "-g", "-Wno-everything"]) + list(extra_flags)
    key = _tree_hash([os.path.join(REPO, "include"), src] + sorted(glob.glob(os.path.join(HARNESS, "*.hpp")))) + hashlib.sha256(" ".join(flags).encode()).hexdigest()[:8]
    outdir = os.path.join(BUILD, "h", name)
    binp = os.path.join(outdir, key)
    with Lock("h_" + name):
        if os.path.exists(binp):
            return binp, ""
        os.makedirs(outdir, exist_ok=True)
        # keep the three most recent binaries: another check (another tree through VERIF_REPO) may be running one of them
        for old in sorted(glob.glob(os.path.join(outdir, "*")), key=os.path.getmtime)[:-3]:
            try:
                os.remove(old)
            except OSError:
                pass
        tmp = binp + ".tmp"
        cmd = [CXX] + flags + ["-I" + os.path.join(REPO, "include"), "-I" + HARNESS, src, "-o", tmp, "-lpthread"]
        t0 = time.time()
        p = subprocess.run(cmd, capture_output=True, text=True)
        if p.returncode != 0:
            return None, (p.stdout + p.stderr)[-6000:]
        os.rename(tmp, binp)
        log(f"[build] {name} {time.time() - t0:.1f}s")
        return binp, ""


# ---------------------------------------------------------------- line protocol

def run_lines(binary, lines, args=(), timeout=1800, env=None):
    """Feed lines to a one-line-in/one-line-out engine. Returns (outputs, returncode, stderr_tail)."""
    data = "\n".join(lines) + "\n"
    e = dict(os.environ)
    e.setdefault("ASAN_OPTIONS", "detect_leaks=0:abort_on_error=0:allocator_may_return_null=1")
    e.setdefault("UBSAN_OPTIONS", "print_stacktrace=1")
    if env:
        e.update(env)
    try:
        p = subprocess.run([binary] + list(args), input=data, capture_output=True, text=True, timeout=timeout, env=e)
    except subprocess.TimeoutExpired as ex:
        out = ex.stdout.decode() if isinstance(ex.stdout, bytes) else (ex.stdout or "")
        return out.split("\n")[:-1] if out else [], -999, "timeout"
    outs = p.stdout.split("\n")
    if outs and outs[-1] == "":
        outs.pop()
    return outs, p.returncode, p.stderr[-3000:]


def diff_outputs(lines, a, b):
    """first-class mismatch list: (index, line, a_out, b_out)"""
    mism = []
    n = max(len(a), len(b))
    for i in range(min(len(lines), n)):
        x = a[i] if i < len(a) else "<missing>"
        y = b[i] if i < len(b) else "<missing>"
        if x != y:
            mism.append((i, lines[i], x, y))
    if len(a) != len(lines) or len(b) != len(lines):
        if not mism:
            mism.append((min(len(a), len(b)), "<length>", f"impl={len(a)} lines", f"model={len(b)} lines of {len(lines)}"))
    return mism


# ---------------------------------------------------------------- context, reporting, evidence

class Ctx:
    def __init__(self, prop_id, tier, seed):
        self.id = prop_id
        self.tier = tier
        self.seed = seed
        self.rng = random.Random(seed)
        self.t0 = time.time()
        self.violations = []       # (replay_path, suffix)
        self.known_printed = []
        self.cov = {"evaluations": 0, "distinct_nontrivial": 0, "samples": [], "rule": "", "families": {}}
        self.assumptions = []
        self.notes = []
        self.lean = None
        self.ties_broken = []      # names of theorems / translators / correspondences that no longer check
        self.kf = load_known_findings()

    def count(self, family, n=1):
        self.cov["families"][family] = self.cov["families"].get(family, 0) + n

    def sample(self, s):
        if len(self.cov["samples"]) < 6:
            self.cov["samples"].append(s)

    def write_replay(self, tag, payload):
        os.makedirs(REPLAYS, exist_ok=True)
        body = json.dumps(payload, indent=1, sort_keys=True)
        h = hashlib.sha256((tag + body).encode()).hexdigest()[:10]
        p = os.path.join(REPLAYS, f"{self.id}-{tag}-{h}.json")
        with open(p, "w") as f:
            f.write(body + "\n")
        return p

    def violation(self, tag, payload, found_input=True):
        """report a violation unless a known finding's classifier matches it"""
        payload = dict(payload, property=self.id, seed=self.seed, tier=self.tier, failing_input_found=found_input)
        p = self.write_replay(tag, payload)
        self.violations.append((p, "" if found_input else " no-failing-input-found"))
        return p

    def known(self, what):
        line = f"KNOWN-FINDING: property={self.id} {what}"
        if line not in self.known_printed:
            self.known_printed.append(line)

    def finish(self):
        lean = self.lean or {}
        obligations = len(lean.get("obligations", []))
        discharged = len(lean.get("discharged", []))
        cov = dict(self.cov)
        cov.update({
            "obligations": obligations,
            "discharged": discharged,
            "theorems": lean.get("discharged", []),
            "theorems_failed": lean.get("failed", []),
            "axioms": lean.get("axioms", {}),
            "checker_cmd": f"cd lean && lake build Mqtt5V.Props.{self.id} && lake env lean .build/Audit_{self.id}.lean  (#print axioms of every theorem; via ./vcheck {self.id})",
            "trusted_base": [
                "Lean 4.33 kernel (+ leanchecker re-check in the thorough tier)",
                "axioms: subset of propext, Quot.sound, Classical.choice (printed per theorem in coverage.axioms); no native_decide/bv_decide/sorry/own axioms",
                "Spec/*.lean: my reading of OASIS MQTT 5.0 and of the property text",
                "translators tools/extract_*.py (regenerate Gen/*.lean from /repo on every run)",
                "correspondence harnesses harness/*.cpp running the real headers under ASan/UBSan against the compiled model driver mdrv",
                "clang 14, ASan/UBSan, Boost.Asio 1.83",
            ],
            "modules": lean.get("modules", []),
            "ties_broken": self.ties_broken,
            "notes": self.notes,
            "known_findings_reported": self.known_printed,
        })
        if not cov["samples"]:
            cov["samples"] = ["(no sample recorded)"]
        ev = {
            "property_id": self.id, "tier": self.tier, "seed": self.seed, "level": "proof",
            "coverage": cov, "assumptions": self.assumptions,
            "wall_s": round(time.time() - self.t0, 2), "violations": len(self.violations),
        }
        os.makedirs(EVID, exist_ok=True)
        with open(os.path.join(EVID, f"{self.id}.json"), "w") as f:
            json.dump(ev, f, indent=1)
            f.write("\n")
        for l in self.known_printed:
            print(l)
        for p, suffix in self.violations:
            print(f"VIOLATION property={self.id} replay={p}{suffix}")
        sys.stdout.flush()
        return 1 if self.violations else 0


def load_known_findings():
    p = os.path.join(VERIF, "known_findings.json")
    if not os.path.exists(p):
        return {"findings": [], "fixed": []}
    with open(p) as f:
        return json.load(f)


def standard_lean_phase(ctx, search_fn=None):
    """translators + lean build + audit. Any break is recorded in ctx.ties_broken; the caller's
    search_fn(ctx, broken) looks for a failing input; if none is found the violation is reported
    with no-failing-input-found."""
    fails = run_translators()
    for t, msg in fails:
        ctx.ties_broken.append(f"translator:{t}: {msg}")
    ctx.lean = lean_check(ctx.id)
    for f in ctx.lean["failed"]:
        ctx.ties_broken.append(f"theorem:{f}")
    for f in ctx.lean["forbidden"]:
        ctx.ties_broken.append(f"forbidden-construct:{f}")
    for f in ctx.lean["bad_axioms"]:
        ctx.ties_broken.append(f"axiom:{f}")
    return not ctx.ties_broken


def report_broken_ties(ctx, found_any):
    """after the search: if ties are broken and the search found no concrete failing input, report so"""
    if ctx.ties_broken and not (found_any or getattr(ctx, "found_by_trace", False)):
        ctx.violation("tie", {"what": "proof obligation / translator / correspondence no longer checks and no failing input was found",
                              "broken": ctx.ties_broken, "details": ctx.notes[:5],
                              "lean_log_tail": (ctx.lean or {}).get("build_log_tail", "")[-1500:]}, found_input=False)


def ddmin(items, fails, max_tests=400):
    """delta debugging: smallest sub-list (order kept) for which fails(sub) is True"""
    n = 2
    tests = 0
    items = list(items)
    while len(items) >= 2 and tests < max_tests:
        chunk = max(1, len(items) // n)
        reduced = False
        for i in range(0, len(items), chunk):
            cand = items[:i] + items[i + chunk:]
            tests += 1
            if cand and fails(cand):
                items = cand
                n = max(n - 1, 2)
                reduced = True
                break
        if not reduced:
            if chunk == 1:
                break
            n = min(len(items), n * 2)
    return items


def split_cases(lines, is_start):
    """split a flat script into cases beginning at lines for which is_start(line)"""
    cases, cur = [], []
    for l in lines:
        if is_start(l) and cur:
            cases.append(cur); cur = []
        cur.append(l)
    if cur:
        cases.append(cur)
    return cases
