"""Online driver for the H-client harness: a scripted broker + API user + fault injector (one PRNG), and the transcript.
The harness executes one line at a time and answers with the events of that line; the generator looks at them
(pending read/write, packets written) to choose the next admissible line, so every script satisfies the environment contract."""
import os, random, subprocess, sys
import mqtt_ref as ref


class Harness:
    def __init__(self, binary):
        env = dict(os.environ, ASAN_OPTIONS="detect_leaks=0:abort_on_error=0", UBSAN_OPTIONS="print_stacktrace=1")
        # stderr goes to an unlinked temporary file: a sanitizer report larger than a pipe buffer must not block the harness
        import tempfile
        tdir = os.path.join(os.path.dirname(os.path.dirname(os.path.abspath(__file__))), ".build", "tmp")
        os.makedirs(tdir, exist_ok=True)
        self.errf = tempfile.TemporaryFile(mode="w+", prefix="harness-err-", dir=tdir)
        self.p = subprocess.Popen([binary], stdin=subprocess.PIPE, stdout=subprocess.PIPE, stderr=self.errf, text=True, bufsize=1, env=env)
        self.dead = None

    def send(self, line):
        if self.dead: return None
        try:
            self.p.stdin.write(line + "\n"); self.p.stdin.flush()
            out = self.p.stdout.readline()
        except (BrokenPipeError, OSError):
            out = ""
        if not out:
            try: self.p.wait(timeout=60)
            except Exception: self.p.kill(); self.p.wait()
            self.errf.seek(0); err = self.errf.read()
            self.dead = (self.p.returncode, (err[:1500] + "\n...\n" + err[-1500:]) if len(err) > 3000 else err); return None
        return out.rstrip("\n")

    def close(self):
        try: self.errf.close()
        except Exception: pass
        try:
            self.p.stdin.close(); self.p.wait(timeout=10)
        except Exception:
            self.p.kill()


def parse_out(out):
    """'ev | ev ; st=N' -> ([ev...], stopped)"""
    body, _, st = out.rpartition(" ; st=")
    evs = [] if body == "-" else body.split(" | ")
    return evs, int(st)


class Op:
    def __init__(self, name, kind, **kw):
        self.name = name; self.kind = kind; self.__dict__.update(kw)
        self.done = []          # completion events
        self.cancelled = False  # caller cancelled (signal / cancel() / disconnect / destroy)
        self.t_init = 0


class Session:
    """one scripted run.  transcript = [(line, events, stopped, time_ms)]"""
    def __init__(self, harness, rng, cfg=None):
        self.h = harness; self.rng = rng
        self.tr = []
        self.now = 0
        self.ops = {}
        self.sid = 0                 # current stream id
        self.read_pending = {}       # sid -> (size, timeout)
        self.write_pending = {}      # sid -> [packet bytes]
        self.shut_pending = set()
        self.conn = 0                # connection counter (increments at reconnect)
        self.connected = False
        self.caps = {}               # connack props of the current connection {id: value}
        self.broker_out = bytearray()   # bytes the broker wants to deliver on the current connection
        self.broker_seen = []        # (conn, decoded packet) delivered to the broker
        self.crashed = None
        self.wlog = []               # every async_write: dict(i, conn (None = issued on an unconnected stream), pk, result)
        self.done_seq = []           # every completion in the order it happened
        self.rxlog = []              # (i, conn, bytes) delivered to the client
        self.nop = 0
        self.running = False
        self.stat = {}

    def count(self, k): self.stat[k] = self.stat.get(k, 0) + 1

    def do(self, line):
        out = self.h.send(line)
        if line.startswith("@"): line = line[1:]; self.count("api-call-from-inside-a-handler")
        if out is None:
            self.crashed = (line, self.h.dead); self.tr.append((line, ["<crash>"], 0, self.now)); return []
        if out == "bad-op":
            self.tr.append((line, ["<bad-op>"], 0, self.now)); return ["<bad-op>"]
        evs, st = parse_out(out)
        self.tr.append((line, evs, st, self.now))
        for e in evs:
            ws = e.split()
            if ws[0] == "rd": self.read_pending[int(ws[1][1:])] = (int(ws[2]), ws[3])
            elif ws[0] == "wr":
                pk = [bytes.fromhex(x) if x != "-" else b"" for x in ws[2:]]
                self.write_pending[int(ws[1][1:])] = pk
                self.wlog.append(dict(i=len(self.tr) - 1, conn=self.conn if self.connected else None, pk=pk, result=None, delivered=0, t=self.now))
            elif ws[0] == "shut":
                # shutdown_op swaps the socket out first: from here on the old connection is gone
                self.shut_pending.add(int(ws[1][1:])); self.connected = False; self.broker_out = bytearray()
            elif ws[0] == "open": self.sid = int(ws[1][1:]); self.running = True
            elif ws[0] == "close": self.running = False
            elif ws[0] in ("done", "recvd"):
                self.done_seq.append((len(self.tr) - 1, e))
                op = self.ops.get(ws[1])
                if op is not None: op.done.append((e, len(self.tr) - 1, self.now))
        return evs

    # ---- environment actions (each keeps the environment contract)
    def wdone(self, ec, delivered=None):
        sid = self.sid
        pk = self.write_pending.pop(sid, None)
        if pk is None: return
        early = False
        for w in reversed(self.wlog):
            if w["result"] is None and w["pk"] == pk:
                w["result"] = ec; w["i_done"] = len(self.tr)
                early = w.get("early", False)
                if ec == "ok" or early: w["delivered"] = len(pk)
                delivered = w["delivered"]; break
        if ec == "ok" and not early:
            for b in pk: self.broker_receive(b)      # a failed write delivered what the fault injector decided earlier
        self.do(f"wdone {sid} {ec}" + (f" #delivered={delivered}" if ec != "ok" else ""))

    def deliver_early(self):
        """the bytes of the write in progress reach the broker before the client learns that the write completed"""
        pk = self.write_pending.get(self.sid)
        if pk is None: return
        for w in reversed(self.wlog):
            if w["result"] is None and w["pk"] == pk:
                if w.get("early"): return
                w["early"] = True; w["delivered"] = len(pk); break
        for b in pk: self.broker_receive(b)

    def rx(self, data):
        sid = self.sid
        size, _ = self.read_pending.pop(sid)
        assert len(data) <= size
        self.rxlog.append((len(self.tr), self.conn, bytes(data)))
        self.do(f"rx {sid} {data.hex()}")

    def rdone(self, ec):
        sid = self.sid
        if self.read_pending.pop(sid, None) is None: return
        self.do(f"rdone {sid} {ec}")

    def shutdone(self):
        for sid in sorted(self.shut_pending):
            self.shut_pending.discard(sid); self.do(f"shutdone {sid}")

    def reconnect(self, sp, caps):
        """a (re)connection was established by the layer below: store CONNACK data, then the pending read/write of the old
        connection end with try_again, in either order"""
        had_w = self.write_pending.get(self.sid)
        self.conn += 1; self.connected = True; self.caps = dict(caps); self.broker_out = bytearray()
        if hasattr(self, "held"): self.held = []      # nothing of the old connection reaches the new one
        self.do(f"reconnect {self.sid} {sp} {ref.plist_text(sorted(caps.items()))} #conn={self.conn}")
        # only I/O that was pending on the old connection ends with try_again (what the client starts in reaction belongs to the new one)
        order = [x for x, pend in (("r", self.sid in self.read_pending), ("w", self.sid in self.write_pending)) if pend]
        self.rng.shuffle(order)
        for x in order:
            if x == "r": self.rdone("try_again")
            else: self.wdone("try_again")

    def advance(self, ms):
        self.now += ms
        self.do(f"advance {ms}")

    def broker_receive(self, b):
        try:
            d = ref.decode(b)
        except ref.Malformed as e:
            d = {"type": "malformed", "why": str(e), "raw": b}
        d["raw"] = b
        self.broker_seen.append((self.conn, d, len(self.tr)))
        self.on_broker_packet(d)

    def on_broker_packet(self, d):
        pass
