"""Shared runner for the client-level checks: runs generated scenarios through H-client with every monitor on,
reports failures of the requested property (minimising the scenario by shortening it) and fills coverage."""
import random
from vlib import *
from client_sim import Harness
from client_gen import Scenario
import client_mon as M


def run_scenarios(ctx, prop, n, steps=60, profile="mixed", scenario_cls=Scenario, seeds=None, on_scenario=None):
    hb, hlog = build_harness("h_client")
    if hb is None:
        ctx.ties_broken.append("harness:h_client does not compile: " + hlog[-800:]); return []
    fails = []
    stat = {}; nontriv = set(); total_lines = 0
    for_trace = []
    base = ctx.seed * 1000003
    for k in range(n):
        seed = base + k if seeds is None else seeds[k]
        h = Harness(hb)
        s = scenario_cls(h, random.Random(seed), profile=profile).run(steps)
        h.close()
        total_lines += len(s.tr)
        if on_scenario: on_scenario(seed, s)
        if not s.crashed: for_trace.append((seed, s))
        for kk, vv in s.stat.items(): stat[kk] = stat.get(kk, 0) + vv
        if s.stat.get("drop", 0) + s.stat.get("connect", 0) >= 2 and len(s.ops) > 3: nontriv.add(tuple(l for l, _, _, _ in s.tr))
        v = M.View(s)
        fs = []
        for pid in ([prop] if isinstance(prop, str) else prop):
            try: fs += [(pid, x) for x in M.MONITORS[pid](s, v)]
            except Exception as e:
                import traceback
                fs.append((pid, "monitor raised " + traceback.format_exc()[-500:]))
        if s.crashed: fs.append(("C19", f"harness died at `{s.crashed[0][:100]}`: {str(s.crashed[1])[-800:]}"))
        # failures recognised by the narrow classifier of a recorded known finding are reported as such, not as violations
        known = [(p_, x) for p_, x in fs if x.startswith("KNOWN-")]
        fs = [(p_, x) for p_, x in fs if not x.startswith("KNOWN-")]
        for p_, x in known:
            fid = x.split(":")[0][6:]
            for kf in ctx.kf["findings"]:
                if kf["id"] == fid and kf["property"] == p_:
                    if not any(l.split("property=")[1].split()[1].startswith(fid + ":") for l in ctx.known_printed): ctx.known(f"{fid}: {kf['what']} [scenario seed {seed}]")
                    break
            else:
                fs.append((p_, "unlisted " + x))
        if fs:
            fails.append((seed, steps, s, fs))
            if len(fails) >= 5: break
        if k < 2: ctx.sample({"seed": seed, "script_head": [l for l, _, _, _ in s.tr[:14]], "events_head": [" | ".join(e)[:120] for _, e, _, _ in s.tr[:14]]})
    ctx.cov["evaluations"] = ctx.cov.get("evaluations", 0) + n
    ctx.cov["script_lines"] = ctx.cov.get("script_lines", 0) + total_lines
    ctx.cov["distinct_nontrivial"] = ctx.cov.get("distinct_nontrivial", 0) + len(nontriv)
    for kk, vv in stat.items(): ctx.count("client:" + kk, vv)
    # the composed model must accept every transcript (tie of the end-to-end theorems in Props/C01,C03,C05,C07,C08,C14)
    import trace_check
    if isinstance(prop, str) and (prop in trace_check.TRACE_PROPS or prop in trace_check.CONTENT_PROPS or prop in trace_check.DISC_PROPS or prop in trace_check.KA_PROPS):
        trace_check.check(ctx, prop, for_trace)
    return fails


def shrink(ctx, hb, seed, steps, prop, profile, scenario_cls):
    """shorten the failing scenario (same seed, fewer steps) while the monitor still fails"""
    best = None
    lo = 1
    for st in sorted(set([2, 4, 8, 12, 16, 24, 32, 48, steps])):
        h = Harness(hb); s = scenario_cls(h, random.Random(seed), profile=profile).run(st); h.close()
        v = M.View(s)
        try: fs = [x for x in M.MONITORS[prop](s, v) if not x.startswith("KNOWN-")]      # a recorded finding is not what is being minimised
        except Exception: fs = []
        if s.crashed and prop == "C19": fs = fs or ["crash"]
        if fs: best = (st, s, fs); break
    return best


def report(ctx, prop, fails, profile="mixed", scenario_cls=Scenario):
    if not fails: return False
    hb, _ = build_harness("h_client")
    seed, steps, s, fs = fails[0]
    mine = [x for p, x in fs if p == prop] or [x for p, x in fs]
    sm = shrink(ctx, hb, seed, steps, prop, profile, scenario_cls)
    if sm: steps, s, mine = sm[0], sm[1], sm[2]
    ctx.violation("client", {"what": f"{prop} violated on the real client (H-client)", "failures": mine[:10], "scenario_seed": seed, "steps": steps,
                             "script": [l for l, _, _, _ in s.tr], "events": [" | ".join(e)[:400] for _, e, _, _ in s.tr],
                             "replay_hint": "feed `script` line by line to .build/h/h_client/*"})
    return True


def session_abstract(s):
    """abstract inputs of the session flag machine read off a transcript, and the number of session_expired reports delivered"""
    toks = []
    for line, evs, st, t in s.tr:
        ws = line.split()
        if ws[0] == "reconnect": toks.append("c" + ws[2])
        # the refresh happens at the start of the handler, a SUBACK processed later in the same drain comes after it
        if ws[0] in ("rdone", "wdone") and len(ws) > 2 and ws[2] == "try_again": toks.append("u")
        for e in evs:
            if e.startswith("done S") and " ok " in e:
                rcs = e.split("rcs=")[1].split()[0]
                if rcs != "-" and any(int(x) < 0x80 for x in rcs.split(",")): toks.append("s")
    delivered = sum(1 for i, ev in s.done_seq if ev.startswith("recvd ") and " client:" in ev)
    return toks, delivered


def session_corr(ctx, collected):
    """Lean session model on the abstract inputs vs the reports the real client delivered (scenarios whose channel was drained)"""
    mdrv, _ = build_mdrv()
    if mdrv is None: return
    qs = []; impl = []
    for seed, s in collected:
        if not getattr(s, "channel_drained", False) or s.crashed: continue
        toks, delivered = session_abstract(s)
        qs.append("sess " + " ".join(toks)); impl.append(str(delivered))
    if not qs: return
    model, _, _ = run_lines(mdrv, qs)
    model = [str(m.count("1")) for m in model]
    mism = diff_outputs(qs, impl, model)
    ctx.count("session-abstract-replays", len(qs))
    if mism:
        ctx.ties_broken.append(f"correspondence:session flag model predicts a different number of session_expired reports than the client delivered on {len(mism)} scenarios, first: {mism[0]}")
