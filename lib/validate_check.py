"""Request validation / capability correspondence: requests through the real client (holding a CONNACK with given capabilities)
vs the Lean Validate model: either the packet written or the error reported immediately."""
from vlib import *
from client_sim import Harness, parse_out
import mqtt_ref as ref

TOPICS = [b"t", b"a/b", b"", b"a/#", b"+/x", b"a+", b"$share/g/t", b"$share/g/a/#", b"$share//t", b"$share/g", "é/ü".encode(), b"\xc3\x28", b"a\x00b", b"\x7f", b"#/a", b"x" * 40]
PAY = [b"", b"p", "é".encode(), b"\xff\xfe", b"L" * 30, b"L" * 200]


def gen_caps(rng):
    c = {}
    if rng.random() < 0.4: c[36] = rng.choice([0, 1, 2])
    if rng.random() < 0.3: c[37] = rng.choice([0, 1])
    if rng.random() < 0.4: c[34] = rng.choice([0, 1, 5, 65535])
    if rng.random() < 0.4: c[39] = rng.choice([10, 20, 21, 22, 23, 40, 64, 300])
    if rng.random() < 0.3: c[40] = rng.choice([0, 1])
    if rng.random() < 0.3: c[41] = rng.choice([0, 1])
    if rng.random() < 0.3: c[42] = rng.choice([0, 1])
    return c


def gen_pub(rng):
    ps = []
    if rng.random() < 0.3: ps.append((35, rng.choice([0, 1, 5, 6, 65535])))
    if rng.random() < 0.3: ps.append((1, rng.choice([0, 1])))
    if rng.random() < 0.2: ps.append((8, rng.choice(TOPICS)))
    if rng.random() < 0.2: ps.append((3, rng.choice([b"text", b"\xc0\x80", b"a\x1f"])))
    if rng.random() < 0.2: ps.append((38, (rng.choice([b"k", b"\xff"]), rng.choice([b"v", b"\x01"]))))
    if rng.random() < 0.1: ps.append((11, 5))
    if rng.random() < 0.1: ps.append((9, b"cd"))
    topic = rng.choice(TOPICS[:2]) if rng.random() < 0.6 else rng.choice(TOPICS)
    return dict(kind="pub", qos=rng.randint(0, 2), retain=rng.randint(0, 1), topic=topic, payload=rng.choice(PAY), props=ps)


def gen_sub(rng):
    n = rng.choice([0, 1, 1, 2, 3])
    ts = [(rng.choice(TOPICS[:2] + TOPICS[3:5] + TOPICS[6:8]) if rng.random() < 0.7 else rng.choice(TOPICS), (rng.randint(0, 2), rng.randint(0, 1), rng.randint(0, 1), rng.randint(0, 2))) for _ in range(n)]
    ps = []
    if rng.random() < 0.3: ps.append((11, rng.choice([0, 1, 127, 268435455, 268435456])))
    if rng.random() < 0.2: ps.append((11, rng.choice([0, 7])))       # a second subscription identifier
    if rng.random() < 0.2: ps.append((38, (rng.choice([b"k", b"\xff"]), b"v")))
    return dict(kind="sub", topics=ts, props=ps)


BAD_STR = [b"\x01", b"a\x1fb", b"\xc3", b"\xc3\x28", b"\xef\xbf\xbe", b"\xef\xb7\x90", b"\xed\xa0\x80", b"\xf8\x90\x80\x80", b"\x7f", b"x" * 65536]
GOOD_STR = [b"", b"k", b"v", "é".encode(), b"resp/t"]


def gen_focus(rng):
    """requests that are valid except possibly for one ill-formed string somewhere in their properties, next to other (valid) properties:
    the combinations a per-property test never sees"""
    bad = rng.random() < 0.5
    def s_(): return rng.choice(GOOD_STR)
    if rng.random() < 0.5:
        ps = []
        if rng.random() < 0.6: ps.append((11, rng.choice([1, 127, 268435455])))
        ups = [(s_(), s_()) for _ in range(rng.randint(0, 3))]
        if bad:
            k = rng.randrange(len(ups) + 1); b = rng.choice(BAD_STR)
            ups.insert(k, (b, s_()) if rng.random() < 0.5 else (s_(), b))
        ps += [(38, u) for u in ups]
        if rng.random() < 0.5: rng.shuffle(ps)
        n = rng.choice([1, 2])
        return dict(kind="sub", topics=[(rng.choice([b"t", b"a/#", b"+/x"]), (rng.randint(0, 2), 0, 0, 0)) for _ in range(n)], props=ps)
    ps = []
    if rng.random() < 0.4: ps.append((1, 0))
    if rng.random() < 0.4: ps.append((2, 60))
    if rng.random() < 0.4: ps.append((9, b"cd"))
    slots = [(8, b"resp/t"), (3, b"text/plain")] + [(38, (s_(), s_())) for _ in range(rng.randint(0, 2))]
    slots = [x for x in slots if rng.random() < 0.7]
    if bad:
        b = rng.choice(BAD_STR[:-1]); k = rng.choice(["resp", "ct", "uk", "uv"])
        new = {"resp": (8, rng.choice([b, b"a/#", b"+"])), "ct": (3, b), "uk": (38, (b, s_())), "uv": (38, (s_(), b))}[k]
        if new[0] != 38: slots = [x for x in slots if x[0] != new[0]]       # response topic / content type occur once in a request
        slots.append(new)
    ps += slots
    if rng.random() < 0.5: rng.shuffle(ps)
    return dict(kind="pub", qos=rng.randint(0, 2), retain=0, topic=b"t", payload=b"p", props=ps)


def ill_formed(rq):
    """independent oracle (Python's strict UTF-8 decoder + the MQTT character rules of props/c16.py): is a string of the request ill-formed?"""
    import importlib; c16 = importlib.import_module("props.c16")
    for pid, v in rq["props"]:
        if pid == 38 and not (c16.spec_string(v[0]) and c16.spec_string(v[1])): return f"user property {v[0][:12]!r}/{v[1][:12]!r}"
        if pid == 3 and not c16.spec_string(v): return f"content type {v[:12]!r}"
        if pid == 8 and not c16.spec_name(v): return f"response topic {v[:12]!r}"
    return None


def run(ctx, n, focus=False):
    mdrv, _ = build_mdrv(); hb, hlog = build_harness("h_client")
    if hb is None: ctx.ties_broken.append("harness:h_client does not compile: " + hlog[-500:]); return False
    if mdrv is None: return False
    rng = ctx.rng; h = Harness(hb); qs = []; impl = []; found = False
    for k in range(n):
        if focus: caps = {}; rq = gen_focus(rng)
        else: caps = gen_caps(rng); rq = gen_pub(rng) if rng.random() < 0.6 else gen_sub(rng)
        ctext = ref.plist_text(sorted(caps.items()))
        h.send("new"); h.send("cfg ka=0 cid=63"); h.send("run R"); h.send(f"reconnect 0 1 {ctext}"); h.send("rdone 0 try_again")
        if rq["kind"] == "pub":
            line = f"pub P {rq['qos']} {rq['retain']} {rq['topic'].hex() or '-'} {rq['payload'].hex() or '-'} {ref.plist_text(rq['props'])}"
            q = f"val pub {ctext} 1 {rq['qos']} {rq['retain']} {rq['topic'].hex() or '-'} {rq['payload'].hex() or '-'} {ref.plist_text(rq['props'])}"
        else:
            tt = " ".join(f"{f.hex() or '-'} {o[0]} {o[1]} {o[2]} {o[3]}" for f, o in rq["topics"])
            line = f"sub P {ref.plist_text(rq['props'])} {len(rq['topics'])} {tt}".rstrip()
            q = f"val sub {ctext} 1 {ref.plist_text(rq['props'])} {len(rq['topics'])} {tt}".rstrip()
        out = h.send(line)
        if out is None:
            found = True; ctx.violation("validate-crash", {"what": "client crashed on a request", "request": line, "stderr": str(h.dead)[-1500:]}); break
        evs, _ = parse_out(out)
        wr = [e for e in evs if e.startswith("wr ")]; dn = [e for e in evs if e.startswith("done P ")]
        if wr and not dn: res = "ok " + wr[0].split()[2]
        elif dn and not wr and dn[0].split()[2].startswith("client:"): res = "err " + dn[0].split()[2].split(":")[1]
        else: res = "other " + " | ".join(evs)[:120]
        impl.append(res); qs.append(q)
        why = ill_formed(rq) if focus else None
        if why and res.startswith("ok") and not found:
            found = True
            ctx.violation("validate-accepts-ill-formed", {"what": "C16: a request with an ill-formed string was accepted and written: " + why, "request": line, "client": res[:200]})
        if focus and not why and res.startswith("err") and not found:
            found = True
            ctx.violation("validate-rejects-well-formed", {"what": "C16: a well-formed request was rejected", "request": line, "client": res[:200]})
        ctx.count("validate-" + rq["kind"] + ("-err" if res.startswith("err") else "-ok"))
    h.close()
    model, _, _ = run_lines(mdrv, qs)
    mism = diff_outputs(qs, impl, model)
    ctx.cov["evaluations"] = ctx.cov.get("evaluations", 0) + len(qs)
    ctx.cov["validate_cases_validated"] = len(qs) - len(mism)
    if mism:
        m0 = min(mism, key=lambda m: len(m[1]))
        ctx.ties_broken.append(f"correspondence:request validation model differs from the client on {len(mism)} of {len(qs)} requests, shortest: {str(m0)[:600]}")
    return found
