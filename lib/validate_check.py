"""Request validation / capability correspondence: requests through the real client (holding a CONNACK with given capabilities)
vs the Lean Validate model: either the packet written or the error reported immediately."""
from vlib import *
from client_sim import Harness, parse_out
import mqtt_ref as ref

TOPICS = [b"t", b"a/b", b"", b"a/#", b"+/x", b"a+", b"$share/g/t", b"$share/g/a/#", b"$share//t", b"$share/g", "é/ü".encode(), b"\xc3\x28", b"a\x00b", b"\x7f", b"#/a", b"x" * 40]
PAY = [b"", b"p", "é".encode(), b"\xff\xfe", b"L" * 30, b"L" * 200]


def gen_caps(rng):
    c = {}
    if rng.random() < 0.4: c[36] = rng.choice([0, 1, 2])
    if rng.random() < 0.3: c[37] = rng.choice([0, 1])
    if rng.random() < 0.4: c[34] = rng.choice([0, 1, 5, 65535])
    if rng.random() < 0.4: c[39] = rng.choice([10, 20, 21, 22, 23, 40, 64, 300])
    if rng.random() < 0.3: c[40] = rng.choice([0, 1])
    if rng.random() < 0.3: c[41] = rng.choice([0, 1])
    if rng.random() < 0.3: c[42] = rng.choice([0, 1])
    return c


def gen_pub(rng):
    ps = []
    if rng.random() < 0.3: ps.append((35, rng.choice([0, 1, 5, 6, 65535])))
    if rng.random() < 0.3: ps.append((1, rng.choice([0, 1])))
    if rng.random() < 0.2: ps.append((8, rng.choice(TOPICS)))
    if rng.random() < 0.2: ps.append((3, rng.choice([b"text", b"\xc0\x80", b"a\x1f"])))
    if rng.random() < 0.2: ps.append((38, (rng.choice([b"k", b"\xff"]), rng.choice([b"v", b"\x01"]))))
    if rng.random() < 0.1: ps.append((11, 5))
    if rng.random() < 0.1: ps.append((9, b"cd"))
    topic = rng.choice(TOPICS[:2]) if rng.random() < 0.6 else rng.choice(TOPICS)
    return dict(kind="pub", qos=rng.randint(0, 2), retain=rng.randint(0, 1), topic=topic, payload=rng.choice(PAY), props=ps)


def gen_sub(rng):
    n = rng.choice([0, 1, 1, 2, 3])
    ts = [(rng.choice(TOPICS[:2] + TOPICS[3:5] + TOPICS[6:8]) if rng.random() < 0.7 else rng.choice(TOPICS), (rng.randint(0, 2), rng.randint(0, 1), rng.randint(0, 1), rng.randint(0, 2))) for _ in range(n)]
    ps = []
    if rng.random() < 0.3: ps.append((11, rng.choice([0, 1, 127, 268435455, 268435456])))
    if rng.random() < 0.2: ps.append((11, rng.choice([0, 7])))       # a second subscription identifier
    if rng.random() < 0.2: ps.append((38, (rng.choice([b"k", b"\xff"]), b"v")))
    return dict(kind="sub", topics=ts, props=ps)


def run(ctx, n):
    mdrv, _ = build_mdrv(); hb, hlog = build_harness("h_client")
    if hb is None: ctx.ties_broken.append("harness:h_client does not compile: " + hlog[-500:]); return False
    if mdrv is None: return False
    rng = ctx.rng; h = Harness(hb); qs = []; impl = []; found = False
    for k in range(n):
        caps = gen_caps(rng); rq = gen_pub(rng) if rng.random() < 0.6 else gen_sub(rng)
        ctext = ref.plist_text(sorted(caps.items()))
        h.send("new"); h.send("cfg ka=0 cid=63"); h.send("run R"); h.send(f"reconnect 0 1 {ctext}"); h.send("rdone 0 try_again")
        if rq["kind"] == "pub":
            line = f"pub P {rq['qos']} {rq['retain']} {rq['topic'].hex() or '-'} {rq['payload'].hex() or '-'} {ref.plist_text(rq['props'])}"
            q = f"val pub {ctext} 1 {rq['qos']} {rq['retain']} {rq['topic'].hex() or '-'} {rq['payload'].hex() or '-'} {ref.plist_text(rq['props'])}"
        else:
            tt = " ".join(f"{f.hex() or '-'} {o[0]} {o[1]} {o[2]} {o[3]}" for f, o in rq["topics"])
            line = f"sub P {ref.plist_text(rq['props'])} {len(rq['topics'])} {tt}".rstrip()
            q = f"val sub {ctext} 1 {ref.plist_text(rq['props'])} {len(rq['topics'])} {tt}".rstrip()
        out = h.send(line)
        if out is None:
            found = True; ctx.violation("validate-crash", {"what": "client crashed on a request", "request": line, "stderr": str(h.dead)[-1500:]}); break
        evs, _ = parse_out(out)
        wr = [e for e in evs if e.startswith("wr ")]; dn = [e for e in evs if e.startswith("done P ")]
        if wr and not dn: res = "ok " + wr[0].split()[2]
        elif dn and not wr and dn[0].split()[2].startswith("client:"): res = "err " + dn[0].split()[2].split(":")[1]
        else: res = "other " + " | ".join(evs)[:120]
        impl.append(res); qs.append(q)
        ctx.count("validate-" + rq["kind"] + ("-err" if res.startswith("err") else "-ok"))
    h.close()
    model, _, _ = run_lines(mdrv, qs)
    mism = diff_outputs(qs, impl, model)
    ctx.cov["evaluations"] = ctx.cov.get("evaluations", 0) + len(qs)
    ctx.cov["validate_cases_validated"] = len(qs) - len(mism)
    if mism:
        m0 = min(mism, key=lambda m: len(m[1]))
        ctx.ties_broken.append(f"correspondence:request validation model differs from the client on {len(mism)} of {len(qs)} requests, shortest: {str(m0)[:600]}")
    return found
