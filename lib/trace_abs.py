"""Front end of the composed outbound model (lean/Mqtt5V/Model/Trace.lean): turns one H-client transcript into the model's
event alphabet.  Everything here is observation, not judgement: packets are decoded with the independent reference decoder,
byte strings and property blocks are interned to small integers, operations are numbered in initiation order.

  i:<op>:<kind>:<n>   API call          U:<rm|->  connection established      D  connection given up
  W  write starts     p:…  one packet of it        K / F  write ok / failed
  a:<type>:<pid>:<rcs>:<props>:<wf>   acknowledgement read
  ok:<op>:<rcs>:<props>   exchange completed without error        x:<op>  any other completion
  Q  the client was cancelled / disconnected and the execution context has run out of work
  X  cancel() (also a terminal signal of an exchange, a finished async_disconnect)      R  async_run() again
"""
import mqtt_ref as ref
import client_mon as M

ACK = {"puback": 0x40, "pubrec": 0x50, "pubcomp": 0x70, "suback": 0x90, "unsuback": 0xB0}
ACKN = {v: k for k, v in ACK.items()}


class Interner:
    def __init__(self): self.t = {}
    def __call__(self, key):
        if key not in self.t: self.t[key] = len(self.t) + 1
        return self.t[key]


def props_id(intern, canon):
    """canon = canonical dict {id: [values]}; empty block -> 0"""
    if not canon: return 0
    return intern(("props", repr(sorted((k, [repr(x) for x in v]) for k, v in canon.items()))))


def abstract(s):
    """-> (tokens, why_skipped); the order of the tokens is the order in which things happened inside the client (the harness
    logs writes and completions as they happen and, through the hook in assemble_op, every inbound packet as it is dispatched)."""
    intern = Interner()
    opnum = {}
    def num(name):
        if name not in opnum: opnum[name] = len(opnum) + 1
        return opnum[name]
    toks = []
    tag2op = {o.payload: o for o in s.ops.values() if o.kind == "pub"}
    live_sub = []            # (content key, op name) of (un)subscribes not yet bound to an identifier
    bound = {}               # (type, pid) -> op name while the exchange is outstanding
    done_names = set()
    rbuf = {}                # per connection reassembly
    runs = 0
    conn = 0; connected = False
    skipped = None
    for line, evs, st, t in s.tr:
        ws = line.split()
        if not ws or evs == ["<crash>"] or evs == ["<bad-op>"]: break
        cmd = ws[0]
        if cmd == "pub":
            q = int(ws[2]); toks.append(f"i:{num(ws[1])}:{'pub1' if q == 1 else 'pub2' if q == 2 else 'other'}:1")
        elif cmd == "pubn":
            for i in range(1, int(ws[2]) + 1): toks.append(f"i:{num(ws[1] + str(i))}:{'pub1' if ws[3] == '1' else 'pub2'}:1")
        elif cmd in ("sub", "unsub"):
            o = s.ops.get(ws[1]); n = int(ws[3])
            toks.append(f"i:{num(ws[1])}:{cmd}:{n}")
            if o is not None:
                key = (cmd, repr(o.topics), repr(sorted(M.canon_props(o.props).items(), key=repr)))
                live_sub.append((key, ws[1]))
        elif cmd in ("run", "recv", "disc"):
            if cmd == "run" and runs: toks.append("R")          # async_run() again after a cancel
            if cmd == "run": runs += 1
            toks.append(f"i:{num(ws[1])}:other:1")
        elif cmd == "cancel":
            toks.append("X")
        elif cmd == "sig" and len(ws) > 2 and ws[2] == "terminal":
            o = s.ops.get(ws[1])
            if o is not None and o.kind in ("pub", "sub", "unsub"): toks.append("X")     # a terminal signal of an exchange cancels the whole client
        elif cmd == "reconnect":
            caps = M.plist_parse(ws[3]); rm = caps.get(0x21, [None])[0]
            conn += 1; connected = True; rbuf[conn] = b""
            toks.append(f"U:{rm if rm is not None else '-'}")
        elif cmd == "wdone":
            toks.append("K" if ws[2] == "ok" else "F")
        for e in evs:
            es = e.split()
            if es[0] == "pkt":
                # hook BOOST_MQTT5_VERIF_ON_PACKET: the packet assemble_op is about to dispatch (control byte, body)
                cb = int(es[1], 16); body = bytes.fromhex(es[2]) if es[2] != "-" else b""
                name = ACKN.get(cb & 0xF0)
                if name is None or cb & 0x0F or len(body) < 2: continue        # not an acknowledgement / refused by valid_header / too short for an identifier
                p = bytes([cb]) + ref.e_vint(len(body)) + body
                try:
                    d = ref.decode(p, lenient=True)
                    rcs = d["rcs"] if "rcs" in d else [d["rc"]]
                    toks.append(f"a:{name}:{d['pid']}:{','.join(map(str, rcs)) or '-'}:{props_id(intern, M.canon_props(d['props']))}:1")
                except ref.Malformed:
                    toks.append(f"a:{name}:{int.from_bytes(body[:2], 'big')}:-:0:0")
            elif es[0] == "wr":
                toks.append("W")
                for hx in es[2:]:
                    raw = bytes.fromhex(hx) if hx != "-" else b""
                    try: d = ref.decode(raw)
                    except ref.Malformed: d = {"type": "malformed"}
                    ty = d["type"]
                    if ty == "publish" and d["qos"] > 0:
                        o = tag2op.get(d.get("payload"))
                        masked = bytes([raw[0] & 0xF7]) + raw[1:]
                        toks.append(f"p:P:{num(o.name) if o else 0}:{d['qos']}:{d['pid']}:{(raw[0] >> 3) & 1}:{intern(('body', masked))}")
                    elif ty == "pubrel":
                        toks.append(f"p:R:{d['pid']}")
                    elif ty in ("subscribe", "unsubscribe"):
                        kind = "sub" if ty == "subscribe" else "unsub"
                        key = (kind, repr([(f, o_) for f, o_ in d["topics"]]) if kind == "sub" else repr(d["topics"]), repr(sorted(M.canon_props(d["props"]).items(), key=repr)))
                        nm = bound.get((kind, d["pid"]))
                        if nm is None or nm in done_names:
                            nm = next((n_ for k_, n_ in live_sub if k_ == key and n_ not in done_names and n_ not in bound.values()), None)
                            if nm is not None: bound[(kind, d["pid"])] = nm
                        toks.append(f"p:{'S' if kind == 'sub' else 'U'}:{num(nm) if nm else 0}:{d['pid']}:{intern(('body', raw))}")
                    else:
                        toks.append("p:o")
            elif es[0] in ("shut", "close"):
                connected = False; toks.append("D")
            elif es[0] in ("done", "recvd"):
                name = es[1]
                o = s.ops.get(name)
                if name not in opnum: toks.append(f"i:{num(name)}:other:1")     # an operation the generator did not announce
                df = M.done_fields(e) if es[0] == "done" else {"ec": es[2]}
                done_names.add(name)
                for k_ in [k_ for k_, v_ in bound.items() if v_ == name]: del bound[k_]
                if es[0] == "done" and df["ec"] == "ok" and o is not None and ((o.kind == "pub" and o.qos > 0) or o.kind in ("sub", "unsub")):
                    if o.kind == "pub": rcs = df.get("rc", "0")
                    else: rcs = df.get("rcs", "-")
                    toks.append(f"ok:{num(name)}:{rcs}:{props_id(intern, M.plist_parse(df.get('props', '-')))}")
                else:
                    toks.append(f"x:{num(name)}")
                    if es[0] == "done" and o is not None and o.kind == "disc": toks.append("X")      # a finished async_disconnect has cancelled the client
    # cancel() was called / async_disconnect finished and the harness drained the execution context: nothing may be left outstanding
    if getattr(s, "ended", False) and not s.crashed: toks.append("Q")
    return toks, skipped


def abstract_in(s):
    """inbound side (lean/Mqtt5V/Model/TraceIn.lean):
      U:<sp>  new connection         P:<qos>:<pid>:<msg>  PUBLISH dispatched        L:<pid>:<good>  PUBREL dispatched
      W / p:A|R|C:<pid> / p:o / K / F   a write, its acknowledgements, its end       d:<qos>:<pid>:<msg>  message handed to async_receive
      X  cancel()/disconnect closed the client      S  a subscription succeeded      d:9:0:0  session_expired handed to async_receive"""
    intern = Interner()
    toks = []
    first = {}          # message identity -> (qos, pid) of its first PUBLISH
    for line, evs, st, t in s.tr:
        ws = line.split()
        if not ws or evs == ["<crash>"] or evs == ["<bad-op>"]: break
        cmd = ws[0]
        if cmd == "reconnect": toks.append(f"U:{ws[2]}")
        elif cmd == "wdone": toks.append("K" if ws[2] == "ok" else "F")
        for e in evs:
            es = e.split()
            if es[0] == "pkt":
                cb = int(es[1], 16); body = bytes.fromhex(es[2]) if es[2] != "-" else b""
                p = bytes([cb]) + ref.e_vint(len(body)) + body
                if cb & 0xF0 == 0x30:
                    try: d = ref.decode(p, lenient=True)
                    except ref.Malformed: continue
                    key = ("msg", d["topic"], d["payload"], repr(sorted(M.canon_props(d["props"]).items(), key=repr)))
                    m = intern(key); pid = d["pid"] or 0
                    first.setdefault(m, (d["qos"], pid))
                    toks.append(f"P:{d['qos']}:{pid}:{m}")
                elif cb == 0x62 and len(body) >= 2:
                    try:
                        d = ref.decode(p, lenient=True); good = d["rc"] in (0, 0x92)
                    except ref.Malformed:
                        d = {"pid": int.from_bytes(body[:2], "big")}; good = False
                    toks.append(f"L:{d['pid']}:{1 if good else 0}")
            elif es[0] == "wr":
                toks.append("W")
                for hx in es[2:]:
                    raw = bytes.fromhex(hx) if hx != "-" else b""
                    try: d = ref.decode(raw)
                    except ref.Malformed: d = {"type": "malformed"}
                    code = {"puback": "A", "pubrec": "R", "pubcomp": "C"}.get(d["type"])
                    toks.append(f"p:{code}:{d['pid']}" if code else "p:o")
            elif es[0] == "close":
                toks.append("X")
            elif es[0] == "recvd" and es[2] == "client:102":
                toks.append("d:9:0:0")          # session_expired handed to the application
            elif es[0] == "done" and " ok " in e + " " and "rcs=" in e:
                o = s.ops.get(es[1])
                rcs = e.split("rcs=")[1].split()[0]
                if o is not None and o.kind == "sub" and rcs != "-" and any(int(x) < 0x80 for x in rcs.split(",")): toks.append("S")    # subscriptions_present(true)
            elif es[0] == "recvd" and es[2] == "ok":
                topic = bytes.fromhex(es[3]) if es[3] != "-" else b""; payload = bytes.fromhex(es[4]) if es[4] != "-" else b""
                key = ("msg", topic, payload, repr(sorted(M.plist_parse(es[5]).items(), key=repr)))
                m = intern(key); q, pid = first.get(m, (9, 0))
                toks.append(f"d:{q}:{pid}:{m}")
    return toks, None


def abstract_content(s):
    """content side (lean/Mqtt5V/Model/TraceContent.lean):  i:<op>:<c>  API call with content c      r:<op>:<c>  a PUBLISH of op on the wire says c.
    The content of a publish = (topic, payload, QoS, retain, canonical properties), taken once from the arguments of the API call and once
    from the decoded wire packet (the operation is identified by the name at the start of its payload)."""
    intern = Interner(); opnum = {}
    def num(name):
        if name not in opnum: opnum[name] = len(opnum) + 1
        return opnum[name]
    toks = []
    ops_by_tag = {}
    for line, evs, st, t in s.tr:
        ws = line.split()
        if not ws or evs == ["<crash>"] or evs == ["<bad-op>"]: break
        if ws[0] == "pub":
            o = s.ops.get(ws[1])
            if o is not None:
                c = intern(("pub", o.topic, o.payload, o.qos, o.retain, repr(sorted(M.canon_props(o.props).items(), key=repr))))
                toks.append(f"i:{num(o.name)}:{c}"); ops_by_tag[o.payload.split(b":")[0]] = o
        elif ws[0] == "pubn":
            for i in range(1, int(ws[2]) + 1):
                name = ws[1] + str(i)
                c = intern(("pub", b"t", name.encode(), int(ws[3]), 0, repr([])))
                toks.append(f"i:{num(name)}:{c}")
                class _O: pass
                o = _O(); o.name = name; ops_by_tag[name.encode()] = o
        for e in evs:
            es = e.split()
            if es[0] != "wr": continue
            for hx in es[2:]:
                raw = bytes.fromhex(hx) if hx != "-" else b""
                if not raw or raw[0] & 0xF0 != 0x30: continue
                try: d = ref.decode(raw)
                except ref.Malformed: continue          # C17's own monitor reports packets the reference decoder rejects
                o = ops_by_tag.get(d["payload"].split(b":")[0])
                c = intern(("pub", d["topic"], d["payload"], d["qos"], d["retain"], repr(sorted(M.canon_props(d["props"]).items(), key=repr))))
                toks.append(f"r:{num(o.name) if o else 0}:{c}")
    return toks, None


def abstract_disc(s):
    """write-level projection (lean/Mqtt5V/Model/TraceDisc.lean): U connection up, D given up, W write starts, d a DISCONNECT packet, o another
    packet, K / F the write ends"""
    toks = []
    for line, evs, st, t in s.tr:
        ws = line.split()
        if not ws or evs == ["<crash>"] or evs == ["<bad-op>"]: break
        if ws[0] == "reconnect": toks.append("U")
        elif ws[0] == "wdone": toks.append("K" if ws[2] == "ok" else "F")
        for e in evs:
            es = e.split()
            if es[0] == "wr":
                toks.append("W")
                for hx in es[2:]:
                    raw = bytes.fromhex(hx) if hx != "-" else b""
                    toks.append("d" if raw and raw[0] & 0xF0 == 0xE0 else "o")
            elif es[0] in ("shut", "close"):
                toks.append("D")
    return toks, None


def abstract_ka(s):
    """keep-alive projection with the virtual clock (lean/Mqtt5V/Model/TraceKA.lean):
      c:<k> keep_alive configured    r async_run     U:<ska|-> CONNACK of a new connection (its Server Keep Alive)    f a read ended with try_again
      t:<ms> time passes             d:<ms|-> a read starts with this time-out       w:<ping>:<terminal> a write starts (carries a PINGREQ / is a DISCONNECT alone)
      K / F / A / N the write ends ok / try_again / aborted / no_recovery        x the client closed      e end of the script line (the execution context is drained)"""
    toks = []
    for line, evs, st, t in s.tr:
        ws = line.split()
        if not ws or evs == ["<crash>"] or evs == ["<bad-op>"]: break
        cmd = ws[0]
        if cmd == "cfg":
            for kv in ws[1:]:
                if kv.startswith("ka="): toks.append(f"c:{int(kv[3:])}")
        elif cmd == "run": toks.append("r")
        elif cmd == "reconnect":
            ska = M.plist_parse(ws[3]).get(0x13, [None])[0]
            toks.append(f"U:{ska if ska is not None else '-'}")
        elif cmd == "rdone" and len(ws) > 2 and ws[2] == "try_again": toks.append("f")
        elif cmd == "wdone": toks.append("K" if ws[2] == "ok" else "F" if ws[2] == "try_again" else "N" if ws[2] == "no_recovery" else "A")
        elif cmd == "advance": toks.append(f"t:{int(ws[1])}")
        for e in evs:
            es = e.split()
            if es[0] == "rd": toks.append("d:" + ("-" if es[3] == "inf" else es[3]))
            elif es[0] == "wr":
                pk = [bytes.fromhex(x) if x != "-" else b"" for x in es[2:]]
                ping = any(p == b"\xc0\x00" for p in pk)
                term = len(pk) == 1 and pk[0][:1] != b"" and pk[0][0] & 0xF0 == 0xE0
                toks.append(f"w:{int(ping)}:{int(term)}")
            elif es[0] == "close": toks.append("x")
        toks.append("e")
    return toks, None


def abstract_disct(s):
    """timed projection for the limit of async_disconnect (lean/Mqtt5V/Model/TraceDiscT.lean): i async_disconnect initiated, t:<ms> the clock moves on,
    x its completion handler ran"""
    toks = []
    discs = {o.name for o in s.ops.values() if o.kind == "disc"}
    for line, evs, st, t in s.tr:
        ws = line.split()
        if not ws or evs == ["<crash>"] or evs == ["<bad-op>"]: break
        if ws[0] == "disc": toks.append("i")
        elif ws[0] == "advance": toks.append(f"t:{int(ws[1])}")
        for e in evs:
            es = e.split()
            if es[0] == "done" and es[1] in discs: toks.append("x")
    return toks, None
