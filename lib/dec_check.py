"""Decoder checks: an independent reference encoder produces what a broker may send (C18) and mutations of it (C19);
the real decoders (h_guard, exact-size blocks under ASan) vs the Lean index model vs the sent values."""
from vlib import *
import mqtt_ref as ref

ACKS = ["puback", "pubrec", "pubrel", "pubcomp"]


def rprops(rng, kind, p=0.3, multi_subid=False):
    ps = []
    for pid in sorted(ref.ALLOWED[kind]):
        k = ref.PROP_KIND[pid]
        reps = rng.choice([0, 0, 1, 1, 2, 3]) if pid == 0x26 else (1 if rng.random() < p else 0)
        if pid == 0x0B and kind == "publish" and reps and multi_subid: reps = rng.choice([1, 2, 3])
        for _ in range(reps):
            if k == "u8": v = rng.choice([0, 1, 2, 255])
            elif k == "u16": v = rng.choice([0, 1, 255, 256, 65535])
            elif k == "u32": v = rng.choice([0, 1, 65536, 2 ** 32 - 1])
            elif k == "vint": v = rng.choice([1, 127, 128, 16383, 16384, 2097151, 2097152, 268435455])
            elif k in ("str", "bin"): v = rng.choice([b"", b"a", b"topic/x", "é€".encode(), b"q" * 130])
            else: v = (rng.choice([b"k", b"", b"key"]), rng.choice([b"v", b"", "ü".encode()]))
            ps.append((pid, v))
    rng.shuffle(ps)        # any order is permitted
    return ps


def canon(ps):
    d = {}
    for pid, v in ps: d.setdefault(pid, []).append(v)
    return d


def parse_plist(s):
    from client_mon import plist_parse
    return plist_parse(s)


def gen_wellformed(rng):
    """(dec line, expected dict, kind)"""
    kind = rng.choice(ACKS + ["publish", "publish", "publish", "suback", "unsuback", "connack", "connack", "disconnect", "auth"])
    if kind in ACKS:
        rc = rng.choice([0, 0, 0x10, 0x80, 0x92, 0x97]); ps = rprops(rng, kind) if rng.random() < 0.6 else []
        form = rng.choice(["full", "short"])
        if form == "short" and rc == 0 and not ps: body = b""
        elif form == "short" and not ps: body = bytes([rc])
        else: body = bytes([rc]) + ref.e_props(ps)
        return f"dec {kind} {body.hex() or '-'}", dict(rc=rc, props=canon(ps)), kind
    if kind == "publish":
        qos = rng.randint(0, 2); pid = rng.randint(1, 65535); dup = rng.randint(0, 1) if qos else 0; ret = rng.randint(0, 1)
        topic = rng.choice([b"t", b"a/b/c", "tö".encode(), b""]); payload = rng.choice([b"", b"hello", bytes(range(256)), b"\x00\xff"])
        ps = rprops(rng, kind, multi_subid=True)
        pkt = ref.e_publish(topic, payload, qos, ret, dup, pid, ps)
        r = ref.R(pkt); cb = r.u8(); r.vint(); body = pkt[r.i:]
        return f"dec publish {cb} {body.hex() or '-'}", dict(topic=topic, pid=pid if qos else None, flags=cb & 15, props=canon(ps), payload=payload), kind
    if kind in ("suback", "unsuback"):
        ps = rprops(rng, kind); rcs = [rng.choice([0, 1, 2, 0x80, 0x11, 0x87]) for _ in range(rng.randint(1, 5))]
        body = ref.e_props(ps) + bytes(rcs)
        return f"dec {kind} {body.hex()}", dict(props=canon(ps), rcs=rcs), kind
    if kind == "connack":
        sp = rng.randint(0, 1); rc = rng.choice([0, 0x80, 0x87, 0x9F]); ps = rprops(rng, kind, 0.4)
        body = bytes([sp, rc]) + ref.e_props(ps)
        return f"dec connack {body.hex()}", dict(sp=sp, rc=rc, props=canon(ps)), kind
    rc = rng.choice([0, 0x18, 0x81, 0x8E, 0x9C]); ps = rprops(rng, kind) if rng.random() < 0.7 else []
    form = rng.choice(["full", "short"])
    if form == "short" and rc == 0 and not ps: body = b""
    elif form == "short" and not ps: body = bytes([rc])
    else: body = bytes([rc]) + ref.e_props(ps)
    return f"dec {kind} {body.hex() or '-'}", dict(rc=rc, props=canon(ps)), kind


def parse_out(out):
    if not out.startswith("ok"): return None
    d = {}
    for w in out.split()[1:]:
        if "=" in w:
            k, v = w.split("=", 1); d[k] = v
    return d


def wf_monitor(exp, out, kind):
    d = parse_out(out)
    if d is None: return f"well-formed {kind} not decoded: {out}"
    got = {}
    if "rc" in d: got["rc"] = int(d["rc"])
    if "sp" in d: got["sp"] = int(d["sp"])
    if "props" in d: got["props"] = parse_plist(d["props"])
    if "rcs" in d: got["rcs"] = [int(x) for x in d["rcs"].split(",")] if d["rcs"] else []
    if kind == "publish":
        got["topic"] = bytes.fromhex(d["topic"]) if d["topic"] != "-" else b""
        got["payload"] = bytes.fromhex(d["payload"]) if d["payload"] != "-" else b""
        got["pid"] = None if d["pid"] == "-" else int(d["pid"]); got["flags"] = int(d["flags"])
    for k, v in exp.items():
        gv = got.get(k)
        if k == "props":
            # a single-valued property sent once must come back; user properties and subscription identifiers all, in order
            if gv != v: return f"{kind}: properties decoded {gv} != sent {v}"
        elif gv != v: return f"{kind}: field {k} decoded {gv!r} != sent {v!r}"
    return None


def mutate(rng, line):
    ws = line.split(); hx = ws[-1]; b = bytearray(bytes.fromhex(hx) if hx != "-" else b"")
    k = rng.choice(["trunc", "trunc", "flip", "len+1", "lenmax", "insert", "random", "extend"])
    if k == "trunc" and b: del b[rng.randrange(len(b)):]
    elif k == "flip" and b: i = rng.randrange(len(b)); b[i] ^= 1 << rng.randrange(8)
    elif k == "len+1" and b: i = rng.randrange(len(b)); b[i] = (b[i] + rng.choice([1, 255])) & 0xFF
    elif k == "lenmax" and b: i = rng.randrange(len(b)); b[i] = rng.choice([0x7F, 0x80, 0xFF, 0x00])
    elif k == "insert": i = rng.randint(0, len(b)); b[i:i] = bytes(rng.randrange(256) for _ in range(rng.randint(1, 4)))
    elif k == "random": b = bytearray(rng.randrange(256) for _ in range(rng.randint(0, 24)))
    elif k == "extend": b += bytes(rng.randrange(256) for _ in range(rng.randint(1, 6)))
    ws[-1] = bytes(b).hex() or "-"
    if ws[1] == "publish" and rng.random() < 0.2: ws[2] = str(0x30 | rng.randrange(16))
    return " ".join(ws)


def run_batch(ctx, lines, label):
    """run lines through h_guard and the model; returns (impl outputs, ok?)"""
    mdrv, mlog = build_mdrv(); hb, hlog = build_harness("h_guard")
    if hb is None: ctx.ties_broken.append("harness:h_guard does not compile: " + hlog[-800:]); return None
    if mdrv is None: ctx.ties_broken.append("mdrv does not build: " + mlog[-800:]); return None
    impl, rc, err = run_lines(hb, lines)
    crashed = None
    while rc != 0 and len(impl) < len(lines):
        # a sanitizer fault / crash is a result: record the input, mark it, continue after it
        bad = len(impl)
        if crashed is None: crashed = (lines[bad], err[-1500:])
        more, rc, err = run_lines(hb, lines[bad + 1:])
        impl = impl + ["<fault>"] + more
    model, _, _ = run_lines(mdrv, lines)
    mism = [m for m in diff_outputs(lines, impl, model)]
    ctx.count(label, len(lines))
    if mism:
        m0 = min(mism, key=lambda m: len(m[1]))
        ctx.ties_broken.append(f"correspondence:decoder model differs from implementation on {len(mism)} of {len(lines)} {label} inputs, shortest: {str(m0)[:500]}")
    return impl, crashed
