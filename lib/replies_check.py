"""replies lock-step (real detail::replies vs the Lean model) and the SUBACK/UNSUBACK verdict correspondence through H-client."""
from vlib import *
import random
from client_sim import Harness, parse_out
import mqtt_ref as ref

CODES = [0x40, 0x50, 0x60, 0x70, 0x90, 0xB0]


def gen_case(rng):
    lines = ["rep new"]; w = 1; tag = 100
    for _ in range(rng.randint(5, 50)):
        r = rng.random(); code = rng.choice(CODES); pid = rng.randint(1, 4)
        if r < 0.40: lines.append(f"rep wait {w} {code} {pid}"); w += 1
        elif r < 0.75: lines.append(f"rep dispatch {code} {pid} {tag}"); tag += 1
        elif r < 0.82: lines.append("rep resend")
        elif r < 0.86: lines.append("rep cancel")
        elif r < 0.95: lines.append("rep clearfast")
        else: lines.append("rep clearpubrels")
    return lines


def monitor(case, outs):
    """a waiter completed ok got the bytes of a reply dispatched with its own key; each waiter completes at most once"""
    key = {}; disp = {}; done = set()
    for l, o in zip(case, outs):
        ws = l.split()
        if ws[1] == "new": key = {}; disp = {}; done = set()
        if ws[1] == "wait": key[int(ws[2])] = (int(ws[3]), int(ws[4]))
        if ws[1] == "dispatch": disp[int(ws[4])] = (int(ws[2]), int(ws[3]))
        for e in ([] if o == "-" else o.split()):
            w, rc, tag = e.split(":"); w = int(w); tag = int(tag)
            if w in done: return f"waiter {w} completed twice"
            done.add(w)
            if rc == "ok" and disp.get(tag) != key.get(w): return f"waiter {w} registered for {key.get(w)} completed with reply {tag} dispatched for {disp.get(tag)}"
    return None


def run(ctx, n):
    mdrv, mlog = build_mdrv(); hb, hlog = build_harness("h_replies")
    if hb is None: ctx.ties_broken.append("harness:h_replies does not compile: " + hlog[-800:]); return False
    if mdrv is None: ctx.ties_broken.append("mdrv does not build: " + mlog[-800:]); return False
    cases = [["rep new", "rep wait 1 64 5", "rep wait 2 64 5", "rep dispatch 64 5 77", "rep dispatch 96 3 88", "rep wait 3 96 3", "rep wait 4 96 9",
              "rep wait 5 80 9", "rep clearpubrels", "rep resend"]] + [gen_case(ctx.rng) for _ in range(n)]
    lines = [l for c in cases for l in c]
    impl, rc, err = run_lines(hb, lines)
    if rc != 0: ctx.ties_broken.append(f"harness:h_replies exited with {rc}: {err[-500:]}")
    found = False; idx = 0
    for c in cases:
        outs = impl[idx: idx + len(c)]; idx += len(c)
        why = monitor(c, outs) if len(outs) == len(c) else None
        if why and not found:
            found = True; ctx.violation("replies-monitor", {"what": "replies violates reply matching: " + why, "script": c, "impl_output": outs})
    model, _, _ = run_lines(mdrv, lines)
    mism = diff_outputs(lines, impl, model)
    ctx.count("replies-scripts", len(cases)); ctx.cov["evaluations"] = ctx.cov.get("evaluations", 0) + len(cases)
    if mism:
        i0 = mism[0][0]; pos = 0
        for c in cases:
            if pos + len(c) > i0: break
            pos += len(c)
        def differs(sub):
            a, _, _ = run_lines(hb, ["rep new"] + sub); b, _, _ = run_lines(mdrv, ["rep new"] + sub); return a != b
        small = ["rep new"] + ddmin(c[1:], differs)
        a, _, _ = run_lines(hb, small); b, _, _ = run_lines(mdrv, small)
        ctx.ties_broken.append("correspondence:replies lock-step differs (model vs implementation)")
        ctx.notes.append({"replies_mismatch_script": small, "impl": a, "model": b})
    return found


def verdict_corr(ctx, n):
    """SUBACK / UNSUBACK with arbitrary code lists through the real client vs the Lean verdict model"""
    mdrv, _ = build_mdrv(); hb, hlog = build_harness("h_client")
    if hb is None or mdrv is None: return False
    rng = ctx.rng; found = False
    pool = [0, 1, 2, 0x11, 0x80, 0x83, 0x87, 0x8F, 0x91, 0x97, 0x9E, 0xA1, 0xA2, 0x03, 0x42, 0xFF, 0x92]
    qs = []; impl = []
    h = Harness(hb)
    for k in range(n):
        kind = rng.choice(["sub", "unsub"]); nt = rng.randint(1, 4)
        codes = [rng.choice(pool) for _ in range(rng.choice([nt, nt, nt, nt + 1, max(0, nt - 1)]))] or [0]
        h.send("new"); h.send("cfg ka=0 cid=63"); h.send("run R"); h.send("reconnect 0 1 -"); h.send("rdone 0 try_again")
        if kind == "sub": out = h.send("sub S - %d " % nt + " ".join("74 0 0 0 0" for _ in range(nt)))
        else: out = h.send("unsub S - %d " % nt + " ".join("74" for _ in range(nt)))
        evs, _ = parse_out(out)
        pkt = bytes.fromhex([e for e in evs if e.startswith("wr ")][0].split()[2]); pid = ref.decode(pkt)["pid"]
        h.send("wdone 0 ok")
        out = h.send("rx 0 " + ref.e_suback("suback" if kind == "sub" else "unsuback", pid, codes).hex())
        evs, _ = parse_out(out)
        d = [e for e in evs if e.startswith("done S ")]
        if d and " ok " in d[0]: res = "ok " + d[0].split("rcs=")[1].split()[0]
        elif any(e.startswith("wr ") and e.split()[2].startswith("e0") for e in evs): res = "malformed"
        else: res = "other " + " | ".join(evs)[:100]
        impl.append(res); qs.append(f"verdict {'suback' if kind == 'sub' else 'unsuback'} {nt} " + " ".join(map(str, codes)))
        # the property itself: success only with exactly one admissible code per topic, equal to the acknowledgement's
        if res.startswith("ok") and (len(codes) != nt or res != "ok " + ",".join(map(str, codes))) and not found:
            found = True
            ctx.violation("verdict", {"what": "an acknowledgement with a wrong count / inadmissible code was surfaced as success", "query": qs[-1], "impl": res})
    h.close()
    model, _, _ = run_lines(mdrv, qs)
    mism = diff_outputs(qs, impl, model)
    ctx.count("verdict-cases", n); ctx.cov["evaluations"] = ctx.cov.get("evaluations", 0) + n
    if mism:
        ctx.ties_broken.append(f"correspondence:SUBACK/UNSUBACK verdict model differs from the client on {len(mism)} cases, first: {mism[0]}")
    return found
