"""Scenario generator for H-stream: plays the layer above autoconnect_stream (one timed read always outstanding, writes, shutdown,
cancel/close) and the network below (resolver results, connect results, handshake bytes in any chunking, read/write faults), virtual time.
Every random choice comes from one PRNG; the transcript alone (list of lines) replays the run."""
import mqtt_ref as ref


def parse(out):
    body, _, tail = out.rpartition(" ; ")
    evs = [] if body == "-" else body.split(" | ")
    st = dict(kv.split("=", 1) for kv in tail.split())
    return evs, st


class StreamScenario:
    def __init__(self, harness, rng, profile="mixed"):
        self.h = harness; self.rng = rng; self.profile = profile
        self.tr = []          # (line, events, state, time)
        self.now = 0
        self.crashed = None
        self.socks = {}       # K -> dict(connecting, rd, wr, shut, closed, wrote[], rx bytes delivered, hs = bytes the broker still sends)
        self.resolve_pending = None
        self.done = {}        # op id -> [(event, line index, time)]
        self.issued = {}      # op id -> (kind, line index, time, extra)
        self.nid = 0
        self.stat = {}
        self.open = False
        self.st = {}
        self.cur_read = None
        self.cur_write = None

    def count(self, k): self.stat[k] = self.stat.get(k, 0) + 1

    def do(self, line):
        out = self.h.send(line)
        if out is None:
            self.crashed = (line, self.h.dead); self.tr.append((line, ["<crash>"], {}, self.now)); return []
        if out == "bad-op":
            self.tr.append((line, ["<bad-op>"], {}, self.now)); return ["<bad-op>"]
        evs, st = parse(out)
        self.st = st
        self.tr.append((line, evs, st, self.now))
        for e in evs:
            ws = e.split()
            if ws[0] == "sock": self.socks[ws[1]] = dict(connecting=False, rd=None, wr=None, shut=False, closed=False, wrote=[], hs=None, hsq=[], ok=None, creq=set())
            elif ws[0] == "connect": self.socks[ws[1]]["connecting"] = True
            elif ws[0] == "srd": self.socks[ws[1]]["rd"] = int(ws[2])
            elif ws[0] == "swr":
                s = self.socks[ws[1]]; s["wr"] = bytes.fromhex(ws[2]) if ws[2] != "-" else b""; s["wrote"].append(s["wr"])
            elif ws[0] == "sshut": self.socks[ws[1]]["shut"] = True
            elif ws[0] == "sclose":
                s = self.socks[ws[1]]; s["closed"] = True; s["rd"] = s["wr"] = None; s["shut"] = False; s["connecting"] = False
            elif ws[0] == "cancelled" and ws[1] == "resolve": self.resolve_pending = None
            elif ws[0] == "cancelreq": self.socks[ws[2]]["creq"].add(ws[1])
            elif ws[0] == "cancelled":
                s = self.socks[ws[2]]
                if ws[1] == "srd": s["rd"] = None
                elif ws[1] == "swr": s["wr"] = None
                elif ws[1] == "sshut": s["shut"] = False
                elif ws[1] == "connect": s["connecting"] = False
            elif ws[0] == "resolve": self.resolve_pending = ws[1]
            elif ws[0] in ("rdone", "wdone", "sdone"):
                self.done.setdefault(int(ws[1]), []).append((e, len(self.tr) - 1, self.now))
        return evs

    @property
    def up(self):
        """socket carrying the established connection, if any"""
        if self.st.get("wc") == "1" and self.st.get("locked") == "0":
            k = self.st["cur"]
            if k in self.socks and not self.socks[k]["closed"]: return k
        return None

    # ------------------------------------------------------------ configuration
    def start(self):
        rng = self.rng
        self.do("new")
        nh = rng.choice([1, 1, 2, 3])
        self.hosts = [f"h{i}" + (f":{1884 + i}" if rng.random() < 0.3 else "") for i in range(nh)]
        self.ka = rng.choice([0, 2, 10, 60])
        self.cid = rng.choice([b"cli", b"", b"c" * 23])
        self.user = rng.choice([None, b"u", "üser".encode()])
        self.pw = rng.choice([None, b"p", b"\x00\x01"]) if (self.user is not None or rng.random() < 0.2) else None
        cfg = f"cfg brokers={', '.join(self.hosts).encode().hex()} ka={self.ka} cid={self.cid.hex() or '-'}"
        if self.user is not None: cfg += f" user={self.user.hex()}"
        if self.pw is not None: cfg += f" pass={self.pw.hex()}"
        self.coprops = []
        if rng.random() < 0.5:
            self.coprops = [(0x11, rng.choice([0, 30, 2 ** 32 - 1]))] + ([(0x21, rng.choice([1, 10, 65535]))] if rng.random() < 0.5 else []) \
                + ([(0x26, (b"k", b"v"))] if rng.random() < 0.4 else [])
            cfg += " coprops=" + ref.plist_text(self.coprops)
        self.will = None
        if rng.random() < 0.4:
            wp = [(0x18, 5)] if rng.random() < 0.5 else []
            self.will = dict(topic=b"w/t", message=rng.choice([b"", b"bye"]), qos=rng.randint(0, 2), retain=rng.randint(0, 1), props=wp)
            cfg += f" will={self.will['topic'].hex()}/{self.will['message'].hex() or '-'}/{self.will['qos']}/{self.will['retain']}/{ref.plist_text(wp) or '-'}"
        self.auth = rng.random() < 0.25
        if self.auth: cfg += " auth=6d"
        self.lazy = self.profile != "friendly" and rng.random() < 0.4
        if self.lazy: cfg += " lazycancel=1"
        self.do(cfg)
        self.do("open"); self.open = True
        self.issue_read()

    def issue_read(self):
        self.nid += 1
        self.cur_read = self.nid
        to = "inf" if self.ka == 0 else str(1500 * self.ka)
        self.issued[self.nid] = ("read", len(self.tr), self.now, None if self.ka == 0 else 1500 * self.ka)
        self.do(f"read {self.nid} 64 {to}")

    # ------------------------------------------------------------ network behaviour
    def step(self):
        rng = self.rng
        acts = []
        up = self.up
        if self.resolve_pending: acts.append(("resolve", 30))
        for k, s in self.socks.items():
            if s["closed"]: continue
            if s["connecting"]: acts.append((("conn", k), 30))
            if k != up:
                if s["wr"] is not None: acts.append((("hs-wdone", k), 30))
                if s["rd"] is not None: acts.append((("hs-rx", k), 30))
            else:
                if s["rd"] is not None: acts.append((("rx", k), 10)); acts.append((("rfault", k), 4))
                if s["wr"] is not None: acts.append((("wok", k), 25)); acts.append((("wfault", k), 4))
            if s["shut"]: acts.append((("shutdone", k), 20))
            for op in sorted(s["creq"]):
                live = {"connect": s["connecting"], "srd": s["rd"] is not None, "swr": s["wr"] is not None, "sshut": s["shut"]}[op]
                if live: acts.append((("creq", k, op), 60))
        if self.open:
            acts += [("advance", 10)]
            if self.cur_read is not None and self.cur_read not in self.done and up is not None:
                _, _, t0, lim = self.issued[self.cur_read]
                if lim is not None and self.now < t0 + lim: acts.append(("edge", 3))
            # the layer above keeps at most one write outstanding (async_sender's _write_in_progress)
            if self.cur_write is None or self.cur_write in self.done: acts.append(("write", 8))
            if up is not None: acts.append(("shutdown", 2))
            if self.cur_read in self.done: acts.append(("reread", 40))
            acts.append(("cancel", 1))
            if self.profile != "friendly": acts.append(("restart", 2))
        if not acts: return False
        tot = sum(w for _, w in acts); x = rng.uniform(0, tot)
        for a, w in acts:
            x -= w
            if x <= 0: break
        if a == "resolve":
            n = rng.choice([1, 1, 1, 2, 2, 0]); self.resolve_pending = None; self.do(f"resolved {n}"); self.count(f"resolved-{n}")
        elif a == "advance":
            self.now_adv(rng.choice([1, 100, 499, 500, 999, 1000, 1500, 2999, 3000, 4999, 5000, 5001, 9000, 16500, 20000]))
        elif a == "edge":
            # probe the read limit at its boundary: one millisecond before it, then exactly at it
            _, _, t0, lim = self.issued[self.cur_read]; d = t0 + lim - self.now
            if d > 1: self.now_adv(d - 1)
            self.now_adv(1); self.count("read-limit-edge")
        elif a == "write":
            self.nid += 1; self.cur_write = self.nid; data = rng.choice(["c000", "e000", "3005000174" + "61"]); self.issued[self.nid] = ("write", len(self.tr), self.now, data)
            self.do(f"write {self.nid} {data}"); self.count("write")
        elif a == "shutdown":
            self.nid += 1; self.issued[self.nid] = ("shutdown", len(self.tr), self.now, None); self.do(f"shutdown {self.nid}"); self.count("shutdown")
        elif a == "reread": self.issue_read()
        elif a == "cancel":
            self.do("cancel"); self.do("close"); self.open = False; self.count("cancel-close")
        elif a == "restart":
            # client.cancel() followed by async_run(): cancel-all, close, reopen, and the read loop starts again
            self.do("cancel"); self.do("close"); self.do("open"); self.count("restart")
            self.issue_read()
        elif a[0] == "creq":
            _, k, op = a; s = self.socks[k]; s["creq"].discard(op)
            if op == "connect": s["connecting"] = False; self.do(f"conn {k} aborted")
            elif op == "srd": s["rd"] = None; self.do(f"srdone {k} aborted")
            elif op == "swr": s["wr"] = None; self.do(f"swdone {k} aborted")
            else: s["shut"] = False; self.do(f"sshutdone {k} aborted")
            self.count("lazy-cancel-completed")
        else:
            kind, k = a; s = self.socks[k]
            for op, fl in (("connect", "conn"), ("srd", "rx"), ("srd", "hs-rx"), ("srd", "rfault"), ("swr", "wok"), ("swr", "wfault"), ("swr", "hs-wdone"), ("sshut", "shutdone")):
                if kind == fl: s["creq"].discard(op)
            if kind == "conn":
                r = rng.choice(["ok", "ok", "ok", "refused", "timed_out", "silent"])
                if r == "silent": self.now_adv(rng.choice([2000, 5000])); self.count("conn-silent")
                else:
                    s["connecting"] = False; self.do(f"conn {k} {r}"); self.count("conn-" + r)
            elif kind == "hs-wdone":
                r = rng.choice(["ok"] * 6 + ["reset", "broken_pipe"]); s["wr"] = None
                if r == "ok":
                    if s["hs"] is None:
                        s["hs"] = bytearray(); s["hsq"] = self.broker_handshake(k)
                    if s["hsq"]: s["hs"] += s["hsq"].pop(0)
                self.do(f"swdone {k} {r}")
            elif kind == "hs-rx":
                buf = s["hs"]
                if not buf:
                    r = rng.choice(["silent", "silent", "eof", "reset"])
                    if r == "silent": self.now_adv(rng.choice([1000, 4000, 5000])); self.count("hs-silent")
                    else: s["rd"] = None; self.do(f"srdone {k} {r}"); self.count("hs-" + r)
                else:
                    n = min(len(buf), s["rd"], rng.choice([1, 2, 5, 64])); data = bytes(buf[:n]); del buf[:n]; s["rd"] = None
                    if not buf and rng.random() < 0.12:
                        # the last handshake bytes arrive and the application cancels the client right behind that completion
                        self.do(f"srx {k} {data.hex()} +cc"); self.open = False; self.count("cancel-behind-handshake-completion")
                    else:
                        self.do(f"srx {k} {data.hex()}")
            elif kind == "rx":
                n = min(s["rd"], rng.choice([1, 2, 10])); s["rd"] = None
                if rng.random() < 0.04:
                    self.do(f"srx {k} {bytes(rng.randrange(256) for _ in range(n)).hex()} +ccb"); self.open = False; self.count("cancel-ahead-of-read-completion")
                else:
                    self.do(f"srx {k} {bytes(rng.randrange(256) for _ in range(n)).hex()}"); self.count("rx")
            elif kind == "rfault":
                s["rd"] = None; self.do(f"srdone {k} {rng.choice(['reset', 'eof', 'timed_out', 'fault'])}"); self.count("read-fault")
            elif kind == "wok":
                s["wr"] = None
                if rng.random() < 0.06:
                    # the socket write has succeeded, but the application cancels the client before the completion handler runs
                    self.do(f"swdone {k} ok +ccb"); self.open = False; self.count("cancel-ahead-of-write-completion")
                else: self.do(f"swdone {k} ok")
            elif kind == "wfault":
                s["wr"] = None; self.do(f"swdone {k} {rng.choice(['reset', 'broken_pipe', 'fault'])}"); self.count("write-fault")
            elif kind == "shutdone": s["shut"] = False; self.do(f"sshutdone {k}")
        return True

    def broker_handshake(self, k):
        """packets the broker sends during the handshake, one per client write: with an authenticator 0-2 AUTH (continue) rounds, then the CONNACK"""
        rng = self.rng
        out = []
        if self.auth and self.profile != "hostile":
            for _ in range(rng.choice([0, 0, 1, 2])):
                out.append(ref.e_packet(0xF0, bytes([0x18]) + ref.e_props([(0x15, b"m"), (0x16, b"chal")] if rng.random() < 0.9 else [(0x15, b"x")])))
                self.count("auth-round")
        out.append(self.connack_bytes(k))
        return out

    def connack_bytes(self, k):
        rng = self.rng
        r = rng.random()
        s = self.socks[k]
        if (r < 0.6 and self.profile != "hostile") or self.profile == "friendly":
            sp = rng.randint(0, 1); ps = []
            if rng.random() < 0.3: ps.append((0x21, rng.choice([1, 5])))
            if rng.random() < 0.2: ps.append((0x13, rng.choice([0, 7])))
            if rng.random() < 0.2: ps.append((0x24, rng.choice([0, 1])))
            if rng.random() < 0.15: ps.append((0x27, rng.choice([64, 200])))
            if rng.random() < 0.15: ps += [(0x26, (b"k", b"v")), (0x26, (b"k", b"w"))]
            if self.auth: ps += [(0x15, b"m")] + ([(0x16, b"fin")] if rng.random() < 0.5 else [])
            # now and then a CONNACK far larger than the handshake buffer starts with (reason string / many user properties)
            if rng.random() < 0.15: ps.append((0x1F, b"r" * rng.choice([250, 300, 1000, 5000]))); self.count("connack-large")
            if rng.random() < 0.05: ps += [(0x26, (b"key%d" % i, b"v" * 20)) for i in range(rng.choice([12, 40]))]; self.count("connack-many-user-properties")
            s["ok"] = True
            self.count("connack-ok"); return ref.e_connack(sp, 0, ps)
        s["ok"] = False
        if self.profile == "hostile":
            # a well-formed CONNACK (any reason code, any properties) damaged the way dec_check damages packets
            ps = [(0x21, 5)] * rng.randint(0, 1) + [(0x13, 7)] * rng.randint(0, 1) + [(0x1F, b"why")] * rng.randint(0, 1) + [(0x26, (b"k", b"v"))] * rng.randint(0, 2)
            b = bytearray(ref.e_connack(rng.randint(0, 1), rng.choice([0, 0, 0x80, 0x87, 0x10, 0x9F]), ps))
            k = rng.choice(["none", "trunc", "flip", "byte", "lenmax", "insert", "random", "extend", "type", "shortprops", "shortprops", "rl"])
            if k == "trunc": del b[rng.randrange(len(b)):]
            elif k == "flip": i = rng.randrange(len(b)); b[i] ^= 1 << rng.randrange(8)
            elif k == "byte": i = rng.randrange(len(b)); b[i] = (b[i] + rng.choice([1, 255])) & 0xFF
            elif k == "lenmax": i = rng.randrange(min(len(b), 5)); b[i] = rng.choice([0x7F, 0x80, 0xFF, 0x00])
            elif k == "insert": i = rng.randint(0, len(b)); b[i:i] = bytes(rng.randrange(256) for _ in range(rng.randint(1, 4)))
            elif k == "random": b = bytearray(rng.randrange(256) for _ in range(rng.randint(0, 24)))
            elif k == "extend": b += bytes(rng.randrange(256) for _ in range(rng.randint(1, 6)))
            elif k == "type": b[0] = rng.choice([0xF0, 0xD0, 0x30, 0x21, 0x00])
            elif k == "shortprops" and len(b) > 5 and b[4] > 0: b[4] = rng.randrange(b[4])      # Property Length smaller than what follows
            elif k == "rl" and len(b) > 2: b[1] = (b[1] + rng.choice([1, 2, 255, 254])) & 0x7F
            # keep a declared length small enough to be delivered in this run
            self.count("connack-hostile-" + k); return bytes(b)
        if r < 0.7: self.count("connack-refused"); return ref.e_connack(0, rng.choice([0x80, 0x87, 0x9F]), [])
        if r < 0.8: self.count("connack-malformed"); return bytes([0x20, rng.choice([0, 1, 2])]) + bytes(rng.randrange(256) for _ in range(rng.randint(0, 4)))
        if r < 0.88: self.count("connack-wrongtype"); return ref.e_pingresp() + b"\x00\x00\x00"
        if r < 0.94: self.count("connack-random"); return bytes(rng.randrange(256) for _ in range(rng.randint(1, 12)))
        self.count("connack-none"); return b""

    def now_adv(self, ms):
        self.now += ms; self.do(f"advance {ms}"); self.count("advance")

    def finish(self):
        if self.open:
            self.do("cancel"); self.do("close"); self.open = False
        for _ in range(6):      # operations whose cancellation was only requested end now
            for k, s in self.socks.items():
                for op in sorted(s["creq"]):
                    live = {"connect": s["connecting"], "srd": s["rd"] is not None, "swr": s["wr"] is not None, "sshut": s["shut"]}[op]
                    s["creq"].discard(op)
                    if not live: continue
                    if op == "connect": s["connecting"] = False; self.do(f"conn {k} aborted")
                    elif op == "srd": s["rd"] = None; self.do(f"srdone {k} aborted")
                    elif op == "swr": s["wr"] = None; self.do(f"swdone {k} aborted")
                    else: s["shut"] = False; self.do(f"sshutdone {k} aborted")
        for _ in range(3): self.do("nop")
        self.now_adv(6000); self.do("nop")

    def run(self, nsteps):
        self.start()
        for _ in range(nsteps):
            if self.crashed or not self.step(): break
        if not self.crashed: self.finish()
        return self
