"""H-pubsend: the real publish_send_op (QoS 1 / QoS 2) on a mock service, in lock-step with the Lean model (`pbs` engine), and the
operation rules (Proofs/PubSend.lean `Mon.feed`) evaluated on the implementation's own action traces."""
import random
import vlib


def gen_case(rng):
    """one operation: script of completions that keeps to what is pending (tracked with a tiny shadow of the phases)"""
    q = rng.choice([1, 2, 2])
    lines = [f"pbs new {q}"]
    phase = "send"          # send | wait | sendrel | waitcomp | done
    cancelled = False
    for _ in range(rng.randint(1, 14)):
        if phase == "done": break
        if rng.random() < 0.06 and not cancelled:
            lines.append("pbs cancel"); cancelled = True; continue
        if phase in ("send", "sendrel"):
            r = rng.choice(["ok", "ok", "ok", "try_again", "try_again", "aborted"])
            lines.append(f"pbs sent {r}")
            if r == "ok": phase = "wait" if phase == "send" else "waitcomp"
            elif r == "aborted": phase = "done"
            elif phase == "send" and cancelled: phase = "done"
        else:
            k = rng.choice(["ack", "ack", "ack", "tryagain", "tryagain", "undecodable", "badcode", "failed"])
            if k == "ack":
                # only codes admissible for the awaited packet type (others are the `badcode` input)
                rc = rng.choice([0, 0, 0, 0x92]) if phase == "waitcomp" else rng.choice([0, 0, 0, 0x10, 0x80, 0x97]); p = rng.choice([0, 0, 5, 12345])
                lines.append(f"pbs reply ack {rc} {p}")
                if phase == "waitcomp" or q == 1 or rc >= 0x80: phase = "done"
                else: phase = "sendrel"
            else:
                lines.append(f"pbs reply {k}")
                if k == "failed": phase = "done"
                elif phase == "wait": phase = "done" if cancelled else "send"
                else: phase = "sendrel"
    return lines


def monitor(actions, q2):
    """Python twin of Proofs.PubSend.Mon.feed (search side); returns None or the rule that broke"""
    seen_wait = seen_rel = seen_comp = freed = completed = False
    for a in actions:
        w = a.split()
        if freed and w[0] not in ("completeOk", "completeErr"): return f"`{a}` after the identifier was released"
        if completed: return f"`{a}` after the completion"
        if w[0] == "sendPublish":
            if seen_rel: return "PUBLISH sent again after a PUBREL (a successful PUBREC had been processed)"
            if (w[1] == "true") != seen_wait: return f"PUBLISH sent with DUP={w[1]} although an earlier write {'succeeded' if seen_wait else 'never succeeded'}"
        elif w[0] == "sendPubrel": seen_rel = True
        elif w[0] == "waitAck":
            if seen_rel: return "waiting for PUBACK/PUBREC after a PUBREL"
            seen_wait = True
        elif w[0] == "waitPubcomp":
            if not seen_rel: return "waiting for PUBCOMP without a PUBREL"
            seen_comp = True
        elif w[0] == "freePid":
            if freed: return "identifier released twice"
            freed = True
        elif w[0] in ("completeOk", "completeErr"):
            if not freed: return "completion without releasing the identifier"
            if w[0] == "completeOk" and q2 and int(w[1]) < 128 and not seen_comp: return "QoS 2 success reported without PUBREL/PUBCOMP"
            completed = True
        elif w[0] == "disconnectMalformed": pass
        else: return f"unexpected action `{a}`"
    return None


def run(ctx, n):
    hb, hlog = vlib.build_harness("h_pubsend")
    mdrv, mlog = vlib.build_mdrv()
    if hb is None: ctx.ties_broken.append("harness:h_pubsend does not compile against the current headers: " + hlog[-1000:]); return False
    if mdrv is None: ctx.ties_broken.append("mdrv does not build: " + mlog[-800:]); return False
    rng = random.Random(f"{ctx.seed}-pubsend")
    cases = [["pbs new 2", "pbs sent try_again", "pbs sent ok", "pbs reply tryagain", "pbs sent ok", "pbs reply ack 0 7", "pbs sent ok", "pbs reply tryagain", "pbs sent ok", "pbs reply ack 0 9"]]
    cases += [gen_case(rng) for _ in range(n)]
    lines = [l for c in cases for l in c]
    impl, rc, err = vlib.run_lines(hb, lines)
    if rc != 0 or len(impl) != len(lines):
        ctx.ties_broken.append(f"harness:h_pubsend exited with {rc} after {len(impl)} of {len(lines)} lines: {err[-600:]}")
    model, _, _ = vlib.run_lines(mdrv, lines)
    ctx.count("pubsend-scripts", len(cases)); ctx.count("pubsend-lines", len(lines))
    ctx.cov["evaluations"] = ctx.cov.get("evaluations", 0) + len(cases)
    found = False
    idx = 0; kinds = {}
    for c in cases:
        outs = impl[idx: idx + len(c)]; idx += len(c)
        if len(outs) < len(c): break
        acts = [a for o in outs if o not in ("-", "bad-op") for a in o.split(" | ")]
        for a in acts: kinds[a.split()[0]] = kinds.get(a.split()[0], 0) + 1
        why = monitor(acts, c[0].endswith("2"))
        if why and not found:
            found = True
            def fails(sub, c0=c[0]):
                o, _, _ = vlib.run_lines(hb, [c0] + sub)
                if "bad-op" in o: return False
                return monitor([a for x in o if x != "-" for a in x.split(" | ")], c0.endswith("2")) is not None
            small = [c[0]] + vlib.ddmin(c[1:], fails)
            o, _, _ = vlib.run_lines(hb, small)
            ctx.violation("pubsend", {"what": "publish_send_op breaks an operation rule: " + why, "script": small, "impl_output": o})
    for k, v in sorted(kinds.items()): ctx.count("pubsend-action:" + k, v)
    mism = vlib.diff_outputs(lines, impl, model)
    if mism:
        i0 = mism[0][0]; j = i0
        while j > 0 and not lines[j].startswith("pbs new"): j -= 1
        ctx.ties_broken.append(f"correspondence:publish operation model differs from publish_send_op on {len(mism)} lines; first: script {lines[j:i0 + 1]} impl `{impl[i0] if i0 < len(impl) else None}` model `{model[i0] if i0 < len(model) else None}`")
    return found
