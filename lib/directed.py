"""Directed scenarios: the recorded known findings as fixed scripts (no random choice), run first by their checks so that a finding
that is still present is reported as KNOWN-FINDING on every run, and one that has disappeared is not."""
import mqtt_ref as ref
from client_sim import Op
from client_gen import Scenario


class FixedRng:
    """every choice is the first / smallest one; probabilities never fire"""
    def random(self): return 0.99
    def choice(self, seq): return seq[0]
    def randint(self, a, b): return a
    def randrange(self, a, b=None): return 0 if b is None else a
    def uniform(self, a, b): return a
    def shuffle(self, x): pass


class Directed(Scenario):
    def __init__(self, harness, rng, profile="mixed"):
        super().__init__(harness, FixedRng(), profile=profile)

    def begin(self):
        self.do("new"); self.ka = 0
        self.do("cfg ka=0 cid=636c69 brokers=6c6f63616c686f7374")
        self.ops["R"] = Op("R", "run"); self.do("run R")
        self.ending = "cancel"

    def bpub(self, qos):
        self.bmsg += 1; tag = f"B{self.bmsg}".encode()
        used = {m["pid"] for m in self.bq}; pid = next(i for i in range(1, 65536) if i not in used)
        self.bq.append(dict(pid=pid, qos=qos, state="pub", tag=tag, conn=self.conn, ps=[]))
        self.bsent.append(dict(pid=pid, qos=qos, tag=tag, acked=False))
        self.broker_out += ref.e_publish(b"a/b", tag, qos, 0, 0, pid, [])

    def rx_all(self):
        if self.sid in self.read_pending and self.broker_out:
            data = bytes(self.broker_out); self.broker_out = bytearray(); self.rx(data)

    def lose_connection_after_delivery(self):
        """the write in progress reaches the broker completely, then the connection dies: the client sees try_again"""
        pk = self.write_pending.get(self.sid)
        for w in reversed(self.wlog):
            if w["result"] is None and w["pk"] == pk: w["delivered"] = len(pk); break
        for b in pk: self.broker_receive(b)
        self.reconnect(1, {})


class F25(Directed):
    """inbound QoS 1, PUBACK delivered by a write that ends with try_again"""
    def run(self, nsteps):
        self.begin(); self.reconnect(1, {}); self.api_recv()
        self.bpub(1); self.rx_all()                       # client: PUBACK in a write
        if self.sid in self.write_pending: self.lose_connection_after_delivery()
        self.heal(); self.finish(); return self


class F24(Directed):
    """inbound QoS 2, PUBREC delivered by a write that ends with try_again: the broker's PUBREL is never answered"""
    def run(self, nsteps):
        self.begin(); self.reconnect(1, {}); self.api_recv()
        self.bpub(2); self.rx_all()                       # client: PUBREC in a write
        if self.sid in self.write_pending: self.lose_connection_after_delivery()
        self.heal(); self.finish(); return self


class F26(Directed):
    """inbound QoS 2, PUBCOMP delivered by a write that ends with try_again"""
    def run(self, nsteps):
        self.begin(); self.reconnect(1, {}); self.api_recv()
        self.bpub(2); self.rx_all()                       # client: PUBREC in a write
        if self.sid in self.write_pending: self.wdone("ok")   # broker: PUBREL
        self.rx_all()                                     # client: PUBCOMP in a write
        if self.sid in self.write_pending: self.lose_connection_after_delivery()
        self.heal(); self.finish(); return self


class F21(Directed):
    """async_disconnect while an internal DISCONNECT (malformed packet) is still queued behind a write in progress"""
    def run(self, nsteps):
        self.begin(); self.reconnect(1, {})
        op = Op("P1", "pub", qos=1, topic=b"t", payload=b"P1:x", retain=0, props=[], conn_at_init=self.conn, caps_at_init={})
        op.idx = len(self.tr); self.ops["P1"] = op; self.nop = 1
        self.do("pub P1 1 0 74 50313a78 -")               # PUBLISH in a write that stays in progress
        self.rx(bytes.fromhex("4100"))                    # PUBACK with reserved header flags: the client queues DISCONNECT 0x81 (terminal)
        self.ending = "disc"
        self.end_disc()
        return self
