"""H-frame: the real assemble_op fed with broker byte streams (well-formed, damaged, random) in several chunkings.
 * lock-step with the Lean frame model (`frm` engine): events and read sizes line by line;
 * the property itself on the implementation: the flattened event sequence must not depend on the chunking."""
import random
import vlib
import mqtt_ref as ref
from client_sim import Harness


def gen_stream(rng, maxsz):
    """a connection's worth of broker bytes"""
    out = bytearray(); kinds = []
    for _ in range(rng.randint(1, 8)):
        k = rng.choice(["puback", "pubrec", "pubrel", "pubcomp", "suback", "unsuback", "publish", "publish", "pingresp", "disconnect", "auth", "raw"])
        ps = [(0x1F, b"why")] * rng.randint(0, 1) + [(0x26, (b"k", b"v"))] * rng.randint(0, 1)
        pid = rng.choice([1, 7, 0x1234, 65535])
        if k in ("puback", "pubrec", "pubrel", "pubcomp"): b = ref.e_ack(k, pid, rng.choice([0, 0x10, 0x80]), ps, short=rng.random() < 0.5)
        elif k in ("suback", "unsuback"): b = ref.e_suback(k, pid, [rng.choice([0, 1, 0x80]) for _ in range(rng.randint(1, 3))], ps)
        elif k == "publish":
            q = rng.randint(0, 2); pl = bytes(rng.randrange(256) for _ in range(rng.choice([0, 1, 5, 30, 130])))
            b = ref.e_publish(b"a/b", pl, q, rng.randint(0, 1), 0, pid if q else None, [(0x26, (b"k", b"v"))] * rng.randint(0, 1))
        elif k == "pingresp": b = ref.e_pingresp()
        elif k == "disconnect": b = ref.e_disconnect(rng.choice([0, 0x8B]), ps)
        elif k == "auth": b = ref.e_packet(0xF0, bytes([0x18, 0]))
        else: b = bytes(rng.randrange(256) for _ in range(rng.randint(1, 9)))
        b = bytearray(b)
        r = rng.random()
        if r < 0.25:
            m = rng.choice(["flags", "rl", "rl-big", "trunc", "type0", "byte", "vint4", "vint-nonmin"])
            if m == "flags": b[0] = (b[0] & 0xF0) | rng.randrange(16)
            elif m == "rl" and len(b) > 1: b[1] = (b[1] + rng.choice([1, 255, 2])) & 0x7F
            elif m == "rl-big": b[1:2] = bytes([0xFF, 0xFF, 0xFF, 0x7F]) if rng.random() < 0.5 else bytes([0x80 | (maxsz & 0x7F), (maxsz >> 7) & 0x7F or 1])
            elif m == "trunc" and len(b) > 1: del b[rng.randrange(1, len(b)):]
            elif m == "type0": b[0] &= 0x0F
            elif m == "byte": i = rng.randrange(len(b)); b[i] = rng.randrange(256)
            elif m == "vint4": b[1:2] = bytes([0x80, 0x80, 0x80, 0x80, 0x01])
            elif m == "vint-nonmin" and len(b) > 1 and b[1] < 0x80: b[1:2] = bytes([b[1] | 0x80, 0x00])
            kinds.append(k + "!" + m)
        else: kinds.append(k)
        out += b
    return bytes(out), kinds


def feed(h, maxsz, data, chooser):
    """deliver `data` to one fresh assemble loop; returns (lines, outputs, flattened events without read sizes)"""
    lines = [f"frm new {maxsz if maxsz else '-'}"]; outs = [h.send(lines[0])]
    flat = []
    pos = 0
    while pos < len(data):
        o = outs[-1]
        if o is None or o == "bad-op": break
        evs = o.split(" | ")
        rd = [int(e.split()[1]) for e in evs if e.startswith("rd ")]
        if not rd: break                    # the loop ended with an error: nothing is read any more
        n = max(1, min(chooser(len(data) - pos), rd[-1], len(data) - pos))
        if rd[-1] == 0:
            flat.append("<zero-length read>")      # the buffer is full and the packet is not complete: the loop can never make progress again
            break
        ln = "frm rx " + data[pos:pos + n].hex(); pos += n
        lines.append(ln); outs.append(h.send(ln))
        if outs[-1] is None: break
        flat += [e for e in outs[-1].split(" | ") if not e.startswith("rd ") and e != "-"]
    return lines, outs, flat, pos


def run(ctx, n, seed):
    hb, hlog = vlib.build_harness("h_frame")
    mdrv, mlog = vlib.build_mdrv()
    if hb is None: ctx.ties_broken.append("harness:h_frame does not compile against the current headers: " + hlog[-1000:]); return False
    if mdrv is None: ctx.ties_broken.append("mdrv does not build: " + mlog[-800:]); return False
    rng = random.Random(f"{seed}-frame")
    h = Harness(hb)
    all_lines = []; all_outs = []
    found = False
    kinds_stat = {}
    for k in range(n):
        maxsz = rng.choice([None, None, 20, 64, 200])
        data, kinds = gen_stream(rng, maxsz or 65536)
        if maxsz and rng.random() < 0.5: data += bytes(rng.randrange(256) for _ in range(maxsz + 8))     # enough bytes to fill the receive buffer if a too large packet is let in
        for kk in kinds: kinds_stat[kk] = kinds_stat.get(kk, 0) + 1
        runs = []
        for name, chooser in (("whole", lambda left: left), ("bytewise", lambda left: 1), ("random", lambda left: rng.choice([1, 2, 3, 5, 8, 13, 64]))):
            if h.dead: h = Harness(hb)
            lines, outs, flat, pos = feed(h, maxsz, data, chooser)
            if any(o is None for o in outs):
                ctx.violation("frame-crash", {"what": "assemble_op crashed / sanitizer fault on broker bytes", "stream": data.hex(), "chunking": name, "script": lines,
                                              "stderr": h.dead[1][-1500:] if h.dead else ""})
                found = True; h = Harness(hb); continue
            if "<zero-length read>" in flat and not found:
                ctx.violation("frame-hang", {"what": "C19: assemble_op let in a packet that does not fit its receive buffer: the buffer is full, the next read has length 0 and completes at once with 0 bytes, for ever (the client spins: no DISCONNECT, no reconnect)",
                                             "stream": data.hex(), "max_packet_size": maxsz, "chunking": name, "script": lines, "outputs": outs[-3:]})
                found = True
            runs.append((name, lines, outs, flat))
            all_lines += lines; all_outs += outs
        # the property on the implementation: same packets whatever the chunking
        for name, lines, outs, flat in runs[1:]:
            if flat != runs[0][3] and not found:
                ctx.violation("frame-chunking", {"what": "the packets assemble_op recognises depend on the chunking", "stream": data.hex(), "max_packet_size": maxsz,
                                                 "chunking_a": runs[0][0], "events_a": runs[0][3], "script_a": runs[0][1],
                                                 "chunking_b": name, "events_b": flat, "script_b": lines})
                found = True
    h.close()
    ctx.count("frame-streams", n); ctx.count("frame-lines", len(all_lines))
    for a, b in sorted(kinds_stat.items()): ctx.count("frame:" + a, b)
    ctx.cov["evaluations"] = ctx.cov.get("evaluations", 0) + 3 * n
    # lock-step with the Lean model
    model, rc, err = vlib.run_lines(mdrv, all_lines)
    mism = vlib.diff_outputs(all_lines, all_outs, model)
    ctx.count("frame-lockstep-lines", len(all_lines))
    if mism:
        i0 = mism[0][0]
        j = i0
        while j > 0 and not all_lines[j].startswith("frm new"): j -= 1
        ctx.ties_broken.append(f"correspondence:frame model differs from assemble_op on {len(mism)} lines; first: script {all_lines[j:i0 + 1]} impl `{all_outs[i0]}` model `{model[i0] if i0 < len(model) else None}`")
    return found
