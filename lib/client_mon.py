"""Monitors: each property as an executable predicate on one scenario transcript (implementation side).
Every monitor returns a list of failure descriptions (empty = property held on this run)."""
import mqtt_ref as ref


def canon_props(ps):
    d = {}
    for pid, v in ps: d.setdefault(pid, []).append(v)
    return d


def plist_parse(s):
    """'id=#n;id=hex;id=hex/hex' -> canonical dict"""
    out = []
    if s in ("-", ""): return {}
    for it in s.split(";"):
        k, v = it.split("=", 1); k = int(k)
        if v.startswith("#"): out.append((k, int(v[1:])))
        elif "/" in v:
            a, b = v.split("/"); out.append((k, (bytes.fromhex(a) if a != "-" else b"", bytes.fromhex(b) if b != "-" else b"")))
        else: out.append((k, bytes.fromhex(v) if v != "-" else b""))
    return canon_props(out)


def done_fields(ev):
    ws = ev.split()
    d = {"ec": ws[2], "inside": "inside=1" in ev}
    for w in ws[3:]:
        if "=" in w:
            k, v = w.split("=", 1); d[k] = v
    return d


class View:
    """derived views of a scenario: wire packets with their connection, inbound packets with arrival index"""
    def __init__(self, s):
        self.s = s
        self.wire = []       # dict(i, conn, dec, raw, batch_result, delivered(bool), t, pos)
        for w in s.wlog:
            for k, b in enumerate(w["pk"]):
                try: d = ref.decode(b)
                except ref.Malformed as e: d = {"type": "malformed", "why": str(e)}
                self.wire.append(dict(i=w["i"], conn=w["conn"], dec=d, raw=b, result=w["result"], delivered=k < w["delivered"], t=w["t"], i_done=w.get("i_done")))
        # inbound: reassemble per connection
        self.inb = []        # dict(i, conn, dec, raw)
        buf = {}
        for i, conn, data in s.rxlog:
            b = buf.get(conn, b"") + data
            pk, rest = ref.split_stream(b)
            buf[conn] = rest
            for p in pk:
                # inbound packets: the receiver-side leniencies listed in DESIGN.md are not malformations for the monitors
                try: d = ref.decode(p, lenient=True)
                except ref.Malformed as e: d = {"type": "malformed", "why": str(e)}
                self.inb.append(dict(i=i, conn=conn, dec=d, raw=p))
        self.tag2op = {o.payload: o for o in s.ops.values() if o.kind == "pub"}

    def op_of_publish(self, d):
        return self.tag2op.get(d.get("payload"))


# ---------------------------------------------------------------- C17 (wire): everything written decodes
def mon_c17(s, v):
    return [f"line {w['i']}: written packet {w['raw'].hex()[:80]} rejected by the independent decoder: {w['dec']['why']}" for w in v.wire if w["dec"]["type"] == "malformed"]


# ---------------------------------------------------------------- C05
def mon_c05(s, v):
    f = []
    for o in s.ops.values():
        if len(o.done) > 1: f.append(f"{o.name}: completion handler invoked {len(o.done)} times: {[d[0] for d in o.done]}")
        for ev, i, t in o.done:
            if "inside=1" in ev: f.append(f"{o.name}: completed from inside the initiating call: {ev}")
    if s.crashed: return f
    if getattr(s, "ended", False):
        for o in s.ops.values():
            if not o.done: f.append(f"{o.name} ({o.kind}) never completed although cancel()/async_disconnect finished and the context was drained")
        # cancel(): outstanding at the call; async_disconnect: outstanding when it finished (while it is in progress others may still complete normally)
        ci = getattr(s, "cancel_idx", None)
        if s.ending == "disc":
            dd = [o for o in s.ops.values() if o.kind == "disc" and o.done]
            ci = dd[0].done[0][1] if dd else None
        if ci is not None:
            for o in s.ops.values():
                if o.kind == "disc": continue
                for ev, i, t in o.done:
                    inflight_q0 = o.kind == "pub" and o.qos == 0 and any(w["i"] < ci and (w.get("i_done") or 10 ** 9) >= ci and o.payload in b for w in s.wlog for b in w["pk"])
                    if i >= ci and done_fields(ev)["ec"] != "aborted" and not inflight_q0 and not (o.kind in ("pub", "sub", "unsub") and i == ci):
                        # an operation that was already completing when cancel() was called may still report its own result
                        if not getattr(o, "completing", False):
                            f.append(f"{o.name}: outstanding at cancel()/async_disconnect but completed with {done_fields(ev)['ec']} instead of operation_aborted")
        if getattr(s, "final_stopped", 1) != 1: f.append("execution context did not run out of work after cancel()/async_disconnect and a full drain")
    return f


# ---------------------------------------------------------------- C08 (wire level)
def mon_c08(s, v):
    f = []
    # outstanding interval of an exchange: from first wire appearance of (kind,pid,tag) to completion of its op
    live = {}   # pid -> op name
    events = []
    for w in v.wire:
        d = w["dec"]
        if d["type"] in ("publish", "subscribe", "unsubscribe") and d.get("pid") is not None:
            if d["pid"] == 0: f.append(f"line {w['i']}: packet identifier 0 in {d['type']}")
    # map ops to pids through their wire packets
    op_pid = {}
    for w in v.wire:
        d = w["dec"]
        if d["type"] == "publish" and d["qos"] > 0:
            o = v.op_of_publish(d)
            if o: op_pid.setdefault(o.name, set()).add(d["pid"])
    for name, pids in op_pid.items():
        if len(pids) > 1: f.append(f"{name}: its PUBLISH was transmitted with different packet identifiers {sorted(pids)}")
    # two ops outstanding at the same time with the same pid
    spans = []
    for name, pids in op_pid.items():
        o = s.ops[name]; first = min(w["i"] for w in v.wire if w["dec"]["type"] == "publish" and v.op_of_publish(w["dec"]) is o)
        end = o.done[0][1] if o.done else 10 ** 9
        for p in pids: spans.append((p, first, end, name))
    spans.sort()
    for a in range(len(spans)):
        for b in range(a + 1, len(spans)):
            if spans[a][0] != spans[b][0]: break
            p, s1, e1, n1 = spans[a]; _, s2, e2, n2 = spans[b]
            if s1 < e2 and s2 < e1: f.append(f"packet identifier {p} used by {n1} (lines {s1}-{e1}) and {n2} (lines {s2}-{e2}) at the same time")
    return f


# ---------------------------------------------------------------- C06
def mon_c06(s, v):
    f = []
    per_conn = {}
    for w in v.wire:
        if w["conn"] is None: continue
        d = w["dec"]
        if d["type"] != "publish": continue
        o = v.op_of_publish(d)
        if not o: continue
        per_conn.setdefault(w["conn"], []).append((o.idx, o.name, d["qos"], w["i"]))
    caps = conn_caps(s)
    for c, seq in per_conn.items():
        no_rm = 0x21 not in caps.get(c, {})
        last = -1; lastn = None
        for idx, name, qos, i in seq:
            if qos == 0 and not no_rm: continue
            if idx < last: f.append(f"connection {c}: PUBLISH of {name} (initiated at line {idx}) is on the wire (line {i}) after {lastn} (initiated at line {last})")
            if idx > last: last, lastn = idx, name
    return f


def conn_caps(s):
    caps = {}
    for line, evs, st, t in s.tr:
        if line.startswith("reconnect "):
            ws = line.split(); c = int(line.split("#conn=")[1]); caps[c] = plist_parse(ws[3])
    return caps


# ---------------------------------------------------------------- C07
def mon_c07(s, v):
    """in-flight QoS>0 PUBLISH per connection vs the Receive Maximum of its CONNACK.  The order of things inside one drain is the real one:
    the harness logs writes as they happen and (hook in assemble_op) every inbound packet as it is dispatched."""
    f = []
    caps = conn_caps(s)
    conn = None; c = 0
    inflight = set()
    for i, (line, evs, st, t) in enumerate(s.tr):
        ws = line.split()
        if ws and ws[0] == "reconnect":
            c = int(line.split("#conn=")[1]); conn = c; inflight = set()
        for e in evs:
            es = e.split()
            if es[0] in ("shut", "close"): conn = None; inflight = set()
            elif es[0] == "pkt" and conn is not None:
                cb = int(es[1], 16); body = bytes.fromhex(es[2]) if es[2] != "-" else b""
                try: d = ref.decode(bytes([cb]) + ref.e_vint(len(body)) + body, lenient=True)
                except ref.Malformed: continue
                if d["type"] in ("puback", "pubcomp") or (d["type"] == "pubrec" and d["rc"] >= 0x80): inflight.discard(d["pid"])
            elif es[0] == "wr" and conn is not None:
                for hx in es[2:]:
                    raw = bytes.fromhex(hx) if hx != "-" else b""
                    try: d = ref.decode(raw)
                    except ref.Malformed: continue
                    if d["type"] == "publish" and d["qos"] > 0:
                        inflight.add(d["pid"])
                        rm = caps.get(conn, {}).get(0x21, [65535])[0]
                        if len(inflight) > rm: f.append(f"connection {conn} (Receive Maximum {rm}): {len(inflight)} QoS>0 PUBLISH in flight after line {i}: ids {sorted(inflight)}")
    return f


# ---------------------------------------------------------------- C01 / C14
def props_eq(op_props, wire_props):
    return canon_props(op_props) == canon_props(wire_props)


def mon_c01(s, v):
    f = []
    for o in s.ops.values():
        if o.kind != "pub" or o.qos == 0 or not o.done: continue
        ev, di, t = o.done[0]; df = done_fields(ev)
        if df["ec"] != "ok": continue
        ws = [w for w in v.wire if w["dec"]["type"] == "publish" and v.op_of_publish(w["dec"]) is o and w["i"] < di]
        dl = [w for w in ws if w["delivered"] and w["conn"] is not None and (w["i_done"] is None or w["i_done"] <= di)]
        if not dl:
            f.append(f"{o.name}: completed ok at line {di} but no PUBLISH carrying its message reached the broker before"); continue
        bad = [w for w in ws if not (w["dec"]["topic"] == o.topic and w["dec"]["qos"] == o.qos and w["dec"]["retain"] == o.retain and props_eq(o.props, w["dec"]["props"]))]
        if bad: f.append(f"{o.name}: PUBLISH on the wire differs from what the caller passed: {bad[0]['raw'].hex()[:100]}"); continue
        pid = dl[0]["dec"]["pid"]; first = dl[0]["i"]
        rc = int(df.get("rc", "0")); rprops = plist_parse(df.get("props", "-"))
        final = "puback" if o.qos == 1 else "pubcomp"
        acks = [r for r in v.inb if first <= r["i"] <= di and r["dec"].get("pid") == pid and r["dec"]["type"] in (final, "pubrec")]
        fin = [r for r in acks if r["dec"]["type"] == final]
        # a failing PUBREC ends a QoS 2 exchange (a stray PUBCOMP for the same identifier in the window does not change that)
        if o.qos == 2 and rc >= 0x80 and any(r["dec"]["type"] == "pubrec" and r["dec"]["rc"] == rc for r in acks): continue
        if o.qos == 2 and rc >= 0x80 and not fin:
            fin = [r for r in acks if r["dec"]["type"] == "pubrec" and r["dec"]["rc"] >= 0x80]
            if not fin: f.append(f"{o.name}: completed with rc={rc} but no failing PUBREC for id {pid} was received"); continue
            if not any(r["dec"]["rc"] == rc for r in fin): f.append(f"{o.name}: reported rc={rc}, the PUBREC carried {[r['dec']['rc'] for r in fin]}")
            continue
        if not fin:
            f.append(f"{o.name}: completed ok at line {di} without a {final.upper()} for its packet identifier {pid} after the PUBLISH reached the broker"); continue
        if o.qos == 2:
            if not any(r["dec"]["type"] == "pubrec" and r["dec"]["rc"] < 0x80 for r in acks):
                f.append(f"{o.name}: PUBCOMP accepted without a preceding successful PUBREC"); continue
            if not any(w["dec"]["type"] == "pubrel" and w["dec"]["pid"] == pid and w["i"] < di for w in v.wire):
                f.append(f"{o.name}: completed without having sent PUBREL"); continue
        if not any(r["dec"]["rc"] == rc and canon_props(r["dec"]["props"]) == rprops for r in fin):
            f.append(f"{o.name}: handler got rc={rc} props={df.get('props')} but the {final.upper()} carried " +
                     "; ".join(f"rc={r['dec']['rc']} props={ref.plist_text(r['dec']['props'])}" for r in fin[:3]))
    return f


def mon_c14(s, v):
    f = []
    for o in s.ops.values():
        if o.kind not in ("sub", "unsub") or not o.done: continue
        ev, di, t = o.done[0]; df = done_fields(ev)
        if df["ec"] != "ok": continue
        req = "subscribe" if o.kind == "sub" else "unsubscribe"; ackt = "suback" if o.kind == "sub" else "unsuback"
        def same(d):
            if d["type"] != req: return False
            if o.kind == "sub": return d["topics"] == [(fl, op) for fl, op in o.topics] and props_eq(o.props, d["props"])
            return d["topics"] == o.topics and props_eq(o.props, d["props"])
        ws = [w for w in v.wire if same(w["dec"]) and w["i"] < di and w["delivered"] and w["conn"] is not None]
        rcs = [] if df.get("rcs", "-") == "-" else [int(x) for x in df["rcs"].split(",")]
        ok = False
        for w in ws:
            pid = w["dec"]["pid"]
            for r in v.inb:
                if w["i"] <= r["i"] <= di and r["dec"]["type"] == ackt and r["dec"]["pid"] == pid:
                    if r["dec"]["rcs"] == rcs and len(rcs) == len(o.topics) and canon_props(r["dec"]["props"]) == plist_parse(df.get("props", "-")): ok = True
        if not ok:
            f.append(f"{o.name}: completed ok with rcs={df.get('rcs')} props={df.get('props')} at line {di} but no {ackt.upper()} with exactly these verdicts for a delivered {req.upper()} of exactly these topics was received")
    return f


# ---------------------------------------------------------------- C02
TRANSPORT = ("try_again", "no_recovery", "system", "asio")


def mon_c02(s, v):
    f = []
    # the layer below reported an error that no reconnect can cure (write_op / read_op: no_recovery): the documented outcome is that the client
    # is cancelled and the operations in flight end with that code - not one of the outages the property quantifies over
    fatal = [i for i, (line, evs, st, t) in enumerate(s.tr) if line.split()[:1] in (["wdone"], ["rdone"]) and line.split()[2:3] == ["no_recovery"]]
    for o in s.ops.values():
        if o.kind not in ("pub", "sub", "unsub"): continue
        for ev, di, t in o.done:
            ec = done_fields(ev)["ec"]
            if ec == "no_recovery" and fatal and di >= fatal[0]: continue
            if ec.startswith(TRANSPORT): f.append(f"{o.name}: completed with transport error {ec}")
            if ec == "aborted" and not o.cancelled: f.append(f"{o.name}: completed with operation_aborted although the caller never cancelled it")
    if s.ending == "cancel" and not s.crashed and hasattr(s, "heal_end"):
        for o in s.ops.values():
            if o.kind in ("pub", "sub", "unsub") and not o.cancelled_before_heal and not any(di < s.cancel_idx for _, di, _ in o.done):
                f.append(f"{o.name}: accepted, never cancelled, broker reachable throughout the fault-free suffix (lines {s.heal_start}-{s.heal_end}) but it never completed")
    return f


# ---------------------------------------------------------------- C03
def mon_c03(s, v):
    f = []
    for o in s.ops.values():
        if o.kind != "pub" or o.qos == 0: continue
        ws = [w for w in v.wire if w["dec"]["type"] == "publish" and v.op_of_publish(w["dec"]) is o]
        if not ws: continue
        base = bytearray(ws[0]["raw"]);
        if base[0] & 8: f.append(f"{o.name}: first transmission has DUP=1")
        base[0] &= ~8 & 0xFF
        ok_before = False
        for k, w in enumerate(ws):
            raw = bytearray(w["raw"]); dup = bool(raw[0] & 8); raw[0] &= ~8 & 0xFF
            if raw != base: f.append(f"{o.name}: retransmission at line {w['i']} differs from the first transmission beyond the DUP bit")
            if ok_before and not dup: f.append(f"{o.name}: retransmission at line {w['i']} has DUP=0 although an earlier transmission was written successfully")
            if w["result"] == "ok": ok_before = True
        if o.qos == 2:
            pid = ws[0]["dec"]["pid"]
            rel = [w["i"] for w in v.wire if w["dec"]["type"] == "pubrel" and w["dec"]["pid"] == pid and w["i"] > ws[0]["i"]]
            if rel:
                late = [w for w in ws if w["i"] > rel[0]]
                if late: f.append(f"{o.name}: PUBLISH transmitted again at line {late[0]['i']} after the PUBREC had been consumed (PUBREL first sent at line {rel[0]})")
    return f


# ---------------------------------------------------------------- C09
def mon_c09(s, v):
    f = []
    if s.ending != "disc" or s.crashed: return f
    o = [x for x in s.ops.values() if x.kind == "disc"][0]
    di = s.disc_idx
    # writes issued on the connection after the call (a write already in progress at the call is allowed to finish)
    later = [w for w in s.wlog if w["i"] >= di and w["conn"] is not None and w["conn"] == o.conn_at_init]
    if later:
        first = later[0]
        decs = []
        for b in first["pk"]:
            try: decs.append(ref.decode(b))
            except ref.Malformed: decs.append({"type": "malformed"})
        if not (len(decs) == 1 and decs[0]["type"] == "disconnect"):
            f.append(f"after async_disconnect (line {di}) the next write on the connection (line {first['i']}) is not a lone DISCONNECT: {[d['type'] for d in decs]}")
        else:
            d = decs[0]
            rs = canon_props(d["props"]).get(0x1F, [b""])[0]
            # the library's own DISCONNECT is recognised by its reason string; on a connection with a Maximum Packet Size too small for it the
            # string is dropped (disconnect_op falls back to the bare reason code): then by a bare internal code that is not the caller's
            mps = conn_caps(s).get(o.conn_at_init, {}).get(0x27, [None])[0]
            bare_internal = d["props"] == [] and d["rc"] != o.rc and (o.rc not in (0x80, 0x81, 0x82) or mps is not None)
            internal = d["rc"] in (0x80, 0x81, 0x82) and (rs.startswith((b"Malformed", b"No reply received", b"Unexpected AUTH", b"Re-authentication")) or bare_internal)
            if internal and (d["rc"] != o.rc or canon_props(d["props"]) != canon_props(o.props)):
                f.append(f"KNOWN-F21: an internal DISCONNECT (rc={d['rc']}, {rs[:40]!r}) queued before async_disconnect was written instead of the caller's (rc={o.rc}); the caller's DISCONNECT never reaches the wire")
            elif d["rc"] != o.rc or (canon_props(d["props"]) != canon_props(o.props) and d["props"] != []):
                f.append(f"DISCONNECT on the wire carries rc={d['rc']} props={d['props']}, asked rc={o.rc} props={o.props}")
        if len(later) > 1:
            f.append(f"something was written on the connection after the DISCONNECT: line {later[1]['i']}")
    if not o.done: f.append("async_disconnect never completed")
    else:
        ev, i, t = o.done[0]
        # virtual time jumps: "within 5 s" = in the drain of the first line whose time reaches t_init + 5000
        lim = next((k for k, (_, _, _, tt) in enumerate(s.tr) if tt >= o.t_init + 5000), None)
        if lim is not None and t > s.tr[lim][3]: f.append(f"async_disconnect (line {di}, t={o.t_init}) completed at line {i} (t={t}), after virtual time had reached t+5000 at line {lim}")
        # silence afterwards
        for line, evs, st, tt in s.tr[i + 1:]:
            for e in evs:
                if e.startswith(("wr ", "open ", "rd ")): f.append(f"after async_disconnect completed the client still did: {e[:60]}")
    return f


# ---------------------------------------------------------------- C12
def mon_c12(s, v):
    f = []
    ka_cfg = s.ka
    K = ka_cfg; connected = False; ref_t = None; pending_w = False; ping_in_batch = False; pinged = False
    for idx, (line, evs, st, t) in enumerate(s.tr):
        ws = line.split()
        if ws[0] == "reconnect":
            cp = plist_parse(ws[3]); K = cp.get(0x13, [ka_cfg])[0]; connected = True; ref_t = None
        if ws[0] in ("rdone", "wdone") and len(ws) > 2 and ws[2] == "try_again" and connected:
            # the first try_again processed after a reconnect refreshes the session: ping timer re-armed with the new K
            if ref_t is None: ref_t = t; pinged = False
        if ws[0] == "wdone" and ws[2] == "ok":
            pending_w = False
            if ping_in_batch: ref_t = t; pinged = False; ping_in_batch = False
        elif ws[0] == "wdone": pending_w = False; ping_in_batch = False
        for e in evs:
            es = e.split()
            if es[0] in ("shut", "close"): connected = False; ref_t = None
            if es[0] == "rd":
                exp = "inf" if K == 0 else str(1500 * K)
                if es[3] != exp: f.append(f"line {idx}: read issued with time-out {es[3]} ms, negotiated keep-alive {K} s demands {exp}")
            if es[0] == "wr":
                pending_w = True
                for x in es[2:]:
                    if x == "c000":
                        if K == 0 and connected: f.append(f"line {idx}: PINGREQ written although the negotiated keep-alive is 0")
                        ping_in_batch = True; pinged = True
        if connected and K > 0 and ref_t is not None and not pinged and not pending_w and t >= ref_t + K * 1000:
            f.append(f"line {idx} (t={t}): no PINGREQ although {t - ref_t} ms passed since the connection was established / the previous PINGREQ was written (keep-alive {K} s) and no write is in progress")
            pinged = True
    return f


# ---------------------------------------------------------------- C13
def mon_c13(s, v):
    f = []
    sub_since = False
    expected = []       # transcript index of each reconnect that must produce a report
    for idx, (line, evs, st, t) in enumerate(s.tr):
        if line.startswith("reconnect ") and int(line.split()[2]) == 0 and sub_since:
            expected.append(idx); sub_since = False
        for e in evs:
            if e.startswith("done S") and " ok " in e:
                rcs = done_fields(e).get("rcs", "-")
                if rcs != "-" and any(int(x) < 0x80 for x in rcs.split(",")): sub_since = True
    recvd = [(i, ev) for i, ev in s.done_seq if ev.startswith("recvd ")]
    reports = [(i, ev) for i, ev in recvd if " client:" in ev]
    if len(reports) > len(expected):
        f.append(f"{len(reports)} session_expired reports delivered, {len(expected)} expected (reconnects with Session Present 0 after a successful subscription at lines {expected}): {reports[:3]}")
    # every expected report is delivered once async_receive calls were available to take everything the channel held (the scenario ends by draining the channel)
    if getattr(s, "channel_drained", False) and len(reports) < len(expected):
        f.append(f"only {len(reports)} session_expired reports delivered, {len(expected)} expected (reconnects with Session Present 0 after a successful subscription at lines {expected})")
    # ahead of any message of the new session
    for k, ridx in enumerate(expected[:len(reports)]):
        rep_pos = recvd.index(reports[k])
        for (i, ev) in recvd[:rep_pos]:
            if " ok " in ev:
                tag = bytes.fromhex(ev.split()[4]) if ev.split()[4] != "-" else b""
                arr = [r["i"] for r in v.inb if r["dec"]["type"] == "publish" and r["dec"]["payload"] == tag]
                if arr and min(arr) > ridx: f.append(f"message {tag!r} of the new session (arrived line {min(arr)}) delivered before the session_expired report due since line {ridx}")
    return f


# ---------------------------------------------------------------- C15
ERR = {"packet_too_large": 101, "qos_not_supported": 105, "retain_not_available": 106, "topic_alias_maximum_reached": 107,
       "wildcard_subscription_not_available": 108, "subscription_identifier_not_available": 109, "shared_subscription_not_available": 110}


def cap(cp, pid, default):
    return cp.get(pid, [default])[0]


def mon_c15(s, v):
    f = []
    caps = conn_caps(s)
    held = {}        # op name -> caps it was initiated under (only requests initiated while the client holds a CONNACK)
    for o in s.ops.values():
        if o.kind in ("pub", "sub") and getattr(o, "caps_at_init", None) is not None:
            held[o.name] = {k: [vv] for k, vv in o.caps_at_init.items()}
    def op_of(d):
        if d["type"] == "publish": return v.op_of_publish(d)
        if d["type"] == "subscribe":
            for o in s.ops.values():
                if o.kind == "sub" and d["topics"] == [(fl, op) for fl, op in o.topics] and canon_props(o.props) == canon_props(d["props"]): return o
        return None
    for w in v.wire:
        d = w["dec"]; o = op_of(d)
        if o is None or o.name not in held or w["conn"] != o.conn_at_init: continue
        cp = held[o.name]
        mps = cap(cp, 0x27, None)
        if mps is not None and len(w["raw"]) > mps: f.append(f"{o.name}: {d['type'].upper()} of {len(w['raw'])} bytes written although Maximum Packet Size is {mps}")
        if d["type"] == "publish":
            if d["qos"] > cap(cp, 0x24, 2): f.append(f"{o.name}: PUBLISH QoS {d['qos']} written although Maximum QoS is {cap(cp, 0x24, 2)}")
            if d["retain"] and cap(cp, 0x25, 1) == 0: f.append(f"{o.name}: retained PUBLISH written although Retain Available = 0")
            al = canon_props(d["props"]).get(0x23)
            if al and (al[0] > cap(cp, 0x22, 0) or al[0] == 0): f.append(f"{o.name}: Topic Alias {al[0]} written although Topic Alias Maximum is {cap(cp, 0x22, 0)}")
        if d["type"] == "subscribe":
            fl = [t for t, _ in d["topics"]]
            if cap(cp, 0x28, 1) == 0 and any(b"#" in t or b"+" in t for t in fl): f.append(f"{o.name}: wildcard subscription written although the broker disabled them")
            if cap(cp, 0x2A, 1) == 0 and any(t.startswith(b"$share/") for t in fl): f.append(f"{o.name}: shared subscription written although the broker disabled them")
            if cap(cp, 0x29, 1) == 0 and 0x0B in canon_props(d["props"]): f.append(f"{o.name}: Subscription Identifier written although the broker disabled them")
    # a request refused for a capability completes at once with the documented error, and consumed no packet identifier
    for o in s.ops.values():
        if o.name not in held or not o.done: continue
        ev, di, t = o.done[0]; ec = done_fields(ev)["ec"]
        if ec.startswith("client:") and int(ec.split(":")[1]) in ERR.values():
            if di != o.idx: f.append(f"{o.name}: capability error {ec} was not reported immediately (initiated at line {o.idx}, completed at line {di})")
            if any(op_of(w["dec"]) is o for w in v.wire): f.append(f"{o.name}: refused with {ec} but a packet of it was written")
    return f


# ---------------------------------------------------------------- C19 (client level): malformed inbound never completes an operation successfully
def mon_c19(s, v):
    f = []
    if s.crashed:
        f.append(f"harness process died (sanitizer fault / crash) at line `{s.crashed[0][:80]}`: {str(s.crashed[1])[-600:]}")
        return f
    if getattr(s, "hostile", False):
        # the inbound stream is framed and decoded by the strict reference decoder: an operation that completed successfully needs a
        # *well-formed* acknowledgement for its packet identifier, with the content the handler was given (these are the C01/C14 monitors,
        # which only count well-formed packets), and nothing delivered to the application may come from a malformed PUBLISH
        f += ["malformed acknowledgement completed an operation: " + x for x in mon_c01(s, v) if "completed ok" in x or "handler got" in x or "accepted without" in x]
        f += ["malformed acknowledgement completed an operation: " + x for x in mon_c14(s, v) if not x.startswith("KNOWN-")]
        for o in s.ops.values():
            if o.kind != "recv" or not o.done: continue
            ev, di, t = o.done[0]
            w_ = ev.split()
            if w_[0] != "recvd" or w_[2] != "ok" or len(w_) < 5: continue
            pl = w_[4]
            if not any(r["dec"]["type"] == "publish" and r["dec"]["payload"].hex() == (pl if pl != "-" else "") and r["i"] <= di for r in v.inb):
                f.append(f"{o.name}: delivered a message (payload {pl}) that no well-formed PUBLISH carried")
    return f


# ---------------------------------------------------------------- C04 (inbound)
def decs(w):
    out = []
    for b in w["pk"]:
        try: out.append(ref.decode(b))
        except ref.Malformed: out.append({"type": "malformed"})
    return out


def mon_c04(s, v):
    f = []
    got = [(i, ev) for i, ev in s.done_seq if ev.startswith("recvd ") and " ok " in ev]
    tags = {}
    for i, ev in got:
        ws = ev.split(); tag = bytes.fromhex(ws[4]) if ws[4] != "-" else b""
        tags.setdefault(tag, []).append(i)
    inbound = [r for r in v.inb if r["dec"]["type"] == "publish"]
    by_tag = {}
    for r in inbound: by_tag.setdefault(r["dec"]["payload"], []).append(r)
    for tag, rs in by_tag.items():
        q = rs[0]["dec"]["qos"]
        n = len(tags.get(tag, []))
        if q == 2 and n > 1: f.append(f"QoS 2 message {tag!r} handed to the application {n} times")
        if q == 0 and n > len(rs): f.append(f"QoS 0 message {tag!r} delivered {n} times, sent {len(rs)} times")
    # acknowledgements carry the identifier of a PUBLISH that was received, PUBCOMP only after PUBREL
    for w in v.wire:
        d = w["dec"]
        if d["type"] in ("puback", "pubrec") :
            if not any(r["dec"].get("pid") == d["pid"] and r["i"] <= w["i"] and r["dec"]["qos"] == (1 if d["type"] == "puback" else 2) for r in inbound):
                f.append(f"line {w['i']}: {d['type'].upper()} for id {d['pid']} without a received PUBLISH of that QoS and id")
        if d["type"] == "pubcomp":
            if not any(r["dec"]["type"] == "pubrel" and r["dec"]["pid"] == d["pid"] and r["i"] <= w["i"] for r in v.inb):
                f.append(f"line {w['i']}: PUBCOMP for id {d['pid']} before any PUBREL with that id was received")
    # every exchange the broker started is completed once the network stays healthy, and what was acknowledged was delivered
    if getattr(s, "ending", None) == "cancel" and getattr(s, "heal_ok", False) and not s.crashed:
        for m in getattr(s, "bq", []):
            what = "PUBLISH" if m["state"] == "pub" else "PUBREL"
            # narrow classifier of the recorded finding F24: the PUBREC reached the broker inside a write the client saw fail with try_again
            f24 = m["qos"] == 2 and m["state"] == "rel" and any(w["result"] == "try_again" and any(k < w["delivered"] and dd["type"] == "pubrec" and dd.get("pid") == m["pid"]
                                                                                                   for k, dd in enumerate(decs(w))) for w in s.wlog)
            f.append(("KNOWN-F24: " if f24 else "") + f"inbound QoS {m['qos']} message {m['tag']!r} (id {m['pid']}): the client never answered the broker's {what} during the fault-free suffix (lines {s.heal_start}-{s.heal_end}); the exchange never completes")
        if getattr(s, "channel_drained", False):
            for b in getattr(s, "bsent", []):
                if b["acked"] and b["tag"] not in tags:
                    # narrow classifiers of the recorded findings F25 / F26: the final acknowledgement (PUBACK / PUBCOMP) reached the broker
                    # inside a write that the client saw fail with try_again (connection lost right after the bytes were delivered)
                    want = "puback" if b["qos"] == 1 else "pubcomp"
                    lost_after_delivery = any(w["result"] == "try_again" and any(k < w["delivered"] and dd["type"] == want and dd.get("pid") == b["pid"]
                                                                                 for k, dd in enumerate(decs(w))) for w in s.wlog)
                    msg = f"inbound QoS {b['qos']} message {b['tag']!r} (id {b['pid']}) was acknowledged to the broker ({'PUBACK' if b['qos'] == 1 else 'PUBREC … PUBCOMP'}) but never reached async_receive"
                    if lost_after_delivery: f.append(("KNOWN-F25: " if b["qos"] == 1 else "KNOWN-F26: ") + msg + f" (its {want.upper()} was delivered by a write that ended with try_again)")
                    else: f.append(msg)
    # content equality and order per QoS
    # every arrival counts, also a retransmission: a message whose first transmission the client could not acknowledge (the write of its
    # acknowledgement failed) is legitimately handed over when the broker sends it again, behind what the broker sent in between.  What is
    # demanded is that the messages handed over (first hand-over of each) can be matched, in order, to arrivals in increasing position -
    # the same statement as `composed_delivered_in_arrival_order` (a Sublist of the arrivals).
    seq = {0: [], 1: [], 2: []}
    for r in inbound:
        seq[r["dec"]["qos"]].append(r["dec"]["payload"])
    order = [bytes.fromhex(ev.split()[4]) if ev.split()[4] != "-" else b"" for i, ev in got]
    for q in (0, 1, 2):
        mine = [t for t in order if t in seq[q]]
        dedup = []
        for t in mine:
            if t not in dedup: dedup.append(t)
        pos = 0; ok = True
        for t in dedup:
            while pos < len(seq[q]) and seq[q][pos] != t: pos += 1
            if pos == len(seq[q]): ok = False; break
            pos += 1
        if not ok: f.append(f"QoS {q} messages received in order {dedup[:8]} but the broker sent {seq[q][:12]} (no order-preserving match of hand-overs to arrivals)")
    for i, ev in got:
        ws = ev.split(); tag = bytes.fromhex(ws[4]) if ws[4] != "-" else b""
        rs = by_tag.get(tag)
        if not rs: f.append(f"line {i}: application received a message {tag!r} the broker never sent"); continue
        d = rs[0]["dec"]
        if bytes.fromhex(ws[3]) != d["topic"] or plist_parse(ws[5]) != canon_props(d["props"]):
            f.append(f"line {i}: message {tag!r} delivered with topic/properties {ws[3]} {ws[5]} but sent with {d['topic'].hex()} {ref.plist_text(d['props'])}")
    return f


MONITORS = {"C01": mon_c01, "C02": mon_c02, "C03": mon_c03, "C04": mon_c04, "C05": mon_c05, "C06": mon_c06, "C07": mon_c07, "C08": mon_c08,
            "C09": mon_c09, "C12": mon_c12, "C13": mon_c13, "C14": mon_c14, "C15": mon_c15, "C17": mon_c17, "C19": mon_c19}
