"""Monitors over H-stream transcripts: executable statements of the stream-level halves of C10, C11, C12, C02, C19.
A transcript is [(line, events, state, time_ms)].  Everything a monitor needs (configuration included) is read from the
transcript, so a replay file (the lines alone) is enough to re-evaluate a verdict."""
import mqtt_ref as ref

NET_CMDS = ("conn", "srx", "srdone", "swdone", "sshutdone", "resolved")


def parse_plist(txt):
    out = []
    if txt in ("-", ""): return out
    for item in txt.split(";"):
        k, v = item.split("=", 1)
        if v.startswith("#"): out.append((int(k), int(v[1:])))
        elif "/" in v:
            a, b = v.split("/"); out.append((int(k), (bytes.fromhex(a) if a != "-" else b"", bytes.fromhex(b) if b != "-" else b"")))
        else: out.append((int(k), bytes.fromhex(v) if v != "-" else b""))
    return out


class Cfg:
    def __init__(self, line):
        self.hosts = []; self.ka = 60; self.cid = b""; self.user = None; self.pw = None; self.coprops = []; self.will = None; self.auth = None
        for kv in line.split()[1:]:
            k, v = kv.split("=", 1)
            if k == "brokers":
                for h in bytes.fromhex(v).decode().split(","):
                    h = h.strip()
                    if not h: continue
                    host, _, port = h.partition(":")
                    self.hosts.append(f"{host}:{port or 1883}")
            elif k == "ka": self.ka = int(v)
            elif k == "auth": self.auth = bytes.fromhex(v)
            elif k == "cid": self.cid = bytes.fromhex(v) if v != "-" else b""
            elif k == "user": self.user = bytes.fromhex(v)
            elif k == "pass": self.pw = bytes.fromhex(v)
            elif k == "coprops": self.coprops = parse_plist(v)
            elif k == "will":
                t, m, q, r, pl = v.split("/", 4)
                self.will = dict(topic=bytes.fromhex(t), message=bytes.fromhex(m) if m != "-" else b"", qos=int(q), retain=int(r), props=parse_plist(pl))

    def connect_props(self):
        """CONNECT properties the client must send: the configured ones, plus method and initial data of a configured authenticator"""
        if self.auth is None: return list(self.coprops)
        return [p for p in self.coprops if p[0] not in (0x15, 0x16)] + [(0x15, self.auth), (0x16, b"d0")]

    def enc_line(self):
        """line for the Lean encoder model (mdrv `enc connect`), Clean Start 0"""
        hx = lambda b: b.hex() or "-"
        w = "0"
        if self.will: w = f"1 {hx(self.will['topic'])} {hx(self.will['message'])} {self.will['qos']} {self.will['retain']} {ref.plist_text(self.will['props'])}"
        return f"enc connect {hx(self.cid)} {hx(self.user) if self.user is not None else 'none'} {hx(self.pw) if self.pw is not None else 'none'} {self.ka} 0 {ref.plist_text(self.connect_props())} {w}"


def canon(ps):
    return sorted((k, v) for k, v in ps)


class SView:
    """derived facts of one transcript"""
    def __init__(self, tr):
        self.tr = tr
        self.cfg = None
        for line, evs, st, t in tr:
            if line.startswith("cfg "): self.cfg = Cfg(line); break
        self.events = []     # (i, t, words, line)
        for i, (line, evs, st, t) in enumerate(tr):
            for e in evs: self.events.append((i, t, e.split(), line))
        self.crash = any(evs == ["<crash>"] for _, evs, _, _ in tr)

    def first_line_at_or_after(self, t0, start):
        for i in range(start, len(self.tr)):
            if self.tr[i][3] >= t0: return i
        return None


def V(prop, what, i, **kw):
    d = dict(prop=prop, what=what, at=i); d.update(kw); return d


# ------------------------------------------------------------------ C10
def mon_c10(v, expected_connect=None):
    out = []
    cfg = v.cfg
    wrote = {}       # K -> [(i, bytes)]
    became_up = {}   # K -> i   (first line where K is the established connection)
    rx = {}          # K -> bytes delivered by the broker
    for i, (line, evs, st, t) in enumerate(v.tr):
        ws = line.split()
        if ws and ws[0] == "srx": rx.setdefault(ws[1], bytearray()).extend(bytes.fromhex(ws[2]))
        for e in evs:
            w = e.split()
            if w[0] == "swr": wrote.setdefault(w[1], []).append((i, bytes.fromhex(w[2]) if w[2] != "-" else b""))
        if st.get("wc") == "1" and st.get("cur") not in became_up: became_up[st["cur"]] = i
    for k, ws in wrote.items():
        i0, first = ws[0]
        try:
            d = ref.decode(first)
        except ref.Malformed as ex:
            out.append(V("C10", f"first packet on {k} is not a well-formed packet: {ex}", i0)); continue
        if d["type"] != "connect":
            out.append(V("C10", f"first packet on {k} is {d['type']}, not CONNECT", i0)); continue
        exp = dict(clean_start=0, keep_alive=cfg.ka, client_id=cfg.cid, user=cfg.user, props=canon(cfg.connect_props()))
        exp["pass"] = cfg.pw
        got = {f: (canon(d[f]) if f == "props" else d[f]) for f in exp}
        if got != exp:
            out.append(V("C10", f"CONNECT on {k} differs from the configuration: {got} != {exp}", i0))
        gw = d["will"]
        if (gw is None) != (cfg.will is None) or (gw is not None and (gw["topic"], gw["message"], gw["qos"], gw["retain"], canon(gw["props"])) !=
                                                   (cfg.will["topic"], cfg.will["message"], cfg.will["qos"], cfg.will["retain"], canon(cfg.will["props"]))):
            out.append(V("C10", f"Will in CONNECT on {k} differs from the configuration", i0))
        if expected_connect is not None and first != expected_connect:
            out.append(V("C10", f"CONNECT bytes on {k} differ from the encoder model: {first.hex()} != {expected_connect.hex()}", i0, tie=True))
        for i, b in ws[1:]:
            if k not in became_up or i < became_up[k]:
                # the AUTH exchange of a configured authenticator is the only traffic allowed before the CONNACK
                is_auth = False
                if cfg.auth is not None:
                    try: is_auth = ref.decode(b)["type"] == "auth"
                    except ref.Malformed: is_auth = False
                if not is_auth:
                    out.append(V("C10", f"packet {b.hex()} written on {k} before a successful CONNACK", i))
    # established only after a complete successful CONNACK was delivered on that socket
    for k, i in became_up.items():
        data = bytes(rx.get(k, b""))
        pk, rest = ref.split_stream(data)
        good = False
        for j, one in enumerate(pk):
            try: d = ref.decode(one, lenient=True)
            except ref.Malformed: break
            if d["type"] == "auth" and cfg.auth is not None: continue      # AUTH rounds of a configured authenticator precede the CONNACK
            good = d["type"] == "connack" and d["rc"] < 0x80
            break
        # bytes delivered before the line that established the connection
        if not good:
            out.append(V("C10", f"connection on {k} established without a successful CONNACK (received {data.hex()})", i))
    out += rotation(v)
    return out


def rotation(v):
    """hosts are tried in list order; a pause only at wrap-around, within the back-off bounds; 5 s limit per attempt"""
    out = []
    hosts = v.cfg.hosts
    n = len(hosts)
    if n == 0: return out
    idx = -1          # index of the last host tried
    wraps = {0}       # possible numbers of wrap-arounds since the last established connection (each reconnect operation starts its back-off afresh)
    last_net = None   # (i, t) of the last activity of the reconnect operation (its start, or an event on a socket/resolve it owns)
    was_cur = set()   # sockets that carried an established connection: traffic on them is not part of an attempt
    locked = "0"
    interrupted = False
    for i, (line, evs, st, t) in enumerate(v.tr):
        ws = line.split()
        cmd = ws[0] if ws else ""
        own_cmd = cmd == "resolved" or (cmd in NET_CMDS and len(ws) > 1 and ws[1] not in was_cur)
        seen_fail = own_cmd or cmd in ("read", "write", "shutdown")
        for e in evs:
            w = e.split()
            if w[0] in ("cancelled", "cancelreq"): seen_fail = True
            if w[0] == "resolve":
                nxt = idx + 1
                if nxt >= n:
                    # wrap-around: pause between the last activity of the reconnect operation and this line
                    nxt = 0
                    # after a cancel-all the pause of the previous operation may have been cut short: a round that starts without
                    # any wait belongs to a new operation that found the list un-wrapped
                    skip = interrupted and cmd != "advance"
                    if last_net is not None and not skip:
                        t0 = last_net[1]
                        t_prev = v.tr[i - 1][3]
                        ok = set()
                        why = ""
                        for wr in sorted(wraps):
                            e_ = min(wr, 4); lo, hi = (1 << e_) * 1000 - 500, (1 << e_) * 1000 + 500
                            if cmd != "advance" or t - t0 < lo:
                                why = why or f"list wrapped: next round started {t - t0} ms after the last attempt ended, before the minimal pause {lo} ms (wrap #{wr})"
                            elif t_prev - t0 >= hi and i - 1 > last_net[0]:
                                why = why or f"list wrapped: pause exceeds {hi} ms (still waiting at +{t_prev - t0} ms, wrap #{wr})"
                            else: ok.add(wr + 1)
                        if not ok:
                            out.append(V("C10", why, i)); ok = {min(wraps) + 1}
                        wraps = ok
                    elif not skip: wraps = {w_ + 1 for w_ in wraps}
                else:
                    if cmd == "advance" and not seen_fail:
                        out.append(V("C10", f"pause before trying {w[1]} although the list did not wrap", i))
                if w[1] != hosts[nxt]:
                    out.append(V("C10", f"resolve {w[1]} but the next broker of the list is {hosts[nxt]}", i))
                    if w[1] in hosts: nxt = hosts.index(w[1])
                idx = nxt; interrupted = False
        # cancel-all ends a pause that may already have begun (the wrap itself emits nothing): the next round may start at once
        if cmd == "cancel": interrupted = True
        if st.get("wc") == "1" and st.get("locked") == "0": wraps = {0}
        # cancel-all: the operation holding the lock either ends (the next one starts its back-off afresh) or, if its timer had
        # already fired, carries on with its exponent
        if cmd == "cancel": wraps = wraps | {0}
        if st.get("wc") == "1": was_cur.add(st.get("cur"))
        own_ev = any((w[0] in ("connect", "swr", "srd", "sshut", "sclose") and w[1] not in was_cur) or
                     (w[0] in ("cancelled", "cancelreq") and (w[1] == "resolve" or w[2] not in was_cur)) or w[0] == "resolve"
                     for w in (e.split() for e in evs))
        # the lock changes hands where an operation that held it completes (shutdown done, or a reconnect that ended with try_again/aborted)
        handover = any(w[0] == "sdone" or (w[0] in ("rdone", "wdone") and w[2] in ("try_again", "aborted")) for w in (e.split() for e in evs))
        if own_cmd or own_ev or handover or (locked == "0" and st.get("locked") == "1"):
            last_net = (i, t)
        locked = st.get("locked", locked)
    # 5 s per attempt: an attempt (connect + handshake) still unfinished at +5000 ms is abandoned exactly then, never earlier by the timer
    attempt = None   # (K, t0, i0)
    for i, (line, evs, st, t) in enumerate(v.tr):
        cmd = line.split()[0] if line else ""
        for e in evs:
            w = e.split()
            if attempt and w[0] in ("cancelled", "cancelreq") and len(w) > 2 and w[2] == attempt[0] and cmd == "advance":
                if t - attempt[1] < 5000:
                    out.append(V("C10", f"attempt on {attempt[0]} abandoned by timer after {t - attempt[1]} ms (< 5000)", i))
                attempt = None
            elif attempt and (w[0] in ("resolve",) or (w[0] == "connect") or (w[0] == "sclose" and w[1] == attempt[0])):
                attempt = None
            if w[0] == "connect": attempt = (w[1], t, i)
        if attempt and st.get("cur") == attempt[0] and st.get("wc") == "1": attempt = None
        if attempt and st.get("open") == "0": attempt = None
        if attempt and t - attempt[1] >= 5000:
            out.append(V("C10", f"attempt on {attempt[0]} still in progress {t - attempt[1]} ms after it began (limit 5000)", i)); attempt = None
    return out


# ------------------------------------------------------------------ C11 (stream level)
def mon_c11(v):
    out = []
    pend = {}        # K -> set of pending op kinds
    was_cur = set()
    issued = {}; done = {}
    for i, (line, evs, st, t) in enumerate(v.tr):
        ws = line.split()
        if ws and ws[0] in ("read", "write", "shutdown"): issued[int(ws[1])] = (ws[0], i)
        if ws and ws[0] == "conn": pend.setdefault(ws[1], set()).discard("conn")
        if ws and ws[0] in ("srx", "srdone"): pend.setdefault(ws[1], set()).discard("rd")
        if ws and ws[0] == "swdone": pend.setdefault(ws[1], set()).discard("wr")
        if ws and ws[0] == "sshutdone": pend.setdefault(ws[1], set()).discard("shut")
        for e in evs:
            w = e.split()
            if w[0] == "connect":
                pend.setdefault(w[1], set()).add("conn")
                if st.get("locked") != "1":
                    out.append(V("C11", f"connect on {w[1]} started without holding the connection lock", i))
            elif w[0] == "srd": pend.setdefault(w[1], set()).add("rd")
            elif w[0] == "swr": pend.setdefault(w[1], set()).add("wr")
            elif w[0] == "sshut": pend.setdefault(w[1], set()).add("shut")
            elif w[0] == "sclose": pend[w[1]] = set()
            elif w[0] == "cancelled" and w[1] != "resolve":
                pend.setdefault(w[2], set()).discard({"connect": "conn", "srd": "rd", "swr": "wr", "sshut": "shut"}[w[1]])
            elif w[0] in ("rdone", "wdone", "sdone"):
                done.setdefault(int(w[1]), []).append((i, w[2]))
            # checked after each event: at most one socket that never carried an established connection has work outstanding
            if w[0] in ("connect", "srd", "swr"):
                act = [k for k, p in pend.items() if p and k not in was_cur and k != w[1]]
                if w[1] not in was_cur and act:
                    out.append(V("C11", f"connection attempt on {w[1]} overlaps the attempt on {act[0]}", i))
        if st.get("wc") == "1": was_cur.add(st["cur"])
    for op, ds in done.items():
        if len(ds) > 1: out.append(V("C11", f"operation {op} completed {len(ds)} times", ds[1][0]))
        if op not in issued: out.append(V("C11", f"completion for unknown operation {op}", ds[0][0]))
    # after the closing cancel+close every operation has completed exactly once
    closed = any(line == "close" or line.endswith((" +cc", " +ccb")) for line, _, _, _ in v.tr)
    if closed and not v.crash:
        for op, (kind, i) in issued.items():
            if op not in done: out.append(V("C11", f"{kind} {op} never completed although the stream was cancelled and closed", i))
        if v.tr and v.tr[-1][2].get("locked") == "1":
            out.append(V("C11", "connection lock still held after cancel+close and quiescence", len(v.tr) - 1))
    return out


# ------------------------------------------------------------------ C12 (timed read) and C02 (completion codes)
def mon_c12(v):
    out = []
    cur = None      # (op id, t0, timeout, K, i)
    for i, (line, evs, st, t) in enumerate(v.tr):
        ws = line.split()
        cmd = ws[0] if ws else ""
        new = None
        for e in evs:
            w = e.split()
            if w[0] == "srd" and cmd == "read":
                new = (int(ws[1]), t, None if ws[3] == "inf" else int(ws[3]), w[1], i)
            if cur and w[0] in ("cancelled", "cancelreq") and w[1] == "srd" and w[2] == cur[3]:
                if cmd == "advance":
                    if cur[2] is None: out.append(V("C12", f"read with no time limit (keep-alive 0) abandoned by a timer", i))
                    elif t - cur[1] < cur[2]: out.append(V("C12", f"read abandoned after {t - cur[1]} ms of silence, before the {cur[2]} ms limit", i))
                cur = None
            if cur and w[0] in ("rdone",) and int(w[1]) == cur[0]: cur = None
            if cur and w[0] == "sclose" and w[1] == cur[3]: cur = None
        if cur and cmd in ("srx", "srdone") and ws[1] == cur[3]: cur = None
        if cur and cur[2] is not None and t - cur[1] >= cur[2] and i > cur[4]:
            out.append(V("C12", f"read still pending {t - cur[1]} ms after it began without a byte arriving (limit {cur[2]} ms)", i)); cur = None
        if new: cur = new
    return out


def mon_c02(v):
    out = []
    for i, t, w, line in v.events:
        if w[0] in ("rdone", "wdone", "sdone"):
            ec = w[2]
            if ec not in ("ok", "try_again", "aborted", "no_recovery"):
                out.append(V("C02", f"{w[0]} {w[1]} completed with transport error {ec}", i))
            if ec == "no_recovery":
                # only a non-retryable error class (here: 'fault') injected on this very line may end an operation this way
                if not (line.split()[0] in ("srdone", "swdone") and line.split()[2] == "fault"):
                    out.append(V("C02", f"{w[0]} {w[1]} completed with no_recovery without a non-retryable fault", i))
    return out


def mon_c15(v):
    """the capabilities the validators consult are the ones the accepted CONNACK carried (and the Session Present flag is the CONNACK's)"""
    out = []
    rx = {}; seen_up = set()
    for i, (line, evs, st, t) in enumerate(v.tr):
        ws = line.split()
        if ws and ws[0] == "srx": rx.setdefault(ws[1], bytearray()).extend(bytes.fromhex(ws[2]))
        k = st.get("cur")
        if st.get("wc") == "1" and st.get("locked") == "0" and k not in seen_up and k in rx:
            seen_up.add(k)
            pk, _ = ref.split_stream(bytes(rx[k]))
            ca = None
            for one in pk:
                try: d = ref.decode(one, lenient=True)
                except ref.Malformed: break
                if d["type"] == "connack": ca = d; break
            if ca is None: continue
            want = {}
            for pid, val in ca["props"]:
                if pid == 0x26: want.setdefault(pid, []).append(val)
                else: want[pid] = [val]          # single-valued slot: the last one wins
            got = {}
            for pid, val in parse_plist(st.get("caps", "-")): got.setdefault(pid, []).append(val)
            if got != want:
                out.append(V("C15", f"capabilities stored after the CONNACK on {k} are {st.get('caps')}, the CONNACK carried {ref.plist_text(ca['props'])}", i))
            if st.get("sp") != str(ca["sp"]):
                out.append(V("C15", f"Session Present stored as {st.get('sp')}, the CONNACK said {ca['sp']}", i))
    return out


def mon_c13(v):
    """the Session Present flag the session bookkeeping reads (and from which `session_expired` is derived) is the one of the accepted CONNACK —
    with and without an authenticator"""
    return [V("C13", x["what"], x["at"]) for x in mon_c15(v) if x["what"].startswith("Session Present stored")]


def mon_c19(v):
    out = []
    if v.crash:
        out.append(V("C19", "harness process died (sanitizer report / abort / uncaught exception)", len(v.tr) - 1))
    return out


# ------------------------------------------------------------------ C05 (stream level): a cancelled and closed client stays closed
def mon_c05(v):
    """after cancel() + close() the stream must not come back to life by itself: a connection attempt that was still in flight when the
    client was cancelled must be abandoned even if it succeeds, every stream operation completes, the lock is released"""
    out = []
    closed_at = None
    for i, (line, evs, st, t) in enumerate(v.tr):
        if line == "close" or line.endswith((" +cc", " +ccb")): closed_at = i
        if line.endswith(" +ccb"):
            # cancel() ran before the completion handler of the socket operation: the stream operation above it ends with operation_aborted,
            # whatever the socket operation's own result was
            for e in evs:
                w = e.split()
                if w[0] in ("rdone", "wdone", "sdone") and w[2] != "aborted":
                    out.append(V("C05", f"{w[0]} {w[1]} completed with `{w[2]}` although cancel() + close() had run before its completion handler", i))
        elif line == "open": closed_at = None
        elif closed_at is not None and st.get("open") == "1":
            out.append(V("C05", f"the stream is open again at line {i} although the client was cancelled and closed at line {closed_at} and open() was not called (a late connection attempt installed its socket)", i))
            break
    return out + [dict(x, prop="C05") for x in mon_c11(v) if "never completed" in x["what"] or "still held" in x["what"]]


MONITORS = {"C05": mon_c05, "C10": mon_c10, "C11": mon_c11, "C12": mon_c12, "C02": mon_c02, "C19": mon_c19, "C15": mon_c15, "C13": mon_c13}
