#!/bin/bash
# verify_seeded.sh <src-dir-with-patch.diff,demo,build.sh> <name> <property>
# Confirms in a scratch worktree: (a) the existing suite passes with the patch, (b) the demo fails with it, (c) passes without.
# Writes /verif/seeded/<name>/{patch.diff,demo...,meta.json}. Scratch worktree /tmp/wt/verify is reused (incremental builds) - one at a time (flock).
SRC=$1; NAME=$2; PROP=$3
exec 9>/tmp/wt/verify.lock; flock 9
WT=/tmp/wt/verify
if [ ! -d $WT ]; then git -C /repo worktree add -q --detach $WT HEAD || exit 2; fi
git -C $WT checkout -q --detach $(git -C /repo rev-parse HEAD) 2>/dev/null; git -C $WT checkout -- . ; git -C $WT clean -fdq -e _build
export TEST_HELPERS=$WT/test/include TEST_INC=$WT/test/include
OUT=/verif/seeded/$NAME; mkdir -p $OUT; cp -r $SRC/* $OUT/ 2>/dev/null
LOG=$OUT/verify.log; : > $LOG
# (c) demo on clean HEAD
( cd $OUT && bash ./build.sh $WT/include ) >> $LOG 2>&1; C=$?
git -C $WT apply $OUT/patch.diff >> $LOG 2>&1 || { echo "patch does not apply" >> $LOG; APPLY=fail; }
# (b) demo with patch
( cd $OUT && bash ./build.sh $WT/include ) >> $LOG 2>&1; B=$?
# (a) suite with patch
if [ ! -f $WT/_build/build.ninja ]; then cmake -S $WT -B $WT/_build -G Ninja -DCMAKE_BUILD_TYPE=RelWithDebInfo -DBUILD_TESTING=ON -DBOOST_MQTT5_PUBLIC_BROKER_TESTS=ON -DCMAKE_CXX_FLAGS=-Wno-error > /dev/null 2>&1; fi
cmake --build $WT/_build -j8 > $OUT/suite_build.log 2>&1; BR=$?
ATT=0
if [ $BR -eq 0 ]; then
  for try in 1 2 3; do ATT=$try; ctest --test-dir $WT/_build/test --timeout 900 --output-on-failure > $OUT/suite_run.log 2>&1; A=$?; [ $A -eq 0 ] && break; grep -E "error: in|has failed|\*\*\* [0-9]+ failure" $OUT/suite_run.log | head -5 >> $LOG; done
else A=99; fi
echo "suite attempts: $ATT (timing-sensitive integration tests flake under machine load; a pass in any of up to 3 full runs counts)" >> $LOG
tail -3 $OUT/suite_run.log >> $LOG 2>/dev/null
git -C $WT checkout -- .
rm -f $OUT/demo $OUT/*.o $OUT/suite_build.log
python3 - "$OUT" "$NAME" "$PROP" "$A" "$B" "$C" "$BR" "${APPLY:-ok}" <<'PY'
import json, sys, os
out, name, prop, a, b, c, br, ap = sys.argv[1:]
meta = {"name": name, "breaks_property": prop, "patch_applies": ap, "suite_build_rc_with_patch": int(br),
        "suite_rc_with_patch": int(a), "demo_rc_with_patch": int(b), "demo_rc_on_head": int(c),
        "confirmed": ap == "ok" and int(a) == 0 and int(b) != 0 and int(c) == 0,
        "what_i_ran": "tools/verify_seeded.sh: scratch worktree /tmp/wt/verify at /repo HEAD; build.sh <include> on HEAD (expect 0) and with patch (expect non-zero); cmake --build + ctest --test-dir _build/test with patch (expect 0)"}
notes = os.path.join(out, "notes.md")
meta["needs_to_manifest"] = open(notes).read()[:1500] if os.path.exists(notes) else ""
json.dump(meta, open(os.path.join(out, "meta.json"), "w"), indent=1)
print(name, "confirmed" if meta["confirmed"] else "NOT CONFIRMED", a, b, c)
PY
