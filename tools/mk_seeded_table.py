#!/usr/bin/env python3
"""rewrites the table of seeded changes in DESIGN.md (between the SEEDED-TABLE markers) from seeded/*/meta.json and result.json"""
import json, os, glob, re
rows = []
for d in sorted(glob.glob('/verif/seeded/*/')):
    n = os.path.basename(d.rstrip('/'))
    try: m = json.load(open(d + 'meta.json'))
    except Exception: continue
    r = json.load(open(d + 'result.json')) if os.path.exists(d + 'result.json') else None
    need = (m.get('needs_to_manifest') or '').strip().split('\n')
    idea = next((l.strip('# ').strip() for l in need if l.strip() and not l.startswith('#')), '')[:170]
    if not m.get('confirmed'):
        rows.append(f"| {n} | {m['breaks_property']} | not confirmed (suite {m.get('suite_rc_with_patch')}, demo with/without {m.get('demo_rc_with_patch')}/{m.get('demo_rc_on_head')}) — kept for the record | — |")
        continue
    if r is None: res = "not evaluated yet"
    elif not r.get('applies', True): res = "patch no longer applies to HEAD (the code it changes was repaired since)"
    else:
        parts = []
        for x in r['results']:
            if x['caught'] and x['with_input']: parts.append(f"{x['check']}: caught, failing input replayed ({x['seconds']} s)")
            elif x['caught']: parts.append(f"{x['check']}: caught, tie broken, no failing input ({x['seconds']} s)")
            else: parts.append(f"{x['check']}: **missed** (exit {x['exit']})")
        res = "; ".join(parts)
    rows.append(f"| {n} | {m['breaks_property']} | {idea} | {res} |")
table = "<!-- SEEDED-TABLE-BEGIN -->\n| change | property | what it needs to manifest (from the sub-agent's notes) | result of `tools/eval_seeded.sh` (quick tier) |\n|---|---|---|---|\n" + "\n".join(rows) + "\n<!-- SEEDED-TABLE-END -->"
p = '/verif/DESIGN.md'
s = open(p).read()
if 'SEEDED_TABLE_PLACEHOLDER' in s: s = s.replace('SEEDED_TABLE_PLACEHOLDER', table)
else: s = re.sub(r"<!-- SEEDED-TABLE-BEGIN -->.*?<!-- SEEDED-TABLE-END -->", lambda _: table, s, flags=re.S)
open(p, 'w').write(s)
print(len(rows), "rows")
