#!/bin/bash
# run every claimed check (quick) on the unchanged tree, validate MANIFEST and evidence files
cd /verif
[ -n "$(git -C /repo status --porcelain --untracked-files=no)" ] && { echo "/repo has uncommitted changes"; exit 1; }
python3 tools/mk_manifest.py
ids=$(python3 -c "import json;print(' '.join(c['property_id'] for c in json.load(open('MANIFEST.json'))['checks']))")
rc=0
for id in $ids; do
  s=$(date +%s); out=$(./vcheck $id --tier ${1:-quick} 2>&1); r=$?; e=$(date +%s)
  echo "$id exit=$r $((e-s))s $(echo "$out" | grep -E 'VIOLATION|KNOWN' | cut -c1-160)"
  [ $r -ne 0 ] && rc=1
done
python3-vt - <<'PY'
import json, jsonschema, glob
man = json.load(open('/verif/MANIFEST.json'))
jsonschema.validate(man, json.load(open('/root/.vp/MANIFEST.schema.json')))
sch = json.load(open('/root/.vp/EVIDENCE.schema.json'))
for c in man['checks']:
    e = json.load(open(c['evidence_file']))
    jsonschema.validate(e, sch)
    cov = e['coverage']
    assert cov['discharged'] == cov['obligations'] >= 1, (c['property_id'], cov['discharged'], cov['obligations'])
print("manifest + evidence valid:", len(man['checks']), "checks")
PY
exit $rc
