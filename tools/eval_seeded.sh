#!/bin/bash
# eval_seeded.sh [name...]: apply each confirmed seeded change to /repo, run its property's quick check (plus checks named in
# seeded/<name>/also), record the outcome in seeded/<name>/result.json, undo the change.  /repo must be clean.
# EVAL_WT=<dir>: use that scratch worktree of /repo (same HEAD) instead of /repo itself, through VERIF_REPO - for the times a long
# clean-tree run is using /repo.
cd /verif
T=/repo
if [ -n "$EVAL_WT" ]; then
  T=$EVAL_WT; [ -d $T ] || git -C /repo worktree add -q --detach $T HEAD || exit 2
  git -C $T checkout -q --detach $(git -C /repo rev-parse HEAD); git -C $T checkout -- .
  export VERIF_REPO=$T
fi
[ -n "$(git -C $T status --porcelain --untracked-files=no)" ] && { echo "$T has uncommitted changes"; exit 1; }
names="$@"; [ -z "$names" ] && names=$(ls seeded)
for n in $names; do
  d=seeded/$n; [ -f $d/meta.json ] || continue
  conf=$(python3 -c "import json;print(json.load(open('$d/meta.json'))['confirmed'])")
  [ "$conf" = "True" ] || { echo "$n: not confirmed, skipped"; continue; }
  prop=$(python3 -c "import json;print(json.load(open('$d/meta.json'))['breaks_property'])")
  patch=$d/patch.diff; [ -f $d/patch.rebased.diff ] && patch=$d/patch.rebased.diff
  git -C $T apply /verif/$patch 2>/dev/null || { echo "$n: patch does not apply to current HEAD"; python3 -c "import json;json.dump({'applies':False},open('$d/result.json','w'))"; continue; }
  res=""
  for id in $prop $(cat $d/also 2>/dev/null); do
    s=$(date +%s); out=$(timeout 1500 ./vcheck $id --tier quick 2>&1); r=$?; e=$(date +%s)
    v=$(echo "$out" | grep -E '^VIOLATION' | head -3 | tr '\n' ';')
    res="$res{\"check\":\"$id\",\"exit\":$r,\"seconds\":$((e-s)),\"lines\":\"$v\"},"
    echo "$n: $id exit=$r $((e-s))s $v"
  done
  git -C $T checkout -- .
  python3 - "$d" "[${res%,}]" <<'PY'
import json, sys
d, res = sys.argv[1], json.loads(sys.argv[2])
for r in res:
    r["caught"] = r["exit"] == 1 and "VIOLATION" in r["lines"]
    r["with_input"] = r["caught"] and "no-failing-input-found" not in r["lines"]
json.dump({"applies": True, "results": res}, open(d + "/result.json", "w"), indent=1)
PY
done
# evidence and replays written during these runs describe mutated trees: restore the committed evidence
git checkout -- evidence 2>/dev/null
