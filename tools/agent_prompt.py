#!/usr/bin/env python3
"""prints the sub-agent brief for one property (only the property text + scratch worktree, nothing from /verif)"""
import json, sys
pid = sys.argv[1]
n = sys.argv[2] if len(sys.argv) > 2 else "2"
for l in open('/verif/properties.jsonl'):
    p = json.loads(l)
    if p['id'] == pid:
        break
wt = f"/tmp/wt/{pid}"
print(f"""You are helping to evaluate a verification setup for the C++17 header-only MQTT 5 client library async-mqtt5 (boost::mqtt5, on Boost.Asio). Your job is to play the part of a realistic regression: write {n} different small source changes ("mutants") to the library, each of which BREAKS the property below while the library still compiles and ALL existing tests still pass, and for each one write a small demonstration program that fails with the change and passes without it.

PROPERTY ({p['title']}):
{p['statement']}
(It must hold {p['quantifier']['text']}.)

Your private scratch copy of the library (a git worktree, already created): {wt}
Work ONLY inside {wt} (and /tmp/wt/{pid}-* if you need more scratch space). Do NOT read, list or touch /verif or /repo at all. The sandbox has no network.

What makes a good change:
- It should look like a plausible slip or "optimisation" a maintainer could make, touching only files under {wt}/include/.
- It must need something SPECIFIC to manifest: a particular interleaving, a fault at a particular point, a multi-step sequence of operations, an unusual or boundary input, or two cooperating sites that each look fine alone. NOT something ordinary use (or the existing tests) would expose at once.
- The {n} changes must be different in kind (different code sites / different mechanisms).
- With the change applied the library compiles and the ENTIRE existing test suite still passes.

How to build and run the existing tests (takes ~5 min to build with -j8, ~2.5 min to run; do the first full build once, later builds are incremental):
  cmake -S {wt} -B {wt}/_build -G Ninja -DCMAKE_BUILD_TYPE=RelWithDebInfo -DBUILD_TESTING=ON -DBOOST_MQTT5_PUBLIC_BROKER_TESTS=ON -DCMAKE_CXX_FLAGS=-Wno-error > /dev/null
  cmake --build {wt}/_build -j8 2>&1 | tail -3
  ctest --test-dir {wt}/_build/test --timeout 900 --output-on-failure 2>&1 | tail -5
(Please use -j8, other builds run on this machine at the same time. Boost 1.83 headers are in /usr/include; compilers: g++ 12, clang++-14.)
The test tree ({wt}/test) has helpers you may reuse in your demonstration (test/include/test_common/*.hpp: a scripted test_broker / test_stream, message_exchange, packet_util). A demonstration can also be a stand-alone program that only includes the library headers. Keep demonstrations deterministic and quick (seconds).

Deliverables, for each change k = 1..{n}, in the directory {wt}/seeded/<short-name-k>/ :
  patch.diff   - output of `git -C {wt} diff HEAD -- include` with ONLY that change applied (it must apply cleanly with `git apply` to a clean checkout of HEAD)
  demo.cpp     - the demonstration (plus any extra file it needs); exit code 0 = property held, non-zero = property violated
  build.sh     - the exact command(s) to compile demo.cpp against an include dir given as $1 (e.g. `g++ -std=c++17 -O1 -I"$1" -I<...> demo.cpp -o demo -lpthread` ...), and run it
  notes.md     - what the change does, why the existing tests do not notice, what exactly is needed for it to manifest (the specific input / schedule / fault / sequence), and the demo's observed output with and without the change
Before you finish: verify for each change that (a) the full existing suite passes with it, (b) the demo fails with it, (c) the demo passes on the unmodified HEAD. Then restore the worktree's tracked files to HEAD (`git -C {wt} checkout -- .`) leaving only the untracked seeded/ directory, and delete {wt}/_build to free disk space.
Your final message: for each change, its directory name, the one-line idea, and the three verification results (a)(b)(c) as actually observed. If you could not make a change satisfy all conditions, say so plainly instead of delivering it.""")
