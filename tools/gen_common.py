"""Shared helpers for the translators (source -> lean/Mqtt5V/Gen/*.lean)."""
import os, re, sys

VERIF = os.path.dirname(os.path.dirname(os.path.abspath(__file__)))
REPO = os.environ.get("VERIF_REPO", "/repo")
INC = os.path.join(REPO, "include", "boost", "mqtt5")
GEN = os.path.join(VERIF, "lean", "Mqtt5V", "Gen")


class TranslateError(Exception):
    pass


def read(rel):
    p = os.path.join(INC, rel)
    try:
        with open(p, encoding="utf-8", errors="replace") as f:
            return f.read()
    except OSError as e:
        raise TranslateError(f"cannot read {p}: {e}")


def strip_comments(src):
    src = re.sub(r"/\*.*?\*/", " ", src, flags=re.S)
    src = re.sub(r"//[^\n]*", " ", src)
    return src


def write_if_changed(name, text):
    os.makedirs(GEN, exist_ok=True)
    p = os.path.join(GEN, name)
    old = None
    if os.path.exists(p):
        with open(p) as f:
            old = f.read()
    if old != text:
        with open(p, "w") as f:
            f.write(text)
        return True
    return False


def cint(tok):
    tok = tok.strip().replace("'", "")
    tok = re.sub(r"[uUlL]+$", "", tok)
    if tok.startswith(("0x", "0X")):
        return int(tok, 16)
    if tok.startswith(("0b", "0B")):
        return int(tok[2:], 2)
    return int(tok, 10)


def find_block(src, start_idx, open_ch="{", close_ch="}"):
    """return (begin, end) indexes of the balanced block starting at the first open_ch at/after start_idx"""
    i = src.index(open_ch, start_idx)
    depth = 0
    for j in range(i, len(src)):
        if src[j] == open_ch:
            depth += 1
        elif src[j] == close_ch:
            depth -= 1
            if depth == 0:
                return i, j + 1
    raise TranslateError("unbalanced block")
