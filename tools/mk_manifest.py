#!/usr/bin/env python3
"""Writes /verif/MANIFEST.json from the table below (single source of truth for what is claimed)."""
import json, os
HERE = os.path.dirname(os.path.dirname(os.path.abspath(__file__)))

COMMON_NOTE = ("Trusted: Lean 4.33 kernel; axioms limited to propext/Quot.sound/Classical.choice (audited per theorem on every run, "
               "no native_decide/bv_decide/sorry); Spec/*.lean (my reading of MQTT 5.0); the translators tools/extract_*.py; the "
               "correspondence harnesses (real headers under clang-14 ASan/UBSan vs the compiled Lean model) whose agreement is observed on the generated inputs only. ")

CLAIMED = {
    "C20": dict(
        text="Proof over the whole finite quantifier (9 categories x 256 bytes) by kernel evaluation of the model of to_reason_code on the tables "
             "regenerated from reason_codes.hpp on every run; the model is tied to the code exhaustively (all 2304 inputs through the real function under ASan).",
        note=COMMON_NOTE + "The guard shape of to_reason_code and the nine tables are extracted by a translator; the compiled tables are cross-checked against the extraction on every run.",
        technique="Lean 4 theorems (decide +kernel over the finite table) + translator + exhaustive differential run under ASan",
        design="§5 C20", engine="h_rc"),
    "C06": dict(
        text="Proof, on the ordering core: inside the window of fewer than 2^31 publishes per client object the model of write_req::operator< is the lexicographic strict weak order "
             "(prioritized, serial), and the modelled re-send sort is a permutation, has no inversion and is stable, so PUBLISH requests leave in serial = initiation order "
             "(theorem publish_order_after_resend_partial); the cyclic behaviour across 2^31 is a proved counterexample and a recorded known finding (F9). "
             "Tied to the code by differential runs of the real comparator and std::stable_sort over vector<write_req>.",
        note=COMMON_NOTE + "_partial: hypothesis `all serials < 2^31`. std::stable_sort is modelled by List.mergeSort (equal results for a strict weak order). "
             "That the sender hands requests to the queue/batches in this order (async_sender::do_write/resend, failed batch re-inserted in front) is checked at client level (H-client), not yet proved.",
        technique="Lean 4 theorems on comparator + merge sort (core lemmas), differential correspondence with the real operator< and std::stable_sort",
        design="§5 C06", engine="h_order"),
    "C16": dict(
        text="Proof, string level: for every byte string the model of validate_mqtt_utf8 / validate_topic_name / validate_topic_alias_name / is_valid_string_pair accepts exactly the "
             "well-formed inputs (Unicode Table 3-7 decoder as spec, MQTT allowed code points, 65535-byte limit, no wildcards / non-empty for topic names); the per-character rule is "
             "translated from the source on every run. Topic-filter and $share grammars: exhaustive small-scope differential check against an independent spec (no theorem yet). "
             "Tied to the code by ~170k (quick) inputs through the real validators under ASan incl. all strings of length <= 2 and every lead/continuation class.",
        note=COMMON_NOTE + "The decoder model is a hand-written arithmetic port of pop_front_unichar (bit operations as div/mod). Request-level application of the validators "
             "(publish/subscribe/unsubscribe/disconnect property checks, value ranges) is checked at client level, not proved here.",
        technique="Lean 4 theorems (induction over the string, omega on byte arithmetic, kernel-evaluated 16-bit mask lemma) + translator for the character rule + exhaustive/small-scope differential correspondence",
        design="§5 C16", engine="h_utf8"),
    "C17": dict(
        text="Proof: a strict MQTT 5 decoder is written in Lean from the standard (Spec.Wire.decode: fixed-header flags, minimal variable byte integers, Remaining Length = actual size, "
             "only properties the packet type allows, non-repeatable ones at most once, no trailing bytes) and for every well-formed packet value of CONNECT (incl. Will, credentials), PUBLISH, "
             "PUBACK/PUBREC/PUBREL/PUBCOMP, SUBSCRIBE, UNSUBSCRIBE, PINGREQ, DISCONNECT, AUTH: Spec.decode (Enc.encode p) = some p; and for all packet values the declared Remaining Length "
             "equals the encoded body length (byte_size/encode agreement per combinator). The encoder model is tied to the code byte for byte on generated packets built from the library's own types; "
             "the real bytes are also decoded by an independent Python decoder and compared with the supplied values. Property table and per-packet property lists are translated from the headers on every run.",
        note=COMMON_NOTE + "WF p is an explicit predicate (field ranges, string lengths <= 65535, body <= 268435455, allowed/non-repeated properties). That a request accepted by the API yields WF "
             "packets (validated_is_WF) is checked at client level, not proved here. AUTH exchange content (authenticator data) is opaque.",
        technique="Lean 4 round-trip theorems against a strict spec decoder + translators (property table) + byte-exact differential correspondence with the real encoders under ASan",
        design="§5 C17", engine="h_codec"),
    "C08": dict(
        text="Refinement proof: the interval allocator model refines a set of free identifiers (allocate = lowest free id, non-zero, removed; free = insert; "
             "representation invariant kept), lifted by induction over every legal history of allocations and releases of any length (uniqueness among "
             "outstanding ids, never 0, reuse only after release, overrun iff all 65535 in use). Tied to the code by lock-step differential runs of the real "
             "packet_id_allocator (returned id and private interval vector after every operation) incl. full exhaustion.",
        note=COMMON_NOTE + "The model is a hand-written port of allocate()/free() (reversed vector); agreement with the code is observed on generated scripts only. "
             "That every client operation releases its id exactly once on every completion path is checked at client level (H-client wire monitor), not proved here.",
        technique="Lean 4 refinement + induction over histories; lock-step differential correspondence with the real allocator under ASan",
        design="§5 C08", engine="h_pid"),
    "C11": dict(
        text="Invariant proof over every legal history (lock, unlock under holder discipline, per-waiter cancellation from outside/inside a handler, cancel-all, executor steps) "
             "of the async_mutex model: at most one holder, grants in arrival order among non-cancelled waiters, each waiter resolved at most once and accounted for, "
             "a cancelled waiter is never granted, no completion runs inline. Tied to the code by lock-step differential runs of the real async_mutex.",
        note=COMMON_NOTE + "Mutex level only so far: that reconnect_op/shutdown_op respect the holder discipline and detect stale triggers (stream level) is not yet modelled. "
             "Boost.Asio executor/cancellation-slot semantics are restated by the model and pinned by the correspondence.",
        technique="Lean 4 invariant by induction over operation histories; lock-step differential correspondence with the real async_mutex under ASan",
        design="§5 C11", engine="h_mutex"),
}

PENDING_REASON = "not claimed yet: the Lean model and its correspondence harness for this property are still being built (see DESIGN.md §11 build order); no check is registered rather than a weaker technique substituted"

ALL = [f"C{i:02d}" for i in range(1, 21)]


def main():
    checks = []
    for pid in ALL:
        if pid not in CLAIMED:
            continue
        c = CLAIMED[pid]
        checks.append({
            "property_id": pid,
            "quick_cmd": f"./vcheck {pid} --tier quick",
            "thorough_cmd": f"./vcheck {pid} --tier thorough",
            "evidence_file": f"/verif/evidence/{pid}.json",
            "replay_cmd_template": f"./vcheck {pid} --replay {{path}}",
            "engine": c["engine"],
            "level_claimed": {"category": "proof", "text": c["text"], "design_ref": c["design"]},
            "level_note": c["note"],
            "technique": c["technique"],
        })
    man = {
        "version": 1,
        "setup_cmd": "./vcheck --setup",
        "hooks": {
            "guard": "BOOST_MQTT5_VERIF",
            "enable": "none needed so far: every harness includes the unmodified headers; seams are macro re-definitions inside the harness translation units (DESIGN.md §2.3)",
            "baseline_off_cmd": "/verif/tools/baseline.sh",
            "source_commits": [],
            "add_only": True,
        },
        "engines": [
            {"name": "lean", "path": "/verif/lean", "serves_properties": sorted(CLAIMED), "kind_free_text": "Lean 4 library Mqtt5V (Gen = translated from source, Spec, Model, Proofs, Props) + compiled model driver mdrv"},
            {"name": "translators", "path": "/verif/tools", "serves_properties": sorted(CLAIMED), "kind_free_text": "regenerate Gen/*.lean from /repo headers on every run"},
            {"name": "h_rc", "path": "/verif/harness/h_rc.cpp", "serves_properties": ["C20"], "kind_free_text": "real to_reason_code under ASan, exhaustive"},
            {"name": "h_order", "path": "/verif/harness/h_order.cpp", "serves_properties": ["C06"], "kind_free_text": "real write_req::operator< and std::stable_sort over vector<write_req>"},
            {"name": "h_utf8", "path": "/verif/harness/h_utf8.cpp", "serves_properties": ["C16"], "kind_free_text": "real UTF-8 / topic validators on exact-size heap copies under ASan"},
            {"name": "h_codec", "path": "/verif/harness/h_codec.cpp", "serves_properties": ["C17"], "kind_free_text": "real message encoders (and decoders) on textual packet descriptions"},
            {"name": "h_pid", "path": "/verif/harness/h_pid.cpp", "serves_properties": ["C08"], "kind_free_text": "real packet_id_allocator, alloc/free scripts, state dump"},
            {"name": "h_mutex", "path": "/verif/harness/h_mutex.cpp", "serves_properties": ["C11"], "kind_free_text": "real async_mutex with per-waiter cancellation slots on a polled io_context"},
        ],
        "checks": checks,
        "notes": "Technique: machine-checked proof in Lean 4 about executable models, tied to /repo by translators and differential correspondence (DESIGN.md).",
        "not_applicable": [{"property_id": p, "reason": PENDING_REASON} for p in ALL if p not in CLAIMED],
    }
    with open(os.path.join(HERE, "MANIFEST.json"), "w") as f:
        json.dump(man, f, indent=1)
        f.write("\n")


if __name__ == "__main__":
    main()
