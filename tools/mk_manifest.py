#!/usr/bin/env python3
"""Writes /verif/MANIFEST.json from the table below (single source of truth for what is claimed)."""
import json, os
HERE = os.path.dirname(os.path.dirname(os.path.abspath(__file__)))

COMMON_NOTE = ("Trusted: Lean 4.33 kernel; axioms limited to propext/Quot.sound/Classical.choice (audited per theorem on every run, "
               "no native_decide/bv_decide/sorry); Spec/*.lean (my reading of MQTT 5.0); the translators tools/extract_*.py; the "
               "correspondence harnesses (real headers under clang-14 ASan/UBSan vs the compiled Lean model) whose agreement is observed on the generated inputs only. ")

CLAIMED = {
    "C20": dict(
        text="Proof over the whole finite quantifier (9 categories x 256 bytes) by kernel evaluation of the model of to_reason_code on the tables "
             "regenerated from reason_codes.hpp on every run; the model is tied to the code exhaustively (all 2304 inputs through the real function under ASan). "
             "The category requested at the PUBACK / PUBREC / PUBCOMP call sites is checked exhaustively (3 x 256 codes through the real publish_send_op); SUBACK/UNSUBACK call sites by the C14 verdict tie, CONNACK by the C10 handshake tie.",
        note=COMMON_NOTE + "The guard shape of to_reason_code and the nine tables are extracted by a translator; the compiled tables are cross-checked against the extraction on every run.",
        technique="Lean 4 theorems (decide +kernel over the finite table) + translator + exhaustive differential run under ASan",
        design="§5 C20", engine="h_rc,h_pubsend"),
    "C06": dict(
        text="Proof, on the ordering core: inside the window of fewer than 2^31 publishes per client object the model of write_req::operator< is the lexicographic strict weak order "
             "(prioritized, serial), and the modelled re-send sort is a permutation, has no inversion and is stable, so PUBLISH requests leave in serial = initiation order "
             "(theorem publish_order_after_resend_partial); the cyclic behaviour across 2^31 is a proved counterexample and a recorded known finding (F9). "
             "Tied to the code by differential runs of the real comparator and std::stable_sort over vector<write_req>. End to end (composed_publish_order): after every prefix the QoS 1/2 PUBLISH packets of the current connection are in initiation order. Composed model (DESIGN.md S.8): the end-to-end statement is ALSO a Lean theorem about every event list accepted by a labelled transition system of the client above the stream (Model/Trace.lean / TraceIn.lean / TraceContent.lean); the real client is tied to it by trace inclusion: every H-client transcript is replayed through the compiled model on every run (lib/trace_check.py), a refusal is a broken correspondence.",
        note=COMMON_NOTE + "_partial: hypothesis `all serials < 2^31`. std::stable_sort is modelled by List.mergeSort (equal results for a strict weak order). "
             "That the sender hands requests to the queue/batches in this order (async_sender::do_write/resend, failed batch re-inserted in front) is checked at client level (H-client), not yet proved.",
        technique="Lean 4 theorems on comparator + merge sort (core lemmas), differential correspondence with the real operator< and std::stable_sort + composed observer model with end-to-end theorems, tied by trace inclusion of real-client transcripts",
        design="§5 C06", engine="h_order"),
    "C16": dict(
        text="Proof, string level: for every byte string the model of validate_mqtt_utf8 / validate_topic_name / validate_topic_alias_name / is_valid_string_pair accepts exactly the "
             "well-formed inputs (Unicode Table 3-7 decoder as spec, MQTT allowed code points, 65535-byte limit, no wildcards / non-empty for topic names); the per-character rule is "
             "translated from the source on every run. Topic-filter and $share grammars: exhaustive small-scope differential check against an independent spec (no theorem yet). "
             "Tied to the code by ~170k (quick) inputs through the real validators under ASan incl. all strings of length <= 2 and every lead/continuation class.",
        note=COMMON_NOTE + "The decoder model is a hand-written arithmetic port of pop_front_unichar (bit operations as div/mod). Request-level application of the validators "
             "(publish/subscribe/unsubscribe/disconnect property checks, value ranges) is checked at client level, not proved here.",
        technique="Lean 4 theorems (induction over the string, omega on byte arithmetic, kernel-evaluated 16-bit mask lemma) + translator for the character rule + exhaustive/small-scope differential correspondence",
        design="§5 C16", engine="h_utf8"),
    "C17": dict(
        text="Proof: a strict MQTT 5 decoder is written in Lean from the standard (Spec.Wire.decode: fixed-header flags, minimal variable byte integers, Remaining Length = actual size, "
             "only properties the packet type allows, non-repeatable ones at most once, no trailing bytes) and for every well-formed packet value of CONNECT (incl. Will, credentials), PUBLISH, "
             "PUBACK/PUBREC/PUBREL/PUBCOMP, SUBSCRIBE, UNSUBSCRIBE, PINGREQ, DISCONNECT, AUTH: Spec.decode (Enc.encode p) = some p; and for all packet values the declared Remaining Length "
             "equals the encoded body length (byte_size/encode agreement per combinator). The encoder model is tied to the code byte for byte on generated packets built from the library's own types; "
             "the real bytes are also decoded by an independent Python decoder and compared with the supplied values. Property table and per-packet property lists are translated from the headers on every run. End to end (composed_request_says_what_was_asked): every PUBLISH the real client writes says what its async_publish call said; every packet it writes is decoded by the independent decoder. Composed model (DESIGN.md S.8): the end-to-end statement is ALSO a Lean theorem about every event list accepted by a labelled transition system of the client above the stream (Model/Trace.lean / TraceIn.lean / TraceContent.lean); the real client is tied to it by trace inclusion: every H-client transcript is replayed through the compiled model on every run (lib/trace_check.py), a refusal is a broken correspondence.",
        note=COMMON_NOTE + "WF p is an explicit predicate (field ranges, string lengths <= 65535, body <= 268435455, allowed/non-repeated properties). That a request accepted by the API yields WF "
             "packets (validated_is_WF) is checked at client level, not proved here. AUTH exchange content (authenticator data) is opaque.",
        technique="Lean 4 round-trip theorems against a strict spec decoder + translators (property table) + byte-exact differential correspondence with the real encoders under ASan + composed observer model with end-to-end theorems, tied by trace inclusion of real-client transcripts",
        design="§5 C17", engine="h_codec"),
    "C08": dict(
        text="Refinement proof: the interval allocator model refines a set of free identifiers (allocate = lowest free id, non-zero, removed; free = insert; "
             "representation invariant kept), lifted by induction over every legal history of allocations and releases of any length (uniqueness among "
             "outstanding ids, never 0, reuse only after release, overrun iff all 65535 in use). Tied to the code by lock-step differential runs of the real "
             "packet_id_allocator (returned id and private interval vector after every operation) incl. full exhaustion. End to end (composed_outstanding_identifiers_distinct, composed_identifier_stable_nonzero): two outstanding operations never share an identifier, an operation keeps its identifier, never 0. Composed model (DESIGN.md S.8): the end-to-end statement is ALSO a Lean theorem about every event list accepted by a labelled transition system of the client above the stream (Model/Trace.lean / TraceIn.lean / TraceContent.lean); the real client is tied to it by trace inclusion: every H-client transcript is replayed through the compiled model on every run (lib/trace_check.py), a refusal is a broken correspondence.",
        note=COMMON_NOTE + "The model is a hand-written port of allocate()/free() (reversed vector); agreement with the code is observed on generated scripts only. "
             "That every client operation releases its id exactly once on every completion path is checked at client level (H-client wire monitor), not proved here.",
        technique="Lean 4 refinement + induction over histories; lock-step differential correspondence with the real allocator under ASan + composed observer model with end-to-end theorems, tied by trace inclusion of real-client transcripts",
        design="§5 C08", engine="h_pid"),
    "C11": dict(
        text="Invariant proof over every legal history (lock, unlock under holder discipline, per-waiter cancellation from outside/inside a handler, cancel-all, executor steps) "
             "of the async_mutex model: at most one holder, grants in arrival order among non-cancelled waiters, each waiter resolved at most once and accounted for, "
             "a cancelled waiter is never granted, no completion runs inline. Tied to the code by lock-step differential runs of the real async_mutex. "
             "Stream level: the retry loop of reconnect_op is modelled (Model/Connect.lean, one attempt after the other by construction, C10 theorems) and the real autoconnect_stream "
             "(reconnect_op, shutdown_op, read_op, write_op around the lock) is searched by the C11 stream monitor on H-stream: at most one connection attempt in progress, connect only "
             "under the lock, every operation completes exactly once, lock free after cancel + close.",
        note=COMMON_NOTE + "That reconnect_op/shutdown_op respect the holder discipline and detect stale triggers is checked on the real code by the H-stream monitor (search), not proved: "
             "the composition of read_op/write_op/shutdown_op with the lock is not modelled in Lean. "
             "Boost.Asio executor/cancellation-slot semantics are restated by the model and pinned by the correspondence.",
        technique="Lean 4 invariant by induction over operation histories; lock-step differential correspondence with the real async_mutex under ASan",
        design="§5 C11", engine="h_mutex,h_stream"),
}


CLIENT_NOTE = ("Client level: two kinds of Lean models. (1) Deterministic component models (async_sender, replies, publish_send_op, session flags, request validation, timing expressions, "
               "packet codecs), each tied to the real code by its own lock-step / differential harness or translator. (2) For C01-C09, C13, C14, C17 a composed observer model of the client "
               "above the stream (labelled transition systems Model/Trace.lean, TraceIn.lean, TraceContent.lean; DESIGN.md S.8) whose every accepted event list satisfies the end-to-end statement "
               "(theorems in the Props file, section ComposedModel); it over-approximates the client, says nothing about time, liveness or Asio posting order, and is tied to the real mqtt_client "
               "by trace inclusion on the transcripts the H-client scenario generator produces (observed, not proved). The property's Python monitor runs on the same transcripts and is the violation search. ")

CLAIMED.update({
    "C01": dict(text="Proof (reply-matching core): in the model of detail::replies, for every history, a waiter completes ok only with the bytes of a reply dispatched with exactly its "
                     "(control code, packet id); keys stay unique; fast replies are discarded at every write. Tied by lock-step of the real replies class. The end-to-end statement "
                     "(PUBLISH fields on the wire = arguments, final ack's rc/props = handler's) is searched by the C01 monitor on the real client. End to end (composed_publish_success_truthful, composed_request_says_what_was_asked): a success rests on the written PUBLISH that says what the call said and, afterwards, the well-formed acknowledgement with exactly the handler's code and properties (QoS 2: failing PUBREC, or PUBLISH -> PUBREC -> PUBREL -> PUBCOMP in order). Composed model (DESIGN.md S.8): the end-to-end statement is ALSO a Lean theorem about every event list accepted by a labelled transition system of the client above the stream (Model/Trace.lean / TraceIn.lean / TraceContent.lean); the real client is tied to it by trace inclusion: every H-client transcript is replayed through the compiled model on every run (lib/trace_check.py), a refusal is a broken correspondence.",
                note=COMMON_NOTE + CLIENT_NOTE, technique="Lean 4 invariants over histories of the replies model + lock-step differential; trace monitor on the real client + composed observer model with end-to-end theorems, tied by trace inclusion of real-client transcripts", design="§5 C01/C14", engine="h_replies,h_client"),
    "C02": dict(text="Proof (conservation core): do_write neither drops nor duplicates requests; a write failed with try_again re-queues unanswered + batch + queue; no request is ever finished with try_again; "
                     "resend_unanswered reaches every waiter once. Liveness (eventual completion once the broker stays reachable) is NOT proved: it is searched by the fault-free-suffix monitor on the real client (partial).",
                note=COMMON_NOTE + CLIENT_NOTE + "Stream-level fault handling: the retry loop is modelled (Model/Connect.lean); read_op/write_op mapping of transport errors to try_again/aborted is searched on H-stream (every operation of the layer above ends with ok / try_again / aborted, no_recovery only for a non-retryable fault).", technique="Lean 4 conservation lemmas on sender/replies models + lock-step; healing-suffix monitor on the real client; completion-code monitor on the real autoconnect_stream", design="§5 C02", engine="h_sender,h_replies,h_client,h_stream"),
    "C03": dict(text="Proof (packet core): set_dup on a PUBLISH encoded with DUP=0 equals byte for byte the encoding with DUP=1 (only bit 3 of byte 0 changes, idempotent) and decodes under the strict spec decoder to the same message with DUP=1. "
                     "The stored-packet state machine (only PUBREL kept after a successful PUBREC; DUP iff an earlier write succeeded) is searched by the C03 monitor on the real client, not modelled. End to end (composed_no_publish_after_pubrel, _retransmission_identical, _same_identifier, _first_transmission_dup_zero, _dup_after_successful_write): the stored-packet state machine is now modelled (phases per exchange, DUP rule, bytes of the first transmission). Composed model (DESIGN.md S.8): the end-to-end statement is ALSO a Lean theorem about every event list accepted by a labelled transition system of the client above the stream (Model/Trace.lean / TraceIn.lean / TraceContent.lean); the real client is tied to it by trace inclusion: every H-client transcript is replayed through the compiled model on every run (lib/trace_check.py), a refusal is a broken correspondence.",
                note=COMMON_NOTE + CLIENT_NOTE, technique="Lean 4 theorems on the encoder model + differential check of control_packet::set_dup; wire-history monitor on the real client + composed observer model with end-to-end theorems, tied by trace inclusion of real-client transcripts", design="§5 C03", engine="h_codec,h_client"),
    "C04": dict(text="Proof (waiter core): a duplicate (PUBREL, id) waiter replaces and aborts the old one (QoS 2 at most once), an arriving PUBREL completes only its waiter, clear_pending_pubrels aborts exactly the PUBREL waiters. "
                     "Acknowledgement chain, delivery content and order are searched by the C04 monitor on the real client (broker as QoS 0/1/2 sender). Known limits: see DESIGN §9 (F10/F11 not confirmed by the machinery). End to end (composed_inbound_acks_justified, composed_delivered_was_received, composed_delivered_in_arrival_order): acknowledgements only for what was received, never PUBCOMP before PUBREL, QoS 2 deliveries bounded by PUBRELs (a repeated PUBLISH is not delivered twice), delivered content = received content, QoS 0/1 in arrival order. Three recorded findings (F24, F25, F26: message given up when the write carrying its acknowledgement ends with try_again although the acknowledgement reached the broker). Composed model (DESIGN.md S.8): the end-to-end statement is ALSO a Lean theorem about every event list accepted by a labelled transition system of the client above the stream (Model/Trace.lean / TraceIn.lean / TraceContent.lean); the real client is tied to it by trace inclusion: every H-client transcript is replayed through the compiled model on every run (lib/trace_check.py), a refusal is a broken correspondence.",
                note=COMMON_NOTE + CLIENT_NOTE, technique="Lean 4 lemmas on the replies model + lock-step; inbound-exchange monitor on the real client + composed observer model with end-to-end theorems, tied by trace inclusion of real-client transcripts", design="§5 C04", engine="h_replies,h_client"),
    "C05": dict(text="Proof (component core): replies.cancel_unanswered and async_sender.cancel abort each waiter/request exactly once and keep none; async_send completes nothing inline; the connection lock never completes inline. "
                     "Exactly-once completion per API operation, cancel()/async_disconnect draining and io_context running out of work are searched by the C05 monitor on the real client. End to end (composed_complete_at_most_once, composed_all_completed_at_quiescence, composed_no_success_after_cancel): no operation completes twice; once cancel()/async_disconnect has finished and the context has drained every initiated operation has completed; nothing completes successfully after cancel() until async_run() is called again. Stream level (H-stream): a cancelled and closed stream never opens again by itself. Composed model (DESIGN.md S.8): the end-to-end statement is ALSO a Lean theorem about every event list accepted by a labelled transition system of the client above the stream (Model/Trace.lean / TraceIn.lean / TraceContent.lean); the real client is tied to it by trace inclusion: every H-client transcript is replayed through the compiled model on every run (lib/trace_check.py), a refusal is a broken correspondence.",
                note=COMMON_NOTE + CLIENT_NOTE, technique="Lean 4 lemmas on sender/replies/mutex models + lock-step; completion-count / idle monitor on the real client + composed observer model with end-to-end theorems, tied by trace inclusion of real-client transcripts", design="§5 C05", engine="h_sender,h_replies,h_client"),
    "C07": dict(text="Proof: token invariant of the async_sender model for every history (sends, write completions with any result, replies, reconnects storing any Receive Maximum, read-path resends, cancel): "
                     "quota + throttled requests written-and-unanswered <= limit, no uint16 wrap, and after do_write no sendable request is left idle. Tied by lock-step of the real async_sender on a mock service (every output compared). End to end (composed_receive_maximum_respected): after every prefix the number of QoS>0 PUBLISH in flight on the connection (read off the events alone) is at most its Receive Maximum. Composed model (DESIGN.md S.8): the end-to-end statement is ALSO a Lean theorem about every event list accepted by a labelled transition system of the client above the stream (Model/Trace.lean / TraceIn.lean / TraceContent.lean); the real client is tied to it by trace inclusion: every H-client transcript is replayed through the compiled model on every run (lib/trace_check.py), a refusal is a broken correspondence.",
                note=COMMON_NOTE + CLIENT_NOTE + "Hypothesis of the history theorem: terminal requests are never throttled (true of every call site).", technique="Lean 4 invariant by induction over sender histories + lock-step differential; in-flight monitor on the real client + composed observer model with end-to-end theorems, tied by trace inclusion of real-client transcripts", design="§5 C07", engine="h_sender,h_client"),
    "C09": dict(text="Proof (sender core): with the stream free and a terminal request queued, do_write writes exactly that request alone, ahead of everything queued; nothing is written while a write is in progress and the terminal request is next after it; a batch never mixes a terminal request with others. "
                     "The 5 s bound, abort of the other operations and silence afterwards are searched by the C09 monitor on the real client (virtual time). Known finding F21. The 5 s bound is also a theorem of a timed composed model (Model/TraceDiscT.lean, limit translated from disconnect_op: the clock never moves on from a moment at or past the limit while the operation is in progress), tied by replaying the timed projection of every transcript. End to end (composed_no_success_after_cancel, composed_disconnect_first_in_write, composed_nothing_after_disconnect_in_write, composed_silence_after_disconnect): after a finished async_disconnect no publish/subscribe/unsubscribe completes successfully until async_run(); a DISCONNECT is alone in its write and nothing is written on the connection after it (Model/TraceDisc.lean on the write-level projection of every transcript). Composed model (DESIGN.md S.8): the end-to-end statement is ALSO a Lean theorem about every event list accepted by a labelled transition system of the client above the stream (Model/Trace.lean / TraceIn.lean / TraceContent.lean); the real client is tied to it by trace inclusion: every H-client transcript is replayed through the compiled model on every run (lib/trace_check.py), a refusal is a broken correspondence.",
                note=COMMON_NOTE + CLIENT_NOTE, technique="Lean 4 theorems on do_write + lock-step; disconnect monitor on the real client under virtual time + composed observer model with end-to-end theorems, tied by trace inclusion of real-client transcripts", design="§5 C09", engine="h_sender,h_client"),
    "C12": dict(text="Proof (timing rules): the expressions compute_read_timeout, ping compute_wait_time and negotiated_keep_alive are translated from the source on every run; theorems: read time-out = 1500*K ms, ping period = K s, K = 0 => neither, negotiated = Server Keep Alive or configured. "
                     "End to end (composed keep-alive model Model/TraceKA.lean: ping_op's timer, the sender's handling of the PINGREQ and the time-out of every read over a virtual clock, built on the translated expressions): at every moment the execution context has run dry on a running client with keep-alive K > 0, less than K s have passed since the timer was last armed (async_run, session refresh, end of the previous PINGREQ's write) or a write is in progress; keep-alive 0 => no PINGREQ in any accepted history; every read carries 1.5*K; tie: every timed transcript of the real client must be accepted by the model. The expiry itself (Model/TraceRd.lean, the timed read of the real stream layer): the read timer gives a connection up only when a read with a limit is in progress and at least the limit has passed since it began (never earlier, never for keep-alive 0), and no pending read outlives its limit; tie: every timed H-stream transcript accepted, limits probed at the millisecond. "
                     "PINGREQ cadence and read time-outs of the real client are checked by the C12 monitor under virtual time; the timed read of the real read_op (abandon exactly at the limit, never earlier, never with keep-alive 0) by the C12 stream monitor on H-stream.",
                note=COMMON_NOTE + CLIENT_NOTE + "read_op's parallel_group of read and timer is modelled by what it shows to an observer with a clock (Model/TraceRd.lean), not by its asio mechanics.", technique="translator + Lean 4 theorems (arithmetic rules; invariant over all timed histories of the composed keep-alive model) + trace-inclusion correspondence; virtual-time monitors on the real client and the real autoconnect_stream", design="§5 C12", engine="h_client,h_stream"),
    "C13": dict(text="Proof: flag machine (session_present / subscriptions_present, on_connack, update_session_state, SUBACK success) - for every history the number of session_expired reports equals the specification "
                     "(one per lost session with a successful subscription since the last report; idempotent per connection). Tied by abstract replay: the model's report count on the inputs read off each real-client transcript equals the reports actually delivered. End to end (composed_expired_reports_bounded): in every event list the composed inbound model accepts, the application is handed at most as many session_expired reports as are due; every H-client transcript is replayed through the model. Where the flag comes from (stored_session_present_is_the_connacks): whatever the broker sends in reply to CONNECT, the Session Present flag the accepted handshake stores is the Connect Acknowledge Flags byte of the received CONNACK; the handshake model is tied to the real connect_op on H-stream (verdict, stored flag, stored properties), and the stream monitor compares the stored flag with the reference decoder also on the enhanced-authentication path.",
                note=COMMON_NOTE + CLIENT_NOTE, technique="Lean 4 induction over histories of the flag machine + theorem on the handshake model + abstract-replay / handshake correspondence on real-client and real-stream transcripts", design="§5 C13", engine="h_client,h_stream"),
    "C14": dict(text="Proof: verdict model (admit each code, require exactly one admissible code per topic) - success iff count matches and all codes admissible, and then the codes are the acknowledgement's, in order; SUBACK/UNSUBACK routed by (code, id) as in C01. "
                     "Tied by running arbitrary code lists through the real client (H-client) against the model, and by the replies lock-step. End to end (composed_subscribe_success_truthful, composed_good_ack_codes): a success rests on the written request and, afterwards, the well-formed SUBACK/UNSUBACK for its identifier whose codes are exactly the handler's, one admissible code per topic. Composed model (DESIGN.md S.8): the end-to-end statement is ALSO a Lean theorem about every event list accepted by a labelled transition system of the client above the stream (Model/Trace.lean / TraceIn.lean / TraceContent.lean); the real client is tied to it by trace inclusion: every H-client transcript is replayed through the compiled model on every run (lib/trace_check.py), a refusal is a broken correspondence.",
                note=COMMON_NOTE + CLIENT_NOTE, technique="Lean 4 theorem on the verdict model + differential through the real client; trace monitor + composed observer model with end-to-end theorems, tied by trace inclusion of real-client transcripts", design="§5 C01/C14", engine="h_client,h_replies"),
    "C15": dict(text="Proof: model of publish/subscribe perform + validation chains (Except error bytes): an accepted request respects Maximum Packet Size, Maximum QoS, Retain Available, Topic Alias Maximum, wildcard/shared/identifier availability; documented errors in precedence order; size boundary. "
                     "Tied by requests at every capability boundary through the real client holding such a CONNACK: packet bytes or immediate error compared with the model.",
                note=COMMON_NOTE + CLIENT_NOTE + "unsubscribe/disconnect validation is covered by the differential generator of C16/C17 only. That connect_op stores the accepted CONNACK's properties (the validators' only source) is checked on the real connect_op by the C15 stream monitor (H-stream, with and without authenticator), not proved.", technique="Lean 4 theorems on the validation model + differential through the real client; stored-capabilities monitor on the real connect_op", design="§5 C15", engine="h_client,h_stream"),
})

CLAIMED.update({
    "C10": dict(text="Proof on the connection-establishment model (Model/Connect.lean: exponential_backoff, resolve_op::perform rotation, the retry loop of reconnect_op, the handshake of connect_op): "
                     "the first packet written is the encoder model's CONNECT of the configuration with Clean Start 0 and the strict spec decoder reads back exactly the configured fields; for every broker count, "
                     "reachable state and outcome sequence the trace obeys the rotation rule (next broker of the list without pause; a pause only when the list wrapped, then the first broker; nothing after "
                     "established); pauses use exponents min(k,4) and lie in [0.5 s, 16.5 s] for every jitter value; established iff some attempt succeeded; the handshake asks for exactly the bytes of the packet, "
                     "decodes inside them, and establishes only after a complete well-formed CONNACK with reason code 0. Constants translated from reconnect_op.hpp on every run. "
                     "Tied to the real autoconnect_stream + reconnect_op + connect_op + resolve_op + endpoints parser (H-stream, scripted socket/resolver/virtual clock) by: first-packet bytes vs `enc connect`, "
                     "handshake verdict and read sizes vs `hs`/`frame`, action trace of each reconnect operation vs `rot`; the C10 monitor (CONNECT fields via an independent decoder, gating, rotation, pause windows, 5 s limit) searches every transcript.",
                note=COMMON_NOTE + "Not modelled: the parallel_group/timer mechanics (5 s limit, pause durations are checked by the monitor under virtual time against the proved windows), TLS/WebSocket handshakes, the AUTH exchange of a configured authenticator "
                     "(handshake model covers the no-authenticator path), boost::random's jitter distribution (only its configured range is used). The jitter generator is seeded from std::time in the code; the monitor accepts any value in the range.",
                technique="Lean 4 theorems (induction over outcome sequences, kernel-evaluated reason-code table) + translator for constants + lock-step/differential correspondence with the real stream stack under ASan; virtual-time trace monitor",
                design="§5 C10", engine="h_stream"),
    "C18": dict(text="Proof on the decoder index model (Model/Dec.lean: base_decoders + message_decoders), for encoded bytes standing anywhere in a buffer: the property block decoder returns, for every list of "
                     "well-typed properties the packet type allows, in any order and with any repetition, exactly the content of the library's property container after assigning them in wire order (canon); "
                     "PUBACK/PUBREC/PUBREL/PUBCOMP/DISCONNECT/AUTH bodies in full form, with omitted Property Length and with omitted reason code; CONNACK; SUBACK/UNSUBACK (all reason codes in order); PUBLISH "
                     "(topic, Packet Identifier iff QoS > 0, properties, payload = every remaining byte); the container content is a fixed point, so the re-encoded acknowledgement decodes to the same contents. "
                     "Tied to the real decoders by the `dec` lock-step on well-formed packets from an independent reference encoder (Python) and on damaged packets, in exact-size heap blocks under ASan/UBSan; "
                     "decoded values are also compared with the values the reference encoder was given, and re-encoded by the real encoders and decoded by the reference decoder.",
                note=COMMON_NOTE + "The bytes in the theorems are described by the encoder model's combinators (Model/Enc.lean, itself tied to the real encoders and inverted by the strict spec decoder in C17); the "
                     "independent Python encoder is used on the implementation side only. UTF-8 validity of decoded strings and the fixed-header framing are outside these theorems (framing: C19 frame model).",
                technique="Lean 4 theorems (induction over property lists on an index-based buffer model, idempotence of the container content) + lock-step/differential correspondence with the real decoders under ASan/UBSan",
                design="§5 C18", engine="h_guard,h_codec"),
    "C19": dict(text="Proof: (a) decoder index model (base_decoders/message_decoders): for every buffer content, position and Remaining Length inside the received bytes no decoder reads outside the packet, a success ends inside it, "
                     "and an accepted CONNACK/PUBACK/PUBREC/PUBREL/PUBCOMP/DISCONNECT/AUTH body was consumed to its last byte; (b) frame model (assemble_op): verdicts are stable under later bytes, every packet taken off the buffer "
                     "removes >= 2 bytes and the parse loop's bound is never reached (no hang), a packet body fits the receive buffer, and for every byte string and any two chunkings the same packets are recognised in the same order "
                     "(recognised_packets_do_not_depend_on_chunking); (c) handshake (C10 theorems): reads exactly the packet, establishes only on a well-formed success CONNACK. "
                     "Tied by: mutated packets on the real decoders in exact-size heap blocks under ASan/UBSan vs `dec`; broker streams in three chunkings on the real assemble_op vs `frm` (events and read sizes) with the chunking "
                     "predicate evaluated on the implementation's outputs; the whole client against a hostile broker under ASan (no fault; no operation completed by, and no message delivered from, a packet the strict reference decoder rejects); hostile handshakes on H-stream.",
                note=COMMON_NOTE + "Memory safety of the C++ itself (iterator arithmetic matching the model's indices, x3 internals, std::string reallocation) is observed under ASan/UBSan on the generated inputs, not proved. "
                     "Frame model assumes a receive maximum >= 5 bytes (below that the C++ unsigned subtraction wraps; the client never announces such a value by default). UTF-8 validity of inbound strings is not part of the decoder model.",
                technique="Lean 4 theorems (index-bounds lemmas, induction over buffer length for chunking independence) + lock-step/differential correspondence of decoders and assemble_op under ASan/UBSan; hostile-broker scenario search on the real client",
                design="§5 C19", engine="h_guard,h_frame,h_client,h_stream"),
})

PENDING_REASON = "not claimed: the Lean model and its correspondence harness for this property are still being built (see DESIGN.md §11 build order); no check is registered rather than a weaker technique substituted"

ALL = [f"C{i:02d}" for i in range(1, 21)]


def main():
    checks = []
    for pid in ALL:
        if pid not in CLAIMED:
            continue
        c = CLAIMED[pid]
        checks.append({
            "property_id": pid,
            "quick_cmd": f"./vcheck {pid} --tier quick",
            "thorough_cmd": f"./vcheck {pid} --tier thorough",
            "evidence_file": f"/verif/evidence/{pid}.json",
            "replay_cmd_template": f"./vcheck {pid} --replay {{path}}",
            "engine": c["engine"],
            "level_claimed": {"category": "proof", "text": c["text"], "design_ref": c["design"]},
            "level_note": c["note"],
            "technique": c["technique"],
        })
    man = {
        "version": 1,
        "setup_cmd": "./vcheck --setup",
        "hooks": {
            "guard": "BOOST_MQTT5_VERIF",
            "enable": "harness/h_client.cpp defines BOOST_MQTT5_VERIF and BOOST_MQTT5_VERIF_ON_PACKET(control_byte, first, last) before including the library: impl/assemble_op.hpp then reports every inbound packet at the moment it is dispatched (the only hook; every other seam is a macro re-definition inside a harness translation unit, DESIGN.md §2.3). With the guard undefined the hook expands to nothing.",
            "baseline_off_cmd": "/verif/tools/baseline.sh",
            "source_commits": ["663d83c"],
            "add_only": True,
        },
        "engines": [
            {"name": "lean", "path": "/verif/lean", "serves_properties": sorted(CLAIMED), "kind_free_text": "Lean 4 library Mqtt5V (Gen = translated from source, Spec, Model, Proofs, Props) + compiled model driver mdrv"},
            {"name": "translators", "path": "/verif/tools", "serves_properties": sorted(CLAIMED), "kind_free_text": "regenerate Gen/*.lean from /repo headers on every run"},
            {"name": "h_client", "path": "/verif/harness/h_client.cpp", "serves_properties": ["C01","C02","C03","C04","C05","C06","C07","C08","C09","C12","C13","C14","C15"], "kind_free_text": "real mqtt_client/client_service/sender/replies/ops on a scripted autoconnect_stream stand-in, virtual clock; driven online by lib/client_gen.py"},
            {"name": "h_sender", "path": "/verif/harness/h_sender.cpp", "serves_properties": ["C02","C05","C06","C07","C09"], "kind_free_text": "real async_sender on a mock service"},
            {"name": "h_replies", "path": "/verif/harness/h_replies.cpp", "serves_properties": ["C01","C02","C04","C05","C14"], "kind_free_text": "real detail::replies"},
            {"name": "h_rc", "path": "/verif/harness/h_rc.cpp", "serves_properties": ["C20"], "kind_free_text": "real to_reason_code under ASan, exhaustive"},
            {"name": "h_order", "path": "/verif/harness/h_order.cpp", "serves_properties": ["C06"], "kind_free_text": "real write_req::operator< and std::stable_sort over vector<write_req>"},
            {"name": "h_utf8", "path": "/verif/harness/h_utf8.cpp", "serves_properties": ["C16"], "kind_free_text": "real UTF-8 / topic validators on exact-size heap copies under ASan"},
            {"name": "h_codec", "path": "/verif/harness/h_codec.cpp", "serves_properties": ["C17"], "kind_free_text": "real message encoders (and decoders) on textual packet descriptions"},
            {"name": "h_pid", "path": "/verif/harness/h_pid.cpp", "serves_properties": ["C08"], "kind_free_text": "real packet_id_allocator, alloc/free scripts, state dump"},
            {"name": "h_mutex", "path": "/verif/harness/h_mutex.cpp", "serves_properties": ["C11"], "kind_free_text": "real async_mutex with per-waiter cancellation slots on a polled io_context"},
            {"name": "h_stream", "path": "/verif/harness/h_stream.cpp", "serves_properties": ["C02","C05","C10","C11","C12","C13","C15","C19"], "kind_free_text": "real autoconnect_stream, reconnect_op, connect_op, read_op, write_op, shutdown_op, resolve_op, endpoints::brokers parser over a scripted socket, resolver and virtual clock (immediate or deferred cancellation); driven online by lib/stream_gen.py"},
            {"name": "h_pubsend", "path": "/verif/harness/h_pubsend.cpp", "serves_properties": ["C01","C03","C05","C08","C20"], "kind_free_text": "real publish_send_op (QoS 1 and 2) on a mock service: every async_send / async_wait_reply logged and completed by script"},
            {"name": "h_frame", "path": "/verif/harness/h_frame.cpp", "serves_properties": ["C19"], "kind_free_text": "real assemble_op on a mock service: broker bytes in any chunking, every recognised packet and read size logged"},
            {"name": "h_guard", "path": "/verif/harness/h_guard.cpp", "serves_properties": ["C18","C19"], "kind_free_text": "real message decoders on packets in exact-size heap blocks under ASan/UBSan"},
        ],
        "checks": checks,
        "notes": "Technique: machine-checked proof in Lean 4 about executable models, tied to /repo by translators and differential correspondence (DESIGN.md).",
        "not_applicable": [{"property_id": p, "reason": PENDING_REASON} for p in ALL if p not in CLAIMED],
    }
    with open(os.path.join(HERE, "MANIFEST.json"), "w") as f:
        json.dump(man, f, indent=1)
        f.write("\n")


if __name__ == "__main__":
    main()
