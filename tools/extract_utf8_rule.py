#!/usr/bin/env python3
"""Translator: detail/utf8_mqtt.hpp + detail/topic_validation.hpp -> Gen/Utf8Rule.lean

* `validate_mqtt_utf8_char(int c)`: the if-chain of boolean C expressions over `c` (comparisons, &&, ||, &, literals and the
  function's own `constexpr int` names) is translated into a Lean function `charRule : Nat → Nat` (0 valid, 1 wildcard, 2 invalid).
  Negative `c` (the decoder's -1) is handled by the model before calling it; the translator checks that the `valid` branch
  requires `c > <non-negative literal>` so that -1 can only be invalid.
* constants: max string size, subscription-identifier range, the `$share/` prefix.
"""
import re, sys
from gen_common import *

RESULT = {"valid": 0, "has_wildcard_character": 1, "invalid": 2}


class P:
    """recursive descent over a C boolean/int expression; emits Lean (Bool for conditions, Nat for terms)"""
    def __init__(self, text, consts):
        self.toks = re.findall(r"0[xX][0-9a-fA-F]+|\d+|'[^']'|[A-Za-z_]\w*|\|\||&&|==|!=|<=|>=|[<>&()|!]", text)
        joined = "".join(self.toks)
        if re.sub(r"\s+", "", text) != joined:
            raise TranslateError("untranslatable tokens in expression: " + text)
        self.i = 0
        self.consts = consts

    def peek(self):
        return self.toks[self.i] if self.i < len(self.toks) else None

    def eat(self, t=None):
        x = self.peek()
        if x is None or (t is not None and x != t):
            raise TranslateError(f"expected {t} got {x}")
        self.i += 1
        return x

    def parse(self):
        e = self.or_()
        if self.peek() is not None:
            raise TranslateError("trailing tokens: " + " ".join(self.toks[self.i:]))
        return e

    def or_(self):
        e = self.and_()
        while self.peek() == "||":
            self.eat(); e = f"({e} || {self.and_()})"
        return e

    def and_(self):
        e = self.cmp()
        while self.peek() == "&&":
            self.eat(); e = f"({e} && {self.cmp()})"
        return e

    def cmp(self):
        if self.peek() == "(":
            # could be a parenthesised boolean or a parenthesised term followed by a comparison
            save = self.i
            try:
                self.eat("("); e = self.or_(); self.eat(")")
                if self.peek() not in ("==", "!=", "<", ">", "<=", ">=", "&"):
                    return e
            except TranslateError:
                pass
            self.i = save
        l = self.term()
        op = self.eat()
        if op not in ("==", "!=", "<", ">", "<=", ">="):
            raise TranslateError("comparison expected, got " + op)
        r = self.term()
        lean = {"==": "==", "!=": "!=", "<": "<", ">": ">", "<=": "≤", ">=": "≥"}[op]
        if op in ("==", "!="):
            return f"({l} {lean} {r})"
        return f"decide ({l} {lean} {r})"

    def term(self):
        a = self.atom()
        while self.peek() == "&":
            self.eat(); a = f"({a} &&& {self.atom()})"
        return a

    def atom(self):
        t = self.eat()
        if t == "(":
            e = self.term(); self.eat(")"); return e
        if t == "c":
            return "c"
        if t in self.consts:
            return str(self.consts[t])
        if t.startswith("'"):
            return str(ord(t[1]))
        try:
            return str(cint(t))
        except ValueError:
            raise TranslateError("unknown identifier " + t)


def extract():
    src = strip_comments(read("detail/utf8_mqtt.hpp"))
    m = re.search(r"inline\s+validation_result\s+validate_mqtt_utf8_char\s*\(\s*int\s+c\s*\)\s*\{", src)
    if not m:
        raise TranslateError("validate_mqtt_utf8_char not found")
    b, e = find_block(src, m.end() - 1)
    body = " ".join(src[b + 1:e - 1].split())
    consts = {}
    for mm in re.finditer(r"constexpr int (\w+) = ([^;]+);", body):
        v = mm.group(2).strip()
        consts[mm.group(1)] = ord(v[1]) if v.startswith("'") else cint(v)
    rest = re.sub(r"constexpr int \w+ = [^;]+;", "", body).strip()
    branches = []
    while rest.startswith("if"):
        i = rest.index("(")
        bb, ee = find_block(rest, i, "(", ")")
        cond = rest[bb + 1:ee - 1]
        mm = re.match(r"\s*return validation_result::(\w+);", rest[ee:])
        if not mm:
            raise TranslateError("if without `return validation_result::X;`: " + rest[ee:ee + 60])
        branches.append((cond, mm.group(1)))
        rest = rest[ee + mm.end():].strip()
    mm = re.match(r"return validation_result::(\w+);$", rest)
    if not mm:
        raise TranslateError("final return not recognised: " + rest)
    final = mm.group(1)
    lean_br = []
    for cond, res in branches:
        lean_br.append((P(cond, consts).parse(), RESULT[res]))
        if res == "valid" and not re.match(r"\s*c\s*>\s*(0[xX][0-9a-fA-F]+|\d+)\s*&&", cond):
            raise TranslateError("the `valid` branch does not start with `c > <literal> &&` (negative c must be invalid)")
    if RESULT[final] != 2:
        raise TranslateError("fall-through result is not `invalid`")
    # size / id constants
    m = re.search(r"constexpr size_t max_sz = (\d+);", src)
    if not m:
        raise TranslateError("max_sz not found")
    max_sz = int(m.group(1))
    if not re.search(r"return sz <= max_sz;", " ".join(src.split())):
        raise TranslateError("is_valid_string_size is not `sz <= max_sz`")
    tv = strip_comments(read("detail/topic_validation.hpp"))
    m1 = re.search(r"min_subscription_identifier = ([\d']+);", tv)
    m2 = re.search(r"max_subscription_identifier = ([\d']+);", tv)
    m3 = re.search(r'shared_sub_prefix = "([^"]*)";', tv)
    if not (m1 and m2 and m3):
        raise TranslateError("subscription identifier range / shared prefix not found")
    return lean_br, max_sz, cint(m1.group(1)), cint(m2.group(1)), m3.group(1)


def render(br, max_sz, smin, smax, prefix):
    out = ["/- GENERATED by tools/extract_utf8_rule.py from detail/utf8_mqtt.hpp and detail/topic_validation.hpp — do not edit -/",
           "import Mqtt5V.Basic", "", "namespace Mqtt5V.Gen.Utf8Rule", "",
           "/-- `validate_mqtt_utf8_char(c)` for `c ≥ 0`: 0 = valid, 1 = has_wildcard_character, 2 = invalid -/",
           "def charRule (c : Nat) : Nat :="]
    for cond, res in br:
        out.append(f"  if {cond} then {res} else")
    out.append("  2")
    out += ["", f"def maxStringSize : Nat := {max_sz}", f"def minSubscriptionId : Nat := {smin}", f"def maxSubscriptionId : Nat := {smax}",
            "def sharedPrefix : List UInt8 := [" + ", ".join(str(ord(ch)) for ch in prefix) + "]", "",
            "end Mqtt5V.Gen.Utf8Rule"]
    return "\n".join(out) + "\n"


def main():
    ch = write_if_changed("Utf8Rule.lean", render(*extract()))
    print(f"Utf8Rule.lean {'updated' if ch else 'unchanged'}")


if __name__ == "__main__":
    try:
        main()
    except TranslateError as e:
        print("TRANSLATE-ERROR utf8_rule: " + str(e))
        sys.exit(2)
