#!/bin/sh
# MANIFEST.hooks.baseline_off_cmd: rebuild the repository's test suite (no verification guard defined) and run it.
cmake --build /repo/_build -j"$(nproc)" > /tmp/verif_baseline_build.log 2>&1 \
  || cmake --build /repo/_build -j4 > /tmp/verif_baseline_build.log 2>&1 \
  || { tail -50 /tmp/verif_baseline_build.log; exit 1; }
ctest --test-dir /repo/_build/test -j8 --timeout 900 --no-tests=error --output-on-failure
