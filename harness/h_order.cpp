// H-order: the real write_req::operator< and std::stable_sort over vector<write_req> (as resend() sorts it).
#include <boost/asio.hpp>
#include <boost/mqtt5/impl/async_sender.hpp>
#include <algorithm>
#include <iostream>
#include <sstream>
#include <string>
#include <vector>
namespace asio = boost::asio;
using namespace boost::mqtt5::detail;

static write_req mk(unsigned prio, unsigned long serial, size_t tag) {
    static char dummy[1 << 16];
    return write_req(asio::const_buffer(dummy, tag), (serial_num_t)serial,
                     prio ? send_flag::prioritized : send_flag::none, [](boost::system::error_code) {});
}

int main() {
    std::string line;
    while (std::getline(std::cin, line)) {
        std::istringstream is(line);
        std::string op, sub; is >> op >> sub;
        if (op != "ord") { std::puts("bad-op"); continue; }
        if (sub == "lt") {
            unsigned p1, p2; unsigned long s1, s2; is >> p1 >> s1 >> p2 >> s2;
            auto a = mk(p1, s1, 0), b = mk(p2, s2, 1);
            std::printf("%d\n", (int)(a < b));
        } else if (sub == "sort") {
            std::vector<write_req, asio::recycling_allocator<write_req>> q;
            std::string tok; size_t tag = 0;
            while (is >> tok) {
                auto c = tok.find(':');
                q.push_back(mk(std::stoul(tok.substr(0, c)), std::stoul(tok.substr(c + 1)), tag++));
            }
            std::stable_sort(q.begin(), q.end());
            std::string out;
            for (auto& r : q) { if (!out.empty()) out += " "; out += std::to_string(r.buffer().size()); }
            std::printf("%s\n", out.empty() ? "-" : out.c_str());
        } else if (sub == "next") {
            unsigned long s; is >> s; std::printf("%lu\n", (unsigned long)write_req::next_serial_num((serial_num_t)s));
        } else std::puts("bad-op");
    }
}
