// H-frame: the real detail::assemble_op (frame reassembly, header validation, reply dispatch) on a mock service:
// bytes are delivered to its reads in any chunking; every packet it recognises is logged.
//   frm new <max|->          fresh buffers; Maximum Packet Size the client announced (or none: 65536)
//   frm rx <hex>             complete the pending read with these bytes (must fit)
//   frm tryagain             complete the pending read with try_again (reconnected below): buffer is dropped, sender resend, session refresh
//   frm err                  complete the pending read with operation_aborted
// output: events of that line: rd <n> | reply <code> <pid> <hexbody> | msg <cb> <hexbody> | err <ec> | resend | refresh
#include <boost/asio.hpp>
#include <boost/mqtt5/error.hpp>
#include <boost/mqtt5/types.hpp>
#include <boost/mqtt5/detail/internal_types.hpp>
#include <boost/mqtt5/impl/assemble_op.hpp>
#include <iostream>
#include <sstream>
#include "hexutil.hpp"
namespace asio = boost::asio;
using namespace boost::mqtt5;
using namespace boost::mqtt5::detail;
using boost::system::error_code;

static std::vector<std::string> LOG;
static void ev(const std::string& s) { LOG.push_back(s); }

struct mock_stream {
    asio::any_completion_handler<void(error_code, size_t)> pending;
    asio::mutable_buffer buf;
    template <typename T> decltype(auto) async_read_some(const asio::mutable_buffer& b, duration, T&& token) {
        return asio::async_initiate<T, void(error_code, size_t)>([this, b](auto h) {
            pending = asio::any_completion_handler<void(error_code, size_t)>(std::move(h)); buf = b;
            ev("rd " + std::to_string(b.size())); }, token);
    }
};
struct mock_sender { void resend() { ev("resend"); } };
struct mock_replies {
    void dispatch(error_code, control_code_e code, uint16_t pid, byte_citer first, byte_citer last) {
        ev("reply " + std::to_string((unsigned)code >> 4) + " " + std::to_string(pid) + " " + tohex(std::string(first, last)));
    }
};
struct mock_svc {
    asio::io_context& ioc; std::optional<uint32_t> maxsz;
    mock_stream _stream; mock_sender _async_sender; mock_replies _replies;
    std::string _read_buff; data_span _active_span;
    explicit mock_svc(asio::io_context& i) : ioc(i) { _active_span = { _read_buff.cend(), _read_buff.cend() }; }
    using executor_type = asio::io_context::executor_type;
    executor_type get_executor() { return ioc.get_executor(); }
    template <typename P> std::optional<uint32_t> connect_property(P) const { return maxsz; }
    uint16_t negotiated_keep_alive() const { return 0; }
    void update_session_state() { ev("refresh"); }
};

static std::string ecname(error_code ec) {
    if (ec == asio::error::operation_aborted) return "aborted";
    if (ec == client::error::malformed_packet) return "malformed";
    return ec.message();
}
struct W;
static void start(W& w);
struct W {
    asio::io_context ioc; mock_svc svc { ioc }; bool dead = false;
};
static void start(W& w) {
    auto h = [&w](error_code ec, uint8_t cb, byte_citer first, byte_citer last) {
        if (ec) { ev("err " + ecname(ec)); w.dead = true; return; }
        ev("msg " + std::to_string((unsigned)cb) + " " + tohex(std::string(first, last)));
        start(w);        // read_message_op handles the message and assembles the next one
    };
    assemble_op<mock_svc, decltype(h)> { w.svc, std::move(h), w.svc._read_buff, w.svc._active_span }.perform(asio::transfer_at_least(0));
}

int main() {
    auto w = std::make_unique<W>();
    std::string line;
    while (std::getline(std::cin, line)) {
        std::istringstream is(line); std::string op, sub; is >> op >> sub; LOG.clear(); bool bad = false;
        if (op != "frm") { std::puts("bad-op"); std::fflush(stdout); continue; }
        if (sub == "new") { std::string m; is >> m; w = std::make_unique<W>(); if (m != "-" && !m.empty()) w->svc.maxsz = (uint32_t)std::stoul(m); start(*w); }
        else if (sub == "rx") { std::string hx; is >> hx; std::string d = unhex(hx);
            if (!w->svc._stream.pending || d.size() > w->svc._stream.buf.size() || d.empty()) bad = true;
            else { std::memcpy(w->svc._stream.buf.data(), d.data(), d.size()); auto h = std::move(w->svc._stream.pending); size_t n = d.size();
                asio::post(w->ioc, [h = std::move(h), n]() mutable { std::move(h)(error_code{}, n); }); } }
        else if (sub == "tryagain" || sub == "err") {
            if (!w->svc._stream.pending) bad = true;
            else { auto h = std::move(w->svc._stream.pending); error_code ec = sub == "err" ? error_code(asio::error::operation_aborted) : error_code(asio::error::try_again);
                asio::post(w->ioc, [h = std::move(h), ec]() mutable { std::move(h)(ec, 0); }); } }
        else bad = true;
        if (bad) { std::puts("bad-op"); std::fflush(stdout); continue; }
        for (;;) { w->ioc.restart(); if (w->ioc.poll() == 0) break; }
        std::string out; for (auto& e : LOG) { if (!out.empty()) out += " | "; out += e; }
        std::puts(out.empty() ? "-" : out.c_str()); std::fflush(stdout);
    }
}
