// H-replies: the real detail::replies driven by scripts (wait / dispatch / resend / cancel / clear).
#include <boost/asio.hpp>
#include <boost/mqtt5/detail/control_packet.hpp>
#include <boost/mqtt5/detail/internal_types.hpp>
#include <boost/mqtt5/impl/replies.hpp>
#include <iostream>
#include <sstream>
namespace asio = boost::asio;
using namespace boost::mqtt5::detail;
using boost::system::error_code;
static std::string OUT;
static void ev(const std::string& s) { if (!OUT.empty()) OUT += " "; OUT += s; }

int main() {
    auto ioc = std::make_unique<asio::io_context>();
    auto rp = std::make_unique<replies>(ioc->get_executor());
    std::string line;
    while (std::getline(std::cin, line)) {
        std::istringstream is(line); std::string op, sub; is >> op >> sub; OUT.clear();
        if (op != "rep") { std::puts("bad-op"); continue; }
        if (sub == "new") { rp.reset(); ioc = std::make_unique<asio::io_context>(); rp = std::make_unique<replies>(ioc->get_executor()); }
        else if (sub == "wait") { int w; unsigned code, pid; is >> w >> code >> pid;
            rp->async_wait_reply(control_code_e(code), (uint16_t)pid, [w](error_code ec, byte_citer f, byte_citer l) {
                const char* e = !ec ? "ok" : ec == asio::error::try_again ? "try_again" : "aborted";
                unsigned tag = 0; if (!ec) { std::string s(f, l); tag = (unsigned)std::stoul(s); }
                ev(std::to_string(w) + ":" + e + ":" + std::to_string(tag)); }); }
        else if (sub == "dispatch") { unsigned code, pid, tag; is >> code >> pid >> tag; std::string b = std::to_string(tag);
            rp->dispatch(error_code{}, control_code_e(code), (uint16_t)pid, b.cbegin(), b.cend()); }
        else if (sub == "resend") rp->resend_unanswered();
        else if (sub == "cancel") rp->cancel_unanswered();
        else if (sub == "clearfast") rp->clear_fast_replies();
        else if (sub == "clearpubrels") rp->clear_pending_pubrels();
        else { std::puts("bad-op"); continue; }
        for (;;) { ioc->restart(); if (ioc->poll() == 0) break; }
        std::puts(OUT.empty() ? "-" : OUT.c_str()); std::fflush(stdout);
    }
}
