// H-rc: the real to_reason_code<cat>() for every (category, byte), under ASan.
// reason_codes.hpp is included inside an anonymous namespace so that the function-template
// statics (the tables) get internal linkage and therefore ASan red-zones.
#include <algorithm>
#include <cstdint>
#include <optional>
#include <ostream>
#include <string>
#include <type_traits>
#include <utility>
#include <cstdio>
#include <cstring>
#include <iostream>
#include <sstream>
#include <unistd.h>
#include <fcntl.h>
#include <sys/wait.h>
namespace {
#include <boost/mqtt5/reason_codes.hpp>
}
using namespace boost::mqtt5;
using reason_codes::category;

static std::string lookup(const std::string& cat, uint8_t b) {
    std::optional<reason_code> r;
    if (cat == "connack") r = to_reason_code<category::connack>(b);
    else if (cat == "puback") r = to_reason_code<category::puback>(b);
    else if (cat == "pubrec") r = to_reason_code<category::pubrec>(b);
    else if (cat == "pubrel") r = to_reason_code<category::pubrel>(b);
    else if (cat == "pubcomp") r = to_reason_code<category::pubcomp>(b);
    else if (cat == "suback") r = to_reason_code<category::suback>(b);
    else if (cat == "unsuback") r = to_reason_code<category::unsuback>(b);
    else if (cat == "auth") r = to_reason_code<category::auth>(b);
    else if (cat == "disconnect") r = to_reason_code<category::disconnect>(b);
    else return "bad-op";
    if (r) return "hit " + std::to_string((int)r->value());
    return "miss";
}

template <category c> static void dump(const char* name) {
    auto [p, n] = reason_codes::detail::valid_codes<c>();
    std::printf("table %s", name);
    for (size_t i = 0; i < n; i++) std::printf(" %d", (int)p[i].value());
    std::printf("\n");
}

int main(int argc, char** argv) {
    bool isolate = argc > 1 && !std::strcmp(argv[1], "--isolate");
    std::string line;
    while (std::getline(std::cin, line)) {
        std::istringstream is(line);
        std::string op; is >> op;
        if (op == "tables") {
            dump<category::connack>("connack"); dump<category::puback>("puback"); dump<category::pubrec>("pubrec");
            dump<category::pubrel>("pubrel"); dump<category::pubcomp>("pubcomp"); dump<category::suback>("suback");
            dump<category::unsuback>("unsuback"); dump<category::auth>("auth"); dump<category::disconnect>("disconnect");
            std::fflush(stdout);
            continue;
        }
        if (op != "rc") { std::puts("bad-op"); continue; }
        std::string cat; int b; is >> cat >> b;
        if (!isolate) { std::puts(lookup(cat, (uint8_t)b).c_str()); continue; }
        std::fflush(stdout);
        pid_t pid = fork();
        if (pid == 0) {
            int fd = open("/dev/null", 1); dup2(fd, 2);   // keep the sanitizer report out of the stream
            std::puts(lookup(cat, (uint8_t)b).c_str());
            std::fflush(stdout);
            _exit(0);
        }
        int st = 0; waitpid(pid, &st, 0);
        if (!(WIFEXITED(st) && WEXITSTATUS(st) == 0)) std::puts("oob");
    }
    return 0;
}
