// H-utf8: the real UTF-8 / topic validators on hex-encoded byte strings.
#include <boost/mqtt5/detail/utf8_mqtt.hpp>
#include <boost/mqtt5/detail/topic_validation.hpp>
#include <iostream>
#include <sstream>
#include "hexutil.hpp"
using namespace boost::mqtt5::detail;

int main() {
    std::string line;
    while (std::getline(std::cin, line)) {
        std::istringstream is(line);
        std::string op, sub, a, b; is >> op >> sub >> a >> b;
        if (op != "u8") { std::puts("bad-op"); continue; }
        int r = -1;
        if (sub == "char") r = (int)validate_mqtt_utf8_char(std::stoi(a));
        else {
            // exact-size heap copy so that ASan sees any read past the end
            std::string sa = unhex(a);
            char* buf = new char[sa.size() ? sa.size() : 1]; std::copy(sa.begin(), sa.end(), buf);
            std::string_view sv(buf, sa.size());
            if (sub == "utf8") r = (int)validate_mqtt_utf8(sv);
            else if (sub == "name") r = (int)validate_topic_name(sv);
            else if (sub == "alias") r = (int)validate_topic_alias_name(sv);
            else if (sub == "filter") r = (int)validate_topic_filter(sv);
            else if (sub == "shared") r = (int)validate_shared_topic_filter(sv, b != "0");
            else if (sub == "pair") r = is_valid_string_pair({ sa, unhex(b) }) ? 0 : 2;
            else if (sub == "pop") { // pop_front_unichar on a non-empty string: code point and bytes consumed
                std::string_view t = sv; int c = pop_front_unichar(t);
                std::printf("%d %zu\n", c, sv.size() - t.size()); delete[] buf; continue; }
            delete[] buf;
        }
        if (r < 0) std::puts("bad-op"); else std::printf("%d\n", r);
    }
}
