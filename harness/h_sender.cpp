// H-sender: the real async_sender<Svc> on a mock service (scripted stream write, Receive Maximum, unanswered requests).
#include <boost/asio.hpp>
#include <boost/mqtt5/types.hpp>
#include <boost/mqtt5/detail/internal_types.hpp>
#include <boost/mqtt5/impl/async_sender.hpp>
#include <iostream>
#include <sstream>
#include <map>
#include <deque>
namespace asio = boost::asio;
using namespace boost::mqtt5;
using boost::system::error_code;

struct Req { int id; unsigned flags; uint32_t serial; bool awaits; };
struct Svc;
static std::string OUT;
static void ev(const std::string& s) { if (!OUT.empty()) OUT += " "; OUT += s; }

struct MockCtx {
    std::optional<uint16_t> rm;
    template <prop::property_type p> const std::optional<uint16_t>& connack_property(std::integral_constant<prop::property_type, p>) const { return rm; }
};
struct MockReplies {
    Svc* svc;
    std::deque<Req> unanswered;
    void resend_unanswered();
    void clear_fast_replies() {}
};
struct MockStream {
    using H = asio::any_completion_handler<void(error_code, size_t)>;
    H pending;
    template <typename B, typename T> void async_write(const B& bufs, T&& token) {
        std::string s = "w:"; bool first = true;
        for (const auto& b : bufs) { if (!first) s += ","; first = false; s += std::to_string(b.size()); }
        ev(s);
        asio::async_initiate<T, void(error_code, size_t)>([this](auto h) { pending = H(std::move(h)); }, token);
    }
};
struct Svc {
    using executor_type = asio::any_io_executor;
    asio::io_context& ioc;
    MockCtx _stream_context; MockReplies _replies; MockStream _stream;
    detail::async_sender<Svc> sender;
    static inline char dummy[1 << 16];
    explicit Svc(asio::io_context& i) : ioc(i), sender(*this) { _replies.svc = this; }
    executor_type get_executor() const { return ioc.get_executor(); }
    void update_session_state() {}
    void cancel() { ev("svc-cancel"); }
    static const char* ecn(error_code ec) { return !ec ? "ok" : ec == asio::error::try_again ? "try_again" : ec == asio::error::operation_aborted ? "aborted" : "no_recovery"; }
    void send(Req r) {
        sender.async_send(asio::const_buffer(dummy, (size_t)r.id), r.serial, r.flags, [this, r](error_code ec) {
            if (ec == asio::error::try_again) return send(r);                     // the operation sends its packet again
            if (!ec && r.awaits) { _replies.unanswered.push_back(r); return; }     // now waits for the reply
            ev("c:" + std::to_string(r.id) + ":" + ecn(ec));
        });
    }
};
void MockReplies::resend_unanswered() { auto ua = std::move(unanswered); unanswered.clear(); for (auto& r : ua) svc->send(r); }

int main() {
    auto ioc = std::make_unique<asio::io_context>();
    auto svc = std::make_unique<Svc>(*ioc);
    std::string line;
    while (std::getline(std::cin, line)) {
        std::istringstream is(line); std::string op, sub; is >> op >> sub; OUT.clear();
        if (op != "snd") { std::puts("bad-op"); continue; }
        if (sub == "new") { svc.reset(); ioc = std::make_unique<asio::io_context>(); svc = std::make_unique<Svc>(*ioc); }
        else if (sub == "send") { Req r; unsigned aw; is >> r.id >> r.flags >> r.serial >> aw; r.awaits = aw || (r.flags & 1); svc->send(r); }
        else if (sub == "wdone") { std::string e; is >> e; if (!svc->_stream.pending) { std::puts("bad-op"); continue; }
            error_code ec = e == "ok" ? error_code{} : e == "try_again" ? error_code(asio::error::try_again) : e == "aborted" ? error_code(asio::error::operation_aborted) : error_code(asio::error::no_recovery);
            auto h = std::move(svc->_stream.pending); std::move(h)(ec, 0); }
        else if (sub == "ack") { int id; is >> id; auto& u = svc->_replies.unanswered; bool found = false;
            for (auto it = u.begin(); it != u.end(); ++it) if (it->id == id) { Req r = *it; u.erase(it); found = true;
                // publish_send_op::complete(): free_pid(pid, true) -> throttled_op_done(), then the handler
                if (r.flags & 1) svc->sender.throttled_op_done();
                ev("c:" + std::to_string(id) + ":ok"); break; }
            (void)found; }
        else if (sub == "rm") { std::string v; is >> v; if (v == "none") svc->_stream_context.rm.reset(); else svc->_stream_context.rm = (uint16_t)std::stoul(v); }
        else if (sub == "resend") { svc->sender.resend(); }
        else if (sub == "cancel") { svc->sender.cancel(); }
        else { std::puts("bad-op"); continue; }
        for (;;) { ioc->restart(); if (ioc->poll() == 0) break; }
        std::puts(OUT.empty() ? "-" : OUT.c_str()); std::fflush(stdout);
    }
}
