// H-client: the real mqtt_client / client_service / async_sender / replies / every *_op on top of the scripted
// sim_autoconnect_stream, under a harness-owned virtual clock.  One script line in, one output line out.
#include <boost/asio.hpp>
#include <boost/asio/experimental/parallel_group.hpp>
#include <boost/asio/experimental/basic_channel.hpp>
#include <boost/asio/bind_cancellation_slot.hpp>
#include <chrono>
#include <iostream>
#include <map>
#include <memory>
#include <sstream>
namespace verif {
struct vclock {
    using duration = std::chrono::steady_clock::duration;
    using rep = duration::rep; using period = duration::period;
    using time_point = std::chrono::time_point<vclock, duration>;
    static constexpr bool is_steady = true;
    static inline rep now_ticks = 0;
    static time_point now() noexcept { return time_point(duration(now_ticks)); }
};
struct zero_wait_traits {
    static vclock::duration to_wait_duration(const vclock::duration& d) { return d.zero(); }
    static vclock::duration to_wait_duration(const vclock::time_point&) { return vclock::duration::zero(); }
};
struct vsys {   // stands in for std::chrono::system_clock inside replies.hpp
    using duration = std::chrono::system_clock::duration; using rep = duration::rep; using period = duration::period;
    using time_point = std::chrono::time_point<vsys, duration>;
    static constexpr bool is_steady = false;
    static time_point now() noexcept { return time_point(std::chrono::duration_cast<duration>(vclock::duration(vclock::now_ticks))); }
};
}
namespace boost::asio { using verif_timer = basic_waitable_timer<verif::vclock, verif::zero_wait_traits>; }
namespace std::chrono { using verif_sysclock = verif::vsys; }
#include <boost/mqtt5/types.hpp>
#include <boost/mqtt5/logger_traits.hpp>
#include <boost/mqtt5/detail/log_invoke.hpp>
#include <boost/mqtt5/detail/internal_types.hpp>
#include <boost/mqtt5/impl/autoconnect_stream.hpp>   // the real one: only to set its include guard
#include "sim_autoconnect_stream.hpp"
// the one instrumentation hook in /repo (impl/assemble_op.hpp, guarded): every packet the framing layer dispatches, in dispatch order
#define BOOST_MQTT5_VERIF
#define BOOST_MQTT5_VERIF_ON_PACKET(cb, f, l) ::verif::world().ev("pkt " + tohex(std::string(1, (char)(cb))) + " " + tohex(std::string((f), (l))))
#define autoconnect_stream sim_autoconnect_stream
#define steady_timer verif_timer
#define system_clock verif_sysclock
#include <boost/mqtt5/mqtt_client.hpp>
#undef system_clock
#undef steady_timer
#undef autoconnect_stream
#include "props_util.hpp"

namespace asio = boost::asio;
using namespace boost::mqtt5;
using boost::system::error_code;

struct dummy_stream { using executor_type = asio::any_io_executor; };
using client_t = mqtt_client<dummy_stream>;
using stream_t = detail::sim_autoconnect_stream<dummy_stream, detail::stream_context<dummy_stream, std::monostate>, noop_logger>;

static std::string ecname(error_code ec) {
    if (!ec) return "ok";
    if (ec == asio::error::operation_aborted) return "aborted";
    if (ec == asio::error::try_again) return "try_again";
    if (ec == asio::error::no_recovery) return "no_recovery";
    if (ec.category() == client::get_error_code_category()) return "client:" + std::to_string(ec.value());
    return std::string(ec.category().name()) + ":" + std::to_string(ec.value());
}
static error_code ecparse(const std::string& s) {
    if (s == "ok") return {};
    if (s == "aborted") return asio::error::operation_aborted;
    if (s == "try_again") return asio::error::try_again;
    if (s == "no_recovery") return asio::error::no_recovery;
    return asio::error::fault;
}

struct H {
    asio::io_context ioc;
    std::unique_ptr<client_t> c;
    std::map<std::string, std::unique_ptr<asio::cancellation_signal>> sigs;
    bool in_api = false;
    verif::sim_world& w = verif::world();
    H() : c(std::make_unique<client_t>(ioc.get_executor())) {}
    asio::cancellation_slot slot(const std::string& op) { auto& s = sigs[op]; s = std::make_unique<asio::cancellation_signal>(); return s->slot(); }
    std::string ins() { return in_api ? " inside=1" : ""; }
    stream_t* cur() { auto& r = stream_t::registry(); return r.empty() ? nullptr : r.back(); }
    stream_t* by_id(int id) { for (auto* s : stream_t::registry()) if (s->_id == id) return s; return nullptr; }
    void drain() { for (;;) { ioc.restart(); if (ioc.poll() == 0) break; } }
};


static void api_call(H& W, const std::string& line) {
    std::istringstream is(line);
    std::string cmd; is >> cmd;
        if (cmd == "pub") {
            std::string op, t, p, pl; unsigned q, r; is >> op >> q >> r >> t >> p >> pl;
            publish_props props; pu::fill(props, pl);
            std::string topic = unhex(t), payload = unhex(p);
            W.in_api = true;
            if (q == 0) W.c->async_publish<qos_e::at_most_once>(topic, payload, retain_e(r), props,
                asio::bind_cancellation_slot(W.slot(op), [&W, op](error_code ec) { W.w.ev("done " + op + " " + ecname(ec) + W.ins()); }));
            else if (q == 1) W.c->async_publish<qos_e::at_least_once>(topic, payload, retain_e(r), props,
                asio::bind_cancellation_slot(W.slot(op), [&W, op](error_code ec, reason_code rc, puback_props pp) {
                    W.w.ev("done " + op + " " + ecname(ec) + " rc=" + std::to_string(rc.value()) + " props=" + pu::dump(pp) + W.ins()); }));
            else W.c->async_publish<qos_e::exactly_once>(topic, payload, retain_e(r), props,
                asio::bind_cancellation_slot(W.slot(op), [&W, op](error_code ec, reason_code rc, pubcomp_props pp) {
                    W.w.ev("done " + op + " " + ecname(ec) + " rc=" + std::to_string(rc.value()) + " props=" + pu::dump(pp) + W.ins()); }));
            W.in_api = false;
        }
        else if (cmd == "sub") {
            std::string op, pl; unsigned n; is >> op >> pl >> n;
            subscribe_props props; pu::fill(props, pl);
            std::vector<subscribe_topic> ts;
            for (unsigned i = 0; i < n; i++) { std::string f; unsigned q, nl, rap, rh; is >> f >> q >> nl >> rap >> rh;
                ts.push_back(subscribe_topic{ unhex(f), subscribe_options{ qos_e(q), no_local_e(nl), retain_as_published_e(rap), retain_handling_e(rh) } }); }
            W.in_api = true;
            W.c->async_subscribe(ts, props, asio::bind_cancellation_slot(W.slot(op), [&W, op](error_code ec, std::vector<reason_code> rcs, suback_props pp) {
                std::string s = "done " + op + " " + ecname(ec) + " rcs="; for (size_t i = 0; i < rcs.size(); i++) s += (i ? "," : "") + std::to_string(rcs[i].value());
                if (rcs.empty()) s += "-"; W.w.ev(s + " props=" + pu::dump(pp) + W.ins()); }));
            W.in_api = false;
        }
        else if (cmd == "unsub") {
            std::string op, pl; unsigned n; is >> op >> pl >> n;
            unsubscribe_props props; pu::fill(props, pl);
            std::vector<std::string> ts; for (unsigned i = 0; i < n; i++) { std::string f; is >> f; ts.push_back(unhex(f)); }
            W.in_api = true;
            W.c->async_unsubscribe(ts, props, asio::bind_cancellation_slot(W.slot(op), [&W, op](error_code ec, std::vector<reason_code> rcs, unsuback_props pp) {
                std::string s = "done " + op + " " + ecname(ec) + " rcs="; for (size_t i = 0; i < rcs.size(); i++) s += (i ? "," : "") + std::to_string(rcs[i].value());
                if (rcs.empty()) s += "-"; W.w.ev(s + " props=" + pu::dump(pp) + W.ins()); }));
            W.in_api = false;
        }
        else if (cmd == "recv") { std::string op; is >> op; W.in_api = true;
            W.c->async_receive(asio::bind_cancellation_slot(W.slot(op), [&W, op](error_code ec, std::string t, std::string p, publish_props pp) {
                W.w.ev("recvd " + op + " " + ecname(ec) + " " + tohex(t) + " " + tohex(p) + " " + pu::dump(pp) + W.ins()); })); W.in_api = false; }
}

int main() {
    auto h = std::make_unique<H>();
    std::string line;
    while (std::getline(std::cin, line)) {
        // "@<api line>": the call is made from inside a completion handler running on the io_context (dispatch() could run inline there)
        if (!line.empty() && line[0] == '@' && h) {
            std::string inner = line.substr(1);
            h->w.log.clear();
            std::string first = inner.substr(0, inner.find(' '));
            if (first != "pub" && first != "sub" && first != "unsub" && first != "recv") { std::puts("bad-op"); std::fflush(stdout); continue; }
            asio::post(h->ioc, [&h, inner]() { api_call(*h, inner); });
            h->drain();
            std::string out;
            for (auto& e : verif::world().log) { if (!out.empty()) out += " | "; out += e; }
            std::printf("%s ; st=%d\n", out.empty() ? "-" : out.c_str(), (int)h->ioc.stopped());
            std::fflush(stdout);
            continue;
        }
        std::istringstream is(line);
        std::string cmd; is >> cmd;
        H& W = *h; W.w.log.clear();
        bool bad = false;
        if (cmd == "new") { verif::world().pending.clear(); h.reset(); verif::world().pending.clear(); stream_t::registry().clear();
            verif::vclock::now_ticks = 0; verif::world().next_stream_id = 0; h = std::make_unique<H>(); }
        else if (cmd == "cfg") {
            std::string k; 
            while (is >> k) {
                auto eq = k.find('='); std::string key = k.substr(0, eq), val = k.substr(eq + 1);
                if (key == "ka") W.c->keep_alive((uint16_t)std::stoul(val));
                else if (key == "cid") W.c->credentials(unhex(val));
                else if (key == "maxpkt") W.c->connect_property(prop::maximum_packet_size, (uint32_t)std::stoul(val));
                else if (key == "brokers") W.c->brokers(unhex(val), 1883);
            }
        }
        else if (cmd == "run") { std::string op; is >> op; W.in_api = true;
            W.c->async_run(asio::bind_cancellation_slot(W.slot(op), [&W, op](error_code ec) { W.w.ev("done " + op + " " + ecname(ec) + W.ins()); })); W.in_api = false; }
        else if (cmd == "pub" || cmd == "sub" || cmd == "unsub" || cmd == "recv") { api_call(W, line); }
        else if (cmd == "pubn") {   // pubn <prefix> <n> <qos 1|2>: n publishes in a row (no executor step in between), names <prefix><i>, topic "t", payload = name
            std::string pre; unsigned n, q; is >> pre >> n >> q;
            W.in_api = true;
            for (unsigned i = 1; i <= n; i++) {
                std::string op = pre + std::to_string(i);
                if (q == 1) W.c->async_publish<qos_e::at_least_once>("t", op, retain_e::no, publish_props{},
                    asio::bind_cancellation_slot(W.slot(op), [&W, op](error_code ec, reason_code rc, puback_props pp) {
                        W.w.ev("done " + op + " " + ecname(ec) + " rc=" + std::to_string(rc.value()) + " props=" + pu::dump(pp) + W.ins()); }));
                else W.c->async_publish<qos_e::exactly_once>("t", op, retain_e::no, publish_props{},
                    asio::bind_cancellation_slot(W.slot(op), [&W, op](error_code ec, reason_code rc, pubcomp_props pp) {
                        W.w.ev("done " + op + " " + ecname(ec) + " rc=" + std::to_string(rc.value()) + " props=" + pu::dump(pp) + W.ins()); }));
            }
            W.in_api = false;
        }
        else if (cmd == "disc") { std::string op, pl; unsigned rc; is >> op >> rc >> pl; disconnect_props props; pu::fill(props, pl); W.in_api = true;
            W.c->async_disconnect(disconnect_rc_e(rc), props, asio::bind_cancellation_slot(W.slot(op), [&W, op](error_code ec) { W.w.ev("done " + op + " " + ecname(ec) + W.ins()); })); W.in_api = false; }
        else if (cmd == "sig") { std::string op, t; is >> op >> t; auto it = W.sigs.find(op);
            if (it != W.sigs.end()) it->second->emit(t == "terminal" ? asio::cancellation_type::terminal : t == "partial" ? asio::cancellation_type::partial : asio::cancellation_type::total); }
        else if (cmd == "cancel") { W.c->cancel(); }
        else if (cmd == "destroy") { W.c.reset(); }
        else if (cmd == "advance") { long ms; is >> ms; verif::vclock::now_ticks += std::chrono::duration_cast<verif::vclock::duration>(std::chrono::milliseconds(ms)).count(); }
        else if (cmd == "wdone") { int id; std::string e; is >> id >> e; auto* s = W.by_id(id); if (!s || !s->complete_write(ecparse(e))) bad = true; }
        else if (cmd == "rx") { int id; std::string hx; is >> id >> hx; auto* s = W.by_id(id); if (!s || !s->complete_read({}, unhex(hx))) bad = true; }
        else if (cmd == "rdone") { int id; std::string e; is >> id >> e; auto* s = W.by_id(id); if (!s || !s->complete_read(ecparse(e), "")) bad = true; }
        else if (cmd == "shutdone") { int id; is >> id; auto* s = W.by_id(id); if (!s || !s->complete_shutdown({})) bad = true; }
        else if (cmd == "reconnect") { // what connect_op::on_connack stores on success
            int id; unsigned sp; std::string pl; is >> id >> sp >> pl; auto* s = W.by_id(id);
            if (!s) bad = true; else { connack_props cp; pu::fill(cp, pl); s->context().mqtt_context().ca_props = cp; s->context().mqtt_context().state.session_present(sp != 0); } }
        else if (cmd == "nop") {}
        else bad = true;
        if (bad) { std::puts("bad-op"); std::fflush(stdout); continue; }
        if (h) h->drain();
        std::string out;
        for (auto& e : verif::world().log) { if (!out.empty()) out += " | "; out += e; }
        std::printf("%s ; st=%d\n", out.empty() ? "-" : out.c_str(), h ? (int)h->ioc.stopped() : 1);
        std::fflush(stdout);
    }
    return 0;
}
