// H-mutex: the real detail::async_mutex driven by scripts; every waiter has its own cancellation signal.
#include <boost/asio.hpp>
#include <boost/asio/bind_cancellation_slot.hpp>
#include <boost/mqtt5/detail/async_mutex.hpp>
#include <iostream>
#include <map>
#include <memory>
#include <sstream>
#include <string>
namespace asio = boost::asio;
using boost::mqtt5::detail::async_mutex;
using boost::system::error_code;

struct World {
    asio::io_context ioc;
    std::unique_ptr<async_mutex> mtx;
    std::map<int, std::unique_ptr<asio::cancellation_signal>> sigs;
    std::string out;
    World() : mtx(std::make_unique<async_mutex>(ioc.get_executor())) {}
    void ev(const std::string& s) { if (!out.empty()) out += ","; out += s; }
};

static asio::cancellation_type_t ctype(const std::string& t) {
    if (t == "terminal") return asio::cancellation_type_t::terminal;
    if (t == "partial") return asio::cancellation_type_t::partial;
    if (t == "total") return asio::cancellation_type_t::total;
    if (t == "all") return asio::cancellation_type_t::all;
    return asio::cancellation_type_t::none;
}

int main() {
    auto w = std::make_unique<World>();
    std::string line;
    while (std::getline(std::cin, line)) {
        std::istringstream is(line);
        std::string op, sub; is >> op >> sub;
        if (op != "mtx") { std::puts("bad-op"); continue; }
        w->out.clear();
        if (sub == "new") { w = std::make_unique<World>(); }
        else if (sub == "lock") {
            int id, slot; is >> id >> slot;
            World* W = w.get();
            auto h = [W, id](error_code ec) { W->ev((ec ? "abort " : "grant ") + std::to_string(id)); };
            if (slot) {
                auto& sp = w->sigs[id];
                sp = std::make_unique<asio::cancellation_signal>();
                w->mtx->lock(asio::bind_cancellation_slot(sp->slot(), std::move(h)));
            } else w->mtx->lock(std::move(h));
        }
        else if (sub == "unlock") { w->mtx->unlock(); }
        else if (sub == "cancel") {
            int id, inside; std::string t; is >> id >> t >> inside;
            auto it = w->sigs.find(id);
            if (it != w->sigs.end()) {
                auto* sp = it->second.get(); auto ty = ctype(t);
                if (inside) asio::post(w->ioc, [sp, ty] { sp->emit(ty); });
                else sp->emit(ty);
            }
        }
        else if (sub == "cancelall") { w->mtx->cancel(); }
        else if (sub == "destroy") { w->mtx.reset(); w->mtx = std::make_unique<async_mutex>(w->ioc.get_executor()); }
        else if (sub == "run1") { w->ioc.restart(); w->ioc.poll_one(); }
        else if (sub == "drain") { w->ioc.restart(); w->ioc.poll(); }
        else { std::puts("bad-op"); continue; }
        std::printf("%s locked=%d\n", w->out.empty() ? "-" : w->out.c_str(), (int)w->mtx->is_locked());
    }
    return 0;
}
