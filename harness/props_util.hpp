// text <-> boost::mqtt5 property containers.  plist = "-" | item(;item)*  with item = id=#num | id=hex | id=hex/hex
#pragma once
#include <boost/mqtt5/types.hpp>
#include <boost/mqtt5/property_types.hpp>
#include <string>
#include <vector>
#include <sstream>
#include "hexutil.hpp"
namespace pu {
namespace m5 = boost::mqtt5;
struct item { int id; bool isnum; unsigned long num; std::string a, b; bool ispair; };
inline std::vector<item> parse_plist(const std::string& s) {
    std::vector<item> v;
    if (s == "-" || s.empty()) return v;
    size_t i = 0;
    while (i <= s.size()) {
        size_t j = s.find(';', i); if (j == std::string::npos) j = s.size();
        std::string it = s.substr(i, j - i);
        size_t eq = it.find('=');
        item x{}; x.id = std::stoi(it.substr(0, eq)); std::string val = it.substr(eq + 1);
        if (!val.empty() && val[0] == '#') { x.isnum = true; x.num = std::stoul(val.substr(1)); }
        else { size_t sl = val.find('/'); if (sl != std::string::npos) { x.ispair = true; x.a = unhex(val.substr(0, sl)); x.b = unhex(val.substr(sl + 1)); } else x.a = unhex(val); }
        v.push_back(x);
        i = j + 1;
    }
    return v;
}
template <typename T> void assign(std::optional<T>& dst, const item& x) { if constexpr (std::is_same_v<T, std::string>) dst = x.a; else dst = (T)x.num; }
inline void assign(m5::prop::subscription_identifiers& dst, const item& x) { dst.push_back((int32_t)x.num); }
inline void assign(std::vector<std::pair<std::string, std::string>>& dst, const item& x) { dst.emplace_back(x.a, x.b); }
template <typename Props> bool fill(Props& p, const std::string& plist) {
    bool all = true;
    for (auto& x : parse_plist(plist)) {
        bool found = false;
        p.visit([&](auto prop, auto& val) { if ((int)prop == x.id) { assign(val, x); found = true; } return true; });
        all = all && found;
    }
    return all;
}
template <typename T> void dump_one(std::string& out, int id, const std::optional<T>& v) {
    if (!v) return;
    if (!out.empty()) out += ";";
    if constexpr (std::is_same_v<T, std::string>) out += std::to_string(id) + "=" + tohex(*v); else out += std::to_string(id) + "=#" + std::to_string((unsigned long)*v);
}
inline void dump_one(std::string& out, int id, const m5::prop::subscription_identifiers& v) {
    for (auto x : v) { if (!out.empty()) out += ";"; out += std::to_string(id) + "=#" + std::to_string((long)x); }
}
inline void dump_one(std::string& out, int id, const std::vector<std::pair<std::string, std::string>>& v) {
    for (auto& x : v) { if (!out.empty()) out += ";"; out += std::to_string(id) + "=" + tohex(x.first) + "/" + tohex(x.second); }
}
template <typename Props> std::string dump(const Props& p) {
    std::string out;
    p.visit([&](auto prop, const auto& val) { dump_one(out, (int)prop, val); return true; });
    return out.empty() ? "-" : out;
}
inline uint64_t fnv(const std::string& s) { uint64_t h = 1469598103934665603ull; for (unsigned char c : s) { h ^= c; h *= 1099511628211ull; } return h; }
inline std::string show_bytes(const std::string& s) {
    if (s.size() <= 4096) return tohex(s);
    return "big " + std::to_string(s.size()) + " " + std::to_string(fnv(s)) + " " + tohex(s.substr(0, 48));
}
}
