// H-pubsend: the real publish_send_op<Svc, Handler, qos> (QoS 1 and QoS 2) on a mock service: every async_send / async_wait_reply it
// issues is logged and completed by the script; the internal malformed-packet DISCONNECT is logged.
//   pbs new <1|2>                          start async_publish (identifier 7, topic "t", payload "x")
//   pbs sent <ok|try_again|aborted>        complete the pending async_send
//   pbs reply <tryagain|failed|undecodable|badcode>   complete the pending async_wait_reply
//   pbs reply ack <rc> <p>                 ... with a decodable acknowledgement: reason code rc, properties tagged p (0 = none)
//   pbs cancel                             emit a total cancellation on the operation's slot
// output: actions of that line: sendPublish <dup> | sendPubrel <throttled> | waitAck | waitPubcomp | disconnectMalformed | freePid |
//         completeOk <rc> <p> | completeErr
#include <boost/asio.hpp>
#include <boost/mqtt5/error.hpp>
#include <boost/mqtt5/types.hpp>
#include <boost/mqtt5/reason_codes.hpp>
#include <boost/mqtt5/detail/internal_types.hpp>
#include <boost/mqtt5/impl/publish_send_op.hpp>
#include <iostream>
#include <sstream>
#include "hexutil.hpp"
namespace asio = boost::asio;
using namespace boost::mqtt5;
using namespace boost::mqtt5::detail;
using boost::system::error_code;

static std::vector<std::string> LOG;
static void ev(const std::string& s) { LOG.push_back(s); }

struct Svc {
    using executor_type = asio::any_io_executor;
    asio::io_context& ioc;
    asio::any_completion_handler<void(error_code)> send_pending;
    asio::any_completion_handler<void(error_code, byte_citer, byte_citer)> wait_pending;
    std::vector<asio::any_completion_handler<void(error_code)>> parked;   // the internal DISCONNECT's send: never completed
    std::string reply_buf;
    explicit Svc(asio::io_context& i) : ioc(i) {}
    executor_type get_executor() const { return ioc.get_executor(); }
    uint16_t allocate_pid() { return 7; }
    void free_pid(uint16_t pid, bool = false) { ev(pid == 7 ? "freePid" : "freePid?" + std::to_string(pid)); }
    serial_num_t next_serial_num() { return 1; }
    connack_props caps;                     // empty: every capability at its default
    template <typename P> const auto& connack_property(P p) const { return caps[p]; }
    void cancel() { ev("svc-cancel"); }
    template <typename B, typename T> decltype(auto) async_send(const B& buf, serial_num_t, unsigned flags, T&& token) {
        auto b = asio::buffer(buf); uint8_t b0 = b.size() ? *static_cast<const uint8_t*>(b.data()) : 0;
        return asio::async_initiate<T, void(error_code)>([this, b0, flags](auto h) {
            if ((b0 & 0xF0) == 0x30) { ev(std::string("sendPublish ") + ((b0 & 8) ? "true" : "false")); send_pending = asio::any_completion_handler<void(error_code)>(std::move(h)); }
            else if ((b0 & 0xF0) == 0x60) { ev(std::string("sendPubrel ") + ((flags & send_flag::throttled) ? "true" : "false")); send_pending = asio::any_completion_handler<void(error_code)>(std::move(h)); }
            else if ((b0 & 0xF0) == 0xE0) { ev("disconnectMalformed"); parked.emplace_back(std::move(h)); }
            else { ev("send?" + std::to_string(b0)); parked.emplace_back(std::move(h)); }
        }, token);
    }
    template <typename T> decltype(auto) async_wait_reply(control_code_e code, uint16_t pid, T&& token) {
        return asio::async_initiate<T, void(error_code, byte_citer, byte_citer)>([this, code, pid](auto h) {
            ev(code == control_code_e::pubcomp ? "waitPubcomp" : (code == control_code_e::puback || code == control_code_e::pubrec) ? "waitAck" : "wait?");
            if (pid != 7) ev("pid?" + std::to_string(pid));
            wait_pending = asio::any_completion_handler<void(error_code, byte_citer, byte_citer)>(std::move(h)); }, token);
    }
    template <typename T> decltype(auto) async_shutdown(T&& token) {
        return asio::async_initiate<T, void(error_code)>([this](auto h) { ev("shutdown"); parked.emplace_back(std::move(h)); }, token);
    }
};

struct W {
    asio::io_context ioc; std::shared_ptr<Svc> svc; asio::cancellation_signal sig;
    W() : svc(std::make_shared<Svc>(ioc)) {}
};

static unsigned tag_of(const std::optional<std::string>& rs) { return rs ? (unsigned)std::stoul(*rs) : 0; }

int main() {
    auto w = std::make_unique<W>();
    std::string line;
    while (std::getline(std::cin, line)) {
        std::istringstream is(line); std::string op, sub; is >> op >> sub; LOG.clear(); bool bad = false;
        if (op != "pbs") { std::puts("bad-op"); std::fflush(stdout); continue; }
        if (sub == "new") { int q; is >> q; w = std::make_unique<W>();
            if (q == 1) { auto h = asio::bind_cancellation_slot(w->sig.slot(), [](error_code ec, reason_code rc, puback_props p) {
                    ev(ec ? "completeErr" : "completeOk " + std::to_string(rc.value()) + " " + std::to_string(tag_of(p[prop::reason_string]))); });
                publish_send_op<Svc, decltype(h), qos_e::at_least_once> { w->svc, std::move(h) }.perform("t", "x", retain_e::no, publish_props{}); }
            else { auto h = asio::bind_cancellation_slot(w->sig.slot(), [](error_code ec, reason_code rc, pubcomp_props p) {
                    ev(ec ? "completeErr" : "completeOk " + std::to_string(rc.value()) + " " + std::to_string(tag_of(p[prop::reason_string]))); });
                publish_send_op<Svc, decltype(h), qos_e::exactly_once> { w->svc, std::move(h) }.perform("t", "x", retain_e::no, publish_props{}); } }
        else if (sub == "sent") { std::string e; is >> e;
            if (!w->svc->send_pending) bad = true; else { auto h = std::move(w->svc->send_pending);
                error_code ec = e == "ok" ? error_code{} : e == "try_again" ? error_code(asio::error::try_again) : error_code(asio::error::operation_aborted);
                asio::post(w->ioc, [h = std::move(h), ec]() mutable { std::move(h)(ec); }); } }
        else if (sub == "reply") { std::string k; is >> k;
            if (!w->svc->wait_pending) bad = true; else { auto h = std::move(w->svc->wait_pending); error_code ec; std::string& b = w->svc->reply_buf; b.clear();
                if (k == "tryagain") ec = asio::error::try_again;
                else if (k == "failed") ec = asio::error::operation_aborted;
                else if (k == "undecodable") b = std::string("\x00\x7f", 2);         // Property Length beyond the packet
                else if (k == "badcode") b = std::string("\x01", 1);                   // 0x01 is not a PUBACK/PUBREC/PUBCOMP reason code
                else if (k == "ack") { unsigned rc, p; is >> rc >> p; b.push_back((char)rc);
                    if (p) { std::string s = std::to_string(p); b.push_back((char)(3 + s.size())); b.push_back(0x1F); b.push_back(0); b.push_back((char)s.size()); b += s; } }
                else bad = true;
                if (!bad) { Svc* sp = w->svc.get(); asio::post(w->ioc, [h = std::move(h), ec, sp]() mutable { std::move(h)(ec, sp->reply_buf.cbegin(), sp->reply_buf.cend()); }); }
                else w->svc->wait_pending = std::move(h); } }
        else if (sub == "cancel") w->sig.emit(asio::cancellation_type::total);
        else bad = true;
        if (bad) { std::puts("bad-op"); std::fflush(stdout); continue; }
        for (;;) { w->ioc.restart(); if (w->ioc.poll() == 0) break; }
        std::string out; for (auto& e : LOG) { if (!out.empty()) out += " | "; out += e; }
        std::puts(out.empty() ? "-" : out.c_str()); std::fflush(stdout);
    }
}
