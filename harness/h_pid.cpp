// H-pid: the real packet_id_allocator driven by alloc/free scripts; prints the returned id and the interval vector.
#include <algorithm>
#include <cstdint>
#include <memory>
#include <string>
#include <string_view>
#include <vector>
#include <iostream>
#include <sstream>
#include <boost/assert.hpp>
#include <boost/smart_ptr/allocate_unique.hpp>
#include <boost/mqtt5/types.hpp>
#define private public
#define class struct
#include <boost/mqtt5/detail/control_packet.hpp>
#undef class
#undef private
using boost::mqtt5::detail::packet_id_allocator;

static std::string dump(const packet_id_allocator& a) {
    std::string s;
    for (auto& iv : a._free_ids) {
        if (!s.empty()) s += " ";
        s += std::to_string(iv.start) + ":" + std::to_string(iv.end);
    }
    return s;
}

int main() {
    auto alloc = std::make_unique<packet_id_allocator>();
    std::string line;
    while (std::getline(std::cin, line)) {
        std::istringstream is(line);
        std::string op, sub; is >> op >> sub;
        if (op != "pid") { std::puts("bad-op"); continue; }
        if (sub == "reset") { alloc = std::make_unique<packet_id_allocator>(); std::printf("- | %s\n", dump(*alloc).c_str()); }
        else if (sub == "a") { auto id = alloc->allocate(); std::printf("%u | %s\n", (unsigned)id, dump(*alloc).c_str()); }
        else if (sub == "f") { unsigned n; is >> n; alloc->free((uint16_t)n); std::printf("- | %s\n", dump(*alloc).c_str()); }
        else if (sub == "an") { // allocate n times, print only the last id and the state (bulk exhaustion)
            unsigned n; is >> n; unsigned id = 0; for (unsigned i = 0; i < n; i++) id = alloc->allocate();
            std::printf("%u | %s\n", id, dump(*alloc).c_str()); }
        else std::puts("bad-op");
    }
    return 0;
}
