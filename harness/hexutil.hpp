// shared helpers for the line-protocol harnesses
#pragma once
#include <string>
#include <cstdio>
inline int hexv(char c) { if (c >= '0' && c <= '9') return c - '0'; if (c >= 'a' && c <= 'f') return c - 'a' + 10; if (c >= 'A' && c <= 'F') return c - 'A' + 10; return -1; }
// "<hex>[*count](+<hex>[*count])*" or "-" for empty
inline std::string unhex(const std::string& s) {
    std::string out;
    if (s == "-") return out;
    size_t i = 0;
    while (i < s.size()) {
        size_t j = s.find('+', i); if (j == std::string::npos) j = s.size();
        std::string seg = s.substr(i, j - i);
        size_t star = seg.find('*'); size_t count = 1;
        if (star != std::string::npos) { count = std::stoul(seg.substr(star + 1)); seg = seg.substr(0, star); }
        std::string b;
        for (size_t k = 0; k + 1 < seg.size(); k += 2) b.push_back((char)(hexv(seg[k]) * 16 + hexv(seg[k + 1])));
        for (size_t c = 0; c < count; c++) out += b;
        i = j + 1;
    }
    return out;
}
inline std::string tohex(const std::string& s) {
    if (s.empty()) return "-";
    static const char* d = "0123456789abcdef"; std::string o;
    for (unsigned char c : s) { o.push_back(d[c >> 4]); o.push_back(d[c & 15]); }
    return o;
}
