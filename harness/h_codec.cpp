// H-codec: the real encoders (and decoders, see `dec`) on textual packet descriptions.
#include <boost/mqtt5/impl/codecs/message_encoders.hpp>
#include <boost/mqtt5/impl/codecs/message_decoders.hpp>
#include <boost/mqtt5/detail/control_packet.hpp>
#include <iostream>
#include <sstream>
#include "props_util.hpp"
using namespace boost::mqtt5;
namespace enc = boost::mqtt5::encoders;

static std::optional<std::string> optstr(const std::string& s) { if (s == "none") return std::nullopt; return unhex(s); }

static std::string do_enc(std::istringstream& is) {
    std::string kind; is >> kind;
    if (kind == "publish") {
        unsigned pid, q, r, d; std::string t, p, pl; is >> pid >> t >> p >> q >> r >> d >> pl;
        publish_props props; pu::fill(props, pl);
        std::string topic = unhex(t), payload = unhex(p);
        return enc::encode_publish((uint16_t)pid, topic, payload, qos_e(q), retain_e(r), dup_e(d), props);
    }
    if (kind == "puback" || kind == "pubrec" || kind == "pubrel" || kind == "pubcomp") {
        unsigned pid, rc; std::string pl; is >> pid >> rc >> pl;
        if (kind == "puback") { puback_props p; pu::fill(p, pl); return enc::encode_puback(pid, rc, p); }
        if (kind == "pubrec") { pubrec_props p; pu::fill(p, pl); return enc::encode_pubrec(pid, rc, p); }
        if (kind == "pubrel") { pubrel_props p; pu::fill(p, pl); return enc::encode_pubrel(pid, rc, p); }
        pubcomp_props p; pu::fill(p, pl); return enc::encode_pubcomp(pid, rc, p);
    }
    if (kind == "subscribe") {
        unsigned pid, n; std::string pl; is >> pid >> pl >> n;
        subscribe_props p; pu::fill(p, pl);
        std::vector<subscribe_topic> ts;
        for (unsigned i = 0; i < n; i++) { std::string f; unsigned q, nl, rap, rh; is >> f >> q >> nl >> rap >> rh;
            ts.push_back(subscribe_topic{ unhex(f), subscribe_options{ qos_e(q), no_local_e(nl), retain_as_published_e(rap), retain_handling_e(rh) } }); }
        return enc::encode_subscribe(pid, ts, p);
    }
    if (kind == "unsubscribe") {
        unsigned pid, n; std::string pl; is >> pid >> pl >> n;
        unsubscribe_props p; pu::fill(p, pl);
        std::vector<std::string> ts; for (unsigned i = 0; i < n; i++) { std::string f; is >> f; ts.push_back(unhex(f)); }
        return enc::encode_unsubscribe(pid, ts, p);
    }
    if (kind == "suback" || kind == "unsuback") {
        unsigned pid, n; std::string pl; is >> pid >> pl >> n;
        std::vector<uint8_t> rcs; for (unsigned i = 0; i < n; i++) { unsigned r; is >> r; rcs.push_back((uint8_t)r); }
        if (kind == "suback") { suback_props p; pu::fill(p, pl); return enc::encode_suback(pid, rcs, p); }
        unsuback_props p; pu::fill(p, pl); return enc::encode_unsuback(pid, rcs, p);
    }
    if (kind == "pingreq") return enc::encode_pingreq();
    if (kind == "pingresp") return enc::encode_pingresp();
    if (kind == "disconnect") { unsigned rc; std::string pl; is >> rc >> pl; disconnect_props p; pu::fill(p, pl); return enc::encode_disconnect(rc, p); }
    if (kind == "auth") { unsigned rc; std::string pl; is >> rc >> pl; auth_props p; pu::fill(p, pl); return enc::encode_auth(rc, p); }
    if (kind == "connack") { unsigned sp, rc; std::string pl; is >> sp >> rc >> pl; connack_props p; pu::fill(p, pl); return enc::encode_connack(sp, rc, p); }
    if (kind == "connect") {
        std::string cid, user, pass, pl; unsigned ka, cs, hasw; is >> cid >> user >> pass >> ka >> cs >> pl >> hasw;
        connect_props p; pu::fill(p, pl);
        std::optional<will> w;
        if (hasw) { std::string wt, wm, wpl; unsigned wq, wr; is >> wt >> wm >> wq >> wr >> wpl; will_props wp; pu::fill(wp, wpl);
            w.emplace(unhex(wt), unhex(wm), qos_e(wq), retain_e(wr), wp); }
        std::string c = unhex(cid); auto u = optstr(user), pw = optstr(pass);
        std::optional<std::string_view> uv, pv; if (u) uv = *u; if (pw) pv = *pw;
        return enc::encode_connect(c, uv, pv, (uint16_t)ka, cs != 0, p, w);
    }
    return "\xff" "bad";
}

int main() {
    std::string line;
    while (std::getline(std::cin, line)) {
        std::istringstream is(line);
        std::string op; is >> op;
        if (op == "enc") { std::puts(pu::show_bytes(do_enc(is)).c_str()); }
        else if (op == "dupenc") { // control_packet::set_dup() on an encoded PUBLISH, as publish_send_op stores and re-sends it
            std::string bytes = do_enc(is);
            auto cp = detail::control_packet<std::allocator<char>>::of(detail::no_pid, std::allocator<char>{}, [&bytes]() { return bytes; });
            cp.set_dup(); cp.set_dup();
            std::puts(pu::show_bytes(std::string(cp.wire_data())).c_str()); }
        else if (op == "varlen") { long v; is >> v; std::string s; enc::basic::to_variable_bytes(s, (int32_t)v); std::printf("%s %zu\n", tohex(s).c_str(), enc::basic::variable_length((int32_t)v)); }
        else std::puts("bad-op");
    }
}
