// H-stream: the real autoconnect_stream (glue), read_op, write_op, reconnect_op, connect_op, shutdown_op, resolve_op and
// async_mutex on a scripted socket, a scripted resolver and the virtual clock.  The harness plays the layer above
// (reads, writes, shutdown, cancel, close) and the network below (resolve results, connect results, bytes, errors).
#include <boost/asio.hpp>
#include <boost/asio/experimental/parallel_group.hpp>
#include <chrono>
#include <iostream>
#include <map>
#include <memory>
#include <sstream>
#include <deque>
namespace verif {
struct vclock {
    using duration = std::chrono::steady_clock::duration;
    using rep = duration::rep; using period = duration::period;
    using time_point = std::chrono::time_point<vclock, duration>;
    static constexpr bool is_steady = true;
    static inline rep now_ticks = 0;
    static time_point now() noexcept { return time_point(duration(now_ticks)); }
};
struct zero_wait_traits {
    static vclock::duration to_wait_duration(const vclock::duration& d) { return d.zero(); }
    static vclock::duration to_wait_duration(const vclock::time_point&) { return vclock::duration::zero(); }
};
static std::vector<std::string> LOG;
inline void ev(const std::string& s) { LOG.push_back(s); }
inline bool LAZY = false;   // cancellation requests are recorded and the environment completes the operation later
}
namespace boost::asio { using verif_timer = basic_waitable_timer<verif::vclock, verif::zero_wait_traits>; }
#include "hexutil.hpp"
#include <boost/mqtt5/types.hpp>
#include <boost/mqtt5/logger_traits.hpp>
#include <boost/mqtt5/detail/log_invoke.hpp>
#include <boost/mqtt5/detail/internal_types.hpp>
#include <boost/mqtt5/detail/async_mutex.hpp>
#include <boost/mqtt5/detail/async_traits.hpp>
#include <boost/spirit/home/x3.hpp>
#include <boost/asio/experimental/parallel_group.hpp>
#define private public
#define class struct
#include <boost/mqtt5/impl/endpoints.hpp>          // the real one: brokers() parser and resolve_op are used; sets the include guard
#undef class
#undef private

namespace asio = boost::asio;
using boost::system::error_code;

// ---------------------------------------------------------------- scripted socket
namespace verif {
struct sock_state {
    int id; bool open = false; bool connected = false;
    asio::any_completion_handler<void(error_code)> conn, shut;
    asio::any_completion_handler<void(error_code, size_t)> rd, wr;
    asio::mutable_buffer rbuf; std::string wbytes;
};
static std::map<int, std::shared_ptr<sock_state>> SOCKS;
static int next_sock = 0;

template <typename H, typename F> void on_cancel(H& stored, F&& f) {
    auto slot = asio::get_associated_cancellation_slot(stored);
    if (slot.is_connected()) slot.assign([f = std::forward<F>(f)](asio::cancellation_type_t t) { if (t != asio::cancellation_type_t::none) f(); });
}
class sim_socket {
public:
    using executor_type = asio::any_io_executor;
    using protocol_type = asio::ip::tcp;
    using endpoint_type = asio::ip::tcp::endpoint;
    executor_type _ex; std::shared_ptr<sock_state> st;
    explicit sim_socket(executor_type ex) : _ex(std::move(ex)), st(std::make_shared<sock_state>()) {
        st->id = next_sock++; SOCKS[st->id] = st; ev("sock K" + std::to_string(st->id)); }
    sim_socket(const sim_socket&) = delete;
    ~sim_socket() { error_code ec; close(ec); }      // destroying a socket closes it and cancels what is outstanding
    executor_type get_executor() const noexcept { return _ex; }
    std::string k() const { return "K" + std::to_string(st->id); }
    bool is_open() const { return st->open; }
    template <typename P> void open(const P&, error_code& ec) { ec = {}; st->open = true; }
    template <typename O> void set_option(const O&, error_code& ec) { ec = {}; }
    void close(error_code& ec) {
        ec = {};
        if (!st->open) return;
        st->open = false; st->connected = false; ev("sclose " + k());
        // closing cancels whatever is outstanding on the socket (posted operation_aborted)
        auto ex = _ex; auto s = st;
        if (s->conn) { auto h = std::move(s->conn); asio::post(ex, [h = std::move(h)]() mutable { std::move(h)(asio::error::operation_aborted); }); }
        if (s->rd) { auto h = std::move(s->rd); asio::post(ex, [h = std::move(h)]() mutable { std::move(h)(asio::error::operation_aborted, 0); }); }
        if (s->wr) { auto h = std::move(s->wr); asio::post(ex, [h = std::move(h)]() mutable { std::move(h)(asio::error::operation_aborted, 0); }); }
        if (s->shut) { auto h = std::move(s->shut); asio::post(ex, [h = std::move(h)]() mutable { std::move(h)(asio::error::operation_aborted); }); }
    }
    endpoint_type remote_endpoint(error_code& ec) const {
        if (st->connected) { ec = {}; return endpoint_type(asio::ip::make_address_v4("127.0.0.1"), 1883); }
        ec = asio::error::not_connected; return {};
    }
    template <typename T> decltype(auto) async_connect(const endpoint_type& ep, T&& token) {
        return asio::async_initiate<T, void(error_code)>([this, ep](auto h) {
            st->conn = asio::any_completion_handler<void(error_code)>(std::move(h));
            { auto s = st; auto ex = _ex; on_cancel(st->conn, [s, ex] { if (s->conn && LAZY) { ev("cancelreq connect K" + std::to_string(s->id)); return; } if (s->conn) { auto hh = std::make_shared<asio::any_completion_handler<void(error_code)>>(std::move(s->conn));
                ev("cancelled connect K" + std::to_string(s->id)); asio::post(ex, [hh] { std::move(*hh)(asio::error::operation_aborted); }); } }); }
            ev("connect " + k() + " " + ep.address().to_string() + ":" + std::to_string(ep.port())); }, token);
    }
    template <typename B, typename T> decltype(auto) async_read_some(const B& b, T&& token) {
        return asio::async_initiate<T, void(error_code, size_t)>([this](auto h, asio::mutable_buffer mb) {
            if (mb.size() == 0) {   // a zero-length read completes at once on a real socket
                auto hh = std::make_shared<asio::any_completion_handler<void(error_code, size_t)>>(std::move(h));
                asio::post(_ex, [hh]() { std::move(*hh)(error_code{}, 0); }); return; }
            st->rd = asio::any_completion_handler<void(error_code, size_t)>(std::move(h)); st->rbuf = mb;
            { auto s = st; auto ex = _ex; on_cancel(st->rd, [s, ex] { if (s->rd && LAZY) { ev("cancelreq srd K" + std::to_string(s->id)); return; } if (s->rd) { auto hh = std::make_shared<asio::any_completion_handler<void(error_code, size_t)>>(std::move(s->rd));
                ev("cancelled srd K" + std::to_string(s->id)); asio::post(ex, [hh] { std::move(*hh)(asio::error::operation_aborted, 0); }); } }); }
            ev("srd " + k() + " " + std::to_string(mb.size())); }, token, asio::mutable_buffer(*asio::buffer_sequence_begin(b)));
    }
    template <typename B, typename T> decltype(auto) async_write_some(const B& b, T&& token) {
        std::string bytes; for (auto it = asio::buffer_sequence_begin(b); it != asio::buffer_sequence_end(b); ++it) bytes.append((const char*)it->data(), it->size());
        return asio::async_initiate<T, void(error_code, size_t)>([this, bytes](auto h) {
            st->wr = asio::any_completion_handler<void(error_code, size_t)>(std::move(h)); st->wbytes = bytes;
            { auto s = st; auto ex = _ex; on_cancel(st->wr, [s, ex] { if (s->wr && LAZY) { ev("cancelreq swr K" + std::to_string(s->id)); return; } if (s->wr) { auto hh = std::make_shared<asio::any_completion_handler<void(error_code, size_t)>>(std::move(s->wr));
                ev("cancelled swr K" + std::to_string(s->id)); asio::post(ex, [hh] { std::move(*hh)(asio::error::operation_aborted, 0); }); } }); }
            ev("swr " + k() + " " + tohex(bytes)); }, token);
    }
};
template <typename H> void async_shutdown(sim_socket& s, H&& handler) {
    s.st->shut = asio::any_completion_handler<void(error_code)>(std::forward<H>(handler));
    { auto st = s.st; auto ex = s._ex; on_cancel(st->shut, [st, ex] { if (st->shut && LAZY) { ev("cancelreq sshut K" + std::to_string(st->id)); return; } if (st->shut) { auto hh = std::make_shared<asio::any_completion_handler<void(error_code)>>(std::move(st->shut));
        ev("cancelled sshut K" + std::to_string(st->id)); asio::post(ex, [hh] { std::move(*hh)(asio::error::operation_aborted); }); } }); }
    ev("sshut " + s.k());
}

// ---------------------------------------------------------------- scripted resolver
struct sim_resolver {
    using results_type = asio::ip::tcp::resolver::results_type;
    using executor_type = asio::any_io_executor;
    executor_type _ex;
    static inline asio::any_completion_handler<void(error_code, results_type)> pending;
    static inline std::string phost, pport;
    static inline std::unique_ptr<executor_type> pex;
    explicit sim_resolver(executor_type ex) : _ex(std::move(ex)) { pex = std::make_unique<executor_type>(_ex); }
    executor_type get_executor() { return _ex; }
    template <typename T> decltype(auto) async_resolve(std::string host, std::string port, T&& token) {
        return asio::async_initiate<T, void(error_code, results_type)>([host, port](auto h) {
            pending = asio::any_completion_handler<void(error_code, results_type)>(std::move(h)); phost = host; pport = port;
            // a per-operation cancellation (the 5 s resolve timer won the race) ends the resolve with operation_aborted
            auto slot = asio::get_associated_cancellation_slot(pending);
            if (slot.is_connected()) slot.assign([](asio::cancellation_type_t) {
                if (pending) { auto hh = std::make_shared<asio::any_completion_handler<void(error_code, results_type)>>(std::move(pending));
                    ev("cancelled resolve " + phost + ":" + pport);
                    asio::post(*pex, [hh]() { std::move(*hh)(asio::error::operation_aborted, results_type{}); }); } });
            ev("resolve " + host + ":" + port); }, token);
    }
};
}

// ---------------------------------------------------------------- endpoints stand-in: real resolve_op + real brokers() parser, scripted resolver
namespace boost::mqtt5::detail {
template <typename LoggerType>
class sim_endpoints {
public:
    using logger_type = LoggerType;
    verif::sim_resolver _resolver;
    asio::verif_timer& _connect_timer;
    std::vector<authority_path> _servers;
    int _current_host { -1 };
    log_invoke<logger_type>& _log;
    template <typename Executor>
    sim_endpoints(Executor ex, asio::verif_timer& timer, log_invoke<logger_type>& log) : _resolver(ex), _connect_timer(timer), _log(log) {}
    void clone_servers(const sim_endpoints& o) { _servers = o._servers; }
    using executor_type = asio::any_io_executor;
    executor_type get_executor() noexcept { return _resolver.get_executor(); }
    template <typename CompletionToken>
    decltype(auto) async_next_endpoint(CompletionToken&& token) {
        using Signature = void (error_code, epoints, authority_path);
        auto initiation = [](auto handler, sim_endpoints& self) { resolve_op { self, std::move(handler) }.perform(); };   // the real resolve_op
        return asio::async_initiate<CompletionToken, Signature>(initiation, token, std::ref(*this));
    }
    void brokers(std::string hosts, uint16_t default_port) {        // the real parser
        asio::io_context tmp; asio::steady_timer t(tmp); log_invoke<logger_type> lg;
        endpoints<logger_type> real(tmp.get_executor(), t, lg);
        real.brokers(std::move(hosts), default_port);
        _servers = real._servers;
        std::string s = "servers";
        for (auto& a : _servers) s += " " + a.host + ":" + a.port + (a.path.empty() ? "" : a.path);
        verif::ev(s);
    }
};
}
#define endpoints sim_endpoints
#define steady_timer verif_timer
#define private public
#include <boost/mqtt5/impl/client_service.hpp>     // brings stream_context, autoconnect_stream (real glue) and the real ops
#undef private
#undef steady_timer
#undef endpoints
#include "props_util.hpp"

using namespace boost::mqtt5;
// scripted authenticator: every step succeeds with data "d<step>" unless the step is in the fail mask; each call is logged
struct sim_auth {
    std::string m; unsigned failmask = 0; asio::any_io_executor ex;
    std::string_view method() const { return m; }
    template <typename T> decltype(auto) async_auth(auth_step_e step, std::string data, T&& token) {
        return asio::async_initiate<T, void(error_code, std::string)>([this, step, data](auto h) {
            verif::ev("auth " + std::to_string((int)step) + " " + tohex(data));
            error_code ec = (failmask >> (int)step) & 1 ? error_code(asio::error::access_denied) : error_code{};
            auto hh = std::make_shared<decltype(h)>(std::move(h)); std::string out = "d" + std::to_string((int)step);
            asio::post(ex, [hh, ec, out]() { std::move(*hh)(ec, out); }); }, token);
    }
};
using ctx_t = detail::stream_context<verif::sim_socket, std::monostate>;
using stream_t = detail::autoconnect_stream<verif::sim_socket, ctx_t, noop_logger>;

static std::string ecname(error_code ec) {
    if (!ec) return "ok";
    if (ec == asio::error::operation_aborted) return "aborted";
    if (ec == asio::error::try_again) return "try_again";
    if (ec == asio::error::no_recovery) return "no_recovery";
    return std::string(ec.category().name()) + ":" + std::to_string(ec.value());
}
static error_code ecparse(const std::string& s) {
    if (s == "ok") return {};
    if (s == "refused") return asio::error::connection_refused;
    if (s == "reset") return asio::error::connection_reset;
    if (s == "eof") return asio::error::eof;
    if (s == "timed_out") return asio::error::timed_out;
    if (s == "broken_pipe") return asio::error::broken_pipe;
    if (s == "aborted") return asio::error::operation_aborted;
    if (s == "fault") return asio::error::fault;
    return asio::error::no_permission;
}

struct W {
    asio::io_context ioc;
    ctx_t ctx { std::monostate{} };
    detail::log_invoke<noop_logger> log;
    std::unique_ptr<stream_t> s;
    std::map<int, std::unique_ptr<std::string>> rbufs;
    unsigned authfail = 0;
    W() { s = std::make_unique<stream_t>(ioc.get_executor(), ctx, log); }
};

int main() {
    auto w = std::make_unique<W>();
    std::string line;
    while (std::getline(std::cin, line)) {
        // "<line> +cc": after the line's own action (which posts one completion) the client's cancel() + close() is posted too, so that it runs
        // right behind that completion handler and ahead of whatever the handler posts in turn
        bool cc = false; if (line.size() > 4 && line.compare(line.size() - 4, 4, " +cc") == 0) { cc = true; line.erase(line.size() - 4); }
        // "<line> +ccb": cancel() + close() is posted BEFORE the line's action posts its completion: the socket operation has already finished (with the
        // result of the line) but the client is cancelled before the completion handler runs
        if (line.size() > 5 && line.compare(line.size() - 5, 5, " +ccb") == 0) { line.erase(line.size() - 5); asio::post(w->ioc, [&w]() { w->s->cancel(); w->s->close(); }); }
        std::istringstream is(line); std::string cmd; is >> cmd; verif::LOG.clear(); bool bad = false;
        W& X = *w;
        if (cmd == "new") { verif::SOCKS.clear(); verif::sim_resolver::pending = nullptr; w.reset(); verif::SOCKS.clear(); verif::next_sock = 0; verif::LAZY = false; verif::vclock::now_ticks = 0; verif::LOG.clear(); w = std::make_unique<W>(); }
        else if (cmd == "cfg") { std::string k; auto& m = X.ctx.mqtt_context();
            while (is >> k) { auto eq = k.find('='); std::string key = k.substr(0, eq), val = k.substr(eq + 1);
                if (key == "brokers") X.s->brokers(unhex(val), 1883);
                else if (key == "lazycancel") verif::LAZY = val == "1";
                else if (key == "auth") { std::string meth = unhex(val); m.authenticator = detail::any_authenticator(sim_auth { meth, X.authfail, X.ioc.get_executor() }); }
                else if (key == "authfail") X.authfail = (unsigned)std::stoul(val);
                else if (key == "ka") m.keep_alive = (uint16_t)std::stoul(val);
                else if (key == "cid") m.creds.client_id = unhex(val);
                else if (key == "user") m.creds.username = unhex(val);
                else if (key == "pass") m.creds.password = unhex(val);
                else if (key == "coprops") { connect_props p; pu::fill(p, val); m.co_props = p; }
                else if (key == "will") { // topic/message/qos/retain/plist
                    std::istringstream ws(val); std::string t, msg, q, r, pl; std::getline(ws, t, '/'); std::getline(ws, msg, '/'); std::getline(ws, q, '/'); std::getline(ws, r, '/'); std::getline(ws, pl);
                    will_props wp; pu::fill(wp, pl); m.will_msg.emplace(unhex(t), unhex(msg), qos_e(std::stoi(q)), retain_e(std::stoi(r)), wp); } } }
        else if (cmd == "open") X.s->open();
        else if (cmd == "close") X.s->close();
        else if (cmd == "cancel") X.s->cancel();
        else if (cmd == "read") { int id; size_t n; std::string to; is >> id >> n >> to; auto& b = X.rbufs[id]; b = std::make_unique<std::string>(n, 0); std::string* bp = b.get();
            auto d = to == "inf" ? detail::duration((std::numeric_limits<detail::duration::rep>::max)()) : detail::duration(std::chrono::milliseconds(std::stol(to)));
            X.s->async_read_some(asio::buffer(*b), d, [id, bp](error_code ec, size_t k) { verif::ev("rdone " + std::to_string(id) + " " + ecname(ec) + " " + tohex(bp->substr(0, k))); }); }
        else if (cmd == "write") { int id; std::string hx; is >> id >> hx; auto data = std::make_shared<std::string>(unhex(hx));
            std::vector<asio::const_buffer> bufs { asio::buffer(*data) };
            X.s->async_write(bufs, [id, data](error_code ec, size_t k) { verif::ev("wdone " + std::to_string(id) + " " + ecname(ec) + " " + std::to_string(k)); }); }
        else if (cmd == "shutdown") { int id; is >> id; X.s->async_shutdown([id](error_code ec) { verif::ev("sdone " + std::to_string(id) + " " + ecname(ec)); }); }
        else if (cmd == "advance") { long ms; is >> ms; verif::vclock::now_ticks += std::chrono::duration_cast<verif::vclock::duration>(std::chrono::milliseconds(ms)).count(); }
        else if (cmd == "resolved") { int n; is >> n; // n addresses 127.0.1.1 .. for the pending resolve; 0 = host not found
            if (!verif::sim_resolver::pending) bad = true; else {
                auto h = std::move(verif::sim_resolver::pending); std::vector<asio::ip::tcp::endpoint> eps;
                for (int i = 0; i < n; i++) eps.emplace_back(asio::ip::make_address_v4("127.0.1." + std::to_string(i + 1)), (unsigned short)std::stoi(verif::sim_resolver::pport));
                auto res = verif::sim_resolver::results_type::create(eps.begin(), eps.end(), verif::sim_resolver::phost, verif::sim_resolver::pport);
                error_code ec = n ? error_code{} : error_code(asio::error::host_not_found);
                auto hh = std::make_shared<asio::any_completion_handler<void(error_code, verif::sim_resolver::results_type)>>(std::move(h));
                asio::post(X.ioc, [hh, ec, res]() { std::move(*hh)(ec, res); }); } }
        else if (cmd == "conn" || cmd == "srdone" || cmd == "swdone" || cmd == "srx" || cmd == "sshutdone") {
            std::string ks, arg; is >> ks >> arg; int id = std::stoi(ks.substr(1)); auto it = verif::SOCKS.find(id);
            if (it == verif::SOCKS.end()) bad = true; else { auto st = it->second; auto ex = X.ioc.get_executor();
                if (cmd == "conn") { if (!st->conn) bad = true; else { auto h = std::move(st->conn); error_code ec = ecparse(arg); if (!ec) st->connected = true; asio::post(ex, [h = std::move(h), ec]() mutable { std::move(h)(ec); }); } }
                else if (cmd == "srx") { std::string d = unhex(arg); if (!st->rd || d.size() > st->rbuf.size()) bad = true; else { std::memcpy(st->rbuf.data(), d.data(), d.size()); auto h = std::move(st->rd); size_t k = d.size(); asio::post(ex, [h = std::move(h), k]() mutable { std::move(h)(error_code{}, k); }); } }
                else if (cmd == "srdone") { if (!st->rd) bad = true; else { auto h = std::move(st->rd); error_code ec = ecparse(arg); asio::post(ex, [h = std::move(h), ec]() mutable { std::move(h)(ec, 0); }); } }
                else if (cmd == "swdone") { if (!st->wr) bad = true; else { auto h = std::move(st->wr); error_code ec = ecparse(arg); size_t k = ec ? 0 : st->wbytes.size(); long part = -1; if (is >> part && part >= 0) k = (size_t)part;
                    asio::post(ex, [h = std::move(h), ec, k]() mutable { std::move(h)(ec, k); }); } }
                else { if (!st->shut) bad = true; else { auto h = std::move(st->shut); error_code ec = arg.empty() ? error_code{} : ecparse(arg); asio::post(ex, [h = std::move(h), ec]() mutable { std::move(h)(ec); }); } } } }
        else if (cmd == "nop") {}
        else bad = true;
        if (bad) { std::puts("bad-op"); std::fflush(stdout); continue; }
        if (cc) asio::post(w->ioc, [&w]() { w->s->cancel(); w->s->close(); });
        for (;;) { w->ioc.restart(); if (w->ioc.poll() == 0) break; }
        std::string out; for (auto& e : verif::LOG) { if (!out.empty()) out += " | "; out += e; }
        std::printf("%s ; locked=%d open=%d cur=K%d wc=%d sp=%d caps=%s\n", out.empty() ? "-" : out.c_str(), (int)w->s->_conn_mtx.is_locked(), (int)w->s->is_open(), w->s->_stream_ptr->st->id, (int)w->s->was_connected(),
            (int)w->ctx.mqtt_context().state.session_present(), pu::dump(w->ctx.mqtt_context().ca_props).c_str());
        std::fflush(stdout);
    }
}
