// H-guard: the real decoders on packet bodies copied into exact-size heap blocks (ASan red zones directly behind the last byte),
// so a read outside the received packet is a sanitizer fault.  One line in, one line out.
#include <boost/mqtt5/impl/codecs/message_decoders.hpp>
#include <boost/mqtt5/detail/internal_types.hpp>
#include <iostream>
#include <sstream>
#include <cstring>
#include "props_util.hpp"
using namespace boost::mqtt5;
namespace dec = boost::mqtt5::decoders;
using detail::byte_citer;

struct Block {   // exact-size copy; iterators built from raw pointers
    char* p; size_t n;
    explicit Block(const std::string& s) : p(new char[s.size() ? s.size() : 1]), n(s.size()) { std::memcpy(p, s.data(), s.size()); }
    ~Block() { delete[] p; }
    byte_citer begin() const { return byte_citer(p); }
};

template <typename Props> static std::string rcprops(const std::optional<std::tuple<uint8_t, Props>>& r, long used) {
    if (!r) return "fail";
    return "ok rc=" + std::to_string((int)std::get<0>(*r)) + " props=" + pu::dump(std::get<1>(*r)) + " used=" + std::to_string(used);
}

int main() {
    std::string line;
    while (std::getline(std::cin, line)) {
        std::istringstream is(line); std::string op, kind, hx; is >> op >> kind;
        if (op != "dec") { std::puts("bad-op"); continue; }
        std::string out;
        if (kind == "publish") {
            unsigned cb; is >> cb >> hx; Block b(unhex(hx)); auto it = b.begin();
            auto r = dec::decode_publish((uint8_t)cb, (uint32_t)b.n, it);
            if (!r) out = "fail"; else { auto& [t, pid, fl, pr, pl] = *r;
                out = "ok topic=" + tohex(t) + " pid=" + (pid ? std::to_string(*pid) : "-") + " flags=" + std::to_string((int)fl) + " props=" + pu::dump(pr) + " payload=" + tohex(pl); }
        } else {
            is >> hx; Block b(unhex(hx)); auto it = b.begin(); auto it0 = it;
            if (kind == "puback") out = rcprops(dec::decode_puback((uint32_t)b.n, it), it - it0);
            else if (kind == "pubrec") out = rcprops(dec::decode_pubrec((uint32_t)b.n, it), it - it0);
            else if (kind == "pubrel") out = rcprops(dec::decode_pubrel((uint32_t)b.n, it), it - it0);
            else if (kind == "pubcomp") out = rcprops(dec::decode_pubcomp((uint32_t)b.n, it), it - it0);
            else if (kind == "disconnect") out = rcprops(dec::decode_disconnect((uint32_t)b.n, it), it - it0);
            else if (kind == "auth") out = rcprops(dec::decode_auth((uint32_t)b.n, it), it - it0);
            else if (kind == "connack") { auto r = dec::decode_connack((uint32_t)b.n, it);
                if (!r) out = "fail"; else out = "ok sp=" + std::to_string((int)std::get<0>(*r)) + " rc=" + std::to_string((int)std::get<1>(*r)) + " props=" + pu::dump(std::get<2>(*r)); }
            else if (kind == "suback" || kind == "unsuback") {
                std::string codes, props; bool ok = false;
                if (kind == "suback") { auto r = dec::decode_suback((uint32_t)b.n, it); if (r) { ok = true; props = pu::dump(std::get<0>(*r)); for (auto c : std::get<1>(*r)) codes += (codes.empty() ? "" : ",") + std::to_string((int)c); } }
                else { auto r = dec::decode_unsuback((uint32_t)b.n, it); if (r) { ok = true; props = pu::dump(std::get<0>(*r)); for (auto c : std::get<1>(*r)) codes += (codes.empty() ? "" : ",") + std::to_string((int)c); } }
                out = ok ? "ok props=" + props + " rcs=" + codes : "fail"; }
            else if (kind == "varint") { auto last = it + b.n; auto r = dec::type_parse(it, last, dec::basic::varint_);
                out = r ? "ok " + std::to_string((long)*r) + " used=" + std::to_string(it - it0) : "fail"; }
            else if (kind == "fixed") { auto last = it + b.n; auto r = dec::decode_fixed_header(it, last);
                out = r ? "ok cb=" + std::to_string((int)std::get<0>(*r)) + " rl=" + std::to_string((unsigned long)std::get<1>(*r)) + " used=" + std::to_string(it - it0) : "fail"; }
            else out = "bad-op";
        }
        std::puts(out.c_str()); std::fflush(stdout);
    }
}
