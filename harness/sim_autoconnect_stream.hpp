// Scripted stand-in for detail::autoconnect_stream (same template signature and member interface).
// Everything above it (client_service, sender, replies, every *_op) is the real code.
#pragma once
#include <boost/asio.hpp>
#include <functional>
#include <map>
#include <string>
#include <vector>
#include <variant>
#include "hexutil.hpp"

namespace verif {
struct sim_pending {                     // pending I/O of one simulated stream; owned by the world (as a reactor would), not by the stream
    boost::asio::any_completion_handler<void(boost::system::error_code, size_t)> read, write;
    boost::asio::any_completion_handler<void(boost::system::error_code)> shutdown;
};
struct sim_world {                       // one per harness: event log + the currently pending I/O of every stream
    std::vector<std::string> log;
    int next_stream_id = 0;
    std::map<int, sim_pending> pending;
    void ev(const std::string& s) { log.push_back(s); }
};
inline sim_world& world() { static sim_world w; return w; }
}

namespace boost::mqtt5::detail {
namespace asio = boost::asio;

template <typename StreamType, typename StreamContext = std::monostate, typename LoggerType = noop_logger>
class sim_autoconnect_stream {
public:
    using self_type = sim_autoconnect_stream;
    using stream_type = StreamType;
    using stream_context_type = StreamContext;
    using logger_type = LoggerType;
    using executor_type = typename stream_type::executor_type;
    using rw_handler = asio::any_completion_handler<void(error_code, size_t)>;
    using sh_handler = asio::any_completion_handler<void(error_code)>;

    executor_type _ex;
    stream_context_type& _ctx;
    bool _open = false;
    int _id;
    rw_handler& pr() { return verif::world().pending[_id].read; }
    rw_handler& pw() { return verif::world().pending[_id].write; }
    sh_handler& ps() { return verif::world().pending[_id].shutdown; }
    asio::mutable_buffer _read_buf;
    size_t _write_size = 0;
    std::string _hosts;

    static std::vector<sim_autoconnect_stream*>& registry() { static std::vector<sim_autoconnect_stream*> r; return r; }

    sim_autoconnect_stream(const executor_type& ex, stream_context_type& context, log_invoke<logger_type>&) :
        _ex(ex), _ctx(context), _id(verif::world().next_stream_id++) { registry().push_back(this); }
    ~sim_autoconnect_stream() { auto& r = registry(); r.erase(std::remove(r.begin(), r.end(), this), r.end()); }
    sim_autoconnect_stream(const sim_autoconnect_stream&) = delete;

    executor_type get_executor() const noexcept { return _ex; }
    void brokers(std::string hosts, uint16_t) { _hosts = std::move(hosts); }
    void clone_endpoints(const sim_autoconnect_stream& o) { _hosts = o._hosts; }
    bool is_open() const noexcept { return _open; }
    void open() { _open = true; verif::world().ev("open S" + std::to_string(_id)); }
    void cancel() { verif::world().ev("scancel S" + std::to_string(_id)); }
    void close() { _open = false; verif::world().ev("close S" + std::to_string(_id)); }
    stream_context_type& context() { return _ctx; }

    template <typename CompletionToken>
    void async_shutdown(CompletionToken&& token) {
        auto init = [](auto handler, self_type& self) {
            self.ps() = sh_handler(std::move(handler));
            verif::world().ev("shut S" + std::to_string(self._id));
        };
        return asio::async_initiate<CompletionToken, void(error_code)>(init, token, std::ref(*this));
    }

    template <typename BufferType, typename CompletionToken>
    decltype(auto) async_read_some(const BufferType& buffer, duration wait_for, CompletionToken&& token) {
        auto init = [](auto handler, self_type& self, const BufferType& buffer, duration wait_for) {
            self.pr() = rw_handler(std::move(handler));
            self._read_buf = asio::mutable_buffer(buffer);
            auto ms = std::chrono::duration_cast<std::chrono::milliseconds>(wait_for).count();
            std::string to = wait_for == duration::max() ? "inf" : std::to_string(ms);
            verif::world().ev("rd S" + std::to_string(self._id) + " " + std::to_string(self._read_buf.size()) + " " + to);
        };
        return asio::async_initiate<CompletionToken, void(error_code, size_t)>(init, token, std::ref(*this), buffer, wait_for);
    }

    template <typename BufferType, typename CompletionToken>
    decltype(auto) async_write(const BufferType& buffer, CompletionToken&& token) {
        auto init = [](auto handler, self_type& self, const BufferType& buffers) {
            self.pw() = rw_handler(std::move(handler));
            std::string s = "wr S" + std::to_string(self._id); size_t total = 0;
            for (const auto& b : buffers) { s += " " + tohex(std::string((const char*)b.data(), b.size())); total += b.size(); }
            self._write_size = total;
            verif::world().ev(s);
        };
        return asio::async_initiate<CompletionToken, void(error_code, size_t)>(init, token, std::ref(*this), buffer);
    }

    // ---- script side
    bool complete_write(error_code ec) {
        if (!pw()) return false;
        auto h = std::move(pw()); size_t n = ec ? 0 : _write_size;
        asio::post(_ex, [h = std::move(h), ec, n]() mutable { std::move(h)(ec, n); });
        return true;
    }
    bool complete_read(error_code ec, const std::string& bytes) {
        if (!pr()) return false;
        if (bytes.size() > _read_buf.size()) return false;
        std::memcpy(_read_buf.data(), bytes.data(), bytes.size());
        auto h = std::move(pr()); size_t n = bytes.size();
        asio::post(_ex, [h = std::move(h), ec, n]() mutable { std::move(h)(ec, n); });
        return true;
    }
    bool complete_shutdown(error_code ec) {
        if (!ps()) return false;
        auto h = std::move(ps());
        asio::post(_ex, [h = std::move(h), ec]() mutable { std::move(h)(ec); });
        return true;
    }
};
}
