import Mqtt5V.Model.Enc
import Mqtt5V.Model.PropsText
import Mqtt5V.Model.Validate
/-! line-protocol front end of the encoder model -/
open Mqtt5V Mqtt5V.Wire Mqtt5V.Model Mqtt5V.Model.PropsText Mqtt5V.Gen.PropTable

namespace Driver.Codec

def optStr (s : String) : Option (Option Bs) := if s = "none" then some none else (natsOfHex s).map some

def parseSubTopics : Nat → List String → Option (List (Bs × SubOpts))
  | 0, _ => some []
  | n + 1, f :: q :: nl :: rap :: rh :: rest => do
    let fb ← natsOfHex f
    let o : SubOpts := ⟨← q.toNat?, ← nl.toNat?, ← rap.toNat?, ← rh.toNat?⟩
    let ts ← parseSubTopics n rest
    pure ((fb, o) :: ts)
  | _, _ => none

def parseTopics : Nat → List String → Option (List Bs)
  | 0, _ => some []
  | n + 1, f :: rest => do
    let fb ← natsOfHex f
    let ts ← parseTopics n rest
    pure (fb :: ts)
  | _, _ => none

def parsePacket (ws : List String) : Option Packet :=
  match ws with
  | ["publish", pid, t, p, q, r, d, pl] => do
    let ps ← parsePlist pl
    pure (.publish (some (← pid.toNat?)) (← natsOfHex t) (← natsOfHex p) (← q.toNat?) (← r.toNat?) (← d.toNat?) (canon publishProps ps))
  | ["puback", pid, rc, pl] => do pure (.puback (← pid.toNat?) (← rc.toNat?) (canon pubackProps (← parsePlist pl)))
  | ["pubrec", pid, rc, pl] => do pure (.pubrec (← pid.toNat?) (← rc.toNat?) (canon pubrecProps (← parsePlist pl)))
  | ["pubrel", pid, rc, pl] => do pure (.pubrel (← pid.toNat?) (← rc.toNat?) (canon pubrelProps (← parsePlist pl)))
  | ["pubcomp", pid, rc, pl] => do pure (.pubcomp (← pid.toNat?) (← rc.toNat?) (canon pubcompProps (← parsePlist pl)))
  | "subscribe" :: pid :: pl :: n :: rest => do
    pure (.subscribe (← pid.toNat?) (← parseSubTopics (← n.toNat?) rest) (canon subscribeProps (← parsePlist pl)))
  | "unsubscribe" :: pid :: pl :: n :: rest => do
    pure (.unsubscribe (← pid.toNat?) (← parseTopics (← n.toNat?) rest) (canon unsubscribeProps (← parsePlist pl)))
  | "suback" :: pid :: pl :: n :: rest => do
    let k ← n.toNat?
    let rcs ← (rest.take k).mapM String.toNat?
    pure (.suback (← pid.toNat?) rcs (canon subackProps (← parsePlist pl)))
  | "unsuback" :: pid :: pl :: n :: rest => do
    let k ← n.toNat?
    let rcs ← (rest.take k).mapM String.toNat?
    pure (.unsuback (← pid.toNat?) rcs (canon unsubackProps (← parsePlist pl)))
  | ["pingreq"] => some .pingreq
  | ["pingresp"] => some .pingresp
  | ["disconnect", rc, pl] => do pure (.disconnect (← rc.toNat?) (canon disconnectProps (← parsePlist pl)))
  | ["auth", rc, pl] => do pure (.auth (← rc.toNat?) (canon authProps (← parsePlist pl)))
  | ["connack", sp, rc, pl] => do pure (.connack (← sp.toNat?) (← rc.toNat?) (canon connackProps (← parsePlist pl)))
  | "connect" :: cid :: user :: pass :: ka :: cs :: pl :: hasw :: rest => do
    let w ← (match hasw, rest with
      | "0", _ => some none
      | _, [wt, wm, wq, wr, wpl] => do
        pure (some (⟨← natsOfHex wt, ← natsOfHex wm, ← wq.toNat?, ← wr.toNat?, canon willProps (← parsePlist wpl)⟩ : Will))
      | _, _ => none)
    pure (.connect (← natsOfHex cid) (← optStr user) (← optStr pass) (← ka.toNat?) (← cs.toNat?) (canon connectProps (← parsePlist pl)) w)
  | _ => none

def capsOf (ps : Props) : Validate.Caps :=
  let n := Validate.numOf ps
  { maxQos := (n 36).getD 2, retainAvailable := (n 37).getD 1, topicAliasMax := (n 34).getD 0, maxPacket := (n 39).getD 268435460,
    wildcardAvailable := (n 40).getD 1, subIdAvailable := (n 41).getD 1, sharedAvailable := (n 42).getD 1 }

def showReq : Except Nat Bs → String
  | .ok b => "ok " ++ showBytes b
  | .error e => s!"err {e}"

def valStep (ws : List String) : String :=
  match ws with
  | ["pub", caps, pid, q, r, t, p, pl] =>
    match parsePlist caps, pid.toNat?, q.toNat?, r.toNat?, natsOfHex t, natsOfHex p, parsePlist pl with
    | some cp, some pid, some q, some r, some t, some p, some ps =>
      showReq (Validate.publishRequest (capsOf cp) pid q r t p (canon publishProps ps))
    | _, _, _, _, _, _, _ => "bad-op"
  | "sub" :: caps :: pid :: pl :: n :: rest =>
    match parsePlist caps, pid.toNat?, parsePlist pl, n.toNat? with
    | some cp, some pid, some ps, some n =>
      match parseSubTopics n rest with
      | some ts => showReq (Validate.subscribeRequest (capsOf cp) pid ts (canon subscribeProps ps))
      | none => "bad-op"
    | _, _, _, _ => "bad-op"
  | _ => "bad-op"

def step (ws : List String) : String :=
  match ws with
  | "val" :: rest => valStep rest
  | "dupenc" :: rest =>
    match parsePacket rest with
    | some p => showBytes (Enc.setDup (Enc.setDup (Enc.encode p)))
    | none => "bad-op"
  | "enc" :: rest =>
    match parsePacket rest with
    | some p => showBytes (Enc.encode p)
    | none => "bad-op"
  | ["varlen", v] =>
    match v.toNat? with
    | some n => s!"{hexNats (Enc.toVariableBytes n)} {Enc.variableLength n}"
    | none => "bad-op"
  | _ => "bad-op"

end Driver.Codec
