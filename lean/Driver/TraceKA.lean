import Mqtt5V.Model.TraceKA
/-! `traceka <event> …` → `accept` | `reject <index> <event> <why>` -/
open Mqtt5V Mqtt5V.Model.TraceKA
namespace Driver.TraceKA

def optNat : String → Option (Option Nat)
  | "-" => some none
  | x => x.toNat?.map some

def evOf (t : String) : Option Ev :=
  match t.splitOn ":" with
  | ["c", k] => k.toNat?.map .cfg
  | ["r"] => some .run
  | ["U", ska] => (optNat ska).map .connUp
  | ["f"] => some .refresh
  | ["t", ms] => ms.toNat?.map .adv
  | ["d", x] => (optNat x).map .rd
  | ["w", p, t] => if (p = "0" ∨ p = "1") ∧ (t = "0" ∨ t = "1") then some (.wr (p == "1") (t == "1")) else none
  | ["K"] => some .wrOk | ["F"] => some .wrFail | ["A"] => some .wrAbort | ["N"] => some .wrFatal
  | ["x"] => some .stop | ["e"] => some .eol
  | _ => none

def parse : List String → Except String (List Ev)
  | [] => .ok []
  | t :: ts => match evOf t with
    | none => .error t
    | some e => (parse ts).map (e :: ·)

def step (toks : List String) : String :=
  match parse toks with
  | .error t => s!"bad-op {t}"
  | .ok evs =>
    match firstReject init evs 0 with
    | none => "accept"
    | some i =>
      let s := stateAt init evs i
      let why := match evs.getD i .eol with
        | .rd t => s!"C12 a read is started with time-out {t} ms, the negotiated keep-alive {s.K} s demands {Gen.Timing.readTimeoutMs s.K}"
        | .wr p _ =>
          if s.writing then "model a write starts while a write is in progress"
          else if p then s!"C12 a PINGREQ is written although none is due (keep-alive {s.K} s, time {s.now} ms, timer {repr s.phase})"
          else s!"C12 the PINGREQ that was due is not in the write (keep-alive {s.K} s, time {s.now} ms)"
        | .eol => s!"C12 no PINGREQ written although the keep-alive interval has passed and no write is in progress (keep-alive {s.K} s, time {s.now} ms)"
        | .cfg _ | .run => "model configuration / async_run on a running client"
        | .wrAbort => "model a write is aborted although the client was not closed (or no write is in progress)"
        | _ => "model write completion without a write"
      s!"reject {i} {toks.getD i "?"} {why}"

end Driver.TraceKA
