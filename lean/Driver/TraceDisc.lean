import Mqtt5V.Model.TraceDisc
/-! `tracedisc <event> …` → `accept` | `reject <index> <event> <why>` -/
open Mqtt5V Mqtt5V.Model.TraceDisc
namespace Driver.TraceDisc

def evOf : String → Option Ev
  | "U" => some .connUp | "D" => some .connDown | "W" => some .wr | "d" => some .pkDisc | "o" => some .pkOther
  | "K" => some .wrOk | "F" => some .wrFail | _ => none

def parse : List String → Except String (List Ev)
  | [] => .ok []
  | t :: ts => match evOf t with
    | none => .error t
    | some e => (parse ts).map (e :: ·)

def step (toks : List String) : String :=
  match parse toks with
  | .error t => s!"bad-op {t}"
  | .ok evs =>
    match firstReject init evs 0 with
    | none => "accept"
    | some i =>
      let why := match evs.getD i .wr with
        | .wr => "C09 a write is started on a connection on which a DISCONNECT has been written (or while a write is in progress)"
        | .pkDisc => "C09 DISCONNECT written together with other packets (it is not the first packet of its write)"
        | .pkOther => "C09 a packet is written behind a DISCONNECT in the same write"
        | _ => "model write completion without a write"
      s!"reject {i} {toks.getD i "?"} {why}"

end Driver.TraceDisc
