import Mqtt5V.Model.TraceRd
/-! `tracerd <event> …` → `accept` | `reject <index> <event> <why>` -/
open Mqtt5V Mqtt5V.Model.TraceRd
namespace Driver.TraceRd

def evOf (t : String) : Option Ev :=
  match t.splitOn ":" with
  | ["s", "-"] => some (.start none)
  | ["s", l] => l.toNat?.map fun n => .start (some n)
  | ["t", ms] => ms.toNat?.map .adv
  | ["f"] => some .finish | ["a"] => some .abandon | ["e"] => some .eol
  | _ => none

def parse : List String → Except String (List Ev)
  | [] => .ok []
  | t :: ts => match evOf t with
    | none => .error t
    | some e => (parse ts).map (e :: ·)

def step (toks : List String) : String :=
  match parse toks with
  | .error t => s!"bad-op {t}"
  | .ok evs =>
    match firstReject init evs 0 with
    | none => "accept"
    | some i =>
      let s := stateAt init evs i
      let why := match evs.getD i .eol, s.cur with
        | .abandon, some (t0, some lim) => s!"C12 read abandoned after {s.now - t0} ms of silence, before the {lim} ms limit"
        | .abandon, some (_, none) => "C12 a read with no time limit (keep-alive 0) was abandoned by a timer"
        | .abandon, none => "model a read is abandoned although none is in progress"
        | .eol, some (t0, some lim) => s!"C12 read still pending {s.now - t0} ms after it began without a byte arriving (limit {lim} ms)"
        | _, _ => "model ?"
      s!"reject {i} {toks.getD i "?"} {why}"

end Driver.TraceRd
