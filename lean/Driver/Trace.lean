import Mqtt5V.Model.Trace
/-! `trace <event> <event> …` → `accept` | `reject <index> <event>` | `bad-op <token>`: the composed outbound model as an acceptor. -/
open Mqtt5V Mqtt5V.Model.Trace
namespace Driver.Trace

def natList (s : String) : Option (List Nat) :=
  if s = "-" then some [] else (s.splitOn ",").mapM String.toNat?

def kindOf : String → Option Kind
  | "pub1" => some .pub1 | "pub2" => some .pub2 | "sub" => some .sub | "unsub" => some .unsub | "other" => some .other | _ => none

def ackOf : String → Option AckT
  | "puback" => some .puback | "pubrec" => some .pubrec | "pubcomp" => some .pubcomp
  | "suback" => some .suback | "unsuback" => some .unsuback | _ => none

def evOf (tok : String) : Option Ev :=
  match tok.splitOn ":" with
  | ["i", op, k, n] => do pure (.init (← op.toNat?) (← kindOf k) (← n.toNat?))
  | ["U", rm] => if rm = "-" then some (.connUp none) else do pure (.connUp (some (← rm.toNat?)))
  | ["D"] => some .connDown
  | ["W"] => some .wr
  | ["K"] => some .wrOk
  | ["F"] => some .wrFail
  | ["p", "P", op, q, pid, dup, body] => do pure (.pk (.publish (← op.toNat?) (← q.toNat?) (← pid.toNat?) (dup = "1") (← body.toNat?)))
  | ["p", "R", pid] => do pure (.pk (.pubrel (← pid.toNat?)))
  | ["p", "S", op, pid, body] => do pure (.pk (.subscribe (← op.toNat?) (← pid.toNat?) (← body.toNat?)))
  | ["p", "U", op, pid, body] => do pure (.pk (.unsubscribe (← op.toNat?) (← pid.toNat?) (← body.toNat?)))
  | ["p", "o"] => some (.pk .other)
  | ["a", t, pid, rcs, props, wf] => do pure (.rx ⟨← ackOf t, ← pid.toNat?, ← natList rcs, ← props.toNat?, wf = "1"⟩)
  | ["ok", op, rcs, props] => do pure (.doneOk (← op.toNat?) (← natList rcs) (← props.toNat?))
  | ["x", op] => do pure (.doneOther (← op.toNat?))
  | ["Q"] => some .quiescent
  | ["X"] => some .cancelAll
  | ["R"] => some .restart
  | _ => none

def parse : List String → Except String (List Ev)
  | [] => .ok []
  | t :: ts => match evOf t with
    | none => .error t
    | some e => (parse ts).map (e :: ·)

/-- diagnosis of a refused event (not used by any theorem): which guard of the model failed, and the property it stands for -/
def whyRequest (s : S) (op pid : Nat) (k : Kind) (dup : Option Bool) (body : Nat) : String :=
  if pid = 0 then "C08 packet identifier 0" else
  if s.isDone op then "C05 request packet of an operation that has already completed" else
  match s.known op with
  | none => "model request packet of an unknown operation"
  | some (k', _) =>
    if k' ≠ k then "model request packet type does not match the API call" else
    match s.slot pid with
    | none =>
      if s.pidOf op ≠ none then "C08 operation transmitted with a different packet identifier than before"
      else if dup = some true then "C03 first transmission has DUP=1" else "model ?"
    | some sl =>
      if sl.op ≠ op then "C08 packet identifier is in use by another outstanding operation"
      else if s.bodyOf op ≠ some body then "C03 retransmission differs from the first transmission beyond the DUP bit"
      else if sl.okBefore && dup = some false then "C03 retransmission with DUP=0 although an earlier transmission was written successfully"
      else match sl.phase with
        | .relIdle | .relWriting | .relWaiting => "C03 PUBLISH transmitted again after the PUBREC was consumed"
        | .finished _ _ => "C03 request transmitted again after the final acknowledgement was consumed"
        | .writing => "model request twice in one write"
        | _ => "model ?"

def why (s : S) : Ev → String
  | .init _ _ _ => "model operation name used twice"
  | .wr => "model write started while a write is in progress"
  | .wrOk | .wrFail => "model write completion without a write"
  | .pk p =>
    if !s.writing then "model packet outside a write" else
    match p with
    | .publish op q pid dup body =>
      let k := if q = 1 then Kind.pub1 else .pub2
      match request s op pid k dup body with
      | none => whyRequest s op pid k (some dup) body
      | some s1 =>
        if s1.connected && op ≤ s1.lastPub then "C06 PUBLISH written after the PUBLISH of a later-initiated operation on the same connection"
        else if (account s1 op pid).isNone then "C07 QoS>0 PUBLISH written although the send quota of this connection (Receive Maximum) is used up" else "model ?"
    | .subscribe op pid body => whyRequest s op pid .sub none body
    | .unsubscribe op pid body => whyRequest s op pid .unsub none body
    | .pubrel pid =>
      match s.slot pid with
      | none => "C03 PUBREL for an identifier no outstanding QoS 2 publish owns"
      | some _ => "C03 PUBREL although no successful PUBREC was consumed for this identifier"
    | .other => "model ?"
  | .doneOk op _ _ =>
    if s.isDone op then "C05 operation completed twice" else
    if s.cancelled then "C05 operation completed successfully after cancel() / a finished async_disconnect (it must end with operation_aborted)" else
    match s.known op with
    | some (.sub, _) | some (.unsub, _) => "C14 (un)subscribe completed without error although no matching well-formed acknowledgement with these reason codes and properties was consumed after its request was written"
    | _ => "C01 publish completed without error although no matching final acknowledgement with this reason code and these properties was consumed after its PUBLISH was written"
  | .doneOther op => if s.isDone op then "C05 operation completed twice" else "model completion of an unknown operation"
  | .quiescent => "C05 the client was cancelled / disconnected and the execution context ran out of work, but an initiated operation never completed"
  | _ => "model ?"

def stateAt (s : S) : List Ev → Nat → S
  | [], _ => s
  | _, 0 => s
  | e :: es, i + 1 => match Mqtt5V.Model.Trace.step s e with
    | some s' => stateAt s' es i
    | none => s

def step (toks : List String) : String :=
  match parse toks with
  | .error t => s!"bad-op {t}"
  | .ok evs =>
    match firstReject init evs 0 with
    | none => "accept"
    | some i => s!"reject {i} {toks.getD i "?"} {why (stateAt init evs i) (evs.getD i .wr)}"

end Driver.Trace
