import Mqtt5V.Model.Trace
/-! `trace <event> <event> …` → `accept` | `reject <index> <event>` | `bad-op <token>`: the composed outbound model as an acceptor. -/
open Mqtt5V Mqtt5V.Model.Trace
namespace Driver.Trace

def natList (s : String) : Option (List Nat) :=
  if s = "-" then some [] else (s.splitOn ",").mapM String.toNat?

def kindOf : String → Option Kind
  | "pub1" => some .pub1 | "pub2" => some .pub2 | "sub" => some .sub | "unsub" => some .unsub | "other" => some .other | _ => none

def ackOf : String → Option AckT
  | "puback" => some .puback | "pubrec" => some .pubrec | "pubcomp" => some .pubcomp
  | "suback" => some .suback | "unsuback" => some .unsuback | _ => none

def evOf (tok : String) : Option Ev :=
  match tok.splitOn ":" with
  | ["i", op, k, n] => do pure (.init (← op.toNat?) (← kindOf k) (← n.toNat?))
  | ["U", rm] => if rm = "-" then some (.connUp none) else do pure (.connUp (some (← rm.toNat?)))
  | ["D"] => some .connDown
  | ["W"] => some .wr
  | ["K"] => some .wrOk
  | ["F"] => some .wrFail
  | ["p", "P", op, q, pid, dup, body] => do pure (.pk (.publish (← op.toNat?) (← q.toNat?) (← pid.toNat?) (dup = "1") (← body.toNat?)))
  | ["p", "R", pid] => do pure (.pk (.pubrel (← pid.toNat?)))
  | ["p", "S", op, pid, body] => do pure (.pk (.subscribe (← op.toNat?) (← pid.toNat?) (← body.toNat?)))
  | ["p", "U", op, pid, body] => do pure (.pk (.unsubscribe (← op.toNat?) (← pid.toNat?) (← body.toNat?)))
  | ["p", "o"] => some (.pk .other)
  | ["a", t, pid, rcs, props, wf] => do pure (.rx ⟨← ackOf t, ← pid.toNat?, ← natList rcs, ← props.toNat?, wf = "1"⟩)
  | ["ok", op, rcs, props] => do pure (.doneOk (← op.toNat?) (← natList rcs) (← props.toNat?))
  | ["x", op] => do pure (.doneOther (← op.toNat?))
  | _ => none

def parse : List String → Except String (List Ev)
  | [] => .ok []
  | t :: ts => match evOf t with
    | none => .error t
    | some e => (parse ts).map (e :: ·)

def step (toks : List String) : String :=
  match parse toks with
  | .error t => s!"bad-op {t}"
  | .ok evs =>
    match firstReject init evs 0 with
    | none => "accept"
    | some i => s!"reject {i} {toks.getD i "?"}"

end Driver.Trace
