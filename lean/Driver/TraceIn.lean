import Mqtt5V.Model.TraceIn
/-! `tracein <event> …` → `accept` | `reject <index> <event> <why>`: the composed inbound model as an acceptor. -/
open Mqtt5V Mqtt5V.Model.TraceIn
namespace Driver.TraceIn

def evOf (tok : String) : Option Ev :=
  match tok.splitOn ":" with
  | ["U", sp] => some (.connUp (sp = "1"))
  | ["P", q, pid, m] => do pure (.rxPub (← q.toNat?) (← pid.toNat?) (← m.toNat?))
  | ["L", pid, g] => do pure (.rxRel (← pid.toNat?) (g = "1"))
  | ["W"] => some .wr
  | ["K"] => some .wrOk
  | ["F"] => some .wrFail
  | ["p", "A", pid] => do pure (.pk (.puback (← pid.toNat?)))
  | ["p", "R", pid] => do pure (.pk (.pubrec (← pid.toNat?)))
  | ["p", "C", pid] => do pure (.pk (.pubcomp (← pid.toNat?)))
  | ["p", "o"] => some (.pk .other)
  | ["d", q, pid, m] => do pure (.deliver (← q.toNat?) (← pid.toNat?) (← m.toNat?))
  | ["X"] => some .reset
  | ["S"] => some .subOk
  | _ => none

def parse : List String → Except String (List Ev)
  | [] => .ok []
  | t :: ts => match evOf t with
    | none => .error t
    | some e => (parse ts).map (e :: ·)

def stateAt (s : S) : List Ev → Nat → S
  | [], _ => s
  | _, 0 => s
  | e :: es, i + 1 => match Mqtt5V.Model.TraceIn.step s e with
    | some s' => stateAt s' es i
    | none => s

def why (s : S) : Ev → String
  | .wr => "model write started while a write is in progress"
  | .wrOk | .wrFail => "model write completion without a write"
  | .pk p =>
    if !s.writing then "model packet outside a write" else
    match p with
    | .puback _ => "C04 PUBACK written although the QoS 1 PUBLISH next in line for its acknowledgement has another identifier (none received, or acknowledgements leave out of order)"
    | .pubrec _ => "C04 PUBREC written although the QoS 2 PUBLISH next in line for its acknowledgement has another identifier (none received, or acknowledgements leave out of order)"
    | .pubcomp _ => "C04 PUBCOMP written although the exchange next in line for its PUBCOMP has another identifier (no PUBREL taken by a waiting exchange, or acknowledgements leave out of order)"
    | .other => "model ?"
  | .deliver q _ _ =>
    if q = 9 then "C13 session_expired handed to the application although none is due (session resumed, no subscription since the last report, or a second report)" else
    match s.stored with
    | [] => if q = 2 then "C04 QoS 2 message handed to the application although no exchange has completed for it (second delivery, or delivery before PUBREL / PUBCOMP)"
            else "C04 message handed to the application although none is stored (delivered twice, or before its acknowledgement was written)"
    | _ => "C04 messages handed to the application in a different order than their exchanges completed"
  | .rxPub _ _ _ => "model PUBLISH with QoS 3"
  | _ => "model ?"

def step (toks : List String) : String :=
  match parse toks with
  | .error t => s!"bad-op {t}"
  | .ok evs =>
    match firstReject init evs 0 with
    | none => "accept"
    | some i => s!"reject {i} {toks.getD i "?"} {why (stateAt init evs i) (evs.getD i .wr)}"

end Driver.TraceIn
