import Mqtt5V.Basic
import Mqtt5V.Model.ReasonCode
/-! `mdrv`: the model behind a one-line-in / one-line-out protocol (DESIGN.md Appendix B).
Imports Model/Spec/Gen only (no Mathlib, so it links as a native executable). -/
open Mqtt5V

namespace Driver

def words (line : String) : List String :=
  (line.trimAscii.toString.splitOn " ").filter (· ≠ "")

def pureStep (ws : List String) : String :=
  match ws with
  | ["rc", cat, b] =>
    match Category.ofString? cat, b.toNat? with
    | some c, some n => (Model.ReasonCode.toReasonCode c n).render
    | _, _ => "bad-op"
  | ["tables"] =>
    String.intercalate "\n" (Category.all.map fun c =>
      s!"table {(reprStr c).replace "Mqtt5V.Category." ""}" ++
        String.join ((Gen.ReasonCodes.table c).map fun v => s!" {v}"))
  | _ => "bad-op"

partial def loop (h : IO.FS.Stream) (out : IO.FS.Stream) : IO Unit := do
  let line ← h.getLine
  if line.isEmpty then return ()
  out.putStrLn (pureStep (words line))
  loop h out

end Driver

def main (_args : List String) : IO Unit := do
  let stdin ← IO.getStdin
  let stdout ← IO.getStdout
  Driver.loop stdin stdout
