import Mqtt5V.Basic
import Mqtt5V.Model.ReasonCode
import Mqtt5V.Model.PidAlloc
import Mqtt5V.Model.Mutex
import Mqtt5V.Model.SerialOrder
import Mqtt5V.Model.Utf8
import Driver.Codec
import Driver.Dec
import Driver.Connect
import Mqtt5V.Model.Frame
import Mqtt5V.Model.PubSend
import Mqtt5V.Model.Sender
import Mqtt5V.Model.Replies
import Mqtt5V.Model.Verdict
import Mqtt5V.Model.Session
import Driver.Trace
import Driver.TraceIn
import Driver.TraceContent
import Driver.TraceDisc
import Driver.TraceKA
import Driver.TraceRd
import Driver.TraceDiscT
/-! `mdrv`: the model behind a one-line-in / one-line-out protocol (DESIGN.md Appendix B).
Imports Model/Spec/Gen only (no Mathlib, so it links as a native executable). -/
open Mqtt5V

namespace Driver

def words (line : String) : List String :=
  (line.trimAscii.toString.splitOn " ").filter (· ≠ "")

def parseReq (tag : Nat) (tok : String) : Option Model.SerialOrder.Req :=
  match tok.splitOn ":" with
  | [p, s] => do
    let p ← p.toNat?
    let s ← s.toNat?
    pure ⟨tag, p != 0, s⟩
  | _ => none

def parseReqs : Nat → List String → Option (List Model.SerialOrder.Req)
  | _, [] => some []
  | n, t :: ts => do
    let r ← parseReq n t
    let rs ← parseReqs (n + 1) ts
    pure (r :: rs)

def natsOf (s : String) : Option (List Nat) := (ofHexRep s).map fun b => b.map (·.toNat)

def u8Step (ws : List String) : String :=
  open Model.Utf8 in
  match ws with
  | ["char", c] =>
    match c.toInt? with
    | some i => if i < 0 then "2" else toString (Gen.Utf8Rule.charRule i.toNat)
    | none => "bad-op"
  | ["utf8", a] => match natsOf a with | some b => toString (validateUtf8 b) | none => "bad-op"
  | ["name", a] => match natsOf a with | some b => toString (validateTopicName b) | none => "bad-op"
  | ["alias", a] => match natsOf a with | some b => toString (validateTopicAliasName b) | none => "bad-op"
  | ["filter", a] => match natsOf a with | some b => toString (validateTopicFilter b) | none => "bad-op"
  | ["shared", a, w] => match natsOf a with | some b => toString (validateSharedTopicFilter b (w != "0")) | none => "bad-op"
  | ["pair", a, b] =>
    match natsOf a, natsOf b with
    | some x, some y => if isValidStringPair x y then "0" else "2"
    | _, _ => "bad-op"
  | ["pop", a] =>
    match natsOf a with
    | some b =>
      match popFront b with
      | some (c, r) => s!"{c} {b.length - r.length}"
      | none => "-1 0"
    | none => "bad-op"
  | _ => "bad-op"

def pureStep (ws : List String) : String :=
  match ws with
  | "u8" :: rest => u8Step rest
  | "sess" :: toks =>
    let ins := toks.filterMap fun t => match t with
      | "c0" => some (Model.Session.In.connack false) | "c1" => some (.connack true)
      | "u" => some .update | "s" => some .subOk | _ => none
    let r := Model.Session.run {} ins
    String.join (r.2.map fun b => if b then "1" else "0")
  | "verdict" :: cat :: n :: codes =>
    match Category.ofString? cat, n.toNat?, codes.mapM String.toNat? with
    | some c, some n, some cs =>
      match Model.Verdict.verdict c n cs with
      | some v => "ok " ++ String.intercalate "," (v.map toString)
      | none => "malformed"
    | _, _, _ => "bad-op"
  | "trace" :: toks => Driver.Trace.step toks
  | "tracein" :: toks => Driver.TraceIn.step toks
  | "tracecontent" :: toks => Driver.TraceContent.step toks
  | "tracedisc" :: toks => Driver.TraceDisc.step toks
  | "traceka" :: toks => Driver.TraceKA.step toks
  | "tracerd" :: toks => Driver.TraceRd.step toks
  | "tracedisct" :: toks => Driver.TraceDiscT.step toks
  | "enc" :: _ => Driver.Codec.step ws
  | "dupenc" :: _ => Driver.Codec.step ws
  | "varlen" :: _ => Driver.Codec.step ws
  | "val" :: _ => Driver.Codec.step ws
  | "dec" :: rest => Driver.Dec.step rest
  | "rot" :: _ => Driver.Connect.step ws
  | "hs" :: _ => Driver.Connect.step ws
  | "frame" :: _ => Driver.Connect.step ws
  | ["ord", "lt", p1, s1, p2, s2] =>
    match p1.toNat?, s1.toNat?, p2.toNat?, s2.toNat? with
    | some p1, some s1, some p2, some s2 =>
      if Model.SerialOrder.lt ⟨0, p1 != 0, s1⟩ ⟨1, p2 != 0, s2⟩ then "1" else "0"
    | _, _, _, _ => "bad-op"
  | "ord" :: "sort" :: toks =>
    match parseReqs 0 toks with
    | some q =>
      let r := Model.SerialOrder.sortQueue q
      if r.isEmpty then "-" else String.intercalate " " (r.map fun x => toString x.tag)
    | none => "bad-op"
  | ["ord", "next", s] =>
    match s.toNat? with
    | some s => toString (Model.SerialOrder.nextSerial s)
    | none => "bad-op"
  | ["rc", cat, b] =>
    match Category.ofString? cat, b.toNat? with
    | some c, some n => (Model.ReasonCode.toReasonCode c n).render
    | _, _ => "bad-op"
  | ["tables"] =>
    String.intercalate "\n" (Category.all.map fun c =>
      s!"table {(reprStr c).replace "Mqtt5V.Category." ""}" ++
        String.join ((Gen.ReasonCodes.table c).map fun v => s!" {v}"))
  | _ => "bad-op"

/-- state of the stateful engines -/
structure DState where
  pid : Model.PidAlloc.Sys := Model.PidAlloc.Sys.init
  mtx : Model.Mutex.M := {}
  mtxSlots : List Nat := []
  snd : Model.Sender.S := {}
  rep : Model.Replies.R := {}
  frmMax : Nat := 65536
  frmBuf : Option Wire.Bs := some []
  pbs : Option Model.PubSend.S := none

def allocN : Nat → Model.PidAlloc.Sys → Nat → Model.PidAlloc.Sys × Nat
  | 0, s, last => (s, last)
  | n + 1, s, _ =>
    let r := s.step .alloc
    allocN n r.1 (r.2.getD 0)

def pidStep (s : Model.PidAlloc.Sys) (ws : List String) : Model.PidAlloc.Sys × String :=
  let show_ (id : String) (t : Model.PidAlloc.Sys) := s!"{id} | {Model.PidAlloc.render t.st}"
  match ws with
  | ["reset"] => (Model.PidAlloc.Sys.init, show_ "-" Model.PidAlloc.Sys.init)
  | ["a"] => let r := s.step .alloc; (r.1, show_ (toString (r.2.getD 0)) r.1)
  | ["f", n] =>
    match n.toNat? with
    | some k => let r := s.step (.free k); (r.1, show_ "-" r.1)
    | none => (s, "bad-op")
  | ["an", n] =>
    match n.toNat? with
    | some k => let r := allocN k s 0; (r.1, show_ (toString r.2) r.1)
    | none => (s, "bad-op")
  | _ => (s, "bad-op")

def mtxDrain : Nat → Model.Mutex.M → List Model.Mutex.Ev → Model.Mutex.M × List Model.Mutex.Ev
  | 0, m, acc => (m, acc)
  | n + 1, m, acc =>
    if m.posted.isEmpty then (m, acc) else
    let r := m.step .run1
    mtxDrain n r.1 (acc ++ r.2)

def mtxStep (st : DState) (ws : List String) : DState × String :=
  let fin (m : Model.Mutex.M) (evs : List Model.Mutex.Ev) (slots : List Nat) : DState × String :=
    ({ st with mtx := m, mtxSlots := slots }, s!"{Model.Mutex.renderEvs evs} locked={if m.locked then 1 else 0}")
  let m := st.mtx
  match ws with
  | ["new"] => fin {} [] []
  | ["lock", w, slot] =>
    match w.toNat? with
    | some w => let r := m.step (.lock w); fin r.1 r.2 (if slot = "1" then w :: st.mtxSlots else st.mtxSlots)
    | none => (st, "bad-op")
  | ["unlock"] => let r := m.step .unlock; fin r.1 r.2 st.mtxSlots
  | ["cancel", w, ty, inside] =>
    match w.toNat? with
    | some w =>
      if ty = "none" || !(st.mtxSlots.contains w) then
        -- a signal of type none (or a waiter without a slot) does nothing; an `inside` emission still occupies one executor task
        if inside = "1" && st.mtxSlots.contains w then fin { m with posted := m.posted ++ [.emit 0] } [] st.mtxSlots
        else fin m [] st.mtxSlots
      else let r := m.step (.cancelOne w (inside = "1")); fin r.1 r.2 st.mtxSlots
    | none => (st, "bad-op")
  | ["cancelall"] => let r := m.step .cancelAll; fin r.1 r.2 st.mtxSlots
  | ["destroy"] => let r := m.step .cancelAll; fin { r.1 with locked := false } r.2 st.mtxSlots
  | ["run1"] => let r := m.step .run1; fin r.1 r.2 st.mtxSlots
  | ["drain"] => let r := mtxDrain (m.posted.length + 1) m []; fin r.1 r.2 st.mtxSlots
  | _ => (st, "bad-op")

def sndStep (s : Model.Sender.S) (ws : List String) : Model.Sender.S × String :=
  open Model.Sender in
  let go (i : In) := let r := step s i; (r.1, renderEvs r.2)
  match ws with
  | ["new"] => ({}, "-")
  | ["send", id, fl, ser, aw] =>
    match id.toNat?, fl.toNat?, ser.toNat?, aw.toNat? with
    | some id, some fl, some ser, some aw =>
      go (.send ⟨id, fl % 2 == 1, fl / 2 % 2 == 1, fl / 4 % 2 == 1, ser, aw != 0⟩)
    | _, _, _, _ => (s, "bad-op")
  | ["wdone", e] =>
    if s.inflight.isNone then (s, "bad-op") else
    match e with
    | "ok" => go (.wdone .ok) | "try_again" => go (.wdone .tryAgain) | "aborted" => go (.wdone .aborted)
    | "no_recovery" => go (.wdone .noRecovery) | _ => (s, "bad-op")
  | ["ack", id] => match id.toNat? with | some id => go (.ack id) | none => (s, "bad-op")
  | ["rm", v] => if v = "none" then go (.setRm none) else match v.toNat? with | some n => go (.setRm (some n)) | none => (s, "bad-op")
  | ["resend"] => go .resendRead
  | ["cancel"] => go .cancel
  | _ => (s, "bad-op")

def repStep (r : Model.Replies.R) (ws : List String) : Model.Replies.R × String :=
  open Model.Replies in
  let go (i : In) := let x := step r i; (x.1, renderEvs x.2)
  match ws with
  | ["new"] => ({}, "-")
  | ["wait", w, c, p] => match w.toNat?, c.toNat?, p.toNat? with
    | some w, some c, some p => go (.wait w c p) | _, _, _ => (r, "bad-op")
  | ["dispatch", c, p, t] => match c.toNat?, p.toNat?, t.toNat? with
    | some c, some p, some t => go (.dispatch c p t) | _, _, _ => (r, "bad-op")
  | ["resend"] => go .resendUnanswered
  | ["cancel"] => go .cancelUnanswered
  | ["clearfast"] => go .clearFast
  | ["clearpubrels"] => go .clearPubrels
  | _ => (r, "bad-op")

def frmStep (st : DState) (ws : List String) : DState × String :=
  open Model.Frame Model.PropsText in
  let showEv : Ev → String
    | .reply c p b => s!"reply {c} {p} {hexNats b}"
    | .msg cb b => s!"msg {cb} {hexNats b}"
    | .err => "err malformed"
  let fin (mx : Nat) (evs : List String) (buf : Option Wire.Bs) : DState × String :=
    let evs := match buf with | some b => evs ++ [s!"rd {mx - b.length}"] | none => evs
    ({ st with frmMax := mx, frmBuf := buf }, if evs.isEmpty then "-" else String.intercalate " | " evs)
  match ws with
  | ["new", m] =>
    let mx := if m = "-" then some 65536 else m.toNat?
    match mx with
    | some mx => fin mx [] (some [])
    | none => (st, "bad-op")
  | ["rx", hx] =>
    match natsOfHex hx, st.frmBuf with
    | some d, some buf =>
      if d.isEmpty || d.length > st.frmMax - buf.length then (st, "bad-op") else
      let r := feed st.frmMax (some buf) d
      fin st.frmMax (r.1.map showEv) r.2
    | _, _ => (st, "bad-op")
  | ["tryagain"] => if st.frmBuf.isNone then (st, "bad-op") else fin st.frmMax ["refresh", "resend"] (some [])
  | ["err"] => if st.frmBuf.isNone then (st, "bad-op") else fin st.frmMax ["err aborted"] none
  | _ => (st, "bad-op")

def pbsStep (st : DState) (ws : List String) : DState × String :=
  open Model.PubSend in
  let showAct : Act → String
    | .sendPublish d => s!"sendPublish {d}"
    | .sendPubrel t => s!"sendPubrel {t}"
    | .waitAck => "waitAck" | .waitPubcomp => "waitPubcomp" | .disconnectMalformed => "disconnectMalformed" | .freePid => "freePid"
    | .completeOk rc p => s!"completeOk {rc} {p}" | .completeErr => "completeErr"
  let fin (r : S × List Act) : DState × String :=
    ({ st with pbs := some r.1 }, if r.2.isEmpty then "-" else String.intercalate " | " (r.2.map showAct))
  let pendingSend (s : S) : Bool := s.phase == .sendingPublish || s.phase == .sendingPubrel
  let pendingWait (s : S) : Bool := s.phase == .waitingAck || s.phase == .waitingPubcomp
  match ws, st.pbs with
  | ["new", q], _ => if q = "1" then fin (start false) else if q = "2" then fin (start true) else (st, "bad-op")
  | ["sent", e], some s =>
    if !pendingSend s then (st, "bad-op") else
    match e with
    | "ok" => fin (step s (.sent .ok)) | "try_again" => fin (step s (.sent .tryAgain)) | "aborted" => fin (step s (.sent .failed))
    | _ => (st, "bad-op")
  | "reply" :: k, some s =>
    if !pendingWait s then (st, "bad-op") else
    match k with
    | ["tryagain"] => fin (step s (.reply .tryAgain)) | ["failed"] => fin (step s (.reply .failed))
    | ["undecodable"] => fin (step s (.reply .undecodable)) | ["badcode"] => fin (step s (.reply .badCode))
    | ["ack", rc, p] => match rc.toNat?, p.toNat? with
      | some rc, some p => fin (step s (.reply (.ack rc p))) | _, _ => (st, "bad-op")
    | _ => (st, "bad-op")
  | ["cancel"], some s => fin (step s .cancelSignal)
  | _, _ => (st, "bad-op")

def step (st : DState) (ws : List String) : DState × String :=
  match ws with
  | "pbs" :: rest => pbsStep st rest
  | "frm" :: rest => frmStep st rest
  | "rep" :: rest => let r := repStep st.rep rest; ({ st with rep := r.1 }, r.2)
  | "snd" :: rest => let r := sndStep st.snd rest; ({ st with snd := r.1 }, r.2)
  | "mtx" :: rest => mtxStep st rest
  | "pid" :: rest => let r := pidStep st.pid rest; ({ st with pid := r.1 }, r.2)
  | _ => (st, pureStep ws)

partial def loop (h : IO.FS.Stream) (out : IO.FS.Stream) (st : DState) : IO Unit := do
  let line ← h.getLine
  if line.isEmpty then return ()
  let (st', o) := step st (words line)
  out.putStrLn o
  loop h out st'

end Driver

def main (_args : List String) : IO Unit := do
  let stdin ← IO.getStdin
  let stdout ← IO.getStdout
  Driver.loop stdin stdout {}
