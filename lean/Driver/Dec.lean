import Mqtt5V.Model.Dec
/-! line-protocol front end of the decoder model (`dec …`): the body is the whole memory, so any read past it is `oob` -/
open Mqtt5V Mqtt5V.Wire Mqtt5V.Model Mqtt5V.Model.PropsText Mqtt5V.Gen.PropTable Mqtt5V.Model.Dec

namespace Driver.Dec

def ctxOf (body : Bs) : Ctx := ⟨body, body.length⟩

def showRcProps (r : Res (Nat × Props)) : String :=
  match r with
  | .ok (rc, ps) p => s!"ok rc={rc} props={renderPlist ps} used={p}"
  | .fail => "fail"
  | .oob => "oob"

def step (ws : List String) : String :=
  match ws with
  | ["publish", cb, hx] =>
    match cb.toNat?, natsOfHex hx with
    | some cb, some b =>
      match decodePublish (ctxOf b) cb 0 b.length with
      | .ok (t, pid, fl, ps, pl) _ =>
        let pidS := match pid with | some p => toString p | none => "-"
        s!"ok topic={hexNats t} pid={pidS} flags={fl} props={renderPlist ps} payload={hexNats pl}"
      | .fail => "fail" | .oob => "oob"
    | _, _ => "bad-op"
  | [kind, hx] =>
    match natsOfHex hx with
    | none => "bad-op"
    | some b =>
      let c := ctxOf b
      match kind with
      | "puback" => showRcProps (rcProps pubackProps c 0 b.length)
      | "pubrec" => showRcProps (rcProps pubrecProps c 0 b.length)
      | "pubrel" => showRcProps (rcProps pubrelProps c 0 b.length)
      | "pubcomp" => showRcProps (rcProps pubcompProps c 0 b.length)
      | "disconnect" => showRcProps (rcProps disconnectProps c 0 b.length)
      | "auth" => showRcProps (rcProps authProps c 0 b.length)
      | "connack" =>
        match decodeConnack c 0 b.length with
        | .ok (sp, rc, ps) _ => s!"ok sp={sp} rc={rc} props={renderPlist ps}"
        | .fail => "fail" | .oob => "oob"
      | "suback" | "unsuback" =>
        match decodeCodes (if kind = "suback" then subackProps else unsubackProps) c 0 b.length with
        | .ok (ps, rcs) _ => s!"ok props={renderPlist ps} rcs=" ++ String.intercalate "," (rcs.map toString)
        | .fail => "fail" | .oob => "oob"
      | "varint" =>
        match varint c 0 b.length with
        | .ok n p => s!"ok {n} used={p}" | .fail => "fail" | .oob => "oob"
      | "fixed" =>
        match (byte c 0 b.length).bind fun cb p => (varint c p b.length).bind fun rl p' => .ok (cb, rl) p' with
        | .ok (cb, rl) p => s!"ok cb={cb} rl={rl} used={p}" | .fail => "fail" | .oob => "oob"
      | _ => "bad-op"
  | _ => "bad-op"

end Driver.Dec
