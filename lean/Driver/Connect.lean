import Mqtt5V.Model.Connect
import Driver.Dec
/-! line-protocol front end of the connection-establishment model:
* `rot <n> <pos> <exp> <outcome>…`  outcome = `F` (resolve failed) or a string over `0`/`1` (endpoint results, e.g. `001`)
  → the action trace and the final state
* `hs <hex>`  everything the broker sent in reply to CONNECT → verdict; `frame <hex5>` → framing decision -/
open Mqtt5V Mqtt5V.Wire Mqtt5V.Model Mqtt5V.Model.Connect Mqtt5V.Model.PropsText

namespace Driver.Connect

def parseOutcome (s : String) : Option Outcome :=
  if s = "F" then some .resolveFail
  else if s.toList.all (fun c => c = '0' || c = '1') && s ≠ "" then some (.eps (s.toList.map (· = '1')))
  else none

def showAct : Act → String
  | .pause e => s!"pause:{e}"
  | .resolve i => s!"resolve:{i}"
  | .connect i j => s!"connect:{i}.{j}"
  | .established i j => s!"up:{i}.{j}"
  | .noRecovery => "no_recovery"

def step (ws : List String) : String :=
  match ws with
  | "rot" :: n :: pos :: exp :: outs =>
    match n.toNat?, pos.toNat?, exp.toNat?, outs.mapM parseOutcome with
    | some n, some pos, some exp, some os =>
      let (tr, s) := run n ⟨pos, exp⟩ os
      String.intercalate " " (tr.map showAct) ++ s!" ; pos={s.pos} exp={s.exp}"
    | _, _, _, _ => "bad-op"
  | ["hs", hx] =>
    match natsOfHex hx with
    | some b =>
      match handshake b with
      | .established sp ps => s!"established sp={sp} props={renderPlist ps}"
      | .retry => "retry"
      | .malformed => "malformed"
      | .needMore k => s!"need {k}"
    | none => "bad-op"
  | ["frame", hx] =>
    match natsOfHex hx with
    | some b =>
      if b.length ≠ minPacketSz then "bad-op" else
      match frame b with
      | .reject => "reject"
      | .malformed => "malformed"
      | .more code f l r => s!"more code={code} first={f} len={l} remain={r}"
    | none => "bad-op"
  | _ => "bad-op"

end Driver.Connect
