import Mqtt5V.Model.TraceDiscT
/-! `tracedisct <event> …` → `accept` | `reject <index> <event> <why>` -/
open Mqtt5V Mqtt5V.Model.TraceDiscT
namespace Driver.TraceDiscT

def evOf (t : String) : Option Ev :=
  match t.splitOn ":" with
  | ["i"] => some .disc | ["x"] => some .done
  | ["t", ms] => ms.toNat?.map .adv
  | _ => none

def parse : List String → Except String (List Ev)
  | [] => .ok []
  | t :: ts => match evOf t with
    | none => .error t
    | some e => (parse ts).map (e :: ·)

def step (toks : List String) : String :=
  match parse toks with
  | .error t => s!"bad-op {t}"
  | .ok evs =>
    match firstReject init evs 0 with
    | none => "accept"
    | some i =>
      let s := stateAt init evs i
      let why := match evs.getD i .done with
        | .adv _ => s!"C09 async_disconnect initiated at {s.pending.getD 0} ms has not completed at {s.now} ms and time moves on (limit {Gen.Timing.disconnectLimitMs} ms)"
        | .done => "model async_disconnect completes although none is in progress"
        | _ => "model async_disconnect initiated while one is in progress"
      s!"reject {i} {toks.getD i "?"} {why}"

end Driver.TraceDiscT
