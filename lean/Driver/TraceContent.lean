import Mqtt5V.Model.TraceContent
/-! `tracecontent <event> …` → `accept` | `reject <index> <event> <why>` -/
open Mqtt5V Mqtt5V.Model.TraceContent
namespace Driver.TraceContent

def evOf (tok : String) : Option Ev :=
  match tok.splitOn ":" with
  | ["i", op, c] => do pure (.init (← op.toNat?) (← c.toNat?))
  | ["r", op, c] => do pure (.req (← op.toNat?) (← c.toNat?))
  | _ => none

def parse : List String → Except String (List Ev)
  | [] => .ok []
  | t :: ts => match evOf t with
    | none => .error t
    | some e => (parse ts).map (e :: ·)

def step (toks : List String) : String :=
  match parse toks with
  | .error t => s!"bad-op {t}"
  | .ok evs =>
    match firstReject init evs 0 with
    | none => "accept"
    | some i =>
      let why := match evs.getD i (.init 0 0) with
        | .init _ _ => "model operation name used twice"
        | .req _ _ => "C17 request packet on the wire does not say what the API call said (topic / payload / QoS / retain / properties differ, or no such call)"
      s!"reject {i} {toks.getD i "?"} {why}"

end Driver.TraceContent
