import Mqtt5V.Basic
/-! Well-formed UTF-8 exactly as Unicode Table 3-7 / RFC 3629 (the encoding MQTT 5 §1.5.4 requires),
the code points MQTT strings must not contain, and the topic grammars (§4.7) as recognisers
over code points.  Written from the standards, independent of the code's structure. -/
namespace Mqtt5V.Spec.Utf8

def inRange (lo hi b : Nat) : Bool := lo ≤ b && b ≤ hi

/-- decode one well-formed UTF-8 sequence (Table 3-7) from the front: code point and remaining bytes -/
def decodeOne : List Nat → Option (Nat × List Nat)
  | [] => none
  | b0 :: r =>
    if b0 ≤ 0x7F then some (b0, r)
    else if inRange 0xC2 0xDF b0 then
      match r with
      | b1 :: r1 => if inRange 0x80 0xBF b1 then some ((b0 - 0xC0) * 64 + (b1 - 0x80), r1) else none
      | _ => none
    else if inRange 0xE0 0xEF b0 then
      match r with
      | b1 :: b2 :: r2 =>
        let lo := if b0 = 0xE0 then 0xA0 else 0x80
        let hi := if b0 = 0xED then 0x9F else 0xBF
        if inRange lo hi b1 && inRange 0x80 0xBF b2 then
          some ((b0 - 0xE0) * 4096 + (b1 - 0x80) * 64 + (b2 - 0x80), r2)
        else none
      | _ => none
    else if inRange 0xF0 0xF4 b0 then
      match r with
      | b1 :: b2 :: b3 :: r3 =>
        let lo := if b0 = 0xF0 then 0x90 else 0x80
        let hi := if b0 = 0xF4 then 0x8F else 0xBF
        if inRange lo hi b1 && inRange 0x80 0xBF b2 && inRange 0x80 0xBF b3 then
          some ((b0 - 0xF0) * 262144 + (b1 - 0x80) * 4096 + (b2 - 0x80) * 64 + (b3 - 0x80), r3)
        else none
      | _ => none
    else none

set_option maxRecDepth 4000 in
theorem decodeOne_length {bs : List Nat} {c : Nat} {r : List Nat} (h : decodeOne bs = some (c, r)) :
    r.length < bs.length := by
  unfold decodeOne at h
  split at h
  · cases h
  · simp only at h
    repeat' split at h
    all_goals first
      | (cases h; done)
      | (simp only [Option.some.injEq, Prod.mk.injEq] at h; obtain ⟨_, rfl⟩ := h; simp only [List.length_cons]; omega)

/-- the whole string as code points; `none` when it is not well-formed UTF-8 -/
def decode (bs : List Nat) : Option (List Nat) :=
  if bs.isEmpty then some [] else
  match h : decodeOne bs with
  | none => none
  | some (c, r) => (decode r).map (c :: ·)
termination_by bs.length
decreasing_by exact decodeOne_length h

/-- code points an MQTT UTF-8 string may contain (property C16: no U+0000, no control characters, no non-characters) -/
def allowed (c : Nat) : Bool :=
  !(c = 0) && !(inRange 0x01 0x1F c) && !(inRange 0x7F 0x9F c) && !(inRange 0xFDD0 0xFDEF c)
    && !(c % 65536 = 0xFFFE) && !(c % 65536 = 0xFFFF)

def isWildcard (c : Nat) : Bool := c = 35 || c = 43

/-- UTF-8 Encoded String: ≤ 65535 bytes, well-formed, only allowed characters -/
def wellFormedString (bs : List Nat) : Prop :=
  bs.length ≤ 65535 ∧ ∃ cps, decode bs = some cps ∧ ∀ c ∈ cps, allowed c = true

/-- Topic Name: as a string, no wildcard characters, at least one byte unless a Topic Alias is used -/
def wellFormedTopicName (allowEmpty : Bool) (bs : List Nat) : Prop :=
  (allowEmpty = true ∨ bs ≠ []) ∧ bs.length ≤ 65535 ∧
    ∃ cps, decode bs = some cps ∧ ∀ c ∈ cps, allowed c = true ∧ isWildcard c = false

end Mqtt5V.Spec.Utf8
