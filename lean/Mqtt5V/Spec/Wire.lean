import Mqtt5V.Model.Wire
/-! A strict MQTT 5.0 packet decoder written from the OASIS text (§1.5 data representation, §2.1 fixed
header, §2.2.2 properties, §3.x packets), independent of the library's codecs: minimal variable byte
integers, Remaining Length = actual size, only the properties the packet type allows, each at most once
unless the standard lets it repeat, reserved bits zero, no trailing bytes.  It is the "independent
MQTT 5 decoder" of property C17. -/
namespace Mqtt5V.Spec.Wire
open Mqtt5V.Wire Mqtt5V.Gen.PropTable

abbrev P (α : Type) := Bs → Option (α × Bs)

def pU8 : P Nat
  | b :: r => if b < 256 then some (b, r) else none
  | [] => none

def pU16 : P Nat
  | a :: b :: r => if a < 256 ∧ b < 256 then some (a * 256 + b, r) else none
  | _ => none

def pU32 : P Nat
  | a :: b :: c :: d :: r =>
    if a < 256 ∧ b < 256 ∧ c < 256 ∧ d < 256 then some (((a * 256 + b) * 256 + c) * 256 + d, r) else none
  | _ => none

/-- Variable Byte Integer (§1.5.5): 1–4 bytes, least significant group first, minimal length -/
def pVarint : P Nat
  | a :: r =>
    if a < 128 then some (a, r) else if a ≥ 256 then none else
    match r with
    | b :: r =>
      if b < 128 then (if b = 0 then none else some (a - 128 + b * 128, r)) else if b ≥ 256 then none else
      match r with
      | c :: r =>
        if c < 128 then (if c = 0 then none else some (a - 128 + (b - 128) * 128 + c * 16384, r)) else if c ≥ 256 then none else
        match r with
        | d :: r => if d < 128 ∧ d ≠ 0 then some (a - 128 + (b - 128) * 128 + (c - 128) * 16384 + d * 2097152, r) else none
        | [] => none
      | [] => none
    | [] => none
  | [] => none

/-- two-byte length followed by that many bytes (UTF-8 string / binary data, §1.5.4, §1.5.6) -/
def pBin : P Bs := fun bs =>
  match pU16 bs with
  | some (n, r) => if n ≤ r.length then some (r.take n, r.drop n) else none
  | none => none

def pVal : Kind → P PVal
  | .u8 => fun bs => (pU8 bs).map fun (n, r) => (.u8 n, r)
  | .u16 => fun bs => (pU16 bs).map fun (n, r) => (.u16 n, r)
  | .u32 => fun bs => (pU32 bs).map fun (n, r) => (.u32 n, r)
  | .vint => fun bs => (pVarint bs).map fun (n, r) => (.vint n, r)
  | .str => fun bs => (pBin bs).map fun (b, r) => (.str b, r)
  | .pair => fun bs =>
    match pBin bs with
    | some (k, r) => (pBin r).map fun (v, r') => (.pair k v, r')
    | none => none

/-- MQTT 5.0 Table 2-4: wire type of every property identifier (the standard's table, not the library's) -/
def kindOf : Nat → Option Kind
  | 0x01 => some .u8 | 0x02 => some .u32 | 0x03 => some .str | 0x08 => some .str | 0x09 => some .str | 0x0B => some .vint
  | 0x11 => some .u32 | 0x12 => some .str | 0x13 => some .u16 | 0x15 => some .str | 0x16 => some .str | 0x17 => some .u8
  | 0x18 => some .u32 | 0x19 => some .u8 | 0x1A => some .str | 0x1C => some .str | 0x1F => some .str | 0x21 => some .u16
  | 0x22 => some .u16 | 0x23 => some .u16 | 0x24 => some .u8 | 0x25 => some .u8 | 0x26 => some .pair | 0x27 => some .u32
  | 0x28 => some .u8 | 0x29 => some .u8 | 0x2A => some .u8
  | _ => none

/-- one property: identifier then value -/
def pProperty (allowed : List Nat) : P Property := fun bs =>
  match bs with
  | id :: r =>
    if allowed.contains id then
      match kindOf id with
      | some k => (pVal k r).map fun (v, r') => (⟨id, v⟩, r')
      | none => none
    else none
  | [] => none

/-- properties until the (already delimited) block is exhausted; `fuel` bounds the number of items -/
def pItems (allowed : List Nat) : Nat → Bs → Option Props
  | _, [] => some []
  | 0, _ :: _ => none
  | fuel + 1, bs =>
    match pProperty allowed bs with
    | some (p, r) => (pItems allowed fuel r).map (p :: ·)
    | none => none

/-- identifiers that may appear more than once (User Property; Subscription Identifier in PUBLISH) -/
def noRepeatViolation (repeatable : List Nat) (ps : Props) : Bool :=
  (ps.map (·.id)).filter (fun i => !repeatable.contains i) |>.Nodup

/-- Property Length + properties (§2.2.2) -/
def pProps (allowed repeatable : List Nat) : P Props := fun bs =>
  match pVarint bs with
  | some (n, r) =>
    if n ≤ r.length then
      match pItems allowed n (r.take n) with
      | some ps => if noRepeatViolation repeatable ps then some (ps, r.drop n) else none
      | none => none
    else none
  | none => none

def userProp : Nat := 0x26
def subId : Nat := 0x0B

def allowedPublish : List Nat := [0x01, 0x02, 0x03, 0x08, 0x09, 0x0B, 0x23, 0x26]
def allowedAck : List Nat := [0x1F, 0x26]
def allowedSubscribe : List Nat := [0x0B, 0x26]
def allowedUnsubscribe : List Nat := [0x26]
def allowedDisconnect : List Nat := [0x11, 0x1F, 0x26, 0x1C]
def allowedAuth : List Nat := [0x15, 0x16, 0x1F, 0x26]
def allowedConnect : List Nat := [0x11, 0x21, 0x27, 0x22, 0x19, 0x17, 0x26, 0x15, 0x16]
def allowedWill : List Nat := [0x18, 0x01, 0x02, 0x03, 0x08, 0x09, 0x26]
def allowedConnack : List Nat := [0x11, 0x21, 0x24, 0x25, 0x27, 0x12, 0x22, 0x1F, 0x26, 0x28, 0x29, 0x2A, 0x13, 0x1A, 0x1C, 0x15, 0x16]

/-- PUBACK / PUBREC / PUBREL / PUBCOMP body (§3.4.2): id, then optionally reason code, then optionally properties -/
def pAckBody (body : Bs) : Option (Nat × Nat × Props) :=
  match pU16 body with
  | some (pid, r) =>
    if pid = 0 then none else
    match r with
    | [] => some (pid, 0, [])
    | _ =>
      match pU8 r with
      | some (rc, r') =>
        match r' with
        | [] => some (pid, rc, [])
        | _ =>
          match pProps allowedAck [userProp] r' with
          | some (ps, []) => some (pid, rc, ps)
          | _ => none
      | none => none
  | none => none

def pSubTopics : Nat → Bs → Option (List (Bs × SubOpts))
  | _, [] => some []
  | 0, _ :: _ => none
  | fuel + 1, bs =>
    match pBin bs with
    | some (f, o :: r) =>
      if o < 64 ∧ o % 4 ≠ 3 ∧ o / 16 % 4 ≠ 3 then
        (pSubTopics fuel r).map ((f, (⟨o % 4, o / 4 % 2, o / 8 % 2, o / 16 % 4⟩ : SubOpts)) :: ·)
      else none
    | _ => none

def pTopics : Nat → Bs → Option (List Bs)
  | _, [] => some []
  | 0, _ :: _ => none
  | fuel + 1, bs =>
    match pBin bs with
    | some (f, r) => (pTopics fuel r).map (f :: ·)
    | none => none

/-- reason code + properties, both omissible (DISCONNECT §3.14.2, AUTH §3.15.2) -/
def pRcProps (allowed : List Nat) (body : Bs) : Option (Nat × Props) :=
  match body with
  | [] => some (0, [])
  | _ =>
    match pU8 body with
    | some (rc, []) => some (rc, [])
    | some (rc, r) =>
      match pProps allowed [userProp] r with
      | some (ps, []) => some (rc, ps)
      | _ => none
    | none => none

def pConnectBody (body : Bs) : Option Packet :=
  match pBin body with
  | some ([77, 81, 84, 84], 5 :: fl :: r) =>
    if fl ≥ 256 ∨ fl % 2 ≠ 0 then none else
    let cleanStart := fl / 2 % 2
    let willFlag := fl / 4 % 2
    let willQos := fl / 8 % 4
    let willRetain := fl / 32 % 2
    let passFlag := fl / 64 % 2
    let userFlag := fl / 128 % 2
    if willQos = 3 ∨ (willFlag = 0 ∧ (willQos ≠ 0 ∨ willRetain ≠ 0)) then none else
    match pU16 r with
    | some (ka, r) =>
      match pProps allowedConnect [userProp] r with
      | some (ps, r) =>
        match pBin r with
        | some (cid, r) =>
          let willR : Option (Option Will × Bs) :=
            if willFlag = 1 then
              match pProps allowedWill [userProp] r with
              | some (wp, r) =>
                match pBin r with
                | some (wt, r) =>
                  match pBin r with
                  | some (wm, r) => some (some ⟨wt, wm, willQos, willRetain, wp⟩, r)
                  | none => none
                | none => none
              | none => none
            else some (none, r)
          match willR with
          | some (w, r) =>
            let userR : Option (Option Bs × Bs) := if userFlag = 1 then (pBin r).map (fun (u, r) => (some u, r)) else some (none, r)
            match userR with
            | some (u, r) =>
              let passR : Option (Option Bs × Bs) := if passFlag = 1 then (pBin r).map (fun (p, r) => (some p, r)) else some (none, r)
              match passR with
              | some (p, []) => some (.connect cid u p ka cleanStart ps w)
              | _ => none
            | none => none
          | none => none
        | none => none
      | none => none
    | none => none
  | _ => none

/-- decode the body of a packet whose first byte is `b0` -/
def decodeBody (b0 : Nat) (body : Bs) : Option Packet :=
  let t := b0 / 16
  let fl := b0 % 16
  if t = 3 then
    let dup := fl / 8
    let qos := fl / 2 % 4
    let retain := fl % 2
    if qos = 3 ∨ (qos = 0 ∧ dup = 1) then none else
    match pBin body with
    | some (topic, r) =>
      let pidR : Option (Option Nat × Bs) := if qos = 0 then some (none, r) else
        match pU16 r with
        | some (pid, r') => if pid = 0 then none else some (some pid, r')
        | none => none
      match pidR with
      | some (pid, r) =>
        match pProps allowedPublish [userProp, subId] r with
        | some (ps, payload) => some (.publish pid topic payload qos retain dup ps)
        | none => none
      | none => none
    | none => none
  else if t = 4 ∧ fl = 0 then (pAckBody body).map fun (pid, rc, ps) => .puback pid rc ps
  else if t = 5 ∧ fl = 0 then (pAckBody body).map fun (pid, rc, ps) => .pubrec pid rc ps
  else if t = 6 ∧ fl = 2 then (pAckBody body).map fun (pid, rc, ps) => .pubrel pid rc ps
  else if t = 7 ∧ fl = 0 then (pAckBody body).map fun (pid, rc, ps) => .pubcomp pid rc ps
  else if t = 8 ∧ fl = 2 then
    match pU16 body with
    | some (pid, r) =>
      if pid = 0 then none else
      match pProps allowedSubscribe [userProp] r with
      | some (ps, r) =>
        match pSubTopics r.length r with
        | some (t :: ts) => some (.subscribe pid (t :: ts) ps)
        | _ => none
      | none => none
    | none => none
  else if t = 10 ∧ fl = 2 then
    match pU16 body with
    | some (pid, r) =>
      if pid = 0 then none else
      match pProps allowedUnsubscribe [userProp] r with
      | some (ps, r) =>
        match pTopics r.length r with
        | some (t :: ts) => some (.unsubscribe pid (t :: ts) ps)
        | _ => none
      | none => none
    | none => none
  else if t = 12 ∧ fl = 0 then (if body = [] then some .pingreq else none)
  else if t = 14 ∧ fl = 0 then (pRcProps allowedDisconnect body).map fun (rc, ps) => .disconnect rc ps
  else if t = 15 ∧ fl = 0 then (pRcProps allowedAuth body).map fun (rc, ps) => .auth rc ps
  else if t = 1 ∧ fl = 0 then pConnectBody body
  else none

/-- **the strict decoder**: fixed header, Remaining Length equal to the actual size, body, nothing left over -/
def decode (bs : Bs) : Option Packet :=
  match bs with
  | b0 :: r =>
    if b0 ≥ 256 then none else
    match pVarint r with
    | some (rl, body) => if rl = body.length then decodeBody b0 body else none
    | none => none
  | [] => none

end Mqtt5V.Spec.Wire
