import Mqtt5V.Proofs.TraceQuota
import Mqtt5V.Proofs.PubSend
import Mqtt5V.Proofs.Sender
import Mqtt5V.Proofs.Replies
import Mqtt5V.Props.C11
/-! # C05 — exactly-once, non-reentrant completion; cancel() drains (component core)

`cancel()` = ping/sentry timers, channel, `replies.cancel_unanswered()`, `async_sender.cancel()`, connection lock,
stream.  In the component models:
* `replies.cancel_unanswered()` aborts every waiter exactly once and keeps none;
* `async_sender.cancel()` aborts every queued request exactly once and keeps none;
* `async_mutex.cancel()` aborts every live waiter (C11), none is granted afterwards;
* the initiating calls never run a completion inline: `async_send` produces no completion at all in its own call,
  `lock()` / `unlock()` / `cancel()` of the connection lock never run a handler inline (C11). -/
namespace Mqtt5V.Props.C05
open Mqtt5V.Model.Sender

/-- `replies.cancel_unanswered()`: one `operation_aborted` per waiter, nothing left behind -/
theorem replies_cancel_aborts_each_waiter_once (r : Model.Replies.R) :
    (Model.Replies.step r .cancelUnanswered).2 = r.handlers.map (fun h => ⟨h.w, .aborted, 0⟩) ∧
    (Model.Replies.step r .cancelUnanswered).1.handlers = [] := ⟨rfl, rfl⟩

/-- `async_sender.cancel()`: one `operation_aborted` per queued request, queue emptied -/
theorem sender_cancel_aborts_each_queued_once (s : S) :
    (step s .cancel).2 = s.queue.map (fun r => .done r.id .aborted) ∧ (step s .cancel).1.queue = [] := ⟨rfl, rfl⟩

/-- **never from inside the initiating call**: `async_send` itself completes nothing — its own call only ever hands a
batch to the stream -/
theorem send_completes_nothing_inline (s : S) (r : SReq) : ∀ e ∈ (step s (.send r)).2, ∃ ids, e = .wr ids := by
  intro e he
  simp only [step] at he
  revert he
  generalize ({ s with queue := s.queue ++ [{ r with awaits := r.awaits || r.throttled }] } : S) = t
  unfold doWrite
  split
  · intro he; cases he
  · split
    · intro he; simp at he; exact ⟨_, he⟩
    · split
      · intro he; simp at he; exact ⟨_, he⟩
      · simp only []
        split
        · intro he; cases he
        · intro he; simp at he; exact ⟨_, he⟩

/-- the connection lock never runs a completion inside `lock()`, `unlock()` or `cancel()` (from C11) -/
theorem lock_calls_never_complete_inline (m : Model.Mutex.M) (w : Nat) :
    (m.step (.lock w)).2 = [] ∧ (m.step .unlock).2 = [] ∧ (m.step .cancelAll).2 = [] :=
  ⟨C11.lock_never_inline m w, (C11.unlock_cancel_never_inline m).1, (C11.unlock_cancel_never_inline m).2⟩

/-- a request written successfully that awaits no reply is finished exactly once by that write completion, one that
awaits a reply is not finished by it -/
theorem write_completion_finishes_each_once (s : S) (b : List SReq) (h : s.inflight = some b) :
    ∃ rest, (step s (.wdone .ok)).2 = (b.filter (fun r => !r.awaits)).map (fun r => Ev.done r.id .ok) ++ rest ∧
      ∀ e ∈ rest, ∃ ids, e = .wr ids := by
  simp only [step, h]
  refine ⟨_, rfl, ?_⟩
  intro e he
  revert he
  generalize ({ s with inflight := none, unanswered := s.unanswered ++ b.filter (·.awaits) } : S) = t
  unfold doWrite
  split
  · intro he; cases he
  · split
    · intro he; simp at he; exact ⟨_, he⟩
    · split
      · intro he; simp at he; exact ⟨_, he⟩
      · simp only []
        split
        · intro he; cases he
        · intro he; simp at he; exact ⟨_, he⟩


/-! ## the publish operation (`publish_send_op`, Model/PubSend.lean, tied by the H-pubsend lock-step) -/
section PubSendOp
open Mqtt5V.Proofs.PubSend

/-- **exactly-once completion, identifier released exactly once, nothing afterwards**: after the handler ran no further action
of the operation exists -/
theorem nothing_after_completion (qos2 : Bool) (is : List Model.PubSend.In) (l1 l2 : List Model.PubSend.Act) (c : Model.PubSend.Act) (hc : isCompletion c = true)
    (h : trace qos2 is = l1 ++ c :: l2) : l2 = [] := by
  have hr := rules_hold qos2 is
  rw [h, feedAll_append] at hr
  simp only [Mon.feedAll] at hr
  cases l2 with
  | nil => rfl
  | cons a r =>
    exfalso
    simp only [Mon.feedAll] at hr
    have hco := feed_completion_completed qos2 (({} : Mon).feedAll qos2 l1) c hc
    have hb := feed_after_completed_bad qos2 _ hco a
    rw [bad_sticky qos2 r _ hb] at hr
    cases hr


end PubSendOp

/-! ## the composed client model (`Model/Trace.lean`)
One labelled transition system for the whole outbound path of the client above the stream (API call → sender → reply map → completion),
over the events an observer of the real client sees.  The tie: `lib/trace_check.py` replays every H-client transcript of the real
`mqtt_client` through the compiled model (`mdrv trace`); a transcript the model refuses is a broken correspondence.  The theorems below
hold for EVERY event list the model accepts, of any length. -/
section ComposedModel
open Mqtt5V.Model

/-- **C05 (exactly once) end to end, every accepted history**: no operation has two completions, whatever happened in between
(reconnects, resends, cancellations, acknowledgements arriving twice) -/
theorem composed_complete_at_most_once (tr a b c : List Trace.Ev) (d1 d2 : Trace.Ev) (op : Nat)
    (hacc : Trace.accepts tr = true) (hsplit : tr = a ++ d1 :: b ++ d2 :: c)
    (h1 : Trace.isDoneEv op d1) (h2 : Trace.isDoneEv op d2) : False :=
  Mqtt5V.Proofs.Trace.complete_once hacc hsplit h1 h2

example : Trace.accepts [.init 1 .pub1 1, .connUp none, .wr, .pk (.publish 1 1 7 false 3), .wrOk, .rx ⟨.puback, 7, [0], 0, true⟩,
    .rx ⟨.puback, 7, [0], 0, true⟩, .doneOk 1 [0] 0, .doneOk 1 [0] 0] = false := by decide

/-- **C05 (drain) end to end**: `quiescent` stands for "cancel() was called or async_disconnect finished, and the execution context has run
out of work" (the harness reports `ioc.stopped()` after a full drain). In every accepted history every operation initiated before that
point — publish, subscribe, unsubscribe, async_run, async_receive, async_disconnect — has completed; with the theorem above: exactly once -/
theorem composed_all_completed_at_quiescence (pre post : List Trace.Ev) (op : Nat) (k : Trace.Kind) (n : Nat)
    (hacc : Trace.accepts (pre ++ Trace.Ev.quiescent :: post) = true) (hi : Trace.Ev.init op k n ∈ pre) : Trace.doneIn pre op :=
  Mqtt5V.Proofs.Trace.all_completed_at_quiescence hacc hi

example : Trace.accepts [.init 1 .pub1 1, .init 2 .other 1, .connUp none, .wr, .pk (.publish 1 1 7 false 3), .wrFail, .doneOther 1, .doneOther 2, .quiescent] = true := by decide
example : Trace.accepts [.init 1 .pub1 1, .init 2 .other 1, .connUp none, .wr, .pk (.publish 1 1 7 false 3), .wrFail, .doneOther 1, .quiescent] = false := by decide

/-- **C05 / C09 end to end**: `cancelAll` stands for cancel(), a terminal cancellation signal of a publish / subscribe / unsubscribe, or a
finished async_disconnect; `restart` for a later async_run(). In every accepted history no publish, subscribe or unsubscribe completes
successfully between a `cancelAll` and the next `restart` (`Trace.cancelledOf` is computed from the events alone): whatever was outstanding
can only end with an error -/
theorem composed_no_success_after_cancel (pre post : List Trace.Ev) (op : Nat) (rcs : List Nat) (props : Nat)
    (hacc : Trace.accepts (pre ++ Trace.Ev.doneOk op rcs props :: post) = true) : Trace.cancelledOf pre = false :=
  Mqtt5V.Proofs.Trace.no_success_after_cancel hacc

example : Trace.accepts [.init 1 .pub1 1, .connUp none, .wr, .pk (.publish 1 1 7 false 3), .wrOk, .rx ⟨.puback, 7, [0], 0, true⟩, .cancelAll,
    .doneOk 1 [0] 0] = false := by decide
example : Trace.accepts [.init 1 .pub1 1, .connUp none, .wr, .pk (.publish 1 1 7 false 3), .wrOk, .cancelAll, .doneOther 1, .quiescent, .restart] = true := by decide

end ComposedModel

end Mqtt5V.Props.C05
