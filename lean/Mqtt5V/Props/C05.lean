import Mqtt5V.Basic
namespace Mqtt5V.Props.C05
end Mqtt5V.Props.C05
