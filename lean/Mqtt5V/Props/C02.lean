import Mqtt5V.Basic
namespace Mqtt5V.Props.C02
end Mqtt5V.Props.C02
