import Mqtt5V.Proofs.TraceDup
import Mqtt5V.Proofs.Sender
import Mqtt5V.Proofs.Replies
/-! # C02 — no silent loss (conservation core)

* sender: a write batch and what stays queued are together a permutation of the queue (nothing dropped, nothing
  duplicated); when a write fails with `try_again` every unanswered request, the failed batch and the whole queue
  are re-queued for the new connection; no request is ever finished with `try_again`;
* replies: `resend_unanswered` hands `try_again` to every waiter exactly once, so each operation re-sends. -/
namespace Mqtt5V.Props.C02
open Mqtt5V.Model.Sender Mqtt5V.Proofs.Sender

/-- `do_write` neither drops nor duplicates: (new in-flight batch ++ new queue) is a permutation of (old in-flight ++ old queue) -/
theorem doWrite_conserves (s : S) :
    (((doWrite s).1.inflight.getD []) ++ (doWrite s).1.queue).Perm ((s.inflight.getD []) ++ s.queue) := by
  by_cases hc : (s.inflight.isSome || s.queue.isEmpty) = true
  · have hd : doWrite s = (s, []) := by unfold doWrite; simp [hc]
    rw [hd]
  · have hnone : s.inflight = none := by
      cases hi : s.inflight with
      | none => rfl
      | some _ => simp [hi] at hc
    cases hf : s.queue.find? (·.terminal) with
    | some t =>
      have hd : (doWrite s).1.inflight = some [t] ∧ (doWrite s).1.queue = s.queue.erase t := by
        unfold doWrite; simp [hc, hf]
      rw [hd.1, hd.2, hnone]
      simp only [Option.getD_some, Option.getD_none, List.nil_append, List.singleton_append]
      exact (List.perm_cons_erase (List.mem_of_find?_eq_some hf)).symm
    | none =>
      by_cases hlim : s.limit = MAX_LIMIT
      · have hd : (doWrite s).1.inflight = some s.queue ∧ (doWrite s).1.queue = [] := by
          unfold doWrite; simp [hc, hf, hlim]
        rw [hd.1, hd.2, hnone]; simp
      · by_cases hbe : (split s.queue s.quota).1.isEmpty = true
        · have hd : doWrite s = (s, []) := by unfold doWrite; simp only [hc, hf, hlim, hbe]; rfl
          rw [hd]
        · have hd : (doWrite s).1.inflight = some (split s.queue s.quota).1 ∧ (doWrite s).1.queue = (split s.queue s.quota).2.1 := by
            unfold doWrite; simp only [hc, hf, hlim, hbe]; exact ⟨rfl, rfl⟩
          rw [hd.1, hd.2, hnone]
          simpa using split_perm s.queue s.quota

/-- **after a failed write everything is re-queued**: unanswered requests, the failed batch and the queue all re-enter
(sorted) for the new connection; nothing is forgotten and nothing is awaited on the dead connection any more -/
theorem failed_write_requeues_everything (s : S) (b : List SReq) (h : s.inflight = some b) :
    let s' := (step s (.wdone .tryAgain)).1
    ((s'.inflight.getD []) ++ s'.queue).Perm (s.unanswered ++ (b ++ s.queue)) ∧ s'.unanswered = [] := by
  simp only [step, h, resend]
  simp only [Option.isSome_none, Bool.false_eq_true, if_false]
  constructor
  · refine (doWrite_conserves _).trans ?_
    simp only [Option.getD_none, List.nil_append]
    exact List.mergeSort_perm _ _
  · exact (doWrite_other _).1

/-- **no request is finished with a transport "try again"**: such a result only ever leads to a re-send -/
theorem try_again_never_surfaces (s : S) (i : In) : ∀ id, Ev.done id .tryAgain ∉ (step s i).2 := by
  intro id
  have hdw : ∀ t : S, Ev.done id .tryAgain ∉ (doWrite t).2 := by
    intro t; unfold doWrite
    split
    · simp
    · split
      · simp
      · split
        · simp
        · simp only []
          split <;> simp
  have hrs : ∀ t : S, Ev.done id .tryAgain ∉ (resend t).2 := by
    intro t; unfold resend; split
    · simp
    · exact hdw _
  cases i with
  | send r => exact hdw _
  | wdone ec =>
    simp only [step]
    split
    · simp
    · cases ec with
      | ok =>
        simp only []
        intro hm
        rcases List.mem_append.mp hm with h | h
        · simp at h
        · exact hdw _ h
      | tryAgain => exact hrs _
      | aborted => simp
      | noRecovery => simp
  | ack id' =>
    simp only [step]
    cases hf : s.unanswered.find? (·.id == id') with
    | none => simp
    | some r =>
      simp only []
      split
      · intro hm
        rcases List.mem_append.mp hm with h | h
        · exact hdw _ h
        · simp at h
      · simp
  | setRm rm => simp [step]
  | resendRead => exact hrs _
  | cancel => simp [step]

/-- `resend_unanswered()`: every waiter receives `try_again` exactly once (in registration order) and none is kept -/
theorem replies_resend_reaches_every_waiter (r : Model.Replies.R) :
    (Model.Replies.step r .resendUnanswered).2 = r.handlers.map (fun h => ⟨h.w, .tryAgain, 0⟩) ∧
    (Model.Replies.step r .resendUnanswered).1.handlers = [] := ⟨rfl, rfl⟩

/-! ## the composed client model (`Model/Trace.lean`; tie: every H-client transcript of the real client must be accepted) -/
section ComposedModel
open Mqtt5V.Model

/-- **C02 (retransmission half) end to end, every accepted history**: every transmission of an operation's request — on whatever connection,
after whatever losses — carries the same packet identifier and the same bytes (DUP masked). (That an accepted request is eventually
retransmitted and completed is liveness: the healing-suffix monitor.) -/
theorem composed_retransmission_same_identifier_and_bytes (tr : List Trace.Ev) (hacc : Trace.accepts tr = true) (op p1 p2 b1 b2 : Nat)
    (u1 : Trace.usesPid tr op p1) (u2 : Trace.usesPid tr op p2) (v1 : Trace.usesBody tr op b1) (v2 : Trace.usesBody tr op b2) : p1 = p2 ∧ b1 = b2 := by
  obtain ⟨s, hr⟩ := (Mqtt5V.Proofs.Trace.accepts_iff _).1 hacc
  exact ⟨Mqtt5V.Proofs.Trace.pid_stable hr u1 u2, Mqtt5V.Proofs.Trace.retransmission_identical hacc v1 v2⟩

/-- a success is never reported for a request that was not (re)transmitted and acknowledged: see `Props/C01`, `Props/C14` -/
example : Trace.accepts [.init 1 .sub 1, .connUp none, .wr, .pk (.subscribe 1 9 4), .wrFail, .connUp none, .wr, .pk (.subscribe 1 9 4), .wrOk,
    .rx ⟨.suback, 9, [0], 0, true⟩, .doneOk 1 [0] 0] = true := by decide
example : Trace.accepts [.init 1 .sub 1, .connUp none, .wr, .pk (.subscribe 1 9 4), .wrFail, .connUp none, .wr, .pk (.subscribe 1 10 4)] = false := by decide

end ComposedModel

end Mqtt5V.Props.C02
