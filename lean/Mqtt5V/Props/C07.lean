import Mqtt5V.Proofs.TraceQuota
import Mqtt5V.Proofs.Sender
/-! # C07 — Receive Maximum is never exceeded (sender core)

Model of `async_sender` (queue, in-flight batch, limit/quota, resend, throttled_op_done).  For every
history of sends (requests as the client builds them), write completions with any result, replies,
reconnects that store any Receive Maximum, read-path resends and `cancel()` — of any length:
on a throttling connection `quota + (throttled requests handed to the stream since the last resend whose
reply is outstanding) ≤ limit`, the uint16 quota never wraps, and after every step that can start a write no
sendable request is left waiting while the stream is free. -/
namespace Mqtt5V.Props.C07
open Mqtt5V.Model.Sender Mqtt5V.Proofs.Sender

/-- inputs as the client produces them -/
def InOK : In → Prop
  | .send r => ReqWF r
  | .setRm (some n) => n ≤ 65535
  | _ => True

def runS (s : S) : List In → S
  | [] => s
  | i :: is => runS (step s i).1 is

/-- the accounting invariant holds in every reachable state -/
theorem quota_accounting_invariant (is : List In) (hok : ∀ i ∈ is, InOK i) : Proofs.Sender.Inv (runS {} is) := by
  suffices h : ∀ s, Proofs.Sender.Inv s → Proofs.Sender.Inv (runS s is) from h _ inv_init
  induction is with
  | nil => intro s h; exact h
  | cons i is ih =>
    intro s h
    simp only [runS]
    apply ih (fun j hj => hok j (by simp [hj]))
    apply step_inv s i h
    have := hok i (by simp)
    cases i with
    | send r => exact this
    | setRm rm => cases rm <;> simpa [InOK] using this
    | _ => trivial

/-- **Receive Maximum respected**: on a connection whose CONNACK announced a Receive Maximum (limit ≠ 65535), the
throttled requests (QoS>0 PUBLISH, re-sent PUBREL) that are being written or were written on this connection and
are not yet answered never outnumber it. -/
theorem receive_maximum_respected (is : List In) (hok : ∀ i ∈ is, InOK i) :
    (runS {} is).limit ≠ MAX_LIMIT →
      nThr ((runS {} is).inflight.getD []) + nThr (runS {} is).unanswered ≤ (runS {} is).limit := by
  intro hl
  have := (quota_accounting_invariant is hok).1 hl
  omega

/-- the limit in force is the Receive Maximum stored at the last resend (absent ⇒ 65535 = no throttling): see `resend` -/
theorem limit_is_receive_maximum_at_resend (s : S) (h : s.inflight = none) :
    (resend s).1.limit = s.rm.getD MAX_LIMIT := by
  unfold resend
  simp only [h, Option.isSome_none, Bool.false_eq_true, if_false]
  exact (doWrite_other _).2.1

/-- **Throttled messages are sent as soon as quota is available**: whenever `do_write` returns with the stream free,
nothing sendable is left in the queue — what remains is throttled, non-terminal, and the quota is exhausted. -/
theorem throttled_sent_when_quota (s : S) (h : (doWrite s).1.inflight = none) :
    (doWrite s).1.queue = [] ∨
    ((doWrite s).1.limit ≠ MAX_LIMIT ∧ (doWrite s).1.quota = 0 ∧ ∀ r ∈ (doWrite s).1.queue, r.throttled = true ∧ r.terminal = false) := by
  by_cases hc : (s.inflight.isSome || s.queue.isEmpty) = true
  · have hd : doWrite s = (s, []) := by unfold doWrite; simp [hc]
    rw [hd] at h ⊢
    simp only [Bool.or_eq_true] at hc
    rcases hc with h1 | h1
    · simp only at h; rw [h] at h1; simp at h1
    · left; simpa using h1
  · cases hf : s.queue.find? (·.terminal) with
    | some t =>
      have hd : doWrite s = ({ s with queue := s.queue.erase t, inflight := some [t] }, [.wr [t.id]]) := by
        unfold doWrite; simp only [hc, hf]; rfl
      rw [hd] at h; simp at h
    | none =>
      by_cases hlim : s.limit = MAX_LIMIT
      · have hd : doWrite s = ({ s with queue := [], inflight := some s.queue }, [.wr (s.queue.map (·.id))]) := by
          unfold doWrite; simp only [hc, hf, hlim]; rfl
        rw [hd] at h; simp at h
      · by_cases hbe : (split s.queue s.quota).1.isEmpty = true
        · have hd : doWrite s = (s, []) := by unfold doWrite; simp only [hc, hf, hlim, hbe]; rfl
          rw [hd]
          right
          have hbn : (split s.queue s.quota).1 = [] := by simpa using hbe
          have hq0 := split_quota s.queue s.quota
          have hrest := split_rest s.queue s.quota
          have hperm := split_perm s.queue s.quota
          rw [hbn] at hperm hq0
          simp only [List.nil_append, nThr_nil, Nat.add_zero] at hperm hq0
          have hne : s.queue ≠ [] := by intro he; simp [he] at hc
          have hrne : (split s.queue s.quota).2.1 ≠ [] := by
            intro he; rw [he] at hperm; exact hne (List.Perm.eq_nil hperm.symm)
          refine ⟨hlim, by rw [← hq0]; exact hrest.2 hrne, ?_⟩
          intro r hr
          have hr' : r ∈ (split s.queue s.quota).2.1 := hperm.symm.subset hr
          refine ⟨hrest.1 r hr', ?_⟩
          have := List.find?_eq_none.mp hf r hr
          simpa using this
        · have hd : (doWrite s).1.inflight = some (split s.queue s.quota).1 := by
            unfold doWrite; simp only [hc, hf, hlim, hbe]; rfl
          rw [hd] at h; cases h

/-- non-vacuity: the inputs of a history with throttling, a reconnect, a reply and a read-path resend are admissible -/
example : ∀ i ∈ [In.setRm (some 1), .send ⟨1, true, false, false, 1, true⟩, .send ⟨2, true, false, false, 2, true⟩,
    .send ⟨3, false, false, true, 0, false⟩, .wdone .tryAgain, .wdone .ok, .ack 1, .resendRead], InOK i := by
  intro i hi
  simp at hi
  rcases hi with rfl | rfl | rfl | rfl | rfl | rfl | rfl | rfl <;> simp [InOK, ReqWF]

/-! ## the composed client model (`Model/Trace.lean`)
One labelled transition system for the whole outbound path of the client above the stream (API call → sender → reply map → completion),
over the events an observer of the real client sees.  The tie: `lib/trace_check.py` replays every H-client transcript of the real
`mqtt_client` through the compiled model (`mdrv trace`); a transcript the model refuses is a broken correspondence.  The theorems below
hold for EVERY event list the model accepts, of any length. -/
section ComposedModel
open Mqtt5V.Model

/-- **C07 end to end, every accepted history**: after every prefix of the history, the number of QoS 1/2 PUBLISH packets written on the
current connection that no PUBACK, PUBCOMP or failing PUBREC has ended yet (`Trace.wireOf`, computed from the events alone, by
identifier) is at most the Receive Maximum announced in that connection's CONNACK (65535 if absent) -/
theorem composed_receive_maximum_respected (tr pre post : List Trace.Ev) (hacc : Trace.accepts tr = true) (hsplit : tr = pre ++ post) :
    (Trace.wireOf pre).inflight.length ≤ (Trace.wireOf pre).rm :=
  Mqtt5V.Proofs.Trace.receive_maximum_respected hacc pre post hsplit

example : Trace.accepts [.init 1 .pub1 1, .init 2 .pub1 1, .connUp (some 1), .wr, .pk (.publish 1 1 7 false 3), .pk (.publish 2 1 8 false 4)] = false := by decide
example : Trace.accepts [.init 1 .pub1 1, .init 2 .pub1 1, .connUp (some 1), .wr, .pk (.publish 1 1 7 false 3), .wrOk,
    .rx ⟨.puback, 7, [0x80], 0, true⟩, .wr, .pk (.publish 2 1 8 false 4)] = true := by decide

end ComposedModel

end Mqtt5V.Props.C07
