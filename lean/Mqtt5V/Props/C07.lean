import Mqtt5V.Basic
namespace Mqtt5V.Props.C07
end Mqtt5V.Props.C07
