import Mqtt5V.Proofs.TraceContent
import Mqtt5V.Proofs.TraceTruth
import Mqtt5V.Proofs.PubSend
import Mqtt5V.Proofs.Replies
/-! # C01 — publish success is truthful (reply-matching core)

A QoS 1/2 publish completes successfully only through its reply waiter being completed with `ok` and the
bytes of a reply.  In the model of `detail::replies`, for every history of registrations, arriving replies,
resends, cancellations and fast-reply clearings, of any length:
a waiter is completed with `ok` only with the bytes of a reply that was dispatched with exactly the
(control code, packet identifier) the waiter registered for; keys are unique, so a reply completes at most
one waiter; fast replies are discarded at every stream write, so a stored reply can only be consumed by a
waiter if it arrived after the most recent write was initiated. -/
namespace Mqtt5V.Props.C01
open Mqtt5V.Model.Replies Mqtt5V.Proofs.Replies

def runR (r : R) : List In → R × List Ev
  | [] => (r, [])
  | i :: is => let x := step r i; let y := runR x.1 is; (y.1, x.2 ++ y.2)

/-- keys stay unique in every reachable state: a reply can match at most one waiter -/
theorem keys_unique_reachable (is : List In) : KeysUnique (runR {} is).1 := by
  suffices h : ∀ r, KeysUnique r → KeysUnique (runR r is).1 from h _ (by simp [KeysUnique])
  induction is with
  | nil => intro r h; exact h
  | cons i is ih => intro r h; exact ih _ (step_keys r i h)

/-- **an arriving reply completes only a waiter registered for exactly its control code and packet identifier**,
with exactly the arriving bytes, and only one waiter -/
theorem dispatch_completes_only_matching_waiter (r : R) (c p t : Nat) :
    (step r (.dispatch c p t)).2 = [] ∨
    ∃ h ∈ r.handlers, h.code = c ∧ h.pid = p ∧ (step r (.dispatch c p t)).2 = [⟨h.w, .ok, t⟩] := by
  simp only [step]
  cases hf : r.handlers.find? (sameKey c p) with
  | none => exact Or.inl rfl
  | some h =>
    obtain ⟨hm, hc, hp⟩ := find_sameKey hf
    exact Or.inr ⟨h, hm, hc, hp, rfl⟩

/-- a newly registered waiter consumes a stored reply only if that reply has exactly its key -/
theorem wait_consumes_only_matching_fast_reply (r : R) (w c p : Nat) :
    ∀ e ∈ (step r (.wait w c p)).2, e.rc = .ok → e.w = w ∧ ∃ f ∈ r.fast, f.code = c ∧ f.pid = p ∧ f.tag = e.tag := by
  intro e he hok
  simp only [step] at he
  cases hf : r.fast.find? (fun f => f.code == c && f.pid == p) with
  | none =>
    rw [hf] at he
    simp only [List.append_nil] at he
    split at he
    · simp at he; subst he; cases hok
    · cases he
  | some f =>
    rw [hf] at he
    have hfm := List.mem_of_find?_eq_some hf
    have hfk := List.find?_some hf
    simp at hfk
    simp only [List.mem_append, List.mem_singleton] at he
    rcases he with he | he
    · split at he
      · simp at he; subst he; cases hok
      · cases he
    · subst he; exact ⟨rfl, f, hfm, hfk.1, hfk.2, rfl⟩

/-- fast replies are discarded at every stream write (`clear_fast_replies` in `do_write`) -/
theorem fast_replies_cleared_at_write (r : R) : (step r .clearFast).1.fast = [] := rfl

/-- provenance invariant: every waiter was registered with its key, every stored reply was dispatched with its key -/
def Prov (hist : List In) (r : R) : Prop :=
  (∀ h ∈ r.handlers, In.wait h.w h.code h.pid ∈ hist) ∧ (∀ f ∈ r.fast, In.dispatch f.code f.pid f.tag ∈ hist)

theorem step_prov (hist : List In) (r : R) (i : In) (h : Prov hist r) :
    Prov (hist ++ [i]) (step r i).1 ∧
    ∀ e ∈ (step r i).2, e.rc = .ok → ∃ c p, In.wait e.w c p ∈ hist ++ [i] ∧ In.dispatch c p e.tag ∈ hist ++ [i] := by
  obtain ⟨hh, hf⟩ := h
  have up : ∀ x, x ∈ hist → x ∈ hist ++ [i] := fun x hx => List.mem_append_left _ hx
  cases i with
  | wait w c p =>
    constructor
    · simp only [step]
      constructor
      · intro x hx
        split at hx
        all_goals (first
          | (rename_i f _; split at hx <;> (first | exact up _ (hh x (List.mem_of_mem_erase hx)) | exact up _ (hh x hx)))
          | skip)
        all_goals
          simp only [List.mem_append, List.mem_singleton] at hx
          rcases hx with hx | hx
          · split at hx <;> first | exact up _ (hh x (List.mem_of_mem_erase hx)) | exact up _ (hh x hx)
          · subst hx; simp
      · intro f hfm
        split at hfm
        · exact up _ (hf f (List.mem_of_mem_erase hfm))
        · exact up _ (hf f hfm)
    · intro e he hok
      obtain ⟨hw, f, hfm, hc, hp, ht⟩ := wait_consumes_only_matching_fast_reply r w c p e he hok
      refine ⟨c, p, by rw [hw]; simp, ?_⟩
      have := hf f hfm
      rw [hc, hp, ht] at this
      exact up _ this
  | dispatch c p t =>
    constructor
    · simp only [step]
      split
      · exact ⟨fun x hx => up _ (hh x (List.mem_of_mem_erase hx)), fun f hfm => up _ (hf f hfm)⟩
      · refine ⟨fun x hx => up _ (hh x hx), fun f hfm => ?_⟩
        simp only [List.mem_append, List.mem_singleton] at hfm
        rcases hfm with hfm | hfm
        · exact up _ (hf f hfm)
        · subst hfm; simp
    · intro e he hok
      rcases dispatch_completes_only_matching_waiter r c p t with h0 | ⟨h, hm, hc, hp, hev⟩
      · rw [h0] at he; cases he
      · rw [hev] at he; simp at he; subst he
        refine ⟨c, p, ?_, by simp⟩
        have := hh h hm; rw [hc, hp] at this; exact up _ this
  | resendUnanswered =>
    refine ⟨⟨by simp [step], fun f hfm => up _ (hf f hfm)⟩, ?_⟩
    intro e he hok; simp [step] at he; obtain ⟨_, _, rfl⟩ := he; cases hok
  | cancelUnanswered =>
    refine ⟨⟨by simp [step], fun f hfm => up _ (hf f hfm)⟩, ?_⟩
    intro e he hok; simp [step] at he; obtain ⟨_, _, rfl⟩ := he; cases hok
  | clearFast =>
    refine ⟨⟨fun x hx => up _ (hh x hx), by simp [step]⟩, ?_⟩
    intro e he; simp [step] at he
  | clearPubrels =>
    refine ⟨⟨fun x hx => up _ (hh x ((List.mem_filter.mp hx).1)), fun f hfm => up _ (hf f hfm)⟩, ?_⟩
    intro e he hok; simp [step] at he; obtain ⟨_, _, rfl⟩ := he; cases hok

/-- **Success has a cause**: in any history, a waiter completed with `ok` was registered for some (code, id) and a reply
with exactly that code and id — the one whose bytes it received — arrived. -/
theorem ok_completion_has_matching_reply (is : List In) :
    ∀ e ∈ (runR {} is).2, e.rc = .ok → ∃ c p, In.wait e.w c p ∈ is ∧ In.dispatch c p e.tag ∈ is := by
  suffices h : ∀ hist r, Prov hist r → ∀ e ∈ (runR r is).2, e.rc = .ok →
      ∃ c p, In.wait e.w c p ∈ hist ++ is ∧ In.dispatch c p e.tag ∈ hist ++ is by
    simpa using h [] {} (by simp [Prov])
  induction is with
  | nil => intro hist r _ e he; cases he
  | cons i is ih =>
    intro hist r hp e he hok
    simp only [runR, List.mem_append] at he
    have hs := step_prov hist r i hp
    rcases he with he | he
    · obtain ⟨c, p, h1, h2⟩ := hs.2 e he hok
      have sub : ∀ x, x ∈ hist ++ [i] → x ∈ hist ++ i :: is := by
        intro x hx; simp at hx ⊢; rcases hx with h | h; exact Or.inl h; exact Or.inr (Or.inl h)
      exact ⟨c, p, sub _ h1, sub _ h2⟩
    · obtain ⟨c, p, h1, h2⟩ := ih (hist ++ [i]) _ hs.1 e he hok
      have e1 : hist ++ [i] ++ is = hist ++ i :: is := by simp
      exact ⟨c, p, e1 ▸ h1, e1 ▸ h2⟩

/-- non-vacuity: a reply that arrives before its waiter is consumed by it; a replaced waiter is aborted -/
example : (runR {} [.dispatch 0x40 5 77, .wait 1 0x40 5, .wait 2 0x50 9, .wait 3 0x50 9, .dispatch 0x50 9 88]).2
    = [⟨1, .ok, 77⟩, ⟨2, .aborted, 0⟩, ⟨3, .ok, 88⟩] := by decide


/-! ## the publish operation (`publish_send_op`, Model/PubSend.lean, tied by the H-pubsend lock-step) -/
section PubSendOp
open Mqtt5V.Proofs.PubSend

/-- **a reported success is the broker's**: the handler receives reason code `rc` only if a decodable acknowledgement with an
admissible reason code `rc` arrived (and its properties, except for a failing PUBREC which ends a QoS 2 exchange without them) -/
theorem success_reports_an_acknowledgement (is : List Model.PubSend.In) : ∀ (s : Model.PubSend.S) (rc p : Nat), Model.PubSend.Act.completeOk rc p ∈ (Model.PubSend.run s is).2 →
    ∃ p', Model.PubSend.In.reply (.ack rc p') ∈ is ∧ (p = p' ∨ p = 0) := by
  induction is with
  | nil => intro s rc p h; simp [Model.PubSend.run] at h
  | cons i is ih =>
    intro s rc p h
    simp only [Model.PubSend.run, List.mem_append] at h
    rcases h with h | h
    · obtain ⟨qos2, phase, dup, cancelled⟩ := s
      cases i with
      | cancelSignal => simp [Model.PubSend.step] at h
      | sent r => cases r <;> cases phase <;> cases cancelled <;> simp [Model.PubSend.step, Model.PubSend.resendPublish, Model.PubSend.finishErr] at h
      | reply r =>
        cases r with
        | ack rc' props =>
          by_cases hrc : 128 ≤ rc'
          · rw [step_ack_err _ rc' props hrc] at h
            cases phase <;> cases qos2 <;> simp [Model.PubSend.finishOk] at h <;>
              (obtain ⟨h1, h2⟩ := h; subst h1; exact ⟨props, by simp, by omega⟩)
          · rw [step_ack_ok _ rc' props hrc] at h
            cases phase <;> cases qos2 <;> simp [Model.PubSend.finishOk] at h <;>
              (obtain ⟨h1, h2⟩ := h; subst h1; exact ⟨props, by simp, by omega⟩)
        | _ => cases phase <;> cases cancelled <;> simp [Model.PubSend.step, Model.PubSend.resendPublish, Model.PubSend.finishErr] at h
    · obtain ⟨p', hm, hp⟩ := ih _ rc p h
      exact ⟨p', by simp [hm], hp⟩


end PubSendOp

/-! ## the composed client model (`Model/Trace.lean`)
One labelled transition system for the whole outbound path of the client above the stream (API call → sender → reply map → completion),
over the events an observer of the real client sees.  The tie: `lib/trace_check.py` replays every H-client transcript of the real
`mqtt_client` through the compiled model (`mdrv trace`); a transcript the model refuses is a broken correspondence.  The theorems below
hold for EVERY event list the model accepts, of any length. -/
section ComposedModel
open Mqtt5V.Model

/-- **C01 end to end, every accepted history**: when an `async_publish` (QoS 1/2; also SUBSCRIBE/UNSUBSCRIBE, see C14) completes
without error handing `rcs` / `props` to its handler, then earlier in the history (`Trace.Truthful`): a PUBLISH of exactly this operation
was written carrying a non-zero identifier `p`, AFTER that a well-formed acknowledgement for `p` of the right type was read whose reason
code is `rcs` (admissible for its packet type) and whose properties are `props`; for QoS 2 either a failing PUBREC (which ends the
exchange) or the full chain PUBLISH → successful PUBREC → PUBREL → PUBCOMP, in this order. -/
theorem composed_publish_success_truthful (pre post : List Trace.Ev) (op : Nat) (rcs : List Nat) (props : Nat)
    (hacc : Trace.accepts (pre ++ Trace.Ev.doneOk op rcs props :: post) = true) :
    ∃ p k n, Trace.Ev.init op k n ∈ pre ∧ p ≠ 0 ∧ Trace.Truthful pre op p k n rcs props :=
  Mqtt5V.Proofs.Trace.success_truthful hacc

/-- non-vacuity: a QoS 2 exchange with a fast PUBCOMP (it arrives while the PUBREL is still being written) is accepted … -/
example : Trace.accepts [.init 1 .pub2 1, .connUp (some 1), .wr, .pk (.publish 1 2 7 false 3), .wrOk,
    .rx ⟨.pubrec, 7, [0], 0, true⟩, .wr, .pk (.pubrel 7), .rx ⟨.pubcomp, 7, [0], 5, true⟩, .wrOk, .doneOk 1 [0] 5] = true := by decide
/-- … a success without an acknowledgement is not, nor one that uses an acknowledgement which arrived before the PUBLISH was written -/
example : Trace.accepts [.init 1 .pub1 1, .connUp none, .wr, .pk (.publish 1 1 7 false 3), .wrOk, .doneOk 1 [0] 0] = false := by decide
example : Trace.accepts [.init 1 .pub1 1, .connUp none, .rx ⟨.puback, 7, [0], 0, true⟩, .wr, .pk (.publish 1 1 7 false 3), .wrOk,
    .doneOk 1 [0] 0] = false := by decide

end ComposedModel

/-! ## the composed client model, content of requests (`Model/TraceContent.lean`)
The front end (`lib/trace_abs.py: abstract_content`) computes the content identity of a publish (topic, payload, QoS, retain, canonical
properties) twice: from the arguments of the API call and from the packet the independent reference decoder reads off the wire; the tie
(`lib/trace_check.py`) replays every H-client transcript. -/
section ComposedContent
open Mqtt5V.Model

/-- **every accepted history**: whenever a PUBLISH of operation `op` is written — first transmission or retransmission, on any connection —
it says exactly what the operation's `async_publish` call said, and that call came before -/
theorem composed_request_says_what_was_asked (pre post : List TraceContent.Ev) (op c : Nat)
    (hacc : TraceContent.accepts (pre ++ TraceContent.Ev.req op c :: post) = true) : TraceContent.Ev.init op c ∈ pre :=
  Mqtt5V.Proofs.TraceContent.request_says_what_was_asked hacc

example : TraceContent.accepts [.init 1 5, .init 2 6, .req 1 5, .req 2 6, .req 1 5] = true := by decide
example : TraceContent.accepts [.init 1 5, .req 1 6] = false := by decide
example : TraceContent.accepts [.req 1 5] = false := by decide

end ComposedContent

end Mqtt5V.Props.C01
