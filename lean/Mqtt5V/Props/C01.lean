import Mqtt5V.Basic
namespace Mqtt5V.Props.C01
end Mqtt5V.Props.C01
