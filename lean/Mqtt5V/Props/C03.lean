import Mqtt5V.Proofs.PubSend
import Mqtt5V.Props.C17
/-! # C03 — QoS 2 sender: retransmissions are faithful (packet core)

`control_packet::set_dup()` is the only thing the library ever changes in a stored PUBLISH.  In the encoder model:
setting DUP on a PUBLISH that was encoded with DUP = 0 gives, byte for byte, the encoding of the same message with
DUP = 1 — same packet identifier, same topic, payload, QoS, RETAIN and properties; nothing but bit 3 of the first byte
changes; and it is idempotent.  With C17 this retransmission decodes (independent decoder) to the same message with
DUP = 1.  (That the operation keeps only the PUBREL after a successful PUBREC is checked on the real client by the
C03 monitor; the stored-packet state machine is not modelled in Lean.) -/
namespace Mqtt5V.Props.C03
open Mqtt5V.Wire Mqtt5V.Model.Enc

/-- `set_dup()` touches only the first byte, and there only bit 3 -/
theorem setDup_only_bit3 (b : Nat) (r : Bs) :
    setDup (b :: r) = (if b / 8 % 2 = 1 then b else b + 8) :: r := rfl

theorem setDup_idempotent (bs : Bs) : setDup (setDup bs) = setDup bs := by
  cases bs with
  | nil => rfl
  | cons b r =>
    simp only [setDup]
    split
    · rename_i h; simp [h]
    · rename_i h
      have : (b + 8) / 8 % 2 = 1 := by omega
      rw [if_pos this]

/-- **a retransmitted PUBLISH is byte-identical to the first transmission except for the DUP bit** -/
theorem retransmission_identical_but_dup (pid : Nat) (topic payload : Bs) (qos retain : Nat) (ps : Props)
    (hq : qos ≤ 2) (hr : retain ≤ 1) :
    setDup (encodePublish pid topic payload qos retain 0 ps) = encodePublish pid topic payload qos retain 1 ps := by
  simp only [encodePublish, packet, setDup]
  have h0 : (((3 * 2 + 0) * 4 + qos) * 2 + retain) % 256 / 8 % 2 = 0 := by omega
  have h1 : (((3 * 2 + 0) * 4 + qos) * 2 + retain) % 256 + 8 = (((3 * 2 + 1) * 4 + qos) * 2 + retain) % 256 := by omega
  simp [h0, h1]

/-- the first transmission has DUP = 0 and the retransmission DUP = 1, and both decode to the message asked for -/
theorem retransmission_decodes_with_dup (pid : Nat) (topic payload : Bs) (qos retain : Nat) (ps : Props)
    (h0 : C17.WFPublish (some pid) topic qos retain 0 ps) (h1 : C17.WFPublish (some pid) topic qos retain 1 ps)
    (hsz : lenPrefixedSize topic + 2 + propsSize false ps + payload.length ≤ 268435455) :
    Spec.Wire.decode (setDup (encodePublish pid topic payload qos retain 0 ps)) = some (.publish (some pid) topic payload qos retain 1 ps) := by
  rw [retransmission_identical_but_dup pid topic payload qos retain ps h0.hqos h0.hretain]
  have := C17.publish_encode_decodes (some pid) topic payload qos retain 1 ps h1 hsz
  simpa [encode] using this


/-! ## the publish operation (`publish_send_op`, Model/PubSend.lean, tied by the H-pubsend lock-step) -/
section PubSendOp
open Mqtt5V.Model.PubSend Mqtt5V.Proofs.PubSend

/-- **QoS 2: once a PUBREL has been handed to the sender (a successful PUBREC was processed) the message is never published
again** — for every history of write results, reconnects (`tryAgain`), malformed replies and cancellations -/
theorem no_publish_after_pubrel (qos2 : Bool) (is : List In) (l1 l2 : List Act) (t : Bool)
    (h : trace qos2 is = l1 ++ .sendPubrel t :: l2) : ∀ d, Act.sendPublish d ∉ l2 := by
  intro d hd
  have hr := rules_hold qos2 is
  rw [h, feedAll_append] at hr
  obtain ⟨l3, l4, rfl⟩ := List.append_of_mem hd
  simp only [Mon.feedAll] at hr
  rw [feedAll_append] at hr
  simp only [Mon.feedAll] at hr
  have hs := seenRel_sticky qos2 l3 _ (feed_pubrel_seenRel qos2 (({} : Mon).feedAll qos2 l1) t)
  have hb := feed_publish_bad_of_seenRel qos2 _ hs d
  rw [bad_sticky qos2 l4 _ hb] at hr
  cases hr

/-- **DUP is set exactly on a retransmission of a PUBLISH whose earlier write succeeded** -/
theorem dup_iff_earlier_write_succeeded (qos2 : Bool) (is : List In) (l1 l2 : List Act) (d : Bool)
    (h : trace qos2 is = l1 ++ .sendPublish d :: l2) : d = l1.any isWaitAck := by
  have hr := rules_hold qos2 is
  rw [h, feedAll_append] at hr
  simp only [Mon.feedAll] at hr
  have hsw := seenWait_eq qos2 l1 ({} : Mon)
  simp only [Bool.false_or] at hsw
  cases hd : (d != (({} : Mon).feedAll qos2 l1).seenWait) with
  | false => rw [← hsw]; simpa using hd
  | true =>
    have hb := feed_publish_bad_of_dup_mismatch qos2 _ d hd
    rw [bad_sticky qos2 l2 _ hb] at hr
    cases hr

/-- non-vacuity: QoS 2, write fails once, PUBREC lost on a reconnect (re-sent with DUP), PUBREC ok, PUBREL, PUBCOMP lost once, done -/
example : trace true [.sent .tryAgain, .sent .ok, .reply .tryAgain, .sent .ok, .reply (.ack 0 7), .sent .ok, .reply .tryAgain, .sent .ok, .reply (.ack 0 9)] =
    [.sendPublish false, .sendPublish false, .waitAck, .sendPublish true, .waitAck, .sendPubrel false, .waitPubcomp, .sendPubrel true, .waitPubcomp,
     .freePid, .completeOk 0 9] := by decide


end PubSendOp

end Mqtt5V.Props.C03
