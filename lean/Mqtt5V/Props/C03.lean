import Mqtt5V.Basic
namespace Mqtt5V.Props.C03
end Mqtt5V.Props.C03
