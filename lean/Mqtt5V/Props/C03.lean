import Mqtt5V.Props.C17
/-! # C03 — QoS 2 sender: retransmissions are faithful (packet core)

`control_packet::set_dup()` is the only thing the library ever changes in a stored PUBLISH.  In the encoder model:
setting DUP on a PUBLISH that was encoded with DUP = 0 gives, byte for byte, the encoding of the same message with
DUP = 1 — same packet identifier, same topic, payload, QoS, RETAIN and properties; nothing but bit 3 of the first byte
changes; and it is idempotent.  With C17 this retransmission decodes (independent decoder) to the same message with
DUP = 1.  (That the operation keeps only the PUBREL after a successful PUBREC is checked on the real client by the
C03 monitor; the stored-packet state machine is not modelled in Lean.) -/
namespace Mqtt5V.Props.C03
open Mqtt5V.Wire Mqtt5V.Model.Enc

/-- `set_dup()` touches only the first byte, and there only bit 3 -/
theorem setDup_only_bit3 (b : Nat) (r : Bs) :
    setDup (b :: r) = (if b / 8 % 2 = 1 then b else b + 8) :: r := rfl

theorem setDup_idempotent (bs : Bs) : setDup (setDup bs) = setDup bs := by
  cases bs with
  | nil => rfl
  | cons b r =>
    simp only [setDup]
    split
    · rename_i h; simp [h]
    · rename_i h
      have : (b + 8) / 8 % 2 = 1 := by omega
      rw [if_pos this]

/-- **a retransmitted PUBLISH is byte-identical to the first transmission except for the DUP bit** -/
theorem retransmission_identical_but_dup (pid : Nat) (topic payload : Bs) (qos retain : Nat) (ps : Props)
    (hq : qos ≤ 2) (hr : retain ≤ 1) :
    setDup (encodePublish pid topic payload qos retain 0 ps) = encodePublish pid topic payload qos retain 1 ps := by
  simp only [encodePublish, packet, setDup]
  have h0 : (((3 * 2 + 0) * 4 + qos) * 2 + retain) % 256 / 8 % 2 = 0 := by omega
  have h1 : (((3 * 2 + 0) * 4 + qos) * 2 + retain) % 256 + 8 = (((3 * 2 + 1) * 4 + qos) * 2 + retain) % 256 := by omega
  simp [h0, h1]

/-- the first transmission has DUP = 0 and the retransmission DUP = 1, and both decode to the message asked for -/
theorem retransmission_decodes_with_dup (pid : Nat) (topic payload : Bs) (qos retain : Nat) (ps : Props)
    (h0 : C17.WFPublish (some pid) topic qos retain 0 ps) (h1 : C17.WFPublish (some pid) topic qos retain 1 ps)
    (hsz : lenPrefixedSize topic + 2 + propsSize false ps + payload.length ≤ 268435455) :
    Spec.Wire.decode (setDup (encodePublish pid topic payload qos retain 0 ps)) = some (.publish (some pid) topic payload qos retain 1 ps) := by
  rw [retransmission_identical_but_dup pid topic payload qos retain ps h0.hqos h0.hretain]
  have := C17.publish_encode_decodes (some pid) topic payload qos retain 1 ps h1 hsz
  simpa [encode] using this

end Mqtt5V.Props.C03
