import Mqtt5V.Proofs.TraceDup
import Mqtt5V.Proofs.PubSend
import Mqtt5V.Props.C17
/-! # C03 — QoS 2 sender: retransmissions are faithful (packet core)

`control_packet::set_dup()` is the only thing the library ever changes in a stored PUBLISH.  In the encoder model:
setting DUP on a PUBLISH that was encoded with DUP = 0 gives, byte for byte, the encoding of the same message with
DUP = 1 — same packet identifier, same topic, payload, QoS, RETAIN and properties; nothing but bit 3 of the first byte
changes; and it is idempotent.  With C17 this retransmission decodes (independent decoder) to the same message with
DUP = 1.  (That the operation keeps only the PUBREL after a successful PUBREC is checked on the real client by the
C03 monitor; the stored-packet state machine is not modelled in Lean.) -/
namespace Mqtt5V.Props.C03
open Mqtt5V.Wire Mqtt5V.Model.Enc

/-- `set_dup()` touches only the first byte, and there only bit 3 -/
theorem setDup_only_bit3 (b : Nat) (r : Bs) :
    setDup (b :: r) = (if b / 8 % 2 = 1 then b else b + 8) :: r := rfl

theorem setDup_idempotent (bs : Bs) : setDup (setDup bs) = setDup bs := by
  cases bs with
  | nil => rfl
  | cons b r =>
    simp only [setDup]
    split
    · rename_i h; simp [h]
    · rename_i h
      have : (b + 8) / 8 % 2 = 1 := by omega
      rw [if_pos this]

/-- **a retransmitted PUBLISH is byte-identical to the first transmission except for the DUP bit** -/
theorem retransmission_identical_but_dup (pid : Nat) (topic payload : Bs) (qos retain : Nat) (ps : Props)
    (hq : qos ≤ 2) (hr : retain ≤ 1) :
    setDup (encodePublish pid topic payload qos retain 0 ps) = encodePublish pid topic payload qos retain 1 ps := by
  simp only [encodePublish, packet, setDup]
  have h0 : (((3 * 2 + 0) * 4 + qos) * 2 + retain) % 256 / 8 % 2 = 0 := by omega
  have h1 : (((3 * 2 + 0) * 4 + qos) * 2 + retain) % 256 + 8 = (((3 * 2 + 1) * 4 + qos) * 2 + retain) % 256 := by omega
  simp [h0, h1]

/-- the first transmission has DUP = 0 and the retransmission DUP = 1, and both decode to the message asked for -/
theorem retransmission_decodes_with_dup (pid : Nat) (topic payload : Bs) (qos retain : Nat) (ps : Props)
    (h0 : C17.WFPublish (some pid) topic qos retain 0 ps) (h1 : C17.WFPublish (some pid) topic qos retain 1 ps)
    (hsz : lenPrefixedSize topic + 2 + propsSize false ps + payload.length ≤ 268435455) :
    Spec.Wire.decode (setDup (encodePublish pid topic payload qos retain 0 ps)) = some (.publish (some pid) topic payload qos retain 1 ps) := by
  rw [retransmission_identical_but_dup pid topic payload qos retain ps h0.hqos h0.hretain]
  have := C17.publish_encode_decodes (some pid) topic payload qos retain 1 ps h1 hsz
  simpa [encode] using this


/-! ## the publish operation (`publish_send_op`, Model/PubSend.lean, tied by the H-pubsend lock-step) -/
section PubSendOp
open Mqtt5V.Model.PubSend Mqtt5V.Proofs.PubSend

/-- **QoS 2: once a PUBREL has been handed to the sender (a successful PUBREC was processed) the message is never published
again** — for every history of write results, reconnects (`tryAgain`), malformed replies and cancellations -/
theorem no_publish_after_pubrel (qos2 : Bool) (is : List In) (l1 l2 : List Act) (t : Bool)
    (h : trace qos2 is = l1 ++ .sendPubrel t :: l2) : ∀ d, Act.sendPublish d ∉ l2 := by
  intro d hd
  have hr := rules_hold qos2 is
  rw [h, feedAll_append] at hr
  obtain ⟨l3, l4, rfl⟩ := List.append_of_mem hd
  simp only [Mon.feedAll] at hr
  rw [feedAll_append] at hr
  simp only [Mon.feedAll] at hr
  have hs := seenRel_sticky qos2 l3 _ (feed_pubrel_seenRel qos2 (({} : Mon).feedAll qos2 l1) t)
  have hb := feed_publish_bad_of_seenRel qos2 _ hs d
  rw [bad_sticky qos2 l4 _ hb] at hr
  cases hr

/-- **DUP is set exactly on a retransmission of a PUBLISH whose earlier write succeeded** -/
theorem dup_iff_earlier_write_succeeded (qos2 : Bool) (is : List In) (l1 l2 : List Act) (d : Bool)
    (h : trace qos2 is = l1 ++ .sendPublish d :: l2) : d = l1.any isWaitAck := by
  have hr := rules_hold qos2 is
  rw [h, feedAll_append] at hr
  simp only [Mon.feedAll] at hr
  have hsw := seenWait_eq qos2 l1 ({} : Mon)
  simp only [Bool.false_or] at hsw
  cases hd : (d != (({} : Mon).feedAll qos2 l1).seenWait) with
  | false => rw [← hsw]; simpa using hd
  | true =>
    have hb := feed_publish_bad_of_dup_mismatch qos2 _ d hd
    rw [bad_sticky qos2 l2 _ hb] at hr
    cases hr

/-- non-vacuity: QoS 2, write fails once, PUBREC lost on a reconnect (re-sent with DUP), PUBREC ok, PUBREL, PUBCOMP lost once, done -/
example : trace true [.sent .tryAgain, .sent .ok, .reply .tryAgain, .sent .ok, .reply (.ack 0 7), .sent .ok, .reply .tryAgain, .sent .ok, .reply (.ack 0 9)] =
    [.sendPublish false, .sendPublish false, .waitAck, .sendPublish true, .waitAck, .sendPubrel false, .waitPubcomp, .sendPubrel true, .waitPubcomp,
     .freePid, .completeOk 0 9] := by decide


end PubSendOp

/-! ## the composed client model (`Model/Trace.lean`)
One labelled transition system for the whole outbound path of the client above the stream (API call → sender → reply map → completion),
over the events an observer of the real client sees.  The tie: `lib/trace_check.py` replays every H-client transcript of the real
`mqtt_client` through the compiled model (`mdrv trace`); a transcript the model refuses is a broken correspondence.  The theorems below
hold for EVERY event list the model accepts, of any length. -/
section ComposedModel
open Mqtt5V.Model

/-- **C03 end to end (1)**: once the PUBREL of a QoS 2 exchange has been written — the client consumed the successful PUBREC — the
PUBLISH of that exchange is never written again, in no accepted history, whatever reconnects and resends lie in between -/
theorem composed_no_publish_after_pubrel (pre post : List Trace.Ev) (op q p : Nat) (dup : Bool) (body : Nat)
    (hacc : Trace.accepts (pre ++ Trace.Ev.pk (.publish op q p dup body) :: post) = true)
    (c : Trace.Chain [Trace.isReq op p, Trace.isRel p] pre) : False :=
  Mqtt5V.Proofs.Trace.no_publish_after_pubrel hacc c

/-- **C03 end to end (2)**: every transmission of an operation's request carries the same bytes apart from the DUP bit … -/
theorem composed_retransmission_identical (tr : List Trace.Ev) (hacc : Trace.accepts tr = true) (op b1 b2 : Nat)
    (u1 : Trace.usesBody tr op b1) (u2 : Trace.usesBody tr op b2) : b1 = b2 :=
  Mqtt5V.Proofs.Trace.retransmission_identical hacc u1 u2

/-- … and the same packet identifier -/
theorem composed_retransmission_same_identifier (tr : List Trace.Ev) (hacc : Trace.accepts tr = true) (op p1 p2 : Nat)
    (u1 : Trace.usesPid tr op p1) (u2 : Trace.usesPid tr op p2) : p1 = p2 := by
  obtain ⟨s, hr⟩ := (Mqtt5V.Proofs.Trace.accepts_iff _).1 hacc
  exact Mqtt5V.Proofs.Trace.pid_stable hr u1 u2

/-- **C03 end to end (3)**: the first transmission of a PUBLISH has DUP = 0 … -/
theorem composed_first_transmission_dup_zero (pre post : List Trace.Ev) (op q p : Nat) (dup : Bool) (body : Nat)
    (hacc : Trace.accepts (pre ++ Trace.Ev.pk (.publish op q p dup body) :: post) = true)
    (hfirst : ∀ p', ¬ Trace.usesPid pre op p') : dup = false :=
  Mqtt5V.Proofs.Trace.first_transmission_dup_zero hacc hfirst

/-- … and DUP = 1 whenever a write that contained an earlier transmission of it had completed successfully
(`writtenOk`: the PUBLISH event, then — with no other write event in between — the successful end of that write) -/
theorem composed_dup_after_successful_write (pre post : List Trace.Ev) (op q p : Nat) (dup : Bool) (body : Nat)
    (hacc : Trace.accepts (pre ++ Trace.Ev.pk (.publish op q p dup body) :: post) = true)
    (hw : Trace.writtenOk pre op) : dup = true :=
  Mqtt5V.Proofs.Trace.dup_after_successful_write hacc hw

/-- non-vacuity: a QoS 2 publish re-sent with DUP after a reconnect, PUBREL re-sent after another one, is accepted … -/
example : Trace.accepts [.init 1 .pub2 1, .connUp none, .wr, .pk (.publish 1 2 7 false 3), .wrOk, .connUp none, .wr,
    .pk (.publish 1 2 7 true 3), .wrOk, .rx ⟨.pubrec, 7, [0], 0, true⟩, .wr, .pk (.pubrel 7), .wrFail, .connUp none, .wr, .pk (.pubrel 7), .wrOk,
    .rx ⟨.pubcomp, 7, [0], 0, true⟩, .doneOk 1 [0] 0] = true := by decide
/-- … the same with DUP = 0 on the retransmission, a PUBLISH after the PUBREL, or changed bytes, is not -/
example : Trace.accepts [.init 1 .pub2 1, .connUp none, .wr, .pk (.publish 1 2 7 false 3), .wrOk, .connUp none, .wr,
    .pk (.publish 1 2 7 false 3)] = false := by decide
example : Trace.accepts [.init 1 .pub2 1, .connUp none, .wr, .pk (.publish 1 2 7 false 3), .wrOk, .rx ⟨.pubrec, 7, [0], 0, true⟩, .wr,
    .pk (.pubrel 7), .wrFail, .connUp none, .wr, .pk (.publish 1 2 7 true 3)] = false := by decide
example : Trace.accepts [.init 1 .pub1 1, .connUp none, .wr, .pk (.publish 1 1 7 false 3), .wrFail, .connUp none, .wr,
    .pk (.publish 1 1 7 false 4)] = false := by decide

end ComposedModel

end Mqtt5V.Props.C03
