import Mqtt5V.Model.Validate
/-! # C15 — capabilities announced in CONNACK are honoured (request validation core)

Model of `publish_send_op::perform` / `subscribe_op::perform` with their validation chains
(`Except error bytes`).  For every combination of capabilities and every request:
a packet is handed to the sender only if it respects Maximum Packet Size, Maximum QoS, Retain Available,
Topic Alias Maximum and the wildcard / shared / identifier availability; otherwise the documented error is
returned (in the code's precedence order) and no packet is built. -/
namespace Mqtt5V.Props.C15
open Mqtt5V.Wire Mqtt5V.Model.Validate Mqtt5V.Model.Enc Mqtt5V.Model.Utf8

theorem validatePublish_zero (c : Caps) (qos retain : Nat) (topic payload : Bs) (ps : Props)
    (h : validatePublish c qos retain topic payload ps = 0) :
    qos ≤ c.maxQos ∧ ¬ (c.retainAvailable = 0 ∧ retain = 1) ∧ validatePublishProps c ps = 0 := by
  unfold validatePublish at h
  by_cases h1 : (if (numOf ps 35).isSome then validateTopicAliasName topic == 0 else validateTopicName topic == 0) = true
  · by_cases h2 : qos > c.maxQos
    · simp [h1, h2, E_QOS] at h
    · by_cases h3 : c.retainAvailable = 0 ∧ retain = 1
      · simp [h1, h2, h3, E_RETAIN] at h
      · by_cases h4 : (numOf ps 1).getD 0 = 1 ∧ validateUtf8 payload ≠ 0
        · simp [h1, h2, h3, h4, E_MALFORMED] at h
        · simp only [h1, h2, h3, h4, Bool.not_true, Bool.false_eq_true, if_false] at h
          exact ⟨by omega, h3, h⟩
  · simp [h1, E_INVALID_TOPIC] at h

theorem validatePublishProps_alias (c : Caps) (ps : Props) (h : validatePublishProps c ps = 0) :
    ∀ a, numOf ps 35 = some a → 1 ≤ a ∧ a ≤ c.topicAliasMax := by
  intro a ha
  unfold validatePublishProps at h
  rw [ha] at h
  simp only [] at h
  by_cases h1 : c.topicAliasMax = 0 ∨ a > c.topicAliasMax
  · simp [h1, E_ALIAS] at h
  · by_cases h2 : a = 0
    · subst h2
      have h1' : ¬ c.topicAliasMax = 0 := fun e => h1 (Or.inl e)
      simp [h1', E_MALFORMED] at h
    · omega

/-- **PUBLISH honours the capabilities**: an accepted publish fits the Maximum Packet Size, does not exceed Maximum QoS,
is not retained when the broker has no retain support, and uses a Topic Alias only within 1 … Topic Alias Maximum -/
theorem publish_caps (c : Caps) (pid qos retain : Nat) (topic payload : Bs) (ps : Props) (pkt : Bs)
    (h : publishRequest c pid qos retain topic payload ps = .ok pkt) :
    pkt.length ≤ c.maxPacket ∧ qos ≤ c.maxQos ∧ ¬ (c.retainAvailable = 0 ∧ retain = 1) ∧
    (∀ a, numOf ps 35 = some a → 1 ≤ a ∧ a ≤ c.topicAliasMax) ∧ pkt = encodePublish pid topic payload qos retain 0 ps := by
  unfold publishRequest at h
  by_cases hv : validatePublish c qos retain topic payload ps = 0
  · by_cases hsz : (encodePublish pid topic payload qos retain 0 ps).length > c.maxPacket
    · simp [hv, hsz] at h
    · simp only [hv, ne_eq, not_true_eq_false, if_false, hsz, Except.ok.injEq] at h
      subst h
      obtain ⟨h1, h2, h3⟩ := validatePublish_zero c qos retain topic payload ps hv
      exact ⟨by omega, h1, h2, validatePublishProps_alias c ps h3, rfl⟩
  · simp [hv] at h

/-- the documented errors, in the code's precedence order -/
theorem publish_error_table (c : Caps) (pid qos retain : Nat) (topic payload : Bs) (ps : Props) :
    (qos > c.maxQos → (numOf ps 35).isNone → validateTopicName topic = 0 →
        publishRequest c pid qos retain topic payload ps = .error E_QOS) ∧
    (qos ≤ c.maxQos → c.retainAvailable = 0 → retain = 1 → (numOf ps 35).isNone → validateTopicName topic = 0 →
        publishRequest c pid qos retain topic payload ps = .error E_RETAIN) ∧
    ((numOf ps 35).isNone → validateTopicName topic ≠ 0 → publishRequest c pid qos retain topic payload ps = .error E_INVALID_TOPIC) := by
  refine ⟨?_, ?_, ?_⟩
  · intro h1 h2 h3
    have : numOf ps 35 = none := by simpa using h2
    simp [publishRequest, validatePublish, this, h3, h1, E_QOS]
  · intro h1 h2 h3 h4 h5
    have : numOf ps 35 = none := by simpa using h4
    have hq : ¬ qos > c.maxQos := by omega
    simp [publishRequest, validatePublish, this, h5, hq, h2, h3, E_RETAIN]
  · intro h1 h2
    have : numOf ps 35 = none := by simpa using h1
    simp [publishRequest, validatePublish, this, h2, E_INVALID_TOPIC]

/-- boundaries of the size check: a packet of exactly Maximum Packet Size is sent, one byte more is refused -/
theorem size_boundary (c : Caps) (pid qos retain : Nat) (topic payload : Bs) (ps : Props)
    (hv : validatePublish c qos retain topic payload ps = 0) :
    ((encodePublish pid topic payload qos retain 0 ps).length ≤ c.maxPacket →
        publishRequest c pid qos retain topic payload ps = .ok (encodePublish pid topic payload qos retain 0 ps)) ∧
    ((encodePublish pid topic payload qos retain 0 ps).length > c.maxPacket →
        publishRequest c pid qos retain topic payload ps = .error E_TOO_LARGE) := by
  constructor <;> intro h <;> simp [publishRequest, hv] <;> omega

theorem firstErr_zero (l : List Nat) (h : firstErr l = 0) : ∀ e ∈ l, e = 0 := by
  induction l with
  | nil => intro e he; cases he
  | cons a as ih =>
    intro e he
    simp only [firstErr] at h
    split at h
    · omega
    · rename_i ha
      simp at he
      rcases he with rfl | he
      · omega
      · exact ih h e he

/-- **SUBSCRIBE honours the capabilities**: an accepted subscribe fits the Maximum Packet Size; with wildcard subscriptions
disabled every filter validated as a plain topic name (no `#`/`+`); with shared subscriptions disabled no filter starts
with `$share/`; a Subscription Identifier is present only if the broker supports them, and then within 1 … 268 435 455 -/
theorem subscribe_caps (c : Caps) (pid : Nat) (topics : List (Bs × SubOpts)) (ps : Props) (pkt : Bs)
    (h : subscribeRequest c pid topics ps = .ok pkt) :
    pkt.length ≤ c.maxPacket ∧ topics ≠ [] ∧
    (∀ t ∈ topics, validateSubTopic c t.1 = 0) ∧
    (∀ t ∈ topics, c.sharedAvailable = 0 → startsWithShare t.1 = false) ∧
    (∀ sid, numOf ps 11 = some sid → c.subIdAvailable ≠ 0 ∧ 1 ≤ sid ∧ sid ≤ 268435455) := by
  unfold subscribeRequest at h
  split at h
  · cases h
  · rename_i hne
    simp only [] at h
    split at h
    · cases h
    · rename_i he
      split at h
      · cases h
      · rename_i he2
        split at h
        · cases h
        · rename_i hsz
          simp only [Except.ok.injEq] at h
          subst h
          have he0 : firstErr (topics.map fun t => validateSubTopic c t.1) = 0 := by
            cases hx : firstErr (topics.map fun t => validateSubTopic c t.1) with
            | zero => rfl
            | succ n => rw [hx] at he; simp at he
          have hall := firstErr_zero _ he0
          have htop : ∀ t ∈ topics, validateSubTopic c t.1 = 0 := fun t ht => hall _ (List.mem_map_of_mem ht)
          have hp0 : validateSubProps c ps = 0 := by
            cases hx : validateSubProps c ps with
            | zero => rfl
            | succ n => rw [hx] at he2; simp at he2
          refine ⟨by omega, by simpa using hne, htop, ?_, ?_⟩
          · intro t ht hs
            have := htop t ht
            unfold validateSubTopic at this
            simp only [] at this
            cases hsw : startsWithShare t.1 with
            | false => rfl
            | true => simp [hsw, hs, E_SHARED] at this
          · intro sid hsid
            unfold validateSubProps at hp0
            split at hp0
            · simp [E_MALFORMED] at hp0
            · rw [hsid] at hp0
              simp only [] at hp0
              split at hp0
              · simp [E_SUBID] at hp0
              · rename_i hav
                split at hp0
                · rename_i hr; exact ⟨hav, hr.1, hr.2⟩
                · simp [E_MALFORMED] at hp0

/-- non-vacuity: with Maximum QoS 1 a QoS 2 publish is refused with qos_not_supported before anything is encoded -/
example : validatePublish { maxQos := 1 } 2 0 [116] [112] [] = E_QOS ∧ validateSubProps { subIdAvailable := 0 } [⟨11, .vint 5⟩] = E_SUBID := by
  constructor
  · have : validateTopicName [116] = 0 := by
      simp [validateTopicName, validateImpl, isValidTopicSize, isValidStringSize, Gen.Utf8Rule.maxStringSize]
      rw [validateLoop]; simp [popFront, Gen.Utf8Rule.charRule, isUtf8NoWildcard]
      rw [validateLoop]; simp
    simp [validatePublish, numOf, this, E_QOS]
  · simp [validateSubProps, userPropsOk, pairsOf, numOf, E_SUBID]

end Mqtt5V.Props.C15
