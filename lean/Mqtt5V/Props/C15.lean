import Mqtt5V.Basic
namespace Mqtt5V.Props.C15
end Mqtt5V.Props.C15
