import Mqtt5V.Model.Connect
import Mqtt5V.Proofs.Connect
import Mqtt5V.Proofs.ReasonCode
import Mqtt5V.Props.C17
import Mqtt5V.Props.C19
/-! # C10 — each connection starts with the configured CONNECT and is gated on CONNACK

Model: `Model/Connect.lean` (`exponential_backoff`, `resolve_op::perform`, the retry loop of `reconnect_op`, the
handshake of `connect_op`), constants regenerated from the source (`Gen.Timing`).  The model is tied to the real
`autoconnect_stream` + `reconnect_op` + `connect_op` + `resolve_op` by the H-stream lock-step (`rot`, `hs` engines)
and the bytes of the first packet to the real `connect_op` by `enc connect`. -/
namespace Mqtt5V.Props.C10
open Mqtt5V Mqtt5V.Wire Mqtt5V.Gen.Timing Mqtt5V.Model Mqtt5V.Model.Connect Mqtt5V.Proofs.Connect

/-- **the first packet is the configured CONNECT with Clean Start 0**: the strict specification decoder reads back, from the
bytes `connect_op` writes, exactly the configured client identifier, credentials, Will, keep-alive and properties -/
theorem first_packet_is_configured_connect (cid : Bs) (user pass : Option Bs) (ka : Nat) (ps : Props) (w : Option Will)
    (h : C17.WFConnect cid user pass ka 0 ps w) (hsz : Enc.connectBodySize cid user pass ps w ≤ 268435455) :
    Spec.Wire.decode (firstPacket cid user pass ka ps w) = some (.connect cid user pass ka 0 ps w) := by
  have := C17.connect_encode_decodes cid user pass ka 0 ps w h hsz
  simpa [firstPacket, Enc.encode] using this

/-! ## back-off -/

/-- the exponent never exceeds the maximum -/
theorem backoff_exponent_bounded (cur : Nat) : (backoffStep cur).1 ≤ backoffMaxExp := by
  rw [backoffStep_fst]; omega

/-- **every pause lies between 0.5 s and 16.5 s** whatever the exponent state and the jitter drawn -/
theorem pause_between_half_and_sixteen_and_a_half_seconds (cur : Nat) (noise : Int)
    (hlo : backoffJitterLo ≤ noise) (hhi : noise ≤ backoffJitterHi) :
    500 ≤ pauseMs (backoffStep cur).1 noise ∧ pauseMs (backoffStep cur).1 noise ≤ 16500 := by
  have hb := backoff_exponent_bounded cur
  generalize (backoffStep cur).1 = e at hb
  have he : e = 0 ∨ e = 1 ∨ e = 2 ∨ e = 3 ∨ e = 4 := by unfold backoffMaxExp at hb; omega
  unfold backoffJitterLo at hlo; unfold backoffJitterHi at hhi
  rcases he with rfl | rfl | rfl | rfl | rfl <;> simp [pauseMs, backoffBaseMs] <;> omega

/-- the k-th pause of a reconnect operation is `2^min(k,4)` seconds ± the jitter -/
theorem pause_window (e : Nat) (noise : Int) (hlo : backoffJitterLo ≤ noise) (hhi : noise ≤ backoffJitterHi) :
    (2 ^ e * 1000 : Nat) - 500 ≤ pauseMs e noise ∧ pauseMs e noise ≤ (2 ^ e * 1000 : Nat) + 500 := by
  unfold backoffJitterLo at hlo; unfold backoffJitterHi at hhi
  simp only [pauseMs, backoffBaseMs]
  omega

/-! ## rotation -/

/-- **brokers are tried in list order, each attempt on the next one without pause, and a pause is taken only when the
list wrapped around** — for every broker count, every state reachable (`pos ≤ n`) and every outcome sequence -/
theorem run_obeys_rotation (n : Nat) (hn : 0 < n) (os : List Outcome) :
    ∀ s : St, s.pos ≤ n → Obeys n s.pos (run n s os).1 := by
  induction os with
  | nil => intro s _; simp [run, Obeys]
  | cons o os ih =>
    intro s hs
    have hn0 : ¬ n = 0 := by omega
    by_cases hw : s.pos ≥ n
    · -- wrapped: pause, then host 0
      have hpos1 : (1 : Nat) ≤ n := hn
      cases o with
      | resolveFail =>
        have := ih ⟨0 + 1, (backoffStep s.exp).2⟩ (by simpa using hpos1)
        simp [run, hn0, hw, Obeys, backoff_exponent_bounded] at this ⊢
        exact this
      | eps l =>
        have hrest := ih ⟨0 + 1, (backoffStep s.exp).2⟩ (by simpa using hpos1)
        simp only [run, hn0, if_false, hw, if_true, ge_iff_le]
        have key := obeys_tryEps n 0 0 l (run n ⟨0 + 1, (backoffStep s.exp).2⟩ os).1
        cases hok : (tryEps 0 0 l).2
        · simp only [hok, Bool.false_eq_true, if_false, false_or] at key ⊢
          simp only [List.singleton_append, List.cons_append, List.nil_append, Obeys]
          refine ⟨hw, backoff_exponent_bounded _, by first | rfl | trivial, ?_⟩
          exact key.mpr hrest
        · simp only [hok, if_true, List.append_nil, true_or, iff_true] at key ⊢
          simp only [List.singleton_append, Obeys]
          exact ⟨hw, backoff_exponent_bounded _, by first | rfl | trivial, key⟩
    · have hlt : s.pos < n := by omega
      cases o with
      | resolveFail =>
        have := ih ⟨s.pos + 1, s.exp⟩ (by show s.pos + 1 ≤ n; omega)
        simp [run, hn0, hw, Obeys, hlt] at this ⊢
        exact this
      | eps l =>
        have hrest := ih ⟨s.pos + 1, s.exp⟩ (by show s.pos + 1 ≤ n; omega)
        simp only [run, hn0, if_false, hw, ge_iff_le]
        have key := obeys_tryEps n s.pos 0 l (run n ⟨s.pos + 1, s.exp⟩ os).1
        cases hok : (tryEps s.pos 0 l).2
        · simp only [hok, Bool.false_eq_true, if_false, false_or] at key ⊢
          simp only [List.nil_append, Obeys]
          exact ⟨hlt, by first | rfl | trivial, key.mpr hrest⟩
        · simp only [hok, if_true, List.append_nil, true_or, iff_true] at key ⊢
          simp only [List.nil_append, Obeys]
          exact ⟨hlt, by first | rfl | trivial, key⟩

/-- **the pauses of one reconnect operation use the exponents `min(e,4), min(e+1,4), …`** (1 s, 2 s, 4 s, 8 s, 16 s, 16 s, … ± jitter) -/
theorem pauses_grow (n : Nat) (os : List Outcome) :
    ∀ s : St, pausesOf (run n s os).1 = expected s.exp (pausesOf (run n s os).1).length := by
  induction os with
  | nil => intro s; simp [run, pausesOf, expected]
  | cons o os ih =>
    intro s
    by_cases hn0 : n = 0
    · simp [run, hn0, pausesOf, expected]
    by_cases hw : s.pos ≥ n
    · cases o with
      | resolveFail =>
        have := ih ⟨0 + 1, (backoffStep s.exp).2⟩
        simp only [run, hn0, if_false, hw, if_true, List.singleton_append, pausesOf, List.length_cons, expected,
          ← backoffStep_fst, ← expected_step] at this ⊢
        rw [← this]
      | eps l =>
        have := ih ⟨0 + 1, (backoffStep s.exp).2⟩
        simp only [run, hn0, if_false, hw, if_true]
        cases hok : (tryEps 0 0 l).2
        · simp only [Bool.false_eq_true, if_false, List.singleton_append, pausesOf, pausesOf_append, tryEps_pauses,
            List.nil_append, List.length_cons, expected, ← backoffStep_fst, ← expected_step] at this ⊢
          rw [← this]
        · simp [pausesOf, tryEps_pauses, expected, backoffStep_fst]
    · cases o with
      | resolveFail =>
        have := ih ⟨s.pos + 1, s.exp⟩
        simp only [run, hn0, if_false, hw, List.nil_append, pausesOf] at this ⊢
        exact this
      | eps l =>
        have := ih ⟨s.pos + 1, s.exp⟩
        simp only [run, hn0, if_false, hw]
        cases hok : (tryEps s.pos 0 l).2
        · simp only [Bool.false_eq_true, if_false, List.nil_append, pausesOf, pausesOf_append, tryEps_pauses] at this ⊢
          exact this
        · simp [pausesOf, tryEps_pauses, expected]

/-- **a connection is established exactly when some attempt succeeded** (and then the operation stops: `Obeys` allows
nothing after `established`) -/
theorem established_iff_some_attempt_succeeds (n : Nat) (hn : 0 < n) (os : List Outcome) :
    ∀ s : St, (run n s os).1.any isEstablished = os.any Outcome.succeeds := by
  induction os with
  | nil => intro s; rfl
  | cons o os ih =>
    intro s
    have hn0 : ¬ n = 0 := by omega
    cases o with
    | resolveFail =>
      by_cases hw : s.pos ≥ n <;>
        simp [run, hn0, hw, isEstablished, Outcome.succeeds, ih]
    | eps l =>
      by_cases hw : s.pos ≥ n
      · simp only [run, hn0, if_false, hw, if_true]
        cases hok : (tryEps 0 0 l).2
        · have h1 := tryEps_established 0 0 l
          have h2 := tryEps_ok 0 0 l
          rw [hok] at h1 h2
          simp [isEstablished, Outcome.succeeds, ih, h1, ← h2]
        · have h1 := tryEps_established 0 0 l
          have h2 := tryEps_ok 0 0 l
          rw [hok] at h1 h2
          simp [isEstablished, Outcome.succeeds, h1, ← h2]
      · simp only [run, hn0, if_false, hw]
        cases hok : (tryEps s.pos 0 l).2
        · have h1 := tryEps_established s.pos 0 l
          have h2 := tryEps_ok s.pos 0 l
          rw [hok] at h1 h2
          simp [isEstablished, Outcome.succeeds, ih, h1, ← h2]
        · have h1 := tryEps_established s.pos 0 l
          have h2 := tryEps_ok s.pos 0 l
          rw [hok] at h1 h2
          simp [isEstablished, Outcome.succeeds, h1, ← h2]

/-! ## handshake -/

/-- **the handshake reads exactly the packet**: after the 5-byte header read, `remain` further bytes are requested and
header + Remaining Length = 5 + remain; the body handed to the decoder lies inside those bytes -/
theorem frame_reads_exactly_the_packet (b : Bs) (code first len remain : Nat) (h : frame b = .more code first len remain) :
    first + len = minPacketSz + remain ∧ 1 ≤ first ∧ first ≤ minPacketSz := by
  unfold frame at h
  simp only at h
  by_cases hc : (b.getD 0 0 / 16 * 16 ≠ 0xF0 ∧ b.getD 0 0 / 16 * 16 ≠ 0x20)
  · rw [if_pos hc] at h; cases h
  · rw [if_neg hc] at h
    by_cases hfl : b.getD 0 0 % 16 ≠ 0
    · rw [if_pos hfl] at h; cases h
    rw [if_neg hfl] at h
    have hg := Proofs.Dec.varint_good ⟨b, minPacketSz⟩ 1 minPacketSz (Nat.le_refl _)
    cases hv : Dec.varint ⟨b, minPacketSz⟩ 1 minPacketSz with
    | ok varlen p =>
      rw [hv] at h hg
      have hp : 1 ≤ p ∧ p ≤ minPacketSz := hg
      simp only at h
      by_cases hm : varlen < minPacketSz - p
      · rw [if_pos hm] at h; cases h
      · rw [if_neg hm] at h
        injection h with h1 h2 h3 h4
        subst h2 h3 h4
        unfold minPacketSz at *
        omega
    | fail => rw [hv] at h; cases h
    | oob => rw [hv] at h; cases h

/-- a frame is accepted only with all reserved bits of the first byte zero: the first byte is exactly the packet type -/
theorem frame_first_byte (b : Bs) (code first len remain : Nat) (h : frame b = .more code first len remain) :
    b.getD 0 0 = code ∧ (code = 0x20 ∨ code = 0xF0) := by
  unfold frame at h
  simp only at h
  by_cases hc : (b.getD 0 0 / 16 * 16 ≠ 0xF0 ∧ b.getD 0 0 / 16 * 16 ≠ 0x20)
  · rw [if_pos hc] at h; cases h
  · rw [if_neg hc] at h
    by_cases hfl : b.getD 0 0 % 16 ≠ 0
    · rw [if_pos hfl] at h; cases h
    rw [if_neg hfl] at h
    cases hv : Dec.varint ⟨b, minPacketSz⟩ 1 minPacketSz with
    | ok varlen p =>
      rw [hv] at h
      simp only at h
      by_cases hm : varlen < minPacketSz - p
      · rw [if_pos hm] at h; cases h
      · rw [if_neg hm] at h
        injection h with h1 h2 h3 h4
        subst h1
        omega
    | fail => rw [hv] at h; cases h
    | oob => rw [hv] at h; cases h

/-- the CONNACK decoder, run on the handshake buffer, never reads outside the bytes received for this packet -/
theorem handshake_decode_in_bounds (mem : Bs) (first len remain : Nat) (h : first + len = minPacketSz + remain) :
    Proofs.Dec.Good first (first + len) (Dec.decodeConnack ⟨mem, minPacketSz + remain⟩ first len) :=
  C19.connack_in_bounds ⟨mem, minPacketSz + remain⟩ first len (by simp [h])

/-- in the CONNACK category the only admitted code below 0x80 is Success -/
theorem connack_success_code (rc : Nat) (h : Verdict.admitted .connack rc = true) (hlt : rc < 0x80) : rc = 0 := by
  have key : Proofs.ReasonCode.check (fun c b => !(Verdict.admitted c b && decide (b < 0x80) && decide (c = .connack)) || decide (b = 0)) = true := by
    decide +kernel
  have := Proofs.ReasonCode.forall_of_check key .connack rc (by omega)
  simpa [h, hlt] using this

/-- **a connection is established only after a complete, well-formed CONNACK with reason code Success**: whatever bytes the
broker sends, `established` implies the framing accepted a CONNACK, the whole packet was received, the decoder succeeded
and the reason code is 0 -/
theorem established_only_after_success_connack (rx : Bs) (sp : Nat) (ps : Props) (h : handshake rx = .established sp ps) :
    rx.getD 0 0 = 0x20 ∧ sp ≤ 1 ∧
    ∃ first len remain, frame (rx.take minPacketSz) = .more 0x20 first len remain ∧ minPacketSz + remain ≤ rx.length ∧
      ∃ p, Dec.decodeConnack ⟨rx.take (minPacketSz + remain), minPacketSz + remain⟩ first len = .ok (sp, 0, ps) p := by
  unfold handshake at h
  split at h
  · cases h
  · split at h
    · cases h
    · cases h
    · rename_i code first len remain hf
      split at h
      · cases h
      · rename_i hlen
        split at h
        · cases h
        · rename_i hcode
          have hc : code = 0x20 := by simpa using hcode
          subst hc
          split at h
          · rename_i sp' rc ps' p hd
            split at h
            · cases h
            rename_i hsp
            split at h
            · cases h
            · rename_i hadm
              split at h
              · cases h
              · rename_i hrc
                injection h with h1 h2
                subst h1 h2
                have hz := connack_success_code rc (by simpa using hadm) (by omega)
                subst hz
                have hb := (frame_first_byte _ _ _ _ _ hf).1
                have hb' : rx.getD 0 0 = 0x20 := by
                  rw [← hb]
                  cases rx with
                  | nil => simp [minPacketSz] at *
                  | cons x r => simp [minPacketSz, List.getD]
                exact ⟨hb', by omega, first, len, remain, hf, by omega, p, hd⟩
          · cases h

/-- non-vacuity: three brokers, the first unresolvable, the second refusing on both endpoints, the third silent, then after
the wrap the first accepts — hosts 0,1,2, pause (exponent 0), host 0 -/
example : (run 3 ⟨0, 0⟩ [.resolveFail, .eps [false, false], .eps [false], .eps [true]]).1 =
    [.resolve 0, .resolve 1, .connect 1 0, .connect 1 1, .resolve 2, .connect 2 0, .pause 0, .resolve 0, .connect 0 0, .established 0 0] := by
  decide

/-- non-vacuity: a minimal successful CONNACK establishes, a refused one (0x87) does not, a truncated one waits -/
example : handshake [0x20, 3, 1, 0, 0] = .established 1 [] ∧ handshake [0x20, 3, 0, 0x87, 0] = .retry ∧
    handshake [0x20, 3, 0, 0] = .needMore 1 ∧ handshake [0x20, 1, 0, 0, 0] = .malformed ∧ handshake [0xD0, 0, 0, 0, 0] = .retry := by
  decide

end Mqtt5V.Props.C10
