import Mqtt5V.Model.ReasonCode
import Mqtt5V.Spec.ReasonCodes
import Mqtt5V.Proofs.ReasonCode
/-! # C20 — reason codes are admitted exactly as the MQTT 5 tables allow

The quantifier of the property is the finite table 9 categories × 256 byte values; every
theorem below is over *all* of it: a Boolean check over the whole table is evaluated by the
kernel (`decide +kernel`, no axiom) and lifted to the quantified statement by `forall_of_check`.
The model of `to_reason_code` is applied to the tables regenerated from the header. -/
namespace Mqtt5V.Props.C20
open Mqtt5V Model.ReasonCode Proofs.ReasonCode

/-- precondition of the binary search: every table in the header is strictly increasing -/
theorem tables_sorted : ∀ c : Category, (Gen.ReasonCodes.table c).Pairwise (· < ·) := by
  intro c; cases c <;> decide +kernel

/-- the lookup stays inside its table for all 256 byte values, in all nine categories -/
theorem lookup_in_bounds : ∀ (c : Category) (b : Nat), b < 256 → toReasonCode c b ≠ .oob := by
  have key : check (fun c b => decide (toReasonCode c b ≠ .oob)) = true := by decide +kernel
  intro c b hb
  simpa using forall_of_check key c b hb

/-- the admission decision is exactly membership in the header's table (hit or miss, never oob) -/
theorem admit_iff_table : ∀ (c : Category) (b : Nat), b < 256 →
    toReasonCode c b = (if b ∈ Gen.ReasonCodes.table c then .hit b else .miss) := by
  have key : check (fun c b => decide (toReasonCode c b =
      (if b ∈ Gen.ReasonCodes.table c then .hit b else .miss))) = true := by decide +kernel
  intro c b hb
  simpa using forall_of_check key c b hb

/-- a code is accepted only if MQTT 5 lists it for that packet type -/
theorem admitted_only_if_listed : ∀ (c : Category) (b : Nat), b < 256 →
    ∀ v, toReasonCode c b = .hit v → b ∈ Spec.ReasonCodes.listed c := by
  have key : check (fun c b => match toReasonCode c b with
      | .hit _ => decide (b ∈ Spec.ReasonCodes.listed c) | _ => true) = true := by decide +kernel
  intro c b hb v h
  have := forall_of_check key c b hb
  simp only [h] at this
  simpa using this

/-- a code is always accepted if MQTT 5 allows a Server to send it there -/
theorem server_codes_admitted : ∀ (c : Category) (b : Nat), b < 256 →
    b ∈ Spec.ReasonCodes.serverMaySend c → toReasonCode c b = .hit b := by
  have key : check (fun c b => !decide (b ∈ Spec.ReasonCodes.serverMaySend c)
      || decide (toReasonCode c b = .hit b)) = true := by decide +kernel
  intro c b hb hm
  have := forall_of_check key c b hb
  simpa [hm] using this

/-- an accepted code is reported with exactly the received value -/
theorem accepted_value_exact : ∀ (c : Category) (b : Nat), b < 256 →
    ∀ v, toReasonCode c b = .hit v → v = b := by
  have key : check (fun c b => match toReasonCode c b with
      | .hit v => decide (v = b) | _ => true) = true := by decide +kernel
  intro c b hb v h
  have := forall_of_check key c b hb
  simp only [h] at this
  simpa using this

/-- non-vacuity: 0x97 is accepted in PUBACK, 0x92 is not, 0x04 in DISCONNECT is listed but client-only -/
example : toReasonCode .puback 0x97 = .hit 0x97 ∧ toReasonCode .puback 0x92 = .miss
    ∧ 0x04 ∈ Spec.ReasonCodes.listed .disconnect ∧ 0x04 ∉ Spec.ReasonCodes.serverMaySend .disconnect := by
  decide +kernel

end Mqtt5V.Props.C20
