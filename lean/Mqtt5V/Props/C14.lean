import Mqtt5V.Proofs.TraceTruth
import Mqtt5V.Model.Verdict
import Mqtt5V.Props.C01
/-! # C14 — SUBSCRIBE/UNSUBSCRIBE complete with exactly the broker's per-topic verdicts (matching + verdict core)

* matching: SUBACK / UNSUBACK are routed to their waiter by (control code, packet identifier) exactly like the
  publish acknowledgements (theorems of `Props.C01` about the `replies` model, instantiated below);
* verdicts: the model of the check the operation applies to the decoded acknowledgement surfaces success only when
  the acknowledgement carried exactly one reason code per requested topic and every code is admissible for the
  packet type — and then the handler's codes are the acknowledgement's codes, unchanged and in order. -/
namespace Mqtt5V.Props.C14
open Mqtt5V Mqtt5V.Model.Verdict Mqtt5V.Model.ReasonCode

/-- **Wrong count or inadmissible code ⇒ never success; success ⇒ the acknowledgement's codes, one per topic, in order** -/
theorem verdict_success_iff (cat : Category) (n : Nat) (codes v : List Nat) :
    verdict cat n codes = some v ↔ (codes.length = n ∧ (∀ c ∈ codes, admitted cat c = true) ∧ v = codes) := by
  simp only [verdict, toReasonCodes]
  constructor
  · intro h
    by_cases hc : (codes.length != n || (codes.filter (admitted cat)).length != n) = true
    · simp [hc] at h
    · simp [hc] at h
      have h1 : codes.length = n := by
        cases Nat.decEq codes.length n with
        | isTrue e => exact e
        | isFalse e => exact absurd (by simp [e]) hc
      have h2 : (codes.filter (admitted cat)).length = n := by
        cases Nat.decEq (codes.filter (admitted cat)).length n with
        | isTrue e => exact e
        | isFalse e => exact absurd (by simp [e]) hc
      have hall : ∀ c ∈ codes, admitted cat c = true := by
        intro c hc'
        cases hna : admitted cat c with
        | true => rfl
        | false =>
          have hlt : (codes.filter (admitted cat)).length < codes.length :=
            List.length_filter_lt_length_iff_exists.mpr ⟨c, hc', by simp [hna]⟩
          omega
      exact ⟨h1, hall, by rw [← h, List.filter_eq_self.mpr hall]⟩
  · rintro ⟨h1, h2, rfl⟩
    have hall : v.filter (admitted cat) = v := List.filter_eq_self.mpr h2
    simp [hall, h1]

theorem bad_ack_never_success (cat : Category) (n : Nat) (codes : List Nat)
    (h : codes.length ≠ n ∨ ∃ c ∈ codes, admitted cat c = false) : verdict cat n codes = none := by
  cases hv : verdict cat n codes with
  | none => rfl
  | some v =>
    obtain ⟨h1, h2, _⟩ := (verdict_success_iff cat n codes v).mp hv
    rcases h with h | ⟨c, hc, hna⟩
    · exact absurd h1 h
    · rw [h2 c hc] at hna; cases hna

/-- the admission used here is the C20 lookup: an admitted code is one MQTT 5 lists for SUBACK / UNSUBACK -/
theorem admitted_iff_hit (cat : Category) (c : Nat) : admitted cat c = true ↔ ∃ v, toReasonCode cat c = .hit v := by
  unfold admitted; split <;> simp_all

/-- SUBACK / UNSUBACK reach only the waiter registered for (0x90 / 0xB0, the request's packet identifier) -/
theorem suback_routed_by_code_and_id (r : Model.Replies.R) (code p t : Nat) :
    (Model.Replies.step r (.dispatch code p t)).2 = [] ∨
    ∃ h ∈ r.handlers, h.code = code ∧ h.pid = p ∧ (Model.Replies.step r (.dispatch code p t)).2 = [⟨h.w, .ok, t⟩] :=
  C01.dispatch_completes_only_matching_waiter r code p t

/-- non-vacuity and the repaired defect as a fact about the model: 3 codes (one invalid) for 2 topics is not success -/
example : verdict .suback 2 [0x00, 0xFF, 0x01] = none ∧ verdict .suback 2 [0x00, 0x87] = some [0x00, 0x87] := by decide

/-! ## the composed client model (`Model/Trace.lean`)
One labelled transition system for the whole outbound path of the client above the stream (API call → sender → reply map → completion),
over the events an observer of the real client sees.  The tie: `lib/trace_check.py` replays every H-client transcript of the real
`mqtt_client` through the compiled model (`mdrv trace`); a transcript the model refuses is a broken correspondence.  The theorems below
hold for EVERY event list the model accepts, of any length. -/
section ComposedModel
open Mqtt5V.Model

/-- **C14 end to end, every accepted history**: when an `async_subscribe` / `async_unsubscribe` of `n` topics completes without error
with reason codes `rcs`, then earlier its SUBSCRIBE / UNSUBSCRIBE was written with a non-zero identifier `p`, after that a well-formed
SUBACK / UNSUBACK for `p` was read, and `rcs` are exactly the codes of that acknowledgement: one per topic, all admissible
(`goodAck` = `Verdict.verdict … = some …`), and `props` are its properties. -/
theorem composed_subscribe_success_truthful (pre post : List Trace.Ev) (op : Nat) (rcs : List Nat) (props : Nat)
    (hacc : Trace.accepts (pre ++ Trace.Ev.doneOk op rcs props :: post) = true) :
    ∃ p k n, Trace.Ev.init op k n ∈ pre ∧ p ≠ 0 ∧ Trace.Truthful pre op p k n rcs props :=
  Mqtt5V.Proofs.Trace.success_truthful hacc

/-- what `goodAck` means for the codes handed over: exactly one per requested topic, each admitted by the category table -/
theorem composed_good_ack_codes (a : Trace.Ack) (n : Nat) (h : Trace.goodAck a n = true) :
    a.wf = true ∧ a.rcs.length = n ∧ ∀ c ∈ a.rcs, admitted a.t.cat c = true := by
  simp only [Trace.goodAck, Bool.and_eq_true, Option.isSome_iff_exists] at h
  obtain ⟨hw, v, hv⟩ := h
  simp only [verdict] at hv
  split at hv
  · cases hv
  · rename_i hc
    simp only [bne_iff_ne, ne_eq, Bool.or_eq_true, not_or, Decidable.not_not, decide_eq_true_eq, Bool.not_eq_true, bne_eq_false_iff_eq] at hc
    refine ⟨hw, hc.1, ?_⟩
    have h1 : (toReasonCodes a.t.cat a.rcs).length = a.rcs.length := by rw [hc.1, hc.2]
    intro c hcm
    unfold toReasonCodes at h1
    exact (List.length_filter_eq_length_iff.1 h1) c hcm

example : Trace.accepts [.init 1 .sub 2, .connUp none, .wr, .pk (.subscribe 1 9 4), .wrOk, .rx ⟨.suback, 9, [1, 0x87], 2, true⟩,
    .doneOk 1 [1, 0x87] 2] = true := by decide
/-- a SUBACK with a wrong number of codes, or an inadmissible one, never leads to a success -/
example : Trace.accepts [.init 1 .sub 2, .connUp none, .wr, .pk (.subscribe 1 9 4), .wrOk, .rx ⟨.suback, 9, [1], 2, true⟩,
    .doneOk 1 [1] 2] = false := by decide
example : Trace.accepts [.init 1 .sub 1, .connUp none, .wr, .pk (.subscribe 1 9 4), .wrOk, .rx ⟨.suback, 9, [0xFF], 2, true⟩,
    .doneOk 1 [0xFF] 2] = false := by decide

end ComposedModel

end Mqtt5V.Props.C14
