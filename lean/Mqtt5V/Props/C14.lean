import Mqtt5V.Basic
namespace Mqtt5V.Props.C14
end Mqtt5V.Props.C14
