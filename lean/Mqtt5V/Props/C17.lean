import Mqtt5V.Proofs.TraceContent
import Mqtt5V.Proofs.Enc
/-! # C17 — every packet written is well-formed MQTT 5 and says exactly what was asked (encoder level)

`Spec.Wire.decode` is a strict MQTT 5 decoder written from the standard.  For every packet value `p`
that satisfies the explicit well-formedness predicate `WF p` (lengths and ranges that fit their wire
fields, properties the packet type may carry, non-repeatable ones at most once):
`Spec.Wire.decode (Enc.encode p) = some p` — correct fixed-header flags, Remaining Length equal to the
actual body size, only allowed properties, decoded fields equal to the values supplied.  And for *all*
packet values, well-formed or not, the declared Remaining Length is the length of the encoded body. -/
namespace Mqtt5V.Props.C17
open Mqtt5V.Wire Mqtt5V.Model.Enc Mqtt5V.Spec.Wire Mqtt5V.Proofs.Enc

theorem packet_eq (b0 d : Nat) (body : Bs) (h : d = body.length) :
    ∃ b0' body', packet b0 d body = packet b0' body'.length body' := ⟨b0, body, by rw [h]⟩

theorem subTopicsBody_length (ts : List (Bs × SubOpts)) : (subTopicsBody ts).length = subTopicsSize ts := by
  induction ts with
  | nil => rfl
  | cons t ts ih => obtain ⟨f, o⟩ := t; simp [subTopicsBody, subTopicsSize, lenPrefixed, lenPrefixedSize, be16, ih]; omega

theorem unsubTopicsBody_length (ts : List Bs) : (unsubTopicsBody ts).length = unsubTopicsSize ts := by
  induction ts with
  | nil => rfl
  | cons t ts ih => simp [unsubTopicsBody, unsubTopicsSize, lenPrefixed, lenPrefixedSize, be16, ih]; omega

theorem connectBody_length (c : Bs) (u pw : Option Bs) (ka cs : Nat) (ps : Props) (w : Option Will) :
    (connectBody c u pw ka cs ps w).length = connectBodySize c u pw ps w := by
  unfold connectBody connectBodySize
  cases w <;> cases u <;> cases pw <;>
    simp [lenPrefixed, lenPrefixedSize, optLenPrefixed, optLenPrefixedSize, be16, propsEncode_length] <;> omega

/-- **`byte_size()` and `encode()` agree for every combinator and every packet**: the size written into the
fixed header is the length of the body that follows, for all field values. -/
theorem remaining_length_is_body_size (p : Packet) :
    ∃ b0 body, encode p = packet b0 body.length body := by
  cases p with
  | connect c u pw ka cs ps w =>
    simp only [encode, encodeConnect]
    exact packet_eq _ _ _ (connectBody_length c u pw ka cs ps w).symm
  | connack sp rc ps => simp only [encode, encodeConnack]; apply packet_eq; simp [propsEncode_length]; omega
  | publish pid t pl q r d ps =>
    simp only [encode, encodePublish]
    apply packet_eq
    split <;> simp [lenPrefixed, lenPrefixedSize, be16, propsEncode_length] <;> omega
  | puback pid rc ps => simp only [encode, encodePuback, ackPacket]; apply packet_eq; simp [be16, propsEncode_length]; omega
  | pubrec pid rc ps => simp only [encode, encodePubrec, ackPacket]; apply packet_eq; simp [be16, propsEncode_length]; omega
  | pubrel pid rc ps => simp only [encode, encodePubrel, ackPacket]; apply packet_eq; simp [be16, propsEncode_length]; omega
  | pubcomp pid rc ps => simp only [encode, encodePubcomp, ackPacket]; apply packet_eq; simp [be16, propsEncode_length]; omega
  | subscribe pid ts ps =>
    simp only [encode, encodeSubscribe]; apply packet_eq
    simp [be16, propsEncode_length, subTopicsBody_length]; omega
  | suback pid rcs ps => simp only [encode, encodeSuback]; apply packet_eq; simp [be16, propsEncode_length]; omega
  | unsubscribe pid ts ps =>
    simp only [encode, encodeUnsubscribe]; apply packet_eq
    simp [be16, propsEncode_length, unsubTopicsBody_length]; omega
  | unsuback pid rcs ps => simp only [encode, encodeUnsuback]; apply packet_eq; simp [be16, propsEncode_length]; omega
  | pingreq => exact ⟨0xC0, [], rfl⟩
  | pingresp => exact ⟨0xD0, [], rfl⟩
  | disconnect rc ps => simp only [encode, encodeDisconnect]; apply packet_eq; simp [propsEncode_length]; omega
  | auth rc ps => simp only [encode, encodeAuth]; apply packet_eq; simp [propsEncode_length]; omega

/-- **Variable Byte Integer**: every value up to 268 435 455 is written in the minimal form the strict parser accepts -/
theorem varint_roundtrip (n : Nat) (h : n ≤ 268435455) (r : Bs) : pVarint (toVariableBytes n ++ r) = some (n, r) :=
  pVarint_roundtrip n h r

/-- the fixed header written by `packet` is read back: type/flags byte, Remaining Length, and the body is handed on -/
theorem decode_packet (b0 : Nat) (body : Bs) (hb : b0 < 256) (hn : body.length ≤ 268435455) :
    decode (packet b0 body.length body) = decodeBody b0 body := by
  have : b0 % 256 = b0 := by omega
  simp only [packet, this, decode]
  have h2 : ¬ b0 ≥ 256 := by omega
  simp only [h2, if_false]
  rw [pVarint_roundtrip _ hn]
  simp

theorem propsBodySize_pos (ps : Props) (h : ps ≠ []) : propsBodySize ps ≠ 0 := by
  cases ps with
  | nil => exact absurd rfl h
  | cons p ps => simp [propsBodySize, propSize]

theorem propsEncode_false_ne_nil (ps : Props) : propsEncode false ps ≠ [] := by
  intro h
  have := congrArg List.length h
  rw [propsEncode_length] at this
  simp only [propsSize, Bool.false_and, Bool.false_eq_true, if_false, List.length_nil, variableLength] at this
  repeat' split at this
  all_goals omega

/-- well-formed PUBACK / PUBREC / PUBREL / PUBCOMP fields -/
structure WFAck (pid rc : Nat) (ps : Props) : Prop where
  pid : 1 ≤ pid ∧ pid < 65536
  rc : rc < 256
  props : WFProps allowedAck [userProp] ps

theorem ackBody_roundtrip (pid rc : Nat) (ps : Props) (h : WFAck pid rc ps) :
    pAckBody (be16 pid ++ [rc % 256] ++ propsEncode true ps) = some (pid, rc, ps) := by
  have hrc : rc % 256 = rc := by have := h.rc; omega
  have hpid : ¬ pid = 0 := by have := h.pid; omega
  unfold pAckBody
  rw [List.append_assoc, pU16_be16 _ h.pid.2]
  simp only [hpid, if_false, hrc, List.singleton_append]
  by_cases hps : ps = []
  · subst hps
    have : propsEncode true [] = [] := by simp [propsEncode, propsBodySize]
    simp [this, pU8, h.rc]
  · have hsz := propsBodySize_pos ps hps
    have he : propsEncode true ps = propsEncode false ps := by simp [propsEncode, hsz]
    have hne := propsEncode_false_ne_nil ps
    rw [he]
    simp only [pU8, h.rc, if_true]
    cases hc : propsEncode false ps with
    | nil => exact absurd hc hne
    | cons x xs =>
      rw [← hc]
      have := pProps_roundtrip allowedAck [userProp] ps h.props []
      simp only [List.append_nil] at this
      rw [this]

/-- **PUBACK, PUBREC, PUBREL, PUBCOMP** parse under the independent decoder to exactly the supplied fields
(properties omitted when there are none, as the standard permits) -/
theorem ack_encode_decodes (pid rc : Nat) (ps : Props) (h : WFAck pid rc ps) (hsz : 3 + propsSize true ps ≤ 268435455) :
    decode (encodePuback pid rc ps) = some (.puback pid rc ps) ∧
    decode (encodePubrec pid rc ps) = some (.pubrec pid rc ps) ∧
    decode (encodePubrel pid rc ps) = some (.pubrel pid rc ps) ∧
    decode (encodePubcomp pid rc ps) = some (.pubcomp pid rc ps) := by
  have hl : (be16 pid ++ [rc % 256] ++ propsEncode true ps).length = 2 + 1 + propsSize true ps := by
    simp [be16, propsEncode_length]; omega
  have hb := ackBody_roundtrip pid rc ps h
  refine ⟨?_, ?_, ?_, ?_⟩ <;>
  · simp only [encodePuback, encodePubrec, encodePubrel, encodePubcomp, ackPacket]
    rw [← hl, decode_packet _ _ (by decide) (by rw [hl]; omega)]
    simp [decodeBody]
    exact ⟨pid, rc, ps, by simpa using hb, rfl, rfl, rfl⟩

/-- well-formed DISCONNECT / AUTH fields -/
structure WFRcProps (allowed : List Nat) (rc : Nat) (ps : Props) : Prop where
  rc : rc < 256
  props : WFProps allowed [userProp] ps

theorem rcProps_roundtrip (allowed : List Nat) (rc : Nat) (ps : Props) (h : WFRcProps allowed rc ps) :
    pRcProps allowed ([rc % 256] ++ propsEncode false ps) = some (rc, ps) := by
  have hrc : rc % 256 = rc := by have := h.rc; omega
  have hne := propsEncode_false_ne_nil ps
  simp only [pRcProps, hrc, List.singleton_append, pU8, h.rc, if_true]
  cases hc : propsEncode false ps with
  | nil => exact absurd hc hne
  | cons x xs =>
    rw [← hc]
    have := pProps_roundtrip allowed [userProp] ps h.props []
    simp only [List.append_nil] at this
    rw [this]

/-- **DISCONNECT** and **AUTH** -/
theorem disconnect_auth_encode_decodes (rc : Nat) (ps : Props) (hsz : 1 + propsSize false ps ≤ 268435455) :
    (WFRcProps allowedDisconnect rc ps → decode (encodeDisconnect rc ps) = some (.disconnect rc ps)) ∧
    (WFRcProps allowedAuth rc ps → decode (encodeAuth rc ps) = some (.auth rc ps)) := by
  have hl : ([rc % 256] ++ propsEncode false ps).length = 1 + propsSize false ps := by
    simp [propsEncode_length]; omega
  constructor <;> intro h
  · simp only [encodeDisconnect]
    rw [← hl, decode_packet _ _ (by decide) (by rw [hl]; omega)]
    simp [decodeBody]
    simpa using rcProps_roundtrip _ rc ps h
  · simp only [encodeAuth]
    rw [← hl, decode_packet _ _ (by decide) (by rw [hl]; omega)]
    simp [decodeBody]
    simpa using rcProps_roundtrip _ rc ps h

/-- **PINGREQ** -/
theorem pingreq_encode_decodes : decode encodePingreq = some .pingreq := by decide

/-- well-formed PUBLISH fields -/
structure WFPublish (pid : Option Nat) (topic : Bs) (qos retain dup : Nat) (ps : Props) : Prop where
  htopic : topic.length ≤ 65535
  hqos : qos ≤ 2
  hretain : retain ≤ 1
  hdup : dup ≤ 1
  hdup0 : qos = 0 → dup = 0
  hpid : (qos = 0 → pid = none) ∧ (qos ≠ 0 → ∃ p, pid = some p ∧ 1 ≤ p ∧ p < 65536)
  hprops : WFProps allowedPublish [userProp, subId] ps

/-- **PUBLISH** (any payload bytes, any QoS, DUP/RETAIN flags, packet identifier only for QoS > 0) -/
theorem publish_encode_decodes (pid : Option Nat) (topic payload : Bs) (qos retain dup : Nat) (ps : Props)
    (h : WFPublish pid topic qos retain dup ps)
    (hsz : lenPrefixedSize topic + 2 + propsSize false ps + payload.length ≤ 268435455) :
    decode (encode (.publish pid topic payload qos retain dup ps)) = some (.publish pid topic payload qos retain dup ps) := by
  obtain ⟨ht, hq, hr, hd, hd0, hpid, hps⟩ := h
  simp only [encode, encodePublish]
  have hb0 : ((3 * 2 + dup) * 4 + qos) * 2 + retain < 256 := by omega
  by_cases hq0 : qos = 0
  · have hpn := hpid.1 hq0
    have hdz := hd0 hq0
    subst hq0; subst hpn; subst hdz
    simp only [ne_eq, not_true_eq_false, if_false, Option.getD_none, List.append_nil]
    have hl : (lenPrefixed topic ++ propsEncode false ps ++ payload).length
        = lenPrefixedSize topic + 0 + propsSize false ps + payload.length := by
      simp [lenPrefixed, lenPrefixedSize, be16, propsEncode_length]; omega
    rw [← hl, decode_packet _ _ hb0 (by rw [hl]; simp [lenPrefixedSize] at hsz ⊢; omega)]
    have hrr : retain = 0 ∨ retain = 1 := by omega
    simp only [decodeBody, List.append_nil, List.append_assoc]
    rw [pBin_lenPrefixed _ ht]
    rcases hrr with rfl | rfl <;> simp [pProps_roundtrip _ _ ps hps]
  · obtain ⟨p, hp, hp1, hp2⟩ := hpid.2 hq0
    subst hp
    simp only [ne_eq, hq0, not_false_eq_true, if_true, Option.getD_some]
    have hl : (lenPrefixed topic ++ be16 p ++ propsEncode false ps ++ payload).length
        = lenPrefixedSize topic + 2 + propsSize false ps + payload.length := by
      simp [lenPrefixed, lenPrefixedSize, be16, propsEncode_length]; omega
    rw [← hl, decode_packet _ _ hb0 (by rw [hl]; omega)]
    have hp0 : ¬ p = 0 := by omega
    simp only [decodeBody, List.append_assoc]
    rw [pBin_lenPrefixed _ ht]
    have hqq : qos = 1 ∨ qos = 2 := by omega
    have hrr : retain = 0 ∨ retain = 1 := by omega
    have hdd : dup = 0 ∨ dup = 1 := by omega
    rcases hqq with rfl | rfl <;> rcases hrr with rfl | rfl <;> rcases hdd with rfl | rfl <;>
      simp [pU16_be16 _ hp2, hp0, pProps_roundtrip _ _ ps hps]

/-- well-formed subscription options and filters -/
def WFSubTopic (t : Bs × SubOpts) : Prop :=
  t.1.length ≤ 65535 ∧ t.2.maxQos ≤ 2 ∧ t.2.noLocal ≤ 1 ∧ t.2.retainAsPublished ≤ 1 ∧ t.2.retainHandling ≤ 2

theorem subTopics_roundtrip (ts : List (Bs × SubOpts)) (h : ∀ t ∈ ts, WFSubTopic t) :
    ∀ fuel, (subTopicsBody ts).length ≤ fuel → pSubTopics fuel (subTopicsBody ts) = some ts := by
  induction ts with
  | nil => intro fuel _; cases fuel <;> rfl
  | cons t ts ih =>
    intro fuel hf
    obtain ⟨f, o⟩ := t
    obtain ⟨h1, h2, h3, h4, h5⟩ := h (f, o) (by simp)
    simp only at h1 h2 h3 h4 h5
    have hbody : subTopicsBody ((f, o) :: ts) = lenPrefixed f ++ (subOptsByte o :: subTopicsBody ts) := by
      simp [subTopicsBody]
    cases fuel with
    | zero => rw [hbody] at hf; simp [lenPrefixed, be16] at hf
    | succ fuel =>
      have hne : ∃ x xs, subTopicsBody ((f, o) :: ts) = x :: xs := by
        rw [hbody]; simp [lenPrefixed, be16]
      obtain ⟨x, xs, hx⟩ := hne
      rw [hx]
      simp only [pSubTopics]
      rw [← hx, hbody, pBin_lenPrefixed _ h1]
      have hob : subOptsByte o = ((o.retainHandling * 2 + o.retainAsPublished) * 2 + o.noLocal) * 4 + o.maxQos := by
        unfold subOptsByte; omega
      have hc : subOptsByte o < 64 ∧ subOptsByte o % 4 ≠ 3 ∧ subOptsByte o / 16 % 4 ≠ 3 := by rw [hob]; omega
      simp only [hc, and_self, if_true, ne_eq, not_false_eq_true]
      rw [ih (fun t ht => h t (by simp [ht])) fuel (by rw [hbody] at hf; simp [lenPrefixed, be16] at hf ⊢; omega)]
      simp only [Option.map_some]
      cases o with
      | mk q nl rap rh =>
        simp only at h2 h3 h4 h5 hob
        have e1 : subOptsByte ⟨q, nl, rap, rh⟩ % 4 = q := by rw [hob]; omega
        have e2 : subOptsByte ⟨q, nl, rap, rh⟩ / 4 % 2 = nl := by rw [hob]; omega
        have e3 : subOptsByte ⟨q, nl, rap, rh⟩ / 8 % 2 = rap := by rw [hob]; omega
        have e4 : subOptsByte ⟨q, nl, rap, rh⟩ / 16 % 4 = rh := by rw [hob]; omega
        rw [e1, e2, e3, e4]

/-- **SUBSCRIBE** -/
theorem subscribe_encode_decodes (pid : Nat) (ts : List (Bs × SubOpts)) (ps : Props)
    (hpid : 1 ≤ pid ∧ pid < 65536) (hts : ts ≠ []) (hwf : ∀ t ∈ ts, WFSubTopic t)
    (hps : WFProps allowedSubscribe [userProp] ps)
    (hsz : 2 + propsSize false ps + subTopicsSize ts ≤ 268435455) :
    decode (encode (.subscribe pid ts ps)) = some (.subscribe pid ts ps) := by
  simp only [encode, encodeSubscribe]
  have hl : (be16 pid ++ propsEncode false ps ++ subTopicsBody ts).length = 2 + propsSize false ps + subTopicsSize ts := by
    simp [be16, propsEncode_length, subTopicsBody_length]; omega
  rw [← hl, decode_packet _ _ (by decide) (by rw [hl]; omega)]
  have hp0 : ¬ pid = 0 := by omega
  simp only [decodeBody, List.append_assoc]
  simp
  rw [pU16_be16 _ hpid.2]
  simp only [hp0, if_false]
  rw [pProps_roundtrip _ _ ps hps]
  simp only []
  rw [subTopics_roundtrip ts hwf _ (Nat.le_refl _)]
  cases ts with
  | nil => exact absurd rfl hts
  | cons t ts => rfl

theorem topics_roundtrip (ts : List Bs) (h : ∀ t ∈ ts, t.length ≤ 65535) :
    ∀ fuel, (unsubTopicsBody ts).length ≤ fuel → pTopics fuel (unsubTopicsBody ts) = some ts := by
  induction ts with
  | nil => intro fuel _; cases fuel <;> rfl
  | cons t ts ih =>
    intro fuel hf
    have h1 := h t (by simp)
    cases fuel with
    | zero => simp [unsubTopicsBody, lenPrefixed, be16] at hf
    | succ fuel =>
      have hne : ∃ x xs, unsubTopicsBody (t :: ts) = x :: xs := by simp [unsubTopicsBody, lenPrefixed, be16]
      obtain ⟨x, xs, hx⟩ := hne
      rw [hx]
      simp only [pTopics]
      rw [← hx]
      simp only [unsubTopicsBody]
      rw [pBin_lenPrefixed _ h1]
      simp only []
      rw [ih (fun t ht => h t (by simp [ht])) fuel (by simp [unsubTopicsBody, lenPrefixed, be16] at hf ⊢; omega)]
      rfl

/-- **UNSUBSCRIBE** -/
theorem unsubscribe_encode_decodes (pid : Nat) (ts : List Bs) (ps : Props)
    (hpid : 1 ≤ pid ∧ pid < 65536) (hts : ts ≠ []) (hwf : ∀ t ∈ ts, t.length ≤ 65535)
    (hps : WFProps allowedUnsubscribe [userProp] ps)
    (hsz : 2 + propsSize false ps + unsubTopicsSize ts ≤ 268435455) :
    decode (encode (.unsubscribe pid ts ps)) = some (.unsubscribe pid ts ps) := by
  simp only [encode, encodeUnsubscribe]
  have hl : (be16 pid ++ propsEncode false ps ++ unsubTopicsBody ts).length = 2 + propsSize false ps + unsubTopicsSize ts := by
    simp [be16, propsEncode_length, unsubTopicsBody_length]; omega
  rw [← hl, decode_packet _ _ (by decide) (by rw [hl]; omega)]
  have hp0 : ¬ pid = 0 := by omega
  simp only [decodeBody, List.append_assoc]
  simp
  rw [pU16_be16 _ hpid.2]
  simp only [hp0, if_false]
  rw [pProps_roundtrip _ _ ps hps]
  simp only []
  rw [topics_roundtrip ts hwf _ (Nat.le_refl _)]
  cases ts with
  | nil => exact absurd rfl hts
  | cons t ts => rfl

/-- well-formed CONNECT configuration -/
structure WFConnect (cid : Bs) (user pass : Option Bs) (ka cs : Nat) (ps : Props) (w : Option Will) : Prop where
  hcid : cid.length ≤ 65535
  huser : ∀ u, user = some u → u.length ≤ 65535
  hpass : ∀ p, pass = some p → p.length ≤ 65535
  hka : ka < 65536
  hcs : cs ≤ 1
  hprops : WFProps allowedConnect [userProp] ps
  hwill : ∀ x, w = some x → x.topic.length ≤ 65535 ∧ x.message.length ≤ 65535 ∧ x.qos ≤ 2 ∧ x.retain ≤ 1 ∧
    WFProps allowedWill [userProp] x.props

theorem connectBody_roundtrip (cid : Bs) (user pass : Option Bs) (ka cs : Nat) (ps : Props) (w : Option Will)
    (h : WFConnect cid user pass ka cs ps w) :
    pConnectBody (connectBody cid user pass ka cs ps w) = some (.connect cid user pass ka cs ps w) := by
  unfold connectBody
  obtain ⟨hcid, huser, hpass, hka, hcs, hps, hwill⟩ := h
  unfold pConnectBody
  rw [pBin_lenPrefixed _ (by decide)]
  simp only [List.singleton_append, List.cons_append, List.nil_append]
  cases w with
  | none =>
    have hub : boolN user.isSome ≤ 1 := by unfold boolN; split <;> omega
    have hpb : boolN pass.isSome ≤ 1 := by unfold boolN; split <;> omega
    have hflv0 : connectFlags user pass cs none = ((boolN user.isSome * 2 + boolN pass.isSome) * 32 + cs) * 2 := by
      simp [connectFlags, boolN]; omega
    generalize connectFlags user pass cs none = fl at hflv0 ⊢
    have hflv := hflv0
    have e : fl % 256 = fl := by omega
    rw [e]
    have c1 : ¬ (fl ≥ 256 ∨ fl % 2 ≠ 0) := by omega
    have c2 : ¬ (fl / 8 % 4 = 3 ∨ fl / 4 % 2 = 0 ∧ (fl / 8 % 4 ≠ 0 ∨ fl / 32 % 2 ≠ 0)) := by omega
    simp only [c1, c2, if_false]
    rw [pU16_be16 _ hka]; simp only []
    rw [pProps_roundtrip _ _ ps hps]; simp only []
    rw [pBin_lenPrefixed _ hcid]; simp only []
    have d1 : ¬ fl / 4 % 2 = 1 := by omega
    have d4 : fl / 2 % 2 = cs := by omega
    simp only [d1, if_false]
    cases user with
    | none =>
      cases pass with
      | none =>
        have d2 : ¬ fl / 128 % 2 = 1 := by simp [boolN] at hflv; omega
        have d3 : ¬ fl / 64 % 2 = 1 := by simp [boolN] at hflv; omega
        simp [optLenPrefixed, d2, d3, d4]
      | some pw =>
        have d2 : ¬ fl / 128 % 2 = 1 := by simp [boolN] at hflv; omega
        have d3 : fl / 64 % 2 = 1 := by simp [boolN] at hflv; omega
        have h2 := pBin_lenPrefixed pw (hpass pw rfl) []
        simp only [List.append_nil] at h2
        simp [optLenPrefixed, d2, d3, d4, h2]
    | some u =>
      cases pass with
      | none =>
        have d2 : fl / 128 % 2 = 1 := by simp [boolN] at hflv; omega
        have d3 : ¬ fl / 64 % 2 = 1 := by simp [boolN] at hflv; omega
        have h2 := pBin_lenPrefixed u (huser u rfl) []
        simp only [List.append_nil] at h2
        simp [optLenPrefixed, d2, d3, d4, h2]
      | some pw =>
        have d2 : fl / 128 % 2 = 1 := by simp [boolN] at hflv; omega
        have d3 : fl / 64 % 2 = 1 := by simp [boolN] at hflv; omega
        have h2 := pBin_lenPrefixed pw (hpass pw rfl) []
        simp only [List.append_nil] at h2
        simp [optLenPrefixed, d2, d3, d4, pBin_lenPrefixed u (huser u rfl), h2]
  | some x =>
    obtain ⟨hwt, hwm, hwq, hwr, hwp⟩ := hwill x rfl
    have hflv0 : connectFlags user pass cs (some x) = (((((boolN user.isSome * 2 + boolN pass.isSome) * 2 + x.retain) * 4 + x.qos) * 2 + 1) * 2 + cs) * 2 := by
      simp [connectFlags, boolN]
    generalize connectFlags user pass cs (some x) = fl at hflv0 ⊢
    have hflv := hflv0
    have hub : boolN user.isSome ≤ 1 := by unfold boolN; split <;> omega
    have hpb : boolN pass.isSome ≤ 1 := by unfold boolN; split <;> omega
    have e : fl % 256 = fl := by omega
    rw [e]
    have c1 : ¬ (fl ≥ 256 ∨ fl % 2 ≠ 0) := by omega
    have c2 : ¬ (fl / 8 % 4 = 3 ∨ fl / 4 % 2 = 0 ∧ (fl / 8 % 4 ≠ 0 ∨ fl / 32 % 2 ≠ 0)) := by omega
    simp only [c1, c2, if_false]
    rw [pU16_be16 _ hka]; simp only []
    rw [pProps_roundtrip _ _ ps hps]; simp only []
    rw [pBin_lenPrefixed _ hcid]; simp only []
    have d1 : fl / 4 % 2 = 1 := by omega
    have d4 : fl / 2 % 2 = cs := by omega
    have d5 : fl / 8 % 4 = x.qos := by omega
    have d6 : fl / 32 % 2 = x.retain := by omega
    simp only [d1, if_true, List.append_assoc]
    rw [pProps_roundtrip _ _ x.props hwp]; simp only []
    rw [pBin_lenPrefixed _ hwt]; simp only []
    rw [pBin_lenPrefixed _ hwm]; simp only []
    cases user with
    | none =>
      cases pass with
      | none =>
        have d2 : ¬ fl / 128 % 2 = 1 := by simp [boolN] at hflv; omega
        have d3 : ¬ fl / 64 % 2 = 1 := by simp [boolN] at hflv; omega
        simp [optLenPrefixed, d2, d3, d4, d5, d6]
      | some pw =>
        have d2 : ¬ fl / 128 % 2 = 1 := by simp [boolN] at hflv; omega
        have d3 : fl / 64 % 2 = 1 := by simp [boolN] at hflv; omega
        have h2 := pBin_lenPrefixed pw (hpass pw rfl) []
        simp only [List.append_nil] at h2
        simp [optLenPrefixed, d2, d3, d4, d5, d6, h2]
    | some u =>
      cases pass with
      | none =>
        have d2 : fl / 128 % 2 = 1 := by simp [boolN] at hflv; omega
        have d3 : ¬ fl / 64 % 2 = 1 := by simp [boolN] at hflv; omega
        have h2 := pBin_lenPrefixed u (huser u rfl) []
        simp only [List.append_nil] at h2
        simp [optLenPrefixed, d2, d3, d4, d5, d6, h2]
      | some pw =>
        have d2 : fl / 128 % 2 = 1 := by simp [boolN] at hflv; omega
        have d3 : fl / 64 % 2 = 1 := by simp [boolN] at hflv; omega
        have h2 := pBin_lenPrefixed pw (hpass pw rfl) []
        simp only [List.append_nil] at h2
        simp [optLenPrefixed, d2, d3, d4, d5, d6, pBin_lenPrefixed u (huser u rfl), h2]

/-- **CONNECT**: client identifier, user name / password presence, Will (with its properties, QoS, retain), keep-alive,
Clean Start and the CONNECT properties are read back exactly by the independent decoder -/
theorem connect_encode_decodes (cid : Bs) (user pass : Option Bs) (ka cs : Nat) (ps : Props) (w : Option Will)
    (h : WFConnect cid user pass ka cs ps w) (hsz : connectBodySize cid user pass ps w ≤ 268435455) :
    decode (encode (.connect cid user pass ka cs ps w)) = some (.connect cid user pass ka cs ps w) := by
  simp only [encode, encodeConnect]
  rw [← connectBody_length cid user pass ka cs ps w,
    decode_packet _ _ (by decide) (by rw [connectBody_length]; exact hsz)]
  simp [decodeBody]
  exact connectBody_roundtrip cid user pass ka cs ps w h

/-- non-vacuity: a QoS 1 PUBLISH with a user property and a topic alias satisfies `WFPublish`/`WFProps` -/
example : WFPublish (some 7) [97, 47, 98] 1 0 0 [⟨35, .u16 3⟩, ⟨38, .pair [107] [118]⟩] := by
  refine ⟨by decide, by decide, by decide, by decide, by decide, ⟨by decide, fun _ => ⟨7, rfl, by decide, by decide⟩⟩, ?_⟩
  refine ⟨?_, by decide, by decide⟩
  intro p hp
  simp at hp
  rcases hp with rfl | rfl <;> exact ⟨by decide, by decide, by decide, by simp [WFVal]⟩

/-! ## the composed client model, content of requests (`Model/TraceContent.lean`)
The front end (`lib/trace_abs.py: abstract_content`) computes the content identity of a publish (topic, payload, QoS, retain, canonical
properties) twice: from the arguments of the API call and from the packet the independent reference decoder reads off the wire; the tie
(`lib/trace_check.py`) replays every H-client transcript. -/
section ComposedContent
open Mqtt5V.Model

/-- **every accepted history**: whenever a PUBLISH of operation `op` is written — first transmission or retransmission, on any connection —
it says exactly what the operation's `async_publish` call said, and that call came before -/
theorem composed_request_says_what_was_asked (pre post : List TraceContent.Ev) (op c : Nat)
    (hacc : TraceContent.accepts (pre ++ TraceContent.Ev.req op c :: post) = true) : TraceContent.Ev.init op c ∈ pre :=
  Mqtt5V.Proofs.TraceContent.request_says_what_was_asked hacc

example : TraceContent.accepts [.init 1 5, .init 2 6, .req 1 5, .req 2 6, .req 1 5] = true := by decide
example : TraceContent.accepts [.init 1 5, .req 1 6] = false := by decide
example : TraceContent.accepts [.req 1 5] = false := by decide

end ComposedContent

end Mqtt5V.Props.C17
