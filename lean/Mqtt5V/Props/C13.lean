import Mqtt5V.Basic
namespace Mqtt5V.Props.C13
end Mqtt5V.Props.C13
