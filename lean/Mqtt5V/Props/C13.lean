import Mqtt5V.Proofs.TraceInOrder
import Mqtt5V.Model.Session
import Mqtt5V.Props.C10
/-! # C13 — losing the session is reported once through async_receive (flag machine)

Model of the two session flags.  For every history of reconnects (any Session Present value), session
refreshes (`update_session_state`, called from both the read and the write path, any number of times per
connection) and successful subscriptions: a refresh stores `session_expired` exactly when the connection's
CONNACK had Session Present = 0, this is the first refresh of that connection, and a subscription succeeded since
the client started or since the previous report; never otherwise. -/
namespace Mqtt5V.Props.C13
open Mqtt5V.Model.Session

/-- a refresh reports iff the session was not resumed and a subscription has succeeded since the last report -/
theorem report_iff (s : Sess) : (step s .update).2 = (!s.sessionPresent && s.subsPresent) := by
  unfold step; cases s.sessionPresent <;> cases s.subsPresent <;> rfl

/-- **idempotence**: the second and later refreshes of the same connection (read path and write path both call it)
report nothing and change nothing -/
theorem second_update_silent (s : Sess) :
    (step (step s .update).1 .update) = ((step s .update).1, false) := by
  cases s with
  | mk sp su => cases sp <;> cases su <;> rfl

/-- **resumed session ⇒ no report, and the subscription memory is kept** for a later loss -/
theorem resumed_no_report (s : Sess) :
    (step (step s (.connack true)).1 .update) = ({ s with sessionPresent := true }, false) := by
  simp [step]

/-- **lost session after a successful subscription ⇒ exactly one report**, then the memory is cleared -/
theorem lost_after_subscription_reports_once (s : Sess) (h : s.subsPresent = true) :
    (step (step s (.connack false)).1 .update).2 = true ∧
    (step (step s (.connack false)).1 .update).1 = { sessionPresent := true, subsPresent := false } := by
  simp [step, h]

/-- **no successful subscription since the last report ⇒ none** -/
theorem lost_without_subscription_silent (s : Sess) (h : s.subsPresent = false) :
    (step (step s (.connack false)).1 .update).2 = false := by
  simp [step, h]

/-- number of reports of a history -/
def reports (is : List In) : Nat := ((run {} is).2.filter id).length

/-- specification: walk the history; a report is due at the first refresh after a CONNACK with Session Present 0
when a subscription succeeded since the previous report (or the start) -/
def specReports : Bool → Bool → List In → Nat   -- (pending loss, subscribed since last report)
  | _, _, [] => 0
  | _, sub, .connack sp :: is => specReports (!sp) sub is
  | lost, sub, .update :: is => (if lost && sub then 1 else 0) + specReports false (if lost then false else sub) is
  | lost, _, .subOk :: is => specReports lost true is

/-- **exactly one report per lost session with a subscription since the last report — for every history** -/
theorem reports_match_spec (is : List In) : reports is = specReports true false is := by
  unfold reports
  suffices h : ∀ (s : Sess) (is : List In),
      ((run s is).2.filter id).length = specReports (!s.sessionPresent) s.subsPresent is from by
    simpa using h {} is
  intro s is
  induction is generalizing s with
  | nil => simp [run, specReports]
  | cons i is ih =>
    cases i with
    | connack sp =>
      simp only [run, step, specReports]
      rw [List.filter_cons]; simp only [id, Bool.false_eq_true, if_false]
      exact ih _
    | update =>
      simp only [run, specReports]
      rw [List.filter_cons]
      have := ih (step s .update).1
      cases hsp : s.sessionPresent <;> cases hsu : s.subsPresent <;>
        simp_all [step, id] <;> omega
    | subOk =>
      simp only [run, specReports]
      rw [List.filter_cons]
      have := ih (step s .subOk).1
      cases hsu : s.subsPresent <;> simp_all [step, id]

/-- non-vacuity: subscribe, resume, lose, lose again without subscribing: one report -/
example : (run {} [.connack false, .update, .update, .subOk, .connack true, .update, .connack false, .update, .update,
    .connack false, .update]).2 = [false, false, false, false, false, false, false, true, false, false, false] := by decide

/-! ## the composed client model, inbound side (`Model/TraceIn.lean`; tie: every H-client transcript of the real client must be accepted) -/
section ComposedModel
open Mqtt5V.Model

/-- **C13 end to end, every accepted history**: after every prefix the application has been handed at most as many `session_expired` reports as
are due — `TraceIn.expiryDue`, computed from the events alone: one for every reconnect with Session Present = 0 that follows a successful
subscription not yet reported; none for a resumed session, none without a subscription since the last report. (That a due report is
delivered, and ahead of the messages of the new session, is the monitor's part: the report is stored into the first-in-first-out channel at
the reconnect, before anything of the new connection is read.) -/
theorem composed_expired_reports_bounded (tr pre post : List TraceIn.Ev) (hacc : TraceIn.accepts tr = true) (hsplit : tr = pre ++ post) :
    TraceIn.cnt TraceIn.isDeliverExp pre ≤ TraceIn.expiryDue pre :=
  Mqtt5V.Proofs.TraceIn.expired_reports_bounded hacc pre post hsplit

example : TraceIn.accepts [.connUp false, .subOk, .connUp true, .connUp false, .deliver 9 0 0, .connUp false] = true := by decide
example : TraceIn.accepts [.connUp false, .subOk, .connUp false, .deliver 9 0 0, .connUp false, .deliver 9 0 0] = false := by decide
example : TraceIn.accepts [.connUp false, .subOk, .connUp true, .deliver 9 0 0] = false := by decide

/-- **C13 end to end (order), every accepted history**: after every prefix, what the application was handed on the QoS 0 lane of the receive
channel — QoS 0 messages and `session_expired` reports (written `0`; real messages are numbered from 1) — is, in this order, a subsequence
of what became due on that lane (`TraceIn.laneDue`, from the events alone: every QoS 0 message when it is received, a report at the reconnect
that loses the session). So a report is never handed over after a QoS 0 message that arrived after the session was lost; QoS 1 / QoS 2
messages of the new session enter the same first-in-first-out channel later still (only when their acknowledgement has been written). -/
theorem composed_report_ahead_of_new_messages (tr pre post : List TraceIn.Ev) (hacc : TraceIn.accepts tr = true) (hsplit : tr = pre ++ post) :
    (TraceIn.laneDelivered pre).Sublist (TraceIn.laneDue pre) :=
  Mqtt5V.Proofs.TraceIn.lane_in_order hacc pre post hsplit

example : TraceIn.accepts [.connUp false, .subOk, .connUp false, .rxPub 0 0 5, .deliver 9 0 0, .deliver 0 0 5] = true := by decide
example : TraceIn.accepts [.connUp false, .subOk, .connUp false, .rxPub 0 0 5, .deliver 0 0 5, .deliver 9 0 0] = false := by decide

end ComposedModel


section Handshake
open Mqtt5V.Model Mqtt5V.Model.Connect

/-- the first value `decodeConnack` returns is the byte at the start of the variable header: the Connect Acknowledge Flags -/
theorem decodeConnack_flags (c : Dec.Ctx) (pos remain sp rc : Nat) (ps : Wire.Props) (p : Nat)
    (h : Dec.decodeConnack c pos remain = .ok (sp, rc, ps) p) : sp = c.mem.getD pos 0 := by
  unfold Dec.decodeConnack at h
  dsimp only at h
  cases hb : Dec.byte c pos (pos + remain) with
  | fail => rw [hb] at h; simp [Dec.Res.bind, Dec.whole] at h
  | oob => rw [hb] at h; simp [Dec.Res.bind, Dec.whole] at h
  | ok v q =>
    have hv : v = c.mem.getD pos 0 := by
      unfold Dec.byte at hb
      split at hb
      · cases hb
      · split at hb
        · cases hb
        · simp only [Dec.Res.ok.injEq] at hb; exact hb.1.symm
    rw [hb] at h
    simp only [Dec.Res.bind] at h
    cases hb2 : Dec.byte c q (pos + remain) with
    | fail => rw [hb2] at h; simp [Dec.whole] at h
    | oob => rw [hb2] at h; simp [Dec.whole] at h
    | ok rc' q2 =>
      rw [hb2] at h
      simp only at h
      cases hp : Dec.props Gen.PropTable.connackProps c q2 (pos + remain) with
      | fail => rw [hp] at h; simp [Dec.whole] at h
      | oob => rw [hp] at h; simp [Dec.whole] at h
      | ok ps' q3 =>
        rw [hp] at h
        simp only [Dec.whole] at h
        split at h
        · simp only [Dec.Res.ok.injEq, Prod.mk.injEq] at h
          rw [← h.1.1, hv]
        · cases h

/-- **the Session Present flag the client stores is the CONNACK's**: whatever bytes the broker sends in reply to CONNECT, if the handshake is
accepted with Session Present `sp`, then `sp` is the Connect Acknowledge Flags byte of the CONNACK that was received (the first byte behind
its fixed header) and it is 0 or 1.  (The handshake model is tied to the real `connect_op` by the `hs` differential on H-stream, which also
compares the stored flag; with an authenticator the stream monitor compares the stored flag with the reference decoder's.) -/
theorem stored_session_present_is_the_connacks (rx : Wire.Bs) (sp : Nat) (ps : Wire.Props) (h : handshake rx = .established sp ps) :
    sp ≤ 1 ∧ ∃ first len remain, frame (rx.take minPacketSz) = .more 0x20 first len remain ∧
      sp = (rx.take (minPacketSz + remain)).getD first 0 := by
  obtain ⟨_, hsp, first, len, remain, hf, _, p, hd⟩ := Mqtt5V.Props.C10.established_only_after_success_connack rx sp ps h
  exact ⟨hsp, first, len, remain, hf, decodeConnack_flags _ _ _ _ _ _ _ hd⟩

end Handshake

end Mqtt5V.Props.C13
