import Mqtt5V.Proofs.DecRoundtrip
import Mqtt5V.Proofs.Canon
/-! # C18 — well-formed packets from the broker decode to exactly their contents

Model: `Model/Dec.lean` (index model of `base_decoders.hpp` / `message_decoders.hpp`, tied to the real decoders by the
`dec` lock-step on well-formed and damaged packets).  The bytes are described by the encoder combinators of `Model/Enc.lean`
(`propsBody ps` = the properties in the order given — any order, any repetition), placed anywhere in a buffer (`At`).
"What the decoder yields" for a property block is `canon allowed ps`: the content of the library's property container after
assigning the properties in wire order (single-valued slots keep the last value, User Properties and Subscription Identifiers
keep all, in order). -/
namespace Mqtt5V.Props.C18
open Mqtt5V.Wire Mqtt5V.Model.Dec Mqtt5V.Model.Enc Mqtt5V.Proofs.Enc Mqtt5V.Proofs.DecRoundtrip Mqtt5V.Gen.PropTable Mqtt5V.Model.PropsText Mqtt5V.Proofs.Canon

variable (mem : Bs) (rl : Nat)

/-- **full form** of PUBACK / PUBREC / PUBREL / PUBCOMP (after the Packet Identifier), DISCONNECT, AUTH:
reason code and every property are read back -/
theorem ack_full_form (allowed : List Nat) (rc : Nat) (ps : Props) (hrc : rc < 256) (hw : ∀ p ∈ ps, WFPropD allowed p)
    (hsz : propsBodySize ps ≤ 268435455) (pos : Nat) (r : Bs) (h : At mem pos ([rc] ++ propsEncode false ps ++ r))
    (hrl : pos + (1 + propsSize false ps) ≤ rl) :
    rcProps allowed ⟨mem, rl⟩ pos (1 + propsSize false ps) = .ok (rc, canon allowed ps) (pos + (1 + propsSize false ps)) := by
  unfold rcProps
  rw [if_neg (by omega)]
  simp only [List.cons_append, List.nil_append] at h
  simp only
  rw [byte_ok mem rl pos _ rc _ h (by omega) (by omega)]
  simp only [Res.bind]
  rw [props_ok mem rl allowed ps hw hsz (pos + 1) (pos + (1 + propsSize false ps)) r h.2 (by omega) (by omega)]
  simp only [whole]
  rw [if_pos (by omega)]
  congr 1
  omega

/-- **omitted Property Length** (Remaining Length covers the reason code only): the code is read, no properties -/
theorem ack_omitted_property_length (allowed : List Nat) (rc pos : Nat) (r : Bs) (h : At mem pos (rc :: r)) (hrl : pos + 1 ≤ rl) :
    rcProps allowed ⟨mem, rl⟩ pos 1 = .ok (rc, []) (pos + 1) := by
  unfold rcProps
  rw [if_neg (by omega)]
  simp only
  rw [byte_ok mem rl pos _ rc _ h (by omega) (by omega)]
  simp [Res.bind, props, whole]

/-- **omitted reason code** (nothing after the Packet Identifier / empty DISCONNECT or AUTH): Success, no properties -/
theorem ack_omitted_reason_code (allowed : List Nat) (pos : Nat) : rcProps allowed ⟨mem, rl⟩ pos 0 = .ok (0, []) pos := by
  simp [rcProps]

/-- **CONNACK**: session-present flag, reason code and properties -/
theorem connack_decodes (sp rc : Nat) (ps : Props) (hsp : sp < 256) (hrc : rc < 256) (hw : ∀ p ∈ ps, WFPropD connackProps p)
    (hsz : propsBodySize ps ≤ 268435455) (pos : Nat) (r : Bs) (h : At mem pos ([sp, rc] ++ propsEncode false ps ++ r))
    (hrl : pos + (2 + propsSize false ps) ≤ rl) :
    decodeConnack ⟨mem, rl⟩ pos (2 + propsSize false ps) = .ok (sp, rc, canon connackProps ps) (pos + (2 + propsSize false ps)) := by
  unfold decodeConnack
  simp only [List.cons_append, List.nil_append] at h
  simp only
  rw [byte_ok mem rl pos _ sp _ h (by omega) (by omega)]
  simp only [Res.bind]
  rw [byte_ok mem rl (pos + 1) _ rc _ h.2 (by omega) (by omega)]
  simp only [Res.bind]
  rw [props_ok mem rl connackProps ps hw hsz (pos + 1 + 1) (pos + (2 + propsSize false ps)) r h.2.2 (by omega) (by omega)]
  simp only [whole]
  rw [if_pos (by omega)]
  congr 1
  omega

/-- **SUBACK / UNSUBACK** (after the Packet Identifier): properties, then one reason code per byte, all of them, in order -/
theorem codes_decode (allowed : List Nat) (ps : Props) (rcs : Bs) (hne : rcs ≠ []) (hw : ∀ p ∈ ps, WFPropD allowed p)
    (hsz : propsBodySize ps ≤ 268435455) (pos : Nat) (r : Bs) (h : At mem pos (propsEncode false ps ++ rcs ++ r))
    (hrl : pos + (propsSize false ps + rcs.length) ≤ rl) :
    decodeCodes allowed ⟨mem, rl⟩ pos (propsSize false ps + rcs.length) =
      .ok (canon allowed ps, rcs) (pos + (propsSize false ps + rcs.length)) := by
  unfold decodeCodes
  have hl : 0 < rcs.length := List.length_pos_iff.mpr hne
  rw [List.append_assoc] at h
  simp only
  rw [props_ok mem rl allowed ps hw hsz pos (pos + (propsSize false ps + rcs.length)) (rcs ++ r) h (by omega) (by omega)]
  simp only [Res.bind]
  rw [if_neg (by omega)]
  have h' := ((At_append mem (propsEncode false ps) (rcs ++ r) pos).mp h).2
  rw [propsEncode_length] at h'
  have e : pos + (propsSize false ps + rcs.length) - (pos + propsSize false ps) = rcs.length := by omega
  rw [e, slice_ok mem rl (pos + propsSize false ps) _ rcs r h' (by omega) (by omega)]
  simp only
  congr 1
  omega

/-- **PUBLISH**: topic, Packet Identifier exactly when QoS > 0, properties (several Subscription Identifiers and repeated User
Properties kept in order), and the payload = every remaining byte -/
theorem publish_decodes (cb : Nat) (topic payload : Bs) (pid : Nat) (ps : Props) (ht : topic.length ≤ 65535) (hp : pid < 65536)
    (hw : ∀ p ∈ ps, WFPropD publishProps p) (hsz : propsBodySize ps ≤ 268435455) (pos remain : Nat) (r : Bs)
    (h : At mem pos (lenPrefixed topic ++ ((if cb % 16 / 2 % 4 ≠ 0 then be16 pid else []) ++ (propsEncode false ps ++ (payload ++ r)))))
    (hrem : remain = 2 + topic.length + (if cb % 16 / 2 % 4 ≠ 0 then 2 else 0) + propsSize false ps + payload.length)
    (hrl : pos + remain ≤ rl) :
    decodePublish ⟨mem, rl⟩ cb pos remain =
      .ok (topic, (if cb % 16 / 2 % 4 ≠ 0 then some pid else none), cb % 16, canon publishProps ps, payload) (pos + remain) := by
  unfold decodePublish
  simp only
  by_cases hq : cb % 16 / 2 % 4 ≠ 0
  · simp only [hq, if_true, ne_eq, not_false_eq_true] at h hrem ⊢
    rw [lenPrefix_ok mem rl pos _ topic _ h ht (by omega) (by omega)]
    simp only [Res.bind]
    have h1 := ((At_append mem (lenPrefixed topic) _ pos).mp h).2
    have e1 : pos + (lenPrefixed topic).length = pos + 2 + topic.length := by simp [lenPrefixed, be16]; omega
    rw [e1] at h1
    rw [bigWord_ok mem rl (pos + 2 + topic.length) _ pid _ h1 hp (by omega) (by omega)]
    simp only [Res.bind]
    have h2 := ((At_append mem (be16 pid) _ (pos + 2 + topic.length)).mp h1).2
    have e2 : pos + 2 + topic.length + (be16 pid).length = pos + 2 + topic.length + 2 := by simp [be16]
    rw [e2] at h2
    rw [props_ok mem rl publishProps ps hw hsz (pos + 2 + topic.length + 2) _ (payload ++ r) h2 (by omega) (by omega)]
    simp only [Res.bind]
    have h3 := ((At_append mem (propsEncode false ps) _ (pos + 2 + topic.length + 2)).mp h2).2
    rw [propsEncode_length] at h3
    have e : pos + remain - (pos + 2 + topic.length + 2 + propsSize false ps) = payload.length := by omega
    rw [e, slice_ok mem rl _ _ payload r h3 (by omega) (by omega)]
    simp only
    congr 1
    omega
  · simp only [hq, if_false, List.nil_append] at h hrem ⊢
    rw [lenPrefix_ok mem rl pos _ topic _ h ht (by omega) (by omega)]
    simp only [Res.bind]
    have h1 := ((At_append mem (lenPrefixed topic) _ pos).mp h).2
    have e1 : pos + (lenPrefixed topic).length = pos + 2 + topic.length := by simp [lenPrefixed, be16]; omega
    rw [e1] at h1
    rw [props_ok mem rl publishProps ps hw hsz (pos + 2 + topic.length) _ (payload ++ r) h1 (by omega) (by omega)]
    simp only [Res.bind]
    have h3 := ((At_append mem (propsEncode false ps) _ (pos + 2 + topic.length)).mp h1).2
    rw [propsEncode_length] at h3
    have e : pos + remain - (pos + 2 + topic.length + propsSize false ps) = payload.length := by omega
    rw [e, slice_ok mem rl _ _ payload r h3 (by omega) (by omega)]
    simp only
    congr 1
    omega

/-- every property table of the library lists each identifier once (needed for the fixed-point property of the container) -/
theorem tables_nodup : connackProps.Nodup ∧ publishProps.Nodup ∧ pubackProps.Nodup ∧ pubrecProps.Nodup ∧ pubrelProps.Nodup ∧
    pubcompProps.Nodup ∧ subackProps.Nodup ∧ unsubackProps.Nodup ∧ disconnectProps.Nodup ∧ authProps.Nodup := by decide

/-- **encoding the result again reproduces the same contents**: the decoded acknowledgement `(rc, canon ps)`, encoded by the
library's encoder model in full form and decoded once more, is `(rc, canon ps)` again -/
theorem ack_reencode_roundtrip (allowed : List Nat) (hnd : allowed.Nodup) (rc : Nat) (ps : Props) (hrc : rc < 256)
    (hw : ∀ p ∈ ps, WFPropD allowed p) (hsz : propsBodySize (canon allowed ps) ≤ 268435455) (pos : Nat) (r : Bs)
    (h : At mem pos ([rc] ++ propsEncode false (canon allowed ps) ++ r))
    (hrl : pos + (1 + propsSize false (canon allowed ps)) ≤ rl) :
    rcProps allowed ⟨mem, rl⟩ pos (1 + propsSize false (canon allowed ps)) =
      .ok (rc, canon allowed ps) (pos + (1 + propsSize false (canon allowed ps))) := by
  have := ack_full_form mem rl allowed rc (canon allowed ps) hrc (fun p hp => hw p (mem_canon allowed ps p hp)) hsz pos r h hrl
  rw [canon_idem allowed ps hnd] at this
  exact this

/-- non-vacuity: a PUBACK body `rc=0x10, Reason String "ab", User Property k=v` anywhere in a buffer satisfies the hypotheses -/
example : ∀ p ∈ ([⟨0x1F, .str [97, 98]⟩, ⟨0x26, .pair [107] [118]⟩] : Props), WFPropD pubackProps p := by
  intro p hp
  simp at hp
  rcases hp with rfl | rfl
  · exact ⟨by decide, by decide, ⟨false, by decide⟩, by simp [WFVal]⟩
  · exact ⟨by decide, by decide, ⟨true, by decide⟩, by simp [WFVal]⟩

example : rcProps pubackProps ⟨[0xAA, 0x10, 5, 0x1F, 0, 2, 97, 98, 0xBB], 8⟩ 1 7 = .ok (0x10, [⟨0x1F, .str [97, 98]⟩]) 8 := by rfl

end Mqtt5V.Props.C18
