import Mqtt5V.Model.Dec
namespace Mqtt5V.Props.C18
end Mqtt5V.Props.C18
