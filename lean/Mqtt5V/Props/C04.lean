import Mqtt5V.Proofs.Replies
/-! # C04 — inbound QoS 2 exactly once (waiter core)

A received QoS 2 PUBLISH waits for its PUBREL through a `replies` waiter keyed (PUBREL, packet id).  In the model of
`replies`: registering a waiter for a key that already has one *replaces* it — the earlier exchange is aborted and can
no longer deliver its message, so a retransmitted PUBLISH with the same identifier never leads to two deliveries;
an arriving PUBREL completes exactly the one current waiter; when the session is not resumed, exactly the PUBREL
waiters are aborted and all other waiters are kept. -/
namespace Mqtt5V.Props.C04
open Mqtt5V.Model.Replies Mqtt5V.Proofs.Replies

/-- **a duplicate waiter for the same (code, id) replaces the old one**: the old waiter is aborted, the new one is the only
one registered for that key afterwards (or is served by a stored reply) -/
theorem duplicate_waiter_replaced (r : R) (w c p : Nat) (d : Waiter) (hd : r.handlers.find? (sameKey c p) = some d)
    (hn : KeysUnique r) (hw : d.w ≠ w) :
    (⟨d.w, .aborted, 0⟩ : Ev) ∈ (step r (.wait w c p)).2 ∧ d ∉ (step r (.wait w c p)).1.handlers := by
  obtain ⟨hm, hc, hp⟩ := find_sameKey hd
  have hne := erase_removes_key hn hm
  have hnot : d ∉ r.handlers.erase d := fun hin => hne (List.mem_map_of_mem hin)
  simp only [step, hd]
  constructor
  · split <;> simp
  · split
    · exact hnot
    · intro hin
      simp only [List.mem_append, List.mem_singleton] at hin
      rcases hin with h | h
      · exact hnot h
      · exact hw (by rw [h])

/-- when the session is not resumed exactly the PUBREL waiters are aborted; every other waiter is kept -/
theorem clear_pending_pubrels_exact (r : R) :
    (step r .clearPubrels).1.handlers = r.handlers.filter (fun h => h.code != PUBREL) ∧
    (step r .clearPubrels).2 = (r.handlers.filter (fun h => h.code == PUBREL)).map (fun h => ⟨h.w, .aborted, 0⟩) := ⟨rfl, rfl⟩

/-- an arriving PUBREL completes at most one waiter and it is one registered for exactly (PUBREL, that id) -/
theorem pubrel_completes_its_waiter_only (r : R) (p t : Nat) :
    (step r (.dispatch PUBREL p t)).2 = [] ∨
    ∃ h ∈ r.handlers, h.code = PUBREL ∧ h.pid = p ∧ (step r (.dispatch PUBREL p t)).2 = [⟨h.w, .ok, t⟩] := by
  simp only [step]
  cases hf : r.handlers.find? (sameKey PUBREL p) with
  | none => exact Or.inl rfl
  | some h =>
    obtain ⟨hm, hc, hp⟩ := find_sameKey hf
    exact Or.inr ⟨h, hm, hc, hp, rfl⟩

end Mqtt5V.Props.C04
