import Mqtt5V.Proofs.TraceInOrder
import Mqtt5V.Proofs.Replies
/-! # C04 — inbound QoS 2 exactly once (waiter core)

A received QoS 2 PUBLISH waits for its PUBREL through a `replies` waiter keyed (PUBREL, packet id).  In the model of
`replies`: registering a waiter for a key that already has one *replaces* it — the earlier exchange is aborted and can
no longer deliver its message, so a retransmitted PUBLISH with the same identifier never leads to two deliveries;
an arriving PUBREL completes exactly the one current waiter; when the session is not resumed, exactly the PUBREL
waiters are aborted and all other waiters are kept. -/
namespace Mqtt5V.Props.C04
open Mqtt5V.Model.Replies Mqtt5V.Proofs.Replies

/-- **a duplicate waiter for the same (code, id) replaces the old one**: the old waiter is aborted, the new one is the only
one registered for that key afterwards (or is served by a stored reply) -/
theorem duplicate_waiter_replaced (r : R) (w c p : Nat) (d : Waiter) (hd : r.handlers.find? (sameKey c p) = some d)
    (hn : KeysUnique r) (hw : d.w ≠ w) :
    (⟨d.w, .aborted, 0⟩ : Ev) ∈ (step r (.wait w c p)).2 ∧ d ∉ (step r (.wait w c p)).1.handlers := by
  obtain ⟨hm, hc, hp⟩ := find_sameKey hd
  have hne := erase_removes_key hn hm
  have hnot : d ∉ r.handlers.erase d := fun hin => hne (List.mem_map_of_mem hin)
  simp only [step, hd]
  constructor
  · split <;> simp
  · split
    · exact hnot
    · intro hin
      simp only [List.mem_append, List.mem_singleton] at hin
      rcases hin with h | h
      · exact hnot h
      · exact hw (by rw [h])

/-- when the session is not resumed exactly the PUBREL waiters are aborted; every other waiter is kept -/
theorem clear_pending_pubrels_exact (r : R) :
    (step r .clearPubrels).1.handlers = r.handlers.filter (fun h => h.code != PUBREL) ∧
    (step r .clearPubrels).2 = (r.handlers.filter (fun h => h.code == PUBREL)).map (fun h => ⟨h.w, .aborted, 0⟩) := ⟨rfl, rfl⟩

/-- an arriving PUBREL completes at most one waiter and it is one registered for exactly (PUBREL, that id) -/
theorem pubrel_completes_its_waiter_only (r : R) (p t : Nat) :
    (step r (.dispatch PUBREL p t)).2 = [] ∨
    ∃ h ∈ r.handlers, h.code = PUBREL ∧ h.pid = p ∧ (step r (.dispatch PUBREL p t)).2 = [⟨h.w, .ok, t⟩] := by
  simp only [step]
  cases hf : r.handlers.find? (sameKey PUBREL p) with
  | none => exact Or.inl rfl
  | some h =>
    obtain ⟨hm, hc, hp⟩ := find_sameKey hf
    exact Or.inr ⟨h, hm, hc, hp, rfl⟩

/-! ## the composed client model, inbound side (`Model/TraceIn.lean`)
One labelled transition system for the path of a PUBLISH the broker delivers (`read_message_op` → `publish_rec_op` → send queue / reply
map → receive channel → `async_receive`).  The tie: `lib/trace_check.py` replays every H-client transcript of the real client through the
compiled model (`mdrv tracein`).  The theorem holds for EVERY event list the model accepts. -/
section ComposedModel
open Mqtt5V.Model

/-- **C04 end to end, every accepted history**, per broker packet identifier `p` and after every prefix: at most as many PUBACKs written as
QoS 1 PUBLISHes received for `p`; at most as many PUBRECs as QoS 2 PUBLISHes; at most as many PUBCOMPs as well-formed PUBRELs received —
never a PUBCOMP before its PUBREL; and at most as many QoS 2 messages of `p` handed to the application as PUBRELs received: a PUBLISH the
broker repeats (DUP) before its PUBREL, on the same or a later connection, is not delivered a second time -/
theorem composed_inbound_acks_justified (tr pre post : List TraceIn.Ev) (hacc : TraceIn.accepts tr = true) (hsplit : tr = pre ++ post) (p : Nat) :
    TraceIn.cnt (TraceIn.isPuback p) pre ≤ TraceIn.cnt (TraceIn.isRxPub 1 p) pre ∧
    TraceIn.cnt (TraceIn.isPubrec p) pre ≤ TraceIn.cnt (TraceIn.isRxPub 2 p) pre ∧
    TraceIn.cnt (TraceIn.isPubcomp p) pre ≤ TraceIn.cnt (TraceIn.isGoodRel p) pre ∧
    TraceIn.cnt (TraceIn.isDeliver2 p) pre ≤ TraceIn.cnt (TraceIn.isGoodRel p) pre :=
  Mqtt5V.Proofs.TraceIn.inbound_acks_justified hacc pre post hsplit p

/-- **C04 end to end (content)**: after every prefix, a message has been handed to the application at most as often as a PUBLISH with
exactly this QoS, packet identifier and content (`msg` = identity of topic, payload and properties; the front end numbers real messages from 1,
`0` is the session_expired item of C13) was received: nothing is delivered that
the broker did not send, nothing is altered on the way, and the client's own queues never duplicate a message -/
theorem composed_delivered_was_received (tr pre post : List TraceIn.Ev) (hacc : TraceIn.accepts tr = true) (hsplit : tr = pre ++ post) (q p m : Nat) (hm : m ≠ 0) :
    TraceIn.cnt (TraceIn.isDeliverMsg q p m) pre ≤ TraceIn.cnt (TraceIn.isRxPubMsg q p m) pre :=
  Mqtt5V.Proofs.TraceIn.delivered_was_received hacc pre post hsplit q p m hm

/-- **C04 end to end (order)**: after every prefix, the QoS 0 messages handed to the application are, in this order, a subsequence of the
QoS 0 messages received, and the same holds for QoS 1: within one of these QoS levels messages are never reordered (the send queue hands
the PUBACKs to the stream first in, first out; the receive channel is first in, first out). QoS 2 messages are released by their PUBRELs;
their order is the order of the broker's PUBRELs and is left to the monitor. -/
theorem composed_delivered_in_arrival_order (tr pre post : List TraceIn.Ev) (hacc : TraceIn.accepts tr = true) (hsplit : tr = pre ++ post) :
    (TraceIn.delivered 0 pre).Sublist (TraceIn.received 0 pre) ∧ (TraceIn.delivered 1 pre).Sublist (TraceIn.received 1 pre) :=
  Mqtt5V.Proofs.TraceIn.delivered_in_arrival_order hacc pre post hsplit

/-- two PUBACKs written in the wrong order (and the deliveries that follow them) are refused -/
example : TraceIn.accepts [.connUp true, .rxPub 1 7 1, .rxPub 1 8 2, .wr, .pk (.puback 8), .pk (.puback 7)] = false := by decide
example : TraceIn.accepts [.connUp true, .rxPub 1 7 1, .rxPub 1 8 2, .wr, .pk (.puback 7), .pk (.puback 8), .wrOk, .deliver 1 7 1, .deliver 1 8 2] = true := by decide

/-- non-vacuity: a QoS 2 message repeated by the broker after a reconnect (the first PUBREC was lost with the connection) is delivered once … -/
example : TraceIn.accepts [.connUp true, .rxPub 2 7 1, .wr, .pk (.pubrec 7), .connUp true, .wrFail, .rxPub 2 7 1, .wr, .pk (.pubrec 7), .wrOk,
    .rxRel 7 true, .wr, .pk (.pubcomp 7), .wrOk, .deliver 2 7 1] = true := by decide
/-- … a second delivery, a PUBCOMP without PUBREL, or a delivery before the PUBCOMP was written are refused -/
example : TraceIn.accepts [.connUp true, .rxPub 2 7 1, .wr, .pk (.pubrec 7), .wrOk, .rxPub 2 7 1, .wr, .pk (.pubrec 7), .wrOk,
    .rxRel 7 true, .wr, .pk (.pubcomp 7), .wrOk, .deliver 2 7 1, .deliver 2 7 1] = false := by decide
example : TraceIn.accepts [.connUp true, .rxPub 2 7 1, .wr, .pk (.pubrec 7), .wrOk, .wr, .pk (.pubcomp 7)] = false := by decide
example : TraceIn.accepts [.connUp true, .rxPub 2 7 1, .wr, .pk (.pubrec 7), .wrOk, .rxRel 7 true, .deliver 2 7 1] = false := by decide

/-! ### the recorded findings F24, F25, F26 inside the model
The statement of C04 also has a liveness half ("every PUBLISH the broker delivers … reaches async_receive"). It is false of the code, and the
model agrees with the code: when the write that carries an acknowledgement ends with try_again, the QoS 1 operation and the PUBREC stage give
the message up and the PUBCOMP stage waits for a PUBREL. If the acknowledgement did reach the broker — the model does not know, the client
does not know — nothing will ever bring the message back. The witnesses below are the model-side replays of `lib/directed.py` F25 / F24 / F26
(the implementation-side replays run first in `vcheck C04` and are reported as KNOWN-FINDING). -/

/-- F25: QoS 1, the PUBACK was in a write that failed — the message cannot be delivered any more (only a repeated PUBLISH brings it back) -/
example : TraceIn.accepts [.connUp true, .rxPub 1 7 1, .wr, .pk (.puback 7), .connUp true, .wrFail] = true := by decide
example : TraceIn.accepts [.connUp true, .rxPub 1 7 1, .wr, .pk (.puback 7), .connUp true, .wrFail, .deliver 1 7 1] = false := by decide
/-- F24: QoS 2, the PUBREC was in a write that failed — a PUBREL that follows (the PUBREC did arrive) is not answered: no PUBCOMP can be written -/
example : TraceIn.accepts [.connUp true, .rxPub 2 7 1, .wr, .pk (.pubrec 7), .connUp true, .wrFail, .rxRel 7 true, .wr, .pk (.pubcomp 7)] = false := by decide
/-- F26: QoS 2, the PUBCOMP was in a write that failed — the message stays with the waiter until another PUBREL arrives -/
example : TraceIn.accepts [.connUp true, .rxPub 2 7 1, .wr, .pk (.pubrec 7), .wrOk, .rxRel 7 true, .wr, .pk (.pubcomp 7), .connUp true, .wrFail,
    .deliver 2 7 1] = false := by decide
example : TraceIn.accepts [.connUp true, .rxPub 2 7 1, .wr, .pk (.pubrec 7), .wrOk, .rxRel 7 true, .wr, .pk (.pubcomp 7), .connUp true, .wrFail,
    .rxRel 7 true, .wr, .pk (.pubcomp 7), .wrOk, .deliver 2 7 1] = true := by decide

/-- **C04, liveness half — `_partial`** (full statement: "every PUBLISH the broker delivers … reaches async_receive"; proved part: under the
hypothesis that the write carrying the final acknowledgement completes successfully): when the write that carries the PUBACK of a QoS 1
message, or the PUBCOMP of a QoS 2 message, completes successfully, the message is in the receive channel. What is missing is exactly the
recorded findings F24–F26 (the write ends with try_again although the acknowledgement reached the broker), witnessed above. -/
theorem composed_acknowledged_is_stored_partial (s s' : TraceIn.S) (h : TraceIn.step s TraceIn.Ev.wrOk = some s') (p m : Nat) :
    (TraceIn.Item.ackI p m ∈ s.batch → (1, p, m) ∈ s'.stored) ∧ (TraceIn.Item.compI p m ∈ s.batch → (2, p, m) ∈ s'.stored) :=
  Mqtt5V.Proofs.TraceIn.acknowledged_is_stored_partial h

end ComposedModel

end Mqtt5V.Props.C04
