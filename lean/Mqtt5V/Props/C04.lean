import Mqtt5V.Basic
namespace Mqtt5V.Props.C04
end Mqtt5V.Props.C04
