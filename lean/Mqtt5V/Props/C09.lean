import Mqtt5V.Basic
namespace Mqtt5V.Props.C09
end Mqtt5V.Props.C09
