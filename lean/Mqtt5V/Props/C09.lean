import Mqtt5V.Proofs.TraceQuota
import Mqtt5V.Proofs.TraceDisc
import Mqtt5V.Proofs.TraceDiscT
import Mqtt5V.Proofs.Sender
/-! # C09 — async_disconnect: DISCONNECT first and alone (sender core)

`async_disconnect` sends its DISCONNECT with the `terminal` flag.  In the model of `async_sender::do_write`:
when the stream is free and a terminal request is queued, the batch handed to the stream is exactly that
request — alone and ahead of every other queued packet, whatever the queue holds and whatever the quota is;
when a write is in progress nothing is written until it completes, and then the terminal request is next. -/
namespace Mqtt5V.Props.C09
open Mqtt5V.Model.Sender Mqtt5V.Proofs.Sender

/-- **Terminal request alone and first**: stream free + a terminal request in the queue ⇒ the write is exactly `[it]`
(the first terminal one), it leaves the queue, everything else stays queued in order. -/
theorem terminal_alone_and_first (s : S) (hfree : s.inflight = none) (t : SReq)
    (ht : s.queue.find? (·.terminal) = some t) :
    (doWrite s).2 = [.wr [t.id]] ∧ (doWrite s).1.inflight = some [t] ∧ (doWrite s).1.queue = s.queue.erase t := by
  have hne : s.queue ≠ [] := by intro h; simp [h] at ht
  have hc : (s.inflight.isSome || s.queue.isEmpty) = false := by
    simp [hfree]; exact hne
  unfold doWrite
  simp [hc, ht]

/-- while a write is in progress `do_write` writes nothing: the DISCONNECT waits for the write already in progress -/
theorem nothing_written_while_in_progress (s : S) (b : List SReq) (h : s.inflight = some b) : doWrite s = (s, []) := by
  unfold doWrite; simp [h]

/-- … and once that write has finished successfully the next thing written is the terminal request alone -/
theorem terminal_is_next_after_write (s : S) (b : List SReq) (h : s.inflight = some b) (t : SReq)
    (ht : s.queue.find? (·.terminal) = some t) :
    ∃ fin, (step s (.wdone .ok)).2 = fin ++ [.wr [t.id]] ∧ (∀ e ∈ fin, ∃ id, e = .done id .ok) := by
  simp only [step, h]
  have := terminal_alone_and_first
    { s with inflight := none, unanswered := s.unanswered ++ b.filter (·.awaits) } rfl t ht
  refine ⟨_, by rw [this.1], ?_⟩
  intro e he
  simp at he
  obtain ⟨r, _, rfl⟩ := he
  exact ⟨r.id, rfl⟩

/-- a terminal request never shares a batch: every batch `do_write` forms either is a single terminal request or
contains no terminal request at all -/
theorem batch_terminal_exclusive (s : S) (b : List SReq) (h : (doWrite s).1.inflight = some b) (hs : s.inflight = none) :
    (∃ t, b = [t] ∧ t.terminal = true) ∨ (∀ r ∈ b, r.terminal = false) := by
  by_cases hc : (s.inflight.isSome || s.queue.isEmpty) = true
  · have hd : doWrite s = (s, []) := by unfold doWrite; simp [hc]
    rw [hd, hs] at h; cases h
  · cases hf : s.queue.find? (·.terminal) with
    | some t =>
      have := terminal_alone_and_first s hs t hf
      rw [this.2.1] at h; cases h
      exact Or.inl ⟨t, rfl, by simpa using List.find?_some hf⟩
    | none =>
      right
      have hnt : ∀ r ∈ s.queue, r.terminal = false := by
        intro r hr; have := List.find?_eq_none.mp hf r hr; simpa using this
      intro r hr
      have hsub : ∀ x ∈ (doWrite s).1.inflight.getD [], x ∈ s.inflight.getD [] ∨ x ∈ s.queue := doWrite_inflight_sub s
      have := hsub r (by rw [h]; exact hr)
      rw [hs] at this
      simp at this
      exact hnt r this

/-! ## the composed client model (`Model/Trace.lean`; tie: every H-client transcript of the real client must be accepted) -/
section ComposedModel
open Mqtt5V.Model

/-- **C05 / C09 end to end**: `cancelAll` stands for cancel(), a terminal cancellation signal of a publish / subscribe / unsubscribe, or a
finished async_disconnect; `restart` for a later async_run(). In every accepted history no publish, subscribe or unsubscribe completes
successfully between a `cancelAll` and the next `restart` (`Trace.cancelledOf` is computed from the events alone): whatever was outstanding
can only end with an error -/
theorem composed_no_success_after_cancel (pre post : List Trace.Ev) (op : Nat) (rcs : List Nat) (props : Nat)
    (hacc : Trace.accepts (pre ++ Trace.Ev.doneOk op rcs props :: post) = true) : Trace.cancelledOf pre = false :=
  Mqtt5V.Proofs.Trace.no_success_after_cancel hacc

example : Trace.accepts [.init 1 .pub1 1, .connUp none, .wr, .pk (.publish 1 1 7 false 3), .wrOk, .rx ⟨.puback, 7, [0], 0, true⟩, .cancelAll,
    .doneOk 1 [0] 0] = false := by decide
example : Trace.accepts [.init 1 .pub1 1, .connUp none, .wr, .pk (.publish 1 1 7 false 3), .wrOk, .cancelAll, .doneOther 1, .quiescent, .restart] = true := by decide

/-! ### the DISCONNECT rule at write level (`Model/TraceDisc.lean`: the write-level projection of every H-client transcript must be accepted) -/

/-- **C09 end to end**: in every accepted history a DISCONNECT is the first packet of its write … -/
theorem composed_disconnect_first_in_write (pre mid post : List TraceDisc.Ev)
    (hacc : TraceDisc.accepts (pre ++ TraceDisc.Ev.wr :: mid ++ TraceDisc.Ev.pkDisc :: post) = true)
    (hmid : ∀ e ∈ mid, e = TraceDisc.Ev.pkOther ∨ e = TraceDisc.Ev.pkDisc) : mid = [] :=
  Mqtt5V.Proofs.TraceDisc.disconnect_first_in_write hacc hmid

/-- … and the last one: a DISCONNECT leaves on its own -/
theorem composed_nothing_after_disconnect_in_write (pre post : List TraceDisc.Ev) (e : TraceDisc.Ev)
    (hacc : TraceDisc.accepts (pre ++ TraceDisc.Ev.pkDisc :: e :: post) = true) : e ≠ TraceDisc.Ev.pkOther ∧ e ≠ TraceDisc.Ev.pkDisc :=
  Mqtt5V.Proofs.TraceDisc.nothing_after_disconnect_in_write hacc

/-- **C09 end to end**: after a write that carried a DISCONNECT has completed successfully on a live connection, nothing more is written on
that connection: the next write-level event cannot be the start of a write (`connectedOf` is computed from the events alone) -/
theorem composed_silence_after_disconnect (pre post : List TraceDisc.Ev)
    (hacc : TraceDisc.accepts (pre ++ TraceDisc.Ev.pkDisc :: TraceDisc.Ev.wrOk :: TraceDisc.Ev.wr :: post) = true) :
    TraceDisc.connectedOf pre = false :=
  Mqtt5V.Proofs.TraceDisc.silence_after_disconnect hacc

example : TraceDisc.accepts [.connUp, .wr, .pkOther, .pkOther, .wrOk, .wr, .pkDisc, .wrOk, .connDown, .wr, .pkOther] = true := by decide
example : TraceDisc.accepts [.connUp, .wr, .pkOther, .pkDisc] = false := by decide
example : TraceDisc.accepts [.connUp, .wr, .pkDisc, .pkOther] = false := by decide
example : TraceDisc.accepts [.connUp, .wr, .pkDisc, .wrOk, .wr] = false := by decide

/-! ### the 5 s limit (`Model/TraceDiscT.lean`: the timed projection of every H-client transcript must be accepted) -/

/-- **C09 end to end (done within 5 seconds)**: in every accepted timed history the clock never moves on from a moment at or past 5000 ms
(`Gen.Timing.disconnectLimitMs`, translated from `disconnect_op`) after the initiation of an `async_disconnect` that is still in progress — so the
operation completes no later than at the first clock value that reaches the limit, whether or not the broker is reachable and whatever the write
in progress does.  Time and initiation are read off the events alone. -/
theorem composed_disconnect_done_within_limit (tr : List TraceDiscT.Ev) (ms : Nat) (hacc : TraceDiscT.accepts (tr ++ [.adv ms]) = true) (t0 : Nat)
    (hp : (TraceDiscT.obs tr).2 = some t0) : (TraceDiscT.obs tr).1 < t0 + 5000 := by
  simp only [TraceDiscT.accepts, Option.isSome_iff_exists] at hacc
  obtain ⟨s, hs⟩ := hacc
  exact Mqtt5V.Proofs.TraceDiscT.disconnect_done_within_limit hs t0 hp

example : TraceDiscT.accepts [.adv 100, .disc, .adv 4999, .adv 1, .done, .adv 7000] = true := by decide
example : TraceDiscT.accepts [.adv 100, .disc, .adv 5000, .adv 1] = false := by decide
example : (TraceDiscT.obs [.adv 100, .disc, .adv 4999]).2 = some 100 := by decide

end ComposedModel

end Mqtt5V.Props.C09
