import Mqtt5V.Gen.Timing
import Mqtt5V.Proofs.TraceKA
import Mqtt5V.Proofs.TraceRd
/-! # C12 — keep-alive: PINGREQ every negotiated interval; 1.5 × silence means reconnect (timing rules)

The three expressions that decide the behaviour are *translated* from the source on every run
(`Gen.Timing`: `compute_read_timeout`, `ping_op::compute_wait_time`, `negotiated_keep_alive`).  For every
keep-alive value K (uint16) and every Server Keep Alive override: -/
namespace Mqtt5V.Props.C12
open Mqtt5V.Gen.Timing

/-- the negotiated keep-alive is the broker's Server Keep Alive if present, else the configured value -/
theorem negotiated_rule (ska : Option Nat) (cfg : Nat) :
    negotiated ska cfg = (match ska with | some k => k | none => cfg) := by
  cases ska <;> rfl

/-- **the connection is abandoned after exactly 1.5 · K seconds of silence** (K > 0): the timed read is started with
a time-out of 1500 · K ms (never less) -/
theorem read_timeout_is_one_and_a_half_keepalive (k : Nat) (hk : 0 < k) : readTimeoutMs k = some (1500 * k) := by
  unfold readTimeoutMs
  have : ¬ k = 0 := by omega
  simp only [this, if_false, Option.some.injEq]
  omega

/-- **a PINGREQ is due exactly K seconds** after the session refresh / the previous PINGREQ's completion (K > 0) -/
theorem ping_period_is_keepalive (k : Nat) (hk : 0 < k) : pingWaitMs k = some (1000 * k) := by
  unfold pingWaitMs
  have : ¬ k = 0 := by omega
  simp only [this, if_false, Option.some.injEq]
  omega

/-- **K = 0: no PINGREQ, and the broker is never timed out** -/
theorem keepalive_zero_is_silent : pingWaitMs 0 = none ∧ readTimeoutMs 0 = none := ⟨rfl, rfl⟩

/-- the ping comes before the read time-out: K · 1000 < 1.5 · K · 1000 for every K > 0, so a healthy broker that
answers each PINGREQ is never timed out by the client's own silence -/
theorem ping_before_timeout (k : Nat) (hk : 0 < k) : ∀ p t, pingWaitMs k = some p → readTimeoutMs k = some t → p < t := by
  intro p t hp ht
  rw [ping_period_is_keepalive k hk] at hp
  rw [read_timeout_is_one_and_a_half_keepalive k hk] at ht
  simp at hp ht; omega

/-- no uint16 keep-alive overflows the millisecond arithmetic of the read time-out (int: 3 · 65535 · 1000 < 2³¹) -/
theorem read_timeout_no_overflow (k : Nat) (hk : k ≤ 65535) : 3 * k * 1000 < 2 ^ 31 := by omega

example : readTimeoutMs 7 = some 10500 ∧ pingWaitMs 7 = some 7000 ∧ negotiated (some 7) 60 = 7 ∧ negotiated none 60 = 60 := by decide


section ComposedModel
open Mqtt5V.Model

/-- **C12 end to end (PINGREQ no later than K seconds), every accepted timed history**: whenever the execution context has run out of ready
handlers on a running client, with K > 0 the keep-alive that was negotiated when the ping timer was last armed — at `async_run`, at the session
refresh that follows a (re)connection, at the end of the write that carried the previous PINGREQ; all read off the events alone
(`TraceKA.obs`) — then less than K seconds have passed since that moment, or a write is in progress (the PINGREQ is in it, or waits right
behind it: the property's "plus transport latency").  The model (`Model/TraceKA.lean`) is `ping_op` and the sender's handling of the PINGREQ
over a virtual clock, with the three timing expressions translated from the source; the tie is that every timed transcript of the real
client is accepted by it. -/
theorem composed_ping_by_deadline (tr : List TraceKA.Ev) (hacc : TraceKA.accepts (tr ++ [.eol]) = true)
    (hr : (TraceKA.obs tr).running = true) (hk : 0 < (TraceKA.obs tr).kArm) :
    (TraceKA.obs tr).now < (TraceKA.obs tr).lastReset + 1000 * (TraceKA.obs tr).kArm ∨ (TraceKA.obs tr).writing = true := by
  simp only [TraceKA.accepts, Option.isSome_iff_exists] at hacc
  obtain ⟨s, hs⟩ := hacc
  exact Mqtt5V.Proofs.TraceKA.ping_by_deadline hs hr hk

/-- **C12 end to end (K = 0 is silent)**: a client configured with keep-alive 0, on connections whose CONNACK carries no Server Keep Alive
(or 0), never starts a write that carries a PINGREQ — in no accepted history. -/
theorem composed_no_ping_with_keepalive_zero (tr : List TraceKA.Ev) (t : Bool)
    (hc : ∀ k, TraceKA.Ev.cfg k ∈ tr → k = 0) (hu : ∀ ska, TraceKA.Ev.connUp ska ∈ tr → ska = none ∨ ska = some 0) :
    TraceKA.accepts (.cfg 0 :: tr ++ [.wr true t]) = false := by
  cases h : TraceKA.accepts (.cfg 0 :: tr ++ [.wr true t]) with
  | false => rfl
  | true =>
    simp only [TraceKA.accepts, Option.isSome_iff_exists] at h
    obtain ⟨s, hs⟩ := h
    exact absurd (Mqtt5V.Proofs.TraceKA.no_ping_with_keepalive_zero hs hc hu) id

/-- a PINGREQ is written only if a positive keep-alive was in force at one of the moments the ping timer was armed -/
theorem composed_ping_needs_keepalive (tr : List TraceKA.Ev) (t : Bool) (hacc : TraceKA.accepts (tr ++ [.wr true t]) = true) :
    0 < (TraceKA.obs tr).kMax := by
  simp only [TraceKA.accepts, Option.isSome_iff_exists] at hacc
  obtain ⟨s, hs⟩ := hacc
  exact Mqtt5V.Proofs.TraceKA.ping_needs_keepalive hs

/-- **C12 end to end (silence limit)**: every read the client starts carries the time-out 1.5 · K of the keep-alive negotiated at that moment
(the broker's Server Keep Alive if the latest CONNACK had one, else the configured value), and no time-out at all for K = 0.  (That the
connection is abandoned exactly when this time-out expires without a byte is the stream layer's part: H-stream monitor, S.3.) -/
theorem composed_read_timeout_rule (tr : List TraceKA.Ev) (t : Option Nat) (hacc : TraceKA.accepts (tr ++ [.rd t]) = true) :
    t = readTimeoutMs (negotiated (TraceKA.obs tr).ska (TraceKA.obs tr).cfg) := by
  simp only [TraceKA.accepts, Option.isSome_iff_exists] at hacc
  obtain ⟨s, hs⟩ := hacc
  exact Mqtt5V.Proofs.TraceKA.read_timeout_rule hs

/-- the same in the property's own numbers: with negotiated keep-alive K > 0 every read is started with the limit 1500 · K ms, with K = 0 with none -/
theorem composed_read_limit_in_numbers (tr : List TraceKA.Ev) (t : Option Nat) (hacc : TraceKA.accepts (tr ++ [.rd t]) = true) :
    (0 < negotiated (TraceKA.obs tr).ska (TraceKA.obs tr).cfg → t = some (1500 * negotiated (TraceKA.obs tr).ska (TraceKA.obs tr).cfg)) ∧
    (negotiated (TraceKA.obs tr).ska (TraceKA.obs tr).cfg = 0 → t = none) := by
  have h := composed_read_timeout_rule tr t hacc
  constructor
  · intro hk; rw [h]; exact read_timeout_is_one_and_a_half_keepalive _ hk
  · intro hk; rw [h, hk]; rfl

/- the premises are satisfiable, and the guards bite: keep-alive 5 s; the PINGREQ leaves when 5 s have passed, not before, and not later -/
example : TraceKA.accepts [.cfg 5, .run, .rd (some 7500), .eol, .connUp none, .refresh, .eol, .adv 4999, .eol, .adv 1, .wr true false, .eol,
    .adv 300, .wrOk, .eol, .adv 4999, .eol, .adv 2, .wr true false, .eol] = true := by decide
example : TraceKA.accepts [.cfg 5, .run, .eol, .adv 4999, .wr true false] = false := by decide          -- too early
example : TraceKA.accepts [.cfg 5, .run, .eol, .adv 5000, .eol] = false := by decide                     -- overdue, nothing written
example : TraceKA.accepts [.cfg 5, .run, .eol, .adv 5000, .wr false false] = false := by decide          -- a write without the PINGREQ that is due
example : TraceKA.accepts [.cfg 5, .run, .connUp (some 2), .refresh, .rd (some 3000), .adv 2000, .wr true false, .eol] = true := by decide   -- Server Keep Alive wins
example : TraceKA.accepts [.cfg 5, .run, .connUp (some 2), .refresh, .rd (some 7500)] = false := by decide
example : TraceKA.accepts [.cfg 0, .run, .rd none, .adv 100000, .eol] = true := by decide
example : TraceKA.accepts [.cfg 5, .run, .wr false false, .adv 5000, .eol, .adv 9000, .eol, .wrOk, .wr true false, .eol] = true := by decide   -- transport latency: the PINGREQ waits for the write in progress
example : (TraceKA.obs [.cfg 5, .run, .eol, .adv 4999]).running = true ∧ 0 < (TraceKA.obs [.cfg 5, .run, .eol, .adv 4999]).kArm := by decide


/-! ### the silence limit itself (`Model/TraceRd.lean`: the timed read of the real stream layer, every timed H-stream transcript must be accepted) -/

/-- **C12 end to end (abandoned at 1.5 · K, never earlier, never for K = 0)**: in every accepted timed history of the stream layer, the read
timer gives a connection up only while a read with a limit is in progress and at least that limit has passed since the read began — both read
off the events alone.  With `composed_read_timeout_rule` (the client starts every read with the limit 1.5 · K, none for K = 0) this is the
clause "abandons the connection when it has waited 1.5·K seconds for data without a single byte arriving, never earlier; with K = 0 never". -/
theorem composed_abandon_only_at_the_limit (tr : List TraceRd.Ev) (hacc : TraceRd.accepts (tr ++ [.abandon]) = true) :
    ∃ t0 lim, TraceRd.readOf tr = some (t0, some lim) ∧ t0 + lim ≤ TraceRd.nowOf tr := by
  simp only [TraceRd.accepts, Option.isSome_iff_exists] at hacc
  obtain ⟨s, hs⟩ := hacc
  exact Mqtt5V.Proofs.TraceRd.abandon_only_at_the_limit hs

/-- **… and no later**: whenever the execution context has run out of ready handlers, a read with a limit that is still in progress began less
than its limit ago. -/
theorem composed_pending_read_within_limit (tr : List TraceRd.Ev) (hacc : TraceRd.accepts (tr ++ [.eol]) = true) (t0 lim : Nat)
    (hr : TraceRd.readOf tr = some (t0, some lim)) : TraceRd.nowOf tr < t0 + lim := by
  simp only [TraceRd.accepts, Option.isSome_iff_exists] at hacc
  obtain ⟨s, hs⟩ := hacc
  exact Mqtt5V.Proofs.TraceRd.pending_read_within_limit hs t0 lim hr

example : TraceRd.accepts [.start (some 7500), .eol, .adv 7499, .eol, .adv 1, .abandon, .eol] = true := by decide
example : TraceRd.accepts [.start (some 7500), .eol, .adv 7499, .abandon] = false := by decide      -- one millisecond early
example : TraceRd.accepts [.start (some 7500), .eol, .adv 7500, .eol] = false := by decide          -- the limit passed and the read is still pending
example : TraceRd.accepts [.start none, .eol, .adv 1000000, .eol] = true := by decide               -- keep-alive 0: never
example : TraceRd.accepts [.start none, .eol, .adv 1000000, .abandon] = false := by decide
example : TraceRd.accepts [.start (some 3000), .adv 2000, .finish, .start (some 3000), .adv 2999, .eol] = true := by decide   -- every byte restarts the wait
example : TraceRd.readOf [.start (some 7500), .eol, .adv 7499] = some (0, some 7500) ∧ TraceRd.nowOf [.start (some 7500), .eol, .adv 7499] = 7499 := by decide

end ComposedModel

end Mqtt5V.Props.C12
