import Mqtt5V.Gen.Timing
/-! # C12 — keep-alive: PINGREQ every negotiated interval; 1.5 × silence means reconnect (timing rules)

The three expressions that decide the behaviour are *translated* from the source on every run
(`Gen.Timing`: `compute_read_timeout`, `ping_op::compute_wait_time`, `negotiated_keep_alive`).  For every
keep-alive value K (uint16) and every Server Keep Alive override: -/
namespace Mqtt5V.Props.C12
open Mqtt5V.Gen.Timing

/-- the negotiated keep-alive is the broker's Server Keep Alive if present, else the configured value -/
theorem negotiated_rule (ska : Option Nat) (cfg : Nat) :
    negotiated ska cfg = (match ska with | some k => k | none => cfg) := by
  cases ska <;> rfl

/-- **the connection is abandoned after exactly 1.5 · K seconds of silence** (K > 0): the timed read is started with
a time-out of 1500 · K ms (never less) -/
theorem read_timeout_is_one_and_a_half_keepalive (k : Nat) (hk : 0 < k) : readTimeoutMs k = some (1500 * k) := by
  unfold readTimeoutMs
  have : ¬ k = 0 := by omega
  simp only [this, if_false, Option.some.injEq]
  omega

/-- **a PINGREQ is due exactly K seconds** after the session refresh / the previous PINGREQ's completion (K > 0) -/
theorem ping_period_is_keepalive (k : Nat) (hk : 0 < k) : pingWaitMs k = some (1000 * k) := by
  unfold pingWaitMs
  have : ¬ k = 0 := by omega
  simp only [this, if_false, Option.some.injEq]
  omega

/-- **K = 0: no PINGREQ, and the broker is never timed out** -/
theorem keepalive_zero_is_silent : pingWaitMs 0 = none ∧ readTimeoutMs 0 = none := ⟨rfl, rfl⟩

/-- the ping comes before the read time-out: K · 1000 < 1.5 · K · 1000 for every K > 0, so a healthy broker that
answers each PINGREQ is never timed out by the client's own silence -/
theorem ping_before_timeout (k : Nat) (hk : 0 < k) : ∀ p t, pingWaitMs k = some p → readTimeoutMs k = some t → p < t := by
  intro p t hp ht
  rw [ping_period_is_keepalive k hk] at hp
  rw [read_timeout_is_one_and_a_half_keepalive k hk] at ht
  simp at hp ht; omega

/-- no uint16 keep-alive overflows the millisecond arithmetic of the read time-out (int: 3 · 65535 · 1000 < 2³¹) -/
theorem read_timeout_no_overflow (k : Nat) (hk : k ≤ 65535) : 3 * k * 1000 < 2 ^ 31 := by omega

example : readTimeoutMs 7 = some 10500 ∧ pingWaitMs 7 = some 7000 ∧ negotiated (some 7) 60 = 7 ∧ negotiated none 60 = 60 := by decide

end Mqtt5V.Props.C12
