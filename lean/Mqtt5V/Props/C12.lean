import Mqtt5V.Basic
namespace Mqtt5V.Props.C12
end Mqtt5V.Props.C12
