import Mqtt5V.Proofs.TraceQuota
import Mqtt5V.Model.SerialOrder
import Mqtt5V.Proofs.Sender
/-! # C06 — PUBLISH packets leave in initiation order, also when retransmitted (ordering core)

The re-send order is decided by `write_req::operator<` and `std::stable_sort`.  While every serial
number in the queue is below 2³¹ (fewer than 2³¹ publishes initiated on the client object; `no_serial = 0`
of non-publish requests included) the comparator is the lexicographic strict weak order
(prioritized first, then serial), the sort has no inversion, is a permutation and is stable — so
PUBLISH requests come out in serial = initiation order.  Across 2³¹ the comparator is cyclic
(`lt_not_transitive_across_wrap`), which is why the theorem carries the hypothesis (`_partial`). -/
namespace Mqtt5V.Props.C06
open Mqtt5V.Model.SerialOrder

/-- lexicographic order: prioritized first, then by serial -/
def lexLt (a b : Req) : Bool :=
  if a.prio != b.prio then a.prio else decide (a.serial < b.serial)

def lexLe (a b : Req) : Bool := !lexLt b a

def InWindow (q : List Req) : Prop := ∀ r ∈ q, r.serial < HALF

theorem lt_eq_lex_below_wrap (a b : Req) (ha : a.serial < HALF) (hb : b.serial < HALF) : lt a b = lexLt a b := by
  unfold lt lexLt HALF WRAP at *
  split
  · rfl
  · split
    · rename_i h; simp [h]; omega
    · rename_i h; simp [h]; omega

theorem lexLe_trans (a b c : Req) : lexLe a b = true → lexLe b c = true → lexLe a c = true := by
  unfold lexLe lexLt
  cases a.prio <;> cases b.prio <;> cases c.prio <;> simp <;> omega

theorem lexLe_total (a b : Req) : (lexLe a b || lexLe b a) = true := by
  unfold lexLe lexLt
  cases a.prio <;> cases b.prio <;> simp <;> omega

/-- inside the window the modelled `stable_sort` is the lexicographic stable sort -/
theorem sort_eq_lex (q : List Req) (hw : InWindow q) : sortQueue q = q.mergeSort lexLe := by
  have := List.map_mergeSort (r := le) (s := lexLe) (f := id) (l := q) (by
    intro a ha b hb
    simp only [le, lexLe, id]
    rw [lt_eq_lex_below_wrap b a (hw b hb) (hw a ha)])
  simpa [sortQueue] using this

/-- **The comparator is a strict weak order on the window**: irreflexive, transitive, and
incomparability is transitive (stated through the total preorder `le`). -/
theorem lt_strict_weak_on_window (a b c : Req) (ha : a.serial < HALF) (hb : b.serial < HALF) (hc : c.serial < HALF) :
    lt a a = false ∧ (lt a b = true → lt b c = true → lt a c = true) ∧
    (le a b = true → le b c = true → le a c = true) ∧ (le a b || le b a) = true := by
  simp only [le, lt_eq_lex_below_wrap _ _ ha ha, lt_eq_lex_below_wrap _ _ ha hb, lt_eq_lex_below_wrap _ _ hb hc,
    lt_eq_lex_below_wrap _ _ ha hc, lt_eq_lex_below_wrap _ _ hb ha, lt_eq_lex_below_wrap _ _ hc hb,
    lt_eq_lex_below_wrap _ _ hc ha]
  refine ⟨by simp [lexLt], ?_, lexLe_trans a b c, lexLe_total a b⟩
  unfold lexLt
  cases a.prio <;> cases b.prio <;> cases c.prio <;> simp <;> omega

/-- the re-send sort is a permutation of the queue: nothing is dropped or duplicated -/
theorem resend_sort_perm (q : List Req) : (sortQueue q).Perm q := List.mergeSort_perm q le

/-- **No inversion after the re-send sort** (queue inside the window): prioritized requests (PUBREL)
first, and for equal priority a request never precedes one with a smaller serial number. -/
theorem resend_sorted_partial (q : List Req) (hw : InWindow q) :
    (sortQueue q).Pairwise (fun a b => lexLt b a = false) := by
  rw [sort_eq_lex q hw]
  have := List.pairwise_mergeSort (le := lexLe) lexLe_trans lexLe_total q
  exact this.imp (by intro a b h; simpa [lexLe] using h)

/-- **Stability**: two requests that are not out of order keep their relative position. -/
theorem resend_stable_partial (q : List Req) (hw : InWindow q) (a b : Req)
    (hab : lexLt b a = false) (h : [a, b].Sublist q) : [a, b].Sublist (sortQueue q) := by
  rw [sort_eq_lex q hw]
  exact List.pair_sublist_mergeSort lexLe_trans lexLe_total (by simp [lexLe, hab]) h

/-- **PUBLISH requests come out in initiation order**: for two non-prioritized requests with
serials `s₁ < s₂` (serial numbers are handed out in initiation order), the later one never precedes
the earlier one after the re-send sort, whatever the order they re-entered the queue in. -/
theorem publish_order_after_resend_partial (q : List Req) (hw : InWindow q) (a b : Req)
    (hpa : a.prio = false) (hpb : b.prio = false) (hs : a.serial < b.serial) :
    ¬ [b, a].Sublist (sortQueue q) := by
  intro hsub
  have hp := resend_sorted_partial q hw
  have := (hp.sublist hsub)
  simp [lexLt, hpa, hpb] at this
  omega

/-- Why the hypothesis is needed (suspected defect F9): across 2³¹ the comparator is cyclic,
so it is not a strict weak order and `std::stable_sort` may reorder PUBLISHes. -/
theorem lt_not_transitive_across_wrap :
    let z : Req := ⟨0, false, 0⟩              -- a non-publish request (`no_serial`)
    let a : Req := ⟨1, false, 2 ^ 31 - 1⟩
    let b : Req := ⟨2, false, 2 ^ 31 + 1⟩
    lt z a = true ∧ lt a b = true ∧ lt b z = true := by
  decide

/-! ## through the sender: batches keep the queue order, a failed batch goes back in front, resend sorts -/
open Mqtt5V.Model.Sender Mqtt5V.Proofs.Sender in
/-- the re-send sort of the sender model is the comparator sort of this file on (prioritized, serial) -/
theorem sender_sort_is_comparator_sort (q : List SReq) : (sortReqs q).map toReq = sortQueue (q.map toReq) := by
  unfold sortReqs sortQueue
  exact List.map_mergeSort (fun a _ b _ => rfl)

open Mqtt5V.Model.Sender Mqtt5V.Proofs.Sender in
/-- **every write batch is an order-preserving subsequence of the queue** and what stays behind keeps its order too
(throttled split); with no Receive Maximum the whole queue is written as it stands -/
theorem batch_is_order_preserving_subsequence (q : List SReq) (k : Nat) :
    (split q k).1.Sublist q ∧ (split q k).2.1.Sublist q ∧ ((split q k).1 ++ (split q k).2.1).Perm q :=
  ⟨split_batch_sublist q k, split_rest_sublist q k, split_perm q k⟩

open Mqtt5V.Model.Sender in
/-- **a failed batch is put back in front of later requests** before everything is re-sent: after `try_again` the
requests re-enter as unanswered ++ batch ++ queue and are then sorted (stable) -/
theorem failed_batch_back_in_front (s : S) (b : List SReq) (h : s.inflight = some b) :
    (step s (.wdone .tryAgain)).1 =
      (doWrite { s with inflight := none, queue := sortReqs (s.unanswered ++ (b ++ s.queue)), unanswered := [], limit := s.rm.getD MAX_LIMIT, quota := s.rm.getD MAX_LIMIT }).1 := by
  simp [step, h, resend]

/-- non-vacuity: a window queue with a PUBREL, two PUBLISHes out of order and a SUBSCRIBE meets the hypotheses -/
example : InWindow [⟨0, false, 7⟩, ⟨1, false, 0⟩, ⟨2, false, 5⟩, ⟨3, true, 6⟩] ∧
    [(⟨0, false, 7⟩ : Req), ⟨2, false, 5⟩].Sublist [⟨0, false, 7⟩, ⟨1, false, 0⟩, ⟨2, false, 5⟩, ⟨3, true, 6⟩] := by
  constructor
  · intro r hr; simp at hr; rcases hr with rfl | rfl | rfl | rfl <;> simp [HALF]
  · decide

/-! ## the composed client model (`Model/Trace.lean`)
The same labelled transition system as in C01/C03/C05/C07/C08 (tie: every H-client transcript of the real client must be accepted,
`lib/trace_check.py`); the operations are numbered by the front end in the order of their API calls. -/
section ComposedModel
open Mqtt5V.Model

/-- **C06 end to end, every accepted history**: after every prefix, the QoS 1/2 PUBLISH packets written on the current connection
(`Trace.pubsOf`, read off the events alone: the operation numbers of the PUBLISH events since the last `connUp`) are strictly increasing,
i.e. they left in the order in which their `async_publish` calls were initiated — first transmissions and retransmissions alike,
whatever throttling, acknowledgements and reconnects lie in between (the serial-number window of the known finding F9 is a property of
the comparator, not of this model) -/
theorem composed_publish_order (tr pre post : List Trace.Ev) (hacc : Trace.accepts tr = true) (hsplit : tr = pre ++ post) :
    (Trace.pubsOf pre).Pairwise (· < ·) :=
  Mqtt5V.Proofs.Trace.publish_order hacc pre post hsplit

example : Trace.accepts [.init 1 .pub1 1, .init 2 .pub1 1, .connUp (some 1), .wr, .pk (.publish 1 1 7 false 3), .wrOk, .connUp none, .wr,
    .pk (.publish 1 1 7 true 3), .pk (.publish 2 1 8 false 4)] = true := by decide
example : Trace.accepts [.init 1 .pub1 1, .init 2 .pub1 1, .connUp (some 1), .wr, .pk (.publish 1 1 7 false 3), .wrOk, .connUp none, .wr,
    .pk (.publish 2 1 8 false 4), .pk (.publish 1 1 7 true 3)] = false := by decide

end ComposedModel

end Mqtt5V.Props.C06
