import Mqtt5V.Proofs.Trace
import Mqtt5V.Proofs.PubSend
import Mqtt5V.Proofs.PidAlloc
/-! # C08 — packet identifiers are unique among outstanding exchanges and never zero

Refinement of the interval allocator to a set, lifted over *every* legal history (any sequence of
allocations and releases of held ids, of any length, including full exhaustion). -/
namespace Mqtt5V.Props.C08
open Mqtt5V.Model.PidAlloc Mqtt5V.Proofs.PidAlloc

/-- system invariant: representation invariant + the held ids are exactly the valid ids that are not free, without repetition -/
def SInv (s : Sys) : Prop :=
  AInv s.st ∧ s.live.Nodup ∧ ∀ p, p ∈ s.live ↔ (1 ≤ p ∧ p ≤ 65535 ∧ ¬ isFree s.st p)

theorem init_inv : SInv Sys.init := by
  refine ⟨ainv_init, by simp [Sys.init], ?_⟩
  intro p; simp [Sys.init, init, MAX_PACKET_ID]; omega

/-- one legal step keeps the invariant -/
theorem step_inv (s : Sys) (op : Op) (h : SInv s) (hl : s.legal op = true) : SInv (s.step op).1 := by
  obtain ⟨hA, hN, hM⟩ := h
  cases op with
  | alloc =>
    simp only [Sys.step]
    have hs := allocate_spec s.st hA
    by_cases hnil : s.st = []
    · have hz : allocate s.st = (0, []) := hs.1 hnil
      rw [hz]
      simp only [if_true]
      exact ⟨ainv_nil, hN, by simpa [hnil] using hM⟩
    · obtain ⟨h0, hf, hmin, hA', hiff⟩ := hs.2 hnil
      simp only [h0, if_false]
      have hb := isFree_bounds hA hf
      refine ⟨hA', ?_, ?_⟩
      · refine List.nodup_cons.mpr ⟨?_, hN⟩
        intro hm; exact ((hM _).mp hm).2.2 hf
      · intro p
        simp only [List.mem_cons, hiff, hM]
        constructor
        · rintro (rfl | ⟨h1, h2, h3⟩)
          · exact ⟨hb.1, hb.2, fun hh => hh.2 rfl⟩
          · exact ⟨h1, h2, fun hh => h3 hh.1⟩
        · rintro ⟨h1, h2, h3⟩
          by_cases hp : p = (allocate s.st).1
          · exact Or.inl hp
          · exact Or.inr ⟨h1, h2, fun hh => h3 ⟨hh, hp⟩⟩
  | free p =>
    simp only [Sys.legal, List.contains_iff_mem] at hl
    have hp := (hM p).mp hl
    simp only [Sys.step]
    refine ⟨free_ainv p hp.1 hp.2.1 s.st hA hp.2.2, hN.erase p, ?_⟩
    intro q
    rw [hN.mem_erase_iff, free_isFree p hp.1 hp.2.1 s.st hA hp.2.2 q, hM]
    constructor
    · rintro ⟨hne, h1, h2, h3⟩; exact ⟨h1, h2, fun hh => hh.elim h3 hne⟩
    · rintro ⟨h1, h2, h3⟩; exact ⟨fun hh => h3 (Or.inr hh), h1, h2, fun hh => h3 (Or.inl hh)⟩

/-- every state reachable by a legal history (of any length) satisfies the invariant -/
theorem reachable_inv (ops : List Op) : ∀ (s s' : Sys), SInv s → s.run ops = some s' → SInv s' := by
  induction ops with
  | nil => intro s s' h hr; simp [Sys.run] at hr; subst hr; exact h
  | cons op ops ih =>
    intro s s' h hr
    simp only [Sys.run] at hr
    split at hr
    · rename_i hl; exact ih _ _ (step_inv s op h hl) hr
    · cases hr

/-- **No two outstanding exchanges share an identifier, and the identifier is never 0**: after any
legal history, an allocation that succeeds returns a valid id that no outstanding exchange holds. -/
theorem alloc_fresh_nonzero (ops : List Op) (s : Sys) (hr : Sys.init.run ops = some s) :
    ∀ p, (s.step .alloc).2 = some p → p ≠ 0 → (1 ≤ p ∧ p ≤ 65535 ∧ p ∉ s.live) := by
  have hI := reachable_inv ops _ _ init_inv hr
  obtain ⟨hA, hN, hM⟩ := hI
  intro p hp hp0
  simp only [Sys.step] at hp
  by_cases hnil : s.st = []
  · simp [(allocate_spec s.st hA).1 hnil] at hp; omega
  · obtain ⟨h0, hf, hmin, hA', hiff⟩ := (allocate_spec s.st hA).2 hnil
    simp only [h0, if_false, Option.some.injEq] at hp
    subst hp
    have hb := isFree_bounds hA hf
    exact ⟨hb.1, hb.2, fun hm => ((hM _).mp hm).2.2 hf⟩

/-- the ids held at any time are pairwise distinct and none of them is 0 -/
theorem live_ids_distinct_nonzero (ops : List Op) (s : Sys) (hr : Sys.init.run ops = some s) :
    s.live.Nodup ∧ ∀ p ∈ s.live, 1 ≤ p ∧ p ≤ 65535 := by
  have hI := reachable_inv ops _ _ init_inv hr
  exact ⟨hI.2.1, fun p hp => ⟨((hI.2.2 p).mp hp).1, ((hI.2.2 p).mp hp).2.1⟩⟩

/-- **pid_overrun only when all 65535 identifiers are in use**: `allocate()` returns 0 exactly
when every id 1…65535 is held. -/
theorem overrun_iff_all_in_use (ops : List Op) (s : Sys) (hr : Sys.init.run ops = some s) :
    (s.step .alloc).2 = some 0 ↔ ∀ p, 1 ≤ p → p ≤ 65535 → p ∈ s.live := by
  have hI := reachable_inv ops _ _ init_inv hr
  obtain ⟨hA, hN, hM⟩ := hI
  simp only [Sys.step]
  by_cases hnil : s.st = []
  · simp only [(allocate_spec s.st hA).1 hnil, if_true, true_iff]
    intro p h1 h2; exact (hM p).mpr ⟨h1, h2, by simp [hnil]⟩
  · obtain ⟨h0, hf, hmin, hA', hiff⟩ := (allocate_spec s.st hA).2 hnil
    simp only [h0, if_false, Option.some.injEq, false_iff]
    intro hall
    have hb := isFree_bounds hA hf
    exact ((hM _).mp (hall _ hb.1 hb.2)).2.2 hf

/-- … and then exactly 65535 ids are held -/
theorem overrun_count (ops : List Op) (s : Sys) (hr : Sys.init.run ops = some s)
    (h0 : (s.step .alloc).2 = some 0) : s.live.length = 65535 := by
  have hall := (overrun_iff_all_in_use ops s hr).mp h0
  have hI := reachable_inv ops _ _ init_inv hr
  have hperm : s.live.Perm (List.range' 1 65535) := by
    rw [List.perm_ext_iff_of_nodup hI.2.1 (List.nodup_range' (step := 1) (by omega))]
    intro p
    simp only [List.mem_range'_1]
    constructor
    · intro hp; have := (hI.2.2 p).mp hp; omega
    · intro hp; exact hall p hp.1 (by omega)
  simpa using hperm.length_eq

/-- **An identifier becomes reusable only after its exchange completed**: the allocator hands out the
lowest id that no outstanding exchange holds, so an id that is still held is never returned. -/
theorem alloc_is_lowest_unused (ops : List Op) (s : Sys) (hr : Sys.init.run ops = some s) :
    ∀ p, (s.step .alloc).2 = some p → p ≠ 0 → ∀ q, 1 ≤ q → q < p → q ∈ s.live := by
  have hI := reachable_inv ops _ _ init_inv hr
  obtain ⟨hA, hN, hM⟩ := hI
  intro p hp hp0 q hq1 hq2
  simp only [Sys.step] at hp
  by_cases hnil : s.st = []
  · simp [(allocate_spec s.st hA).1 hnil] at hp; omega
  · obtain ⟨h0, hf, hmin, hA', hiff⟩ := (allocate_spec s.st hA).2 hnil
    simp only [h0, if_false, Option.some.injEq] at hp
    subst hp
    have hb := isFree_bounds hA hf
    refine (hM q).mpr ⟨hq1, by omega, fun hfq => ?_⟩
    have := hmin q hfq; omega

/-- non-vacuity: a concrete history with splitting and merging is legal and reaches a non-trivial state -/
example : (Sys.init.run [.alloc, .alloc, .alloc, .free 2, .alloc, .free 1, .free 3]).map (·.live) = some [2] := by
  decide


/-! ## the publish operation (`publish_send_op`, Model/PubSend.lean, tied by the H-pubsend lock-step) -/
section PubSendOp
open Mqtt5V.Model.PubSend Mqtt5V.Proofs.PubSend

/-- **the packet identifier of a publish is released exactly once, immediately before its one completion, on every path**
(success, failing acknowledgement, aborted write, cancellation during a re-send): this is rule 4 of the operation monitor
(`Proofs.PubSend.Mon.feed`), which no history violates -/
theorem publish_releases_its_identifier_exactly_once (qos2 : Bool) (is : List In) :
    (({} : Mon).feedAll qos2 (trace qos2 is)).bad = false ∧
    ((({} : Mon).feedAll qos2 (trace qos2 is)).freed = (({} : Mon).feedAll qos2 (trace qos2 is)).completed) := by
  refine ⟨rules_hold qos2 is, ?_⟩
  have h := rel_run is (start qos2).1 _ (rel_start qos2)
  have hq : (start qos2).1.qos2 = qos2 := rfl
  rw [hq] at h
  unfold trace
  rw [feedAll_append]
  simp only [rel, Bool.and_eq_true, Bool.not_eq_true', beq_iff_eq] at h
  exact h.1.2

end PubSendOp

/-! ## the composed client model (`Model/Trace.lean`)
One labelled transition system for the whole outbound path of the client above the stream (API call → sender → reply map → completion),
over the events an observer of the real client sees.  The tie: `lib/trace_check.py` replays every H-client transcript of the real
`mqtt_client` through the compiled model (`mdrv trace`); a transcript the model refuses is a broken correspondence.  The theorems below
hold for EVERY event list the model accepts, of any length. -/
section ComposedModel
open Mqtt5V.Model

/-- **C08 end to end, every accepted history**: at any moment (after any prefix) two operations whose request packets (PUBLISH QoS 1/2,
SUBSCRIBE, UNSUBSCRIBE) carried the same identifier and that have both not completed yet are the same operation … -/
theorem composed_outstanding_identifiers_distinct (tr pre post : List Trace.Ev) (hacc : Trace.accepts tr = true) (hsplit : tr = pre ++ post)
    (o1 o2 p : Nat) (u1 : Trace.usesPid pre o1 p) (u2 : Trace.usesPid pre o2 p) (n1 : ¬ Trace.doneIn pre o1) (n2 : ¬ Trace.doneIn pre o2) :
    o1 = o2 := by
  obtain ⟨s, hr⟩ := (Mqtt5V.Proofs.Trace.accepts_iff _).1 hacc
  rw [hsplit] at hr
  obtain ⟨s1, hr1, _⟩ := Mqtt5V.Proofs.Trace.run_prefix hr
  exact Mqtt5V.Proofs.Trace.pid_unique hr1 u1 u2 n1 n2

/-- … an operation uses one identifier for all its transmissions, and never 0 -/
theorem composed_identifier_stable_nonzero (tr : List Trace.Ev) (hacc : Trace.accepts tr = true) (op p1 p2 : Nat)
    (u1 : Trace.usesPid tr op p1) (u2 : Trace.usesPid tr op p2) : p1 = p2 ∧ p1 ≠ 0 := by
  obtain ⟨s, hr⟩ := (Mqtt5V.Proofs.Trace.accepts_iff _).1 hacc
  exact ⟨Mqtt5V.Proofs.Trace.pid_stable hr u1 u2, Mqtt5V.Proofs.Trace.pid_nonzero hr u1⟩

example : Trace.accepts [.init 1 .pub1 1, .init 2 .sub 1, .connUp none, .wr, .pk (.publish 1 1 7 false 3), .pk (.subscribe 2 7 4)] = false := by decide
example : Trace.accepts [.init 1 .pub1 1, .init 2 .sub 1, .connUp none, .wr, .pk (.publish 1 1 7 false 3), .wrOk,
    .rx ⟨.puback, 7, [0], 0, true⟩, .doneOk 1 [0] 0, .wr, .pk (.subscribe 2 7 4)] = true := by decide

end ComposedModel

end Mqtt5V.Props.C08
