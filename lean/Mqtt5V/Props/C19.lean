import Mqtt5V.Proofs.Dec
import Mqtt5V.Proofs.Frame
/-! # C19 — hostile broker bytes never cause an access outside the received packet (decoder index arithmetic)

The decoder model works on indices into the read buffer and knows where the received packet ends; a dereference the
C++ would perform at or beyond that end is the outcome `oob`.  For *every* buffer content, every position and every
Remaining Length that lies inside the buffer, no decoder ever produces `oob`, and a successful decode ends inside the
packet.  (That the C++ dereferences exactly the indices the model computes is observed by the harness: packets in
exact-size heap blocks under ASan, and the whole client fed with mutated streams.) -/
namespace Mqtt5V.Props.C19
open Mqtt5V.Wire Mqtt5V.Model.Dec Mqtt5V.Proofs.Dec Mqtt5V.Gen.PropTable

/-- PUBACK / PUBREC / PUBREL / PUBCOMP / DISCONNECT / AUTH bodies -/
theorem rcProps_in_bounds (allowed : List Nat) (c : Ctx) (pos remain : Nat) (h : pos + remain ≤ c.realLast) :
    Good pos (pos + remain) (rcProps allowed c pos remain) := by
  unfold rcProps
  split
  · exact ⟨Nat.le_refl _, by omega⟩
  · simp only []
    apply good_whole
    apply good_bind (byte_good c pos _ h)
    intro rc p h1 h2
    apply good_bind (props_good allowed c p _ h h2)
    intro ps p' h3 h4
    exact ⟨Nat.le_refl _, h4⟩

theorem connack_in_bounds (c : Ctx) (pos remain : Nat) (h : pos + remain ≤ c.realLast) :
    Good pos (pos + remain) (decodeConnack c pos remain) := by
  unfold decodeConnack
  simp only []
  apply good_whole
  apply good_bind (byte_good c pos _ h)
  intro sp p _ _
  apply good_bind (byte_good c p _ h)
  intro rc p1 _ h2
  apply good_bind (props_good connackProps c p1 _ h h2)
  intro ps p2 _ h4
  exact ⟨Nat.le_refl _, h4⟩

/-- a value that passed `whole lim` ends exactly at `lim` -/
theorem whole_ok {α} (lim : Nat) (r : Res α) (v : α) (p : Nat) (h : whole lim r = .ok v p) : p = lim := by
  cases r with
  | ok w q =>
    simp only [whole] at h
    split at h
    · injection h with _ h2; omega
    · cases h
  | fail => cases h
  | oob => cases h

/-- **no bytes are left over**: an accepted PUBACK/PUBREC/PUBREL/PUBCOMP/DISCONNECT/AUTH body was consumed to the last byte
(`remain = 0` is the short form); a body with trailing bytes after its property block is malformed -/
theorem rcProps_consumes_whole_packet (allowed : List Nat) (c : Ctx) (pos remain : Nat) (v : Nat × Props) (p : Nat)
    (h : rcProps allowed c pos remain = .ok v p) : p = pos + remain := by
  unfold rcProps at h
  split at h
  · injection h with _ h2; omega
  · exact whole_ok _ _ _ _ h

/-- the same for CONNACK -/
theorem connack_consumes_whole_packet (c : Ctx) (pos remain : Nat) (v : Nat × Nat × Props) (p : Nat)
    (h : decodeConnack c pos remain = .ok v p) : p = pos + remain :=
  whole_ok _ _ _ _ h

theorem publish_in_bounds (c : Ctx) (cb pos remain : Nat) (h : pos + remain ≤ c.realLast) :
    Good pos (pos + remain) (decodePublish c cb pos remain) := by
  unfold decodePublish
  simp only []
  apply good_bind (lenPrefix_good c pos _ h)
  intro topic p _ hp
  have hpid : Good p (pos + remain)
      (if cb % 16 / 2 % 4 ≠ 0 then (bigWord c p (pos + remain)).bind fun pid p' => Res.ok (some pid) p' else Res.ok none p) := by
    split
    · exact good_bind (bigWord_good c p _ h) (fun _ _ _ h2 => ⟨Nat.le_refl _, h2⟩)
    · exact ⟨Nat.le_refl _, hp⟩
  apply good_bind hpid
  intro pid p1 _ h1
  apply good_bind (props_good publishProps c p1 _ h h1)
  intro ps p2 _ h2
  apply good_bind (slice_good c p2 _ _ h)
  intro payload p3 _ h3
  exact ⟨Nat.le_refl _, h3⟩

theorem codes_in_bounds (allowed : List Nat) (c : Ctx) (pos remain : Nat) (h : pos + remain ≤ c.realLast) :
    Good pos (pos + remain) (decodeCodes allowed c pos remain) := by
  unfold decodeCodes
  simp only []
  apply good_bind (props_good allowed c pos _ h (by omega))
  intro ps p _ _
  split
  · trivial
  · apply good_bind (slice_good c p _ _ h)
    intro rcs p' _ h2
    exact ⟨Nat.le_refl _, h2⟩

/-- the Packet Identifier of a reply is read inside the packet provided the packet has at least two bytes — the check
`assemble_op::dispatch` now performs before calling `decode_packet_id` -/
theorem packetId_in_bounds (c : Ctx) (pos : Nat) (h : pos + 2 ≤ c.realLast) : Good pos (pos + 2) (packetId c pos) :=
  bigWord_good c pos (pos + 2) h

/-- **no decoder reads outside the received packet, for any bytes** (summary: none of the results is `oob`) -/
theorem decoders_never_read_outside (c : Ctx) (cb pos remain : Nat) (h : pos + remain ≤ c.realLast) :
    (∀ allowed, ¬ (rcProps allowed c pos remain matches .oob)) ∧ ¬ (decodeConnack c pos remain matches .oob) ∧
    ¬ (decodePublish c cb pos remain matches .oob) ∧ (∀ allowed, ¬ (decodeCodes allowed c pos remain matches .oob)) := by
  refine ⟨fun a => ?_, ?_, ?_, fun a => ?_⟩
  · have := rcProps_in_bounds a c pos remain h; cases hr : rcProps a c pos remain <;> simp_all [Good]
  · have := connack_in_bounds c pos remain h; cases hr : decodeConnack c pos remain <;> simp_all [Good]
  · have := publish_in_bounds c cb pos remain h; cases hr : decodePublish c cb pos remain <;> simp_all [Good]
  · have := codes_in_bounds a c pos remain h; cases hr : decodeCodes a c pos remain <;> simp_all [Good]

/-- why the bound check in `prop_parser` matters: with a Property Length that exceeds what is left of the packet the
parser now fails instead of walking into the bytes behind the packet (`00 7f` as PUBACK body) -/
example : (match rcProps pubackProps ⟨[0x00, 0x7F, 0x26, 0x00], 2⟩ 0 2 with | .fail => true | _ => false) = true := by decide


/-! ## frame reassembly (`assemble_op`): the packets recognised do not depend on the chunking -/
section Frame
open Mqtt5V.Model.Frame Mqtt5V.Proofs.Frame

/-- feeding a drained buffer chunk by chunk gives exactly what one delivery of all the bytes gives -/
theorem feedAll_eq_drain (max : Nat) (cs : List Bs) : ∀ buf : Bs, drainFull max buf = ([], some buf) →
    feedAll max (some buf) cs = drainFull max (buf ++ cs.flatten) := by
  induction cs with
  | nil => intro buf h; simp [feedAll, h]
  | cons c cs ih =>
    intro buf _
    have ha := drain_append max ((buf ++ c).length + 1) (buf ++ c) cs.flatten (by omega)
    simp only [feedAll, feed, List.flatten_cons, ← List.append_assoc]
    rw [ha]
    cases hr : (drainFull max (buf ++ c)).2 with
    | none => simp [andThen, hr, feedAll_none]
    | some r =>
      have hst := drain_left_is_stuck max ((buf ++ c).length + 1) (buf ++ c) r (by omega) hr
      rw [ih r hst]
      simp [andThen, hr]

/-- **chunking independence**: for every byte string a broker sends on a connection and any two ways of splitting it into
reads, `assemble_op` recognises the same packets in the same order, reports a malformed stream at the same packet, and is
left with the same unconsumed bytes -/
theorem recognised_packets_do_not_depend_on_chunking (max : Nat) (cs1 cs2 : List Bs) (h : cs1.flatten = cs2.flatten) :
    feedAll max (some []) cs1 = feedAll max (some []) cs2 := by
  have e : drainFull max [] = ([], some []) := by simp [drainFull, drain, parseOne]
  rw [feedAll_eq_drain max cs1 [] e, feedAll_eq_drain max cs2 [] e, h]

/-- **progress (no hang)**: every packet taken off the buffer removes at least two bytes, so the parsing loop of one read
ends after at most `length / 2` packets; and the loop's result never depends on the iteration bound -/
theorem every_packet_shrinks_the_buffer (max : Nat) (buf : Bs) (cb : Nat) (body rest : Bs) (h : parseOne max buf = .packet cb body rest) :
    rest.length + 2 ≤ buf.length := parseOne_packet_shorter max buf cb body rest h

theorem loop_bound_is_never_reached (max : Nat) (buf : Bs) (fuel : Nat) (h : buf.length + 1 ≤ fuel) :
    drain max fuel buf = drainFull max buf := drain_eq_full max buf fuel h

/-- a verdict, once reached, is not revised by later bytes: a malformed header stays malformed and a recognised packet stays
the same packet whatever follows it -/
theorem verdicts_are_stable (max : Nat) (buf more : Bs) :
    (parseOne max buf = .malformed → parseOne max (buf ++ more) = .malformed) ∧
    (∀ cb body rest, parseOne max buf = .packet cb body rest → parseOne max (buf ++ more) = .packet cb body (rest ++ more)) :=
  ⟨parseOne_malformed_append max buf more, fun cb body rest => parseOne_packet_append max buf more cb body rest⟩

/-- a recognised packet body is at most the announced Maximum Packet Size minus its header: the reassembly buffer is never overrun -/
theorem packet_fits_receive_buffer (max : Nat) (buf : Bs) (cb : Nat) (body rest : Bs) (h : parseOne max buf = .packet cb body rest) :
    body.length ≤ max - 2 := by
  cases buf with
  | nil => simp [parseOne] at h
  | cons c r =>
    simp only [parseOne] at h
    split at h
    · cases h
    · split at h
      · rename_i v used hv
        have hu := varint_ok_used r v used hv
        split at h
        · cases h
        · split at h
          · cases h
          · injection h with _ e2 _
            subst e2
            simp only [List.length_take]
            omega
      · split at h <;> cases h

/-- non-vacuity: PUBACK + PINGRESP + PUBLISH delivered whole, or in three odd pieces -/
example : feedAll 65536 (some []) [[0x40, 2, 0, 7, 0xD0, 0, 0x30, 3, 0, 1, 0x74]] =
    ([.reply 4 7 [], .msg 0x30 [0, 1, 0x74]], some []) ∧
  feedAll 65536 (some []) [[0x40], [2, 0, 7, 0xD0, 0, 0x30, 3, 0], [1, 0x74]] =
    ([.reply 4 7 [], .msg 0x30 [0, 1, 0x74]], some []) := by decide

end Frame

end Mqtt5V.Props.C19
