import Mqtt5V.Proofs.Utf8
/-! # C16 — request validation accepts exactly the well-formed MQTT inputs (string level)

For *every* byte string: the model of `validate_mqtt_utf8`, `validate_topic_name` and
`validate_topic_alias_name` (hand-written port of the decoder, translated per-character rule) accepts
exactly the strings that are well-formed UTF-8 by Unicode Table 3-7 (`Spec.Utf8.decode`), contain only
code points MQTT allows, respect the 65535-byte limit and, for topic names, contain no wildcard and are
non-empty unless a Topic Alias is used.  The topic-filter and `$share` grammars are tied to their
specification by the exhaustive small-scope correspondence of the check (not by a theorem yet). -/
namespace Mqtt5V.Props.C16
open Mqtt5V Model.Utf8 Spec.Utf8 Proofs.Utf8 Gen.Utf8Rule

/-- the translated per-character rule is the specification's classification, for every value -/
theorem charRule_eq_spec (c : Nat) :
    charRule c = if isWildcard c then 1 else if allowed c && !isSurrogate c then 0 else 2 :=
  charRule_spec c

/-- the model's decoder decodes exactly the sequences of Table 3-7 (surrogates are decoded and then
rejected by the character rule) -/
theorem popFront_eq_table (bs : List Nat) :
    decodeOne bs = rejectSurrogate (popFront bs) := by
  rw [popFront_eq_loose]; exact decodeOne_eq_loose bs

/-- **UTF-8 string properties, user-property names/values, payloads declared UTF-8**:
accepted ⇔ well-formed -/
theorem validateUtf8_iff (bs : List Nat) : validateUtf8 bs = 0 ↔ wellFormedString bs := by
  unfold validateUtf8 validateImpl wellFormedString isValidStringSize maxStringSize
  by_cases hl : bs.length ≤ 65535
  · simp only [hl, decide_true, Bool.not_true, Bool.false_eq_true, if_false, true_and]
    rw [validateLoop_zero_iff isUtf8 (by decide) (by decide)]
    constructor
    · rintro ⟨cps, h1, h2⟩
      refine ⟨cps, h1, fun c hc => ?_⟩
      have := h2 c hc
      rw [charRule_spec] at this
      rcases this with ⟨ha, hs⟩
      by_cases hw : isWildcard c = true
      · simp only [isWildcard, Bool.or_eq_true, decide_eq_true_eq] at hw
        rcases hw with rfl | rfl <;> decide
      · simp only [hw, hs, Bool.not_false, Bool.and_true, if_false] at ha
        by_cases hal : allowed c = true
        · exact hal
        · simp [hal, isUtf8] at ha
    · rintro ⟨cps, h1, h2⟩
      refine ⟨cps, h1, fun c hc => ?_⟩
      have hs := decode_no_surrogate bs cps h1 c hc
      refine ⟨?_, hs⟩
      rw [charRule_spec, h2 c hc, hs]
      by_cases hw : isWildcard c = true <;> simp [hw, isUtf8]
  · simp only [hl, decide_false, Bool.not_false, if_true, false_and, iff_false]
    decide

/-- `validate_mqtt_utf8` never returns `has_wildcard_character`: the verdict is accept (0) or reject (2) -/
theorem validateUtf8_verdict (bs : List Nat) : validateUtf8 bs = 0 ∨ validateUtf8 bs = 2 := by
  unfold validateUtf8 validateImpl
  split
  · exact Or.inr rfl
  · generalize hb : bs = b
    clear hb
    fun_induction validateLoop isUtf8 b with
    | case1 => exact Or.inl rfl
    | case2 => exact Or.inr rfl
    | case3 _ _ _ _ _ _ _ ih => exact ih
    | case4 bs he c r hp res hc =>
      have := charRule_spec c
      simp only [res] at hc ⊢
      rw [this] at hc ⊢
      split <;> rename_i hw
      · simp [hw, isUtf8] at hc
      · split <;> rename_i ha
        · simp [hw, ha, isUtf8] at hc
        · exact Or.inr rfl

theorem topicName_core (allowEmpty : Bool) (sizeOk : Nat → Bool)
    (hsz : ∀ n, sizeOk n = true ↔ ((allowEmpty = true ∨ n ≠ 0) ∧ n ≤ 65535)) (bs : List Nat) :
    validateImpl sizeOk isUtf8NoWildcard bs = 0 ↔ wellFormedTopicName allowEmpty bs := by
  unfold validateImpl wellFormedTopicName
  have hlen : bs ≠ [] ↔ bs.length ≠ 0 := by cases bs <;> simp
  by_cases hs : sizeOk bs.length = true
  · have := (hsz _).mp hs
    simp only [hs, Bool.not_true, Bool.false_eq_true, if_false]
    rw [validateLoop_zero_iff isUtf8NoWildcard (by decide) (by decide)]
    rw [hlen]
    constructor
    · rintro ⟨cps, h1, h2⟩
      refine ⟨this.1, this.2, cps, h1, fun c hc => ?_⟩
      have h3 := h2 c hc
      rw [charRule_spec] at h3
      rcases h3 with ⟨ha, hs'⟩
      by_cases hw : isWildcard c = true
      · simp [hw, isUtf8NoWildcard] at ha
      · simp only [hw, hs', Bool.not_false, Bool.and_true, if_false] at ha
        by_cases hal : allowed c = true
        · exact ⟨hal, by simpa using hw⟩
        · simp [hal, isUtf8NoWildcard] at ha
    · rintro ⟨_, _, cps, h1, h2⟩
      refine ⟨cps, h1, fun c hc => ?_⟩
      have hs' := decode_no_surrogate bs cps h1 c hc
      refine ⟨?_, hs'⟩
      rw [charRule_spec, (h2 c hc).1, (h2 c hc).2, hs']
      decide
  · have hn : ¬ ((allowEmpty = true ∨ bs.length ≠ 0) ∧ bs.length ≤ 65535) := fun h => hs ((hsz _).mpr h)
    have hs' : sizeOk bs.length = false := by simpa using hs
    simp only [hs', Bool.not_false, if_true]
    rw [hlen]
    constructor
    · intro h; cases h
    · rintro ⟨h1, h2, _⟩; exact absurd ⟨h1, h2⟩ hn

/-- **Topic Name** (PUBLISH without alias, Will topic, the plain part of a `$share` filter when wildcards are disabled):
accepted ⇔ non-empty, ≤ 65535 bytes, well-formed, allowed characters, no `#`/`+` -/
theorem topicName_iff (bs : List Nat) : validateTopicName bs = 0 ↔ wellFormedTopicName false bs := by
  unfold validateTopicName
  apply topicName_core
  intro n
  simp [isValidTopicSize, isValidStringSize, maxStringSize, decide_eq_true_eq]
  intro _; exact decide_eq_true_iff

/-- **Topic Name when a Topic Alias is given**: the empty name is accepted too -/
theorem topicAliasName_iff (bs : List Nat) : validateTopicAliasName bs = 0 ↔ wellFormedTopicName true bs := by
  unfold validateTopicAliasName
  apply topicName_core
  intro n
  simp [isValidStringSize, maxStringSize]
  exact decide_eq_true_iff

/-- **User property**: both strings well-formed -/
theorem stringPair_iff (a b : List Nat) :
    isValidStringPair a b = true ↔ wellFormedString a ∧ wellFormedString b := by
  simp [isValidStringPair, validateUtf8_iff]

/-- non-vacuity and the two repaired defects as facts about the model: U+00FE (C3 BE) is accepted,
`C3 28` (bad continuation) and `C1 A0` (overlong) are rejected -/
example : popFront [0xC3, 0xBE] = some (0xFE, []) ∧ charRule 0xFE = 0
    ∧ popFront [0xC3, 0x28] = none ∧ popFront [0xC1, 0xA0] = none ∧ charRule 0xFFFE = 2 ∧ charRule 0x1FFFF = 2 := by
  decide

end Mqtt5V.Props.C16
