import Mqtt5V.Proofs.Mutex
/-! # C11 — reconnection is single-flight (connection-lock level)

Theorems about the model of `async_mutex`, for *every* legal history of `lock`, `unlock`,
per-waiter cancellation (from outside or from inside a handler), cancel-all and executor steps, of any
length.  Legal = waiter ids are fresh and `unlock` is called only by a waiter whose grant has run and
that has not unlocked yet (the holder discipline of reconnect_op / shutdown_op). -/
namespace Mqtt5V.Props.C11
open Mqtt5V.Model.Mutex Mqtt5V.Proofs.Mutex

/-- **At most one holder**: whenever a grant completion runs, no earlier grant is still un-released:
the grant that runs belongs to a waiter to which the lock was handed while nobody held it. -/
theorem at_most_one_holder (is : List In) (g : G) (hr : ({} : G).run is = some g) :
    (pendingGrants g.m.posted).length ≤ 1 ∧
    (∀ w r, g.m.posted = .ev (.grant w) :: r → g.delivered = false ∧ g.m.locked = true) := by
  have h := reachable_inv is _ _ ginv_init hr
  constructor
  · rw [h.pend]; split
    · cases g.grantedP.getLast? <;> simp
    · simp
  · intro w r hp
    have hpend := h.pend
    rw [hp, pg_grant] at hpend
    cases hc : (g.m.locked && !g.delivered) with
    | true => simp at hc; exact ⟨hc.2, hc.1⟩
    | false => rw [hc] at hpend; simp at hpend

/-- a legal `unlock` needs a delivered grant, and delivering a grant needs `delivered = false`: between two
deliveries of a grant there is an `unlock` (grants and unlocks alternate) -/
theorem grant_then_unlock_alternate (is : List In) (g : G) (hr : ({} : G).run is = some g) :
    g.delivered = true → pendingGrants g.m.posted = [] := by
  have h := reachable_inv is _ _ ginv_init hr
  intro hd; rw [h.pend, hd]; simp

/-- **Grants in arrival order**: the waiters granted so far are exactly the first ones of the arrival
sequence once the cancelled waiters are removed. -/
theorem grants_in_arrival_order (is : List In) (g : G) (hr : ({} : G).run is = some g) :
    (grantsOf g.trace).IsPrefix (g.arrival.filter (notIn g.abortedP)) := by
  have h := reachable_inv is _ _ ginv_init hr
  rw [← h.part, ← h.tr, List.append_assoc]
  exact List.prefix_append _ _

/-- **Each waiter is resolved at most once**, by a grant or by an abort, never both. -/
theorem each_waiter_resolved_once (is : List In) (g : G) (hr : ({} : G).run is = some g) :
    (grantsOf g.trace).Nodup ∧ (abortsOf g.trace).Nodup ∧ ∀ w ∈ grantsOf g.trace, w ∉ abortsOf g.trace := by
  have h := reachable_inv is _ _ ginv_init hr
  have hpre := grants_in_arrival_order is g hr
  have hnd : (g.arrival.filter (notIn g.abortedP)).Nodup := h.nodupA.filter _
  refine ⟨hpre.sublist.nodup hnd, (List.nodup_append.mp h.abNodup).1, ?_⟩
  intro w hw hab
  have h1 : w ∈ g.arrival.filter (notIn g.abortedP) := hpre.subset hw
  have h2 : w ∈ g.abortedP := h.abIn w (List.mem_append_left _ hab)
  simp [notIn] at h1
  exact h1.2 h2

/-- **Nobody is lost**: every waiter that ever called `lock` is in exactly one place — granted
(grant run or posted), still waiting in the queue, or aborted (abort run or posted). -/
theorem every_waiter_accounted_for (is : List In) (g : G) (hr : ({} : G).run is = some g) :
    ∀ w ∈ g.arrival, (w ∈ g.grantedP ∨ w ∈ live g.m.waiting) ↔ w ∉ g.abortedP := by
  have h := reachable_inv is _ _ ginv_init hr
  intro w hw
  have : w ∈ g.grantedP ++ live g.m.waiting ↔ w ∈ g.arrival.filter (notIn g.abortedP) := by rw [h.part]
  simp only [List.mem_append, List.mem_filter, notIn, hw, true_and] at this
  simpa using this

/-- **A cancelled waiter never proceeds**: once a waiter's cancellation took effect (its abort was
posted or run) it is never granted, now or after any legal continuation. -/
theorem cancelled_never_granted (is js : List In) (g g' : G) (hr : ({} : G).run is = some g)
    (hr' : g.run js = some g') : ∀ w ∈ g.abortedP, w ∈ g'.abortedP → w ∉ grantsOf g'.trace := by
  have h := reachable_inv is _ _ ginv_init hr
  have h' := reachable_inv js _ _ h hr'
  intro w _ hw' hg
  have hpre : (grantsOf g'.trace).IsPrefix (g'.arrival.filter (notIn g'.abortedP)) := by
    rw [← h'.part, ← h'.tr, List.append_assoc]; exact List.prefix_append _ _
  have := hpre.subset hg
  simp [notIn] at this
  exact this.2 hw'

/-- `lock()` never completes inline: no completion runs inside the initiating call -/
theorem lock_never_inline (m : M) (w : Nat) : (m.step (.lock w)).2 = [] := by
  simp only [M.step]; split <;> rfl

/-- `unlock()` and `cancel()` never run a handler inline either -/
theorem unlock_cancel_never_inline (m : M) : (m.step .unlock).2 = [] ∧ (m.step .cancelAll).2 = [] := by
  constructor
  · simp only [M.step]; split <;> rfl
  · rfl

/-- non-vacuity: a legal history with a cancelled middle waiter; 3 overtakes nobody, 2 is never granted -/
example : (({} : G).run [.lock 1, .lock 2, .lock 3, .run1, .cancelOne 2 false, .unlock, .run1, .run1]).map
    (fun g => (g.trace, g.m.locked)) = some ([.grant 1, .abort 2, .grant 3], true) := by decide

end Mqtt5V.Props.C11
