import Mqtt5V.Basic
/-! Composed client model, inbound exchanges (DESIGN.md S.8): the path of a PUBLISH the broker delivers — `read_message_op` →
`publish_rec_op` (QoS 0: store; QoS 1: PUBACK, store when it is written; QoS 2: PUBREC, wait for PUBREL through the reply map, PUBCOMP,
store when it is written) → receive channel → `async_receive` — as one labelled transition system over the events an observer sees.

The operations are kept where the code keeps them: queued acknowledgements in the send queue (per identifier, in order), the
acknowledgements of the write in progress (`batch`, in write order), the PUBREL waiters of `detail::replies` (one per identifier, a new
one replaces the old one), the PUBREL that arrived before its waiter (`_fast_replies`, dropped at the next write), and the receive
channel (FIFO).  `step` is partial: `none` = the real client cannot do this. -/
namespace Mqtt5V.Model.TraceIn

/-- acknowledgements the client writes for inbound messages -/
inductive Out
  | puback (pid : Nat) | pubrec (pid : Nat) | pubcomp (pid : Nat) | other
  deriving Repr, DecidableEq, Inhabited

inductive Ev
  | connUp (sp : Bool)                       -- the client learnt of a new connection (`update_session_state`); Session Present of its CONNACK
  | rxPub (qos pid msg : Nat)                -- a well-formed PUBLISH is dispatched (`msg` = identity of topic, payload, properties)
  | rxRel (pid : Nat) (good : Bool)          -- a PUBREL is dispatched (`good` = decodable with an admissible reason code)
  | wr | pk (p : Out) | wrOk | wrFail        -- a write: start, its packets, its end (failed = try_again)
  | deliver (qos pid msg : Nat)              -- `async_receive` hands a message to the application
  | reset                                    -- cancel() / disconnect: queued writes are aborted, waiters cancelled, channel closed
  | subOk                                    -- a SUBACK with a success code was processed (`subscriptions_present(true)`)
  deriving Repr, DecidableEq, Inhabited

/-- an acknowledgement in the write in progress, with the message its operation holds -/
inductive Item
  | ackI (pid msg : Nat) | recI (pid msg : Nat) | compI (pid msg : Nat)
  deriving Repr, DecidableEq, Inhabited

structure S where
  ackQ : List (Nat × Nat) := []                 -- (identifier, message) of the operations whose PUBACK is queued, in queue order
  recQ : List (Nat × Nat) := []                 -- … PUBREC is queued
  compQ : List (Nat × Nat) := []                -- … PUBCOMP is queued
  batch : List Item := []                       -- acknowledgements in the write in progress, in write order
  waiter : Nat → Option Nat := fun _ => none    -- PUBREL waiter per identifier, holding the message
  fastRel : Nat → Bool := fun _ => false        -- a good PUBREL arrived while nobody waited; usable until the next write starts
  stored : List (Nat × Nat × Nat) := []         -- receive channel: (qos, pid, msg), oldest first
  writing : Bool := false
  subs : Bool := false                          -- `subscriptions_present`: a subscription succeeded since the start / the last report

def upd {α : Type} (f : Nat → α) (k : Nat) (v : α) : Nat → α := fun i => if i = k then v else f i

/-- `wait_pubrel`: register the waiter (replacing an older one for the same identifier); a PUBREL that is already there is taken at once -/
def waitRel (s : S) (pid msg : Nat) : S :=
  if s.fastRel pid then { s with fastRel := upd s.fastRel pid false, waiter := upd s.waiter pid none, compQ := s.compQ ++ [(pid, msg)] }
  else { s with waiter := upd s.waiter pid (some msg) }

/-- completion handlers of a successful write, one acknowledgement at a time -/
def finishOk (s : S) : Item → S
  | .ackI pid msg => { s with stored := s.stored ++ [(1, pid, msg)] }
  | .recI pid msg => waitRel s pid msg
  | .compI pid msg => { s with stored := s.stored ++ [(2, pid, msg)] }

/-- completion handlers of a failed write (try_again): QoS 1 and the PUBREC stage give up (`if (ec) return;` — the broker will send the
PUBLISH again, unless the acknowledgement did reach it: known findings F24 / F25), the PUBCOMP stage waits for the PUBREL again -/
def finishFail (s : S) : Item → S
  | .ackI _ _ => s
  | .recI _ _ => s
  | .compI pid msg => waitRel s pid msg

def drain (f : S → Item → S) (s : S) : List Item → S
  | [] => s
  | it :: rest => drain f (f s it) rest

/-- the acknowledgement at the head of the queue must be the one for this identifier: the send queue is first in, first out (requests
without a serial number keep their order also through the stable sort of a resend) -/
def pop (q : List (Nat × Nat)) (pid : Nat) : Option (Nat × List (Nat × Nat)) :=
  match q with
  | [] => none
  | (p, m) :: rest => if p = pid then some (m, rest) else none

def stepPk (s : S) : Out → Option S
  | .puback pid => (pop s.ackQ pid).map fun r => { s with ackQ := r.2, batch := s.batch ++ [.ackI pid r.1] }
  | .pubrec pid => (pop s.recQ pid).map fun r => { s with recQ := r.2, batch := s.batch ++ [.recI pid r.1] }
  | .pubcomp pid => (pop s.compQ pid).map fun r => { s with compQ := r.2, batch := s.batch ++ [.compI pid r.1] }
  | .other => some s

/-- `resend()`: every queued request completes with try_again -/
def requeue (s : S) : S :=
  drain (fun s it => finishFail s it) { s with ackQ := [], recQ := [], compQ := [] } (s.compQ.map fun x => Item.compI x.1 x.2)

def step (s : S) : Ev → Option S
  | .connUp sp =>
    -- `update_session_state()`: session not resumed → `clear_pending_pubrels()` and, if a subscription had succeeded, `session_expired` goes
    -- into the receive channel (written here as the item (9, 0, 0), which no message uses); then `resend()`
    if sp then some (requeue s)
    else some (requeue { s with waiter := fun _ => none, subs := false,
                                stored := if s.subs then s.stored ++ [(9, 0, 0)] else s.stored })
  | .rxPub qos pid msg =>
    if qos = 0 then some { s with stored := s.stored ++ [(0, pid, msg)] }
    else if qos = 1 then some { s with ackQ := s.ackQ ++ [(pid, msg)] }
    else if qos = 2 then some { s with recQ := s.recQ ++ [(pid, msg)] }
    else none
  | .rxRel pid good =>
    if !good then some s else
    match s.waiter pid with
    | some m => some { s with waiter := upd s.waiter pid none, compQ := s.compQ ++ [(pid, m)] }
    | none => some { s with fastRel := upd s.fastRel pid true }
  | .wr => if s.writing then none else some { s with writing := true, fastRel := fun _ => false }
  | .pk p => if s.writing then stepPk s p else none
  | .wrOk => if s.writing then some (drain finishOk { s with writing := false, batch := [] } s.batch) else none
  | .wrFail => if s.writing then some (drain finishFail { s with writing := false, batch := [] } s.batch) else none
  | .deliver qos pid msg =>
    match s.stored with
    | x :: rest => if x = (qos, pid, msg) then some { s with stored := rest } else none
    | [] => none
  | .reset => some { s with ackQ := [], recQ := [], compQ := [], waiter := fun _ => none, stored := [] }
  | .subOk => some { s with subs := true }

def run (s : S) : List Ev → Option S
  | [] => some s
  | e :: es => (step s e).bind (run · es)

def init : S := {}

def accepts (tr : List Ev) : Bool := (run init tr).isSome

def firstReject (s : S) : List Ev → Nat → Option Nat
  | [], _ => none
  | e :: es, i => match step s e with
    | none => some i
    | some s' => firstReject s' es (i + 1)

/-! ### Vocabulary for statements about event lists -/
/-- the messages received with this QoS, in order of arrival -/
def received (q : Nat) (tr : List Ev) : List Nat :=
  tr.filterMap fun e => match e with | .rxPub q' _ m => if q' = q then some m else none | _ => none
/-- how many `session_expired` reports are due: one for every reconnect with Session Present = 0 that follows a successful subscription
not yet reported (the flag is the client's `subscriptions_present`) — computed from the events alone -/
def expiryStep (st : Bool × Nat) : Ev → Bool × Nat
  | .subOk => (true, st.2)
  | .connUp sp => if sp then st else (false, if st.1 then st.2 + 1 else st.2)
  | _ => st
def expiryDue (tr : List Ev) : Nat := (tr.foldl expiryStep (false, 0)).2
/-- the QoS 0 lane of the receive channel, read off the events alone: what is due to arrive at the application on it, in order — every QoS 0
message received (by its identity) and `0` for every `session_expired` report that becomes due — and what was handed over -/
def laneStep (st : Bool × List Nat) : Ev → Bool × List Nat
  | .subOk => (true, st.2)
  | .connUp sp => if sp then st else (false, if st.1 then st.2 ++ [0] else st.2)
  | .rxPub q _ m => if q = 0 then (st.1, st.2 ++ [m]) else st
  | _ => st
def laneDue (tr : List Ev) : List Nat := (tr.foldl laneStep (false, [])).2
def laneDelivered (tr : List Ev) : List Nat :=
  tr.filterMap fun e => match e with | .deliver q _ m => if q = 0 then some m else if q = 9 then some 0 else none | _ => none

/-- a `session_expired` is handed to the application -/
def isDeliverExp : Ev → Bool | .deliver q _ _ => q == 9 | _ => false

/-- the messages of this QoS handed to the application, in order -/
def delivered (q : Nat) (tr : List Ev) : List Nat :=
  tr.filterMap fun e => match e with | .deliver q' _ m => if q' = q then some m else none | _ => none

def cnt (P : Ev → Bool) (tr : List Ev) : Nat := tr.countP P

def isPuback (p : Nat) : Ev → Bool | .pk (.puback q) => q == p | _ => false
def isPubrec (p : Nat) : Ev → Bool | .pk (.pubrec q) => q == p | _ => false
def isPubcomp (p : Nat) : Ev → Bool | .pk (.pubcomp q) => q == p | _ => false
def isRxPub (qos p : Nat) : Ev → Bool | .rxPub q' p' _ => q' == qos && p' == p | _ => false
def isRxPubMsg (qos p m : Nat) : Ev → Bool | .rxPub q' p' m' => q' == qos && p' == p && m' == m | _ => false
def isGoodRel (p : Nat) : Ev → Bool | .rxRel q g => q == p && g | _ => false
def isDeliver2 (p : Nat) : Ev → Bool | .deliver q' p' _ => q' == 2 && p' == p | _ => false
def isDeliverMsg (qos p m : Nat) : Ev → Bool | .deliver q' p' m' => q' == qos && p' == p && m' == m | _ => false

end Mqtt5V.Model.TraceIn
