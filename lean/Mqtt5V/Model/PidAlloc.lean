import Mqtt5V.Basic
/-! Model of `packet_id_allocator` (detail/control_packet.hpp).

The C++ keeps `std::vector<interval>` sorted by descending `start`; an interval `(start, end)`
stands for the free identifiers `end+1 … start`.  The model keeps the *reversed* vector (ascending,
head = `back()`), so `allocate` works at the head and `free` is a structural recursion that
reproduces the `upper_bound` partition point and the four `end_p` cases. -/
namespace Mqtt5V.Model.PidAlloc

structure Iv where
  start : Nat
  stop  : Nat      -- C++ `end`; free ids are stop+1 … start
  deriving Repr, DecidableEq

abbrev St := List Iv

def MAX_PACKET_ID : Nat := 65535

def init : St := [⟨MAX_PACKET_ID, 0⟩]

/-- `allocate()`: 0 when nothing is free, else the lowest free id -/
def allocate : St → Nat × St
  | [] => (0, [])
  | a :: r => if a.start = a.stop + 1 then (a.stop + 1, r) else (a.stop + 1, ⟨a.start, a.stop + 1⟩ :: r)

/-- `uint16_t(pid - 1)` -/
def pred16 (pid : Nat) : Nat := (pid + 65535) % 65536

/-- `free(pid)` on the ascending list -/
def free (pid : Nat) : St → St
  | [] => [⟨pid, pred16 pid⟩]
  | [a] =>
    if a.start < pid then
      (if a.start + 1 = pid then [⟨pid, a.stop⟩] else [a, ⟨pid, pred16 pid⟩])
    else
      (if a.stop = pid then [⟨a.start, pred16 pid⟩] else [⟨pid, pred16 pid⟩, a])
  | a :: b :: rest =>
    if b.start < pid then a :: free pid (b :: rest)
    else if a.start < pid then
      (if b.stop = pid then
        (if a.start + 1 = pid then ⟨b.start, a.stop⟩ :: rest else a :: ⟨b.start, pred16 pid⟩ :: rest)
      else
        (if a.start + 1 = pid then ⟨pid, a.stop⟩ :: b :: rest else a :: ⟨pid, pred16 pid⟩ :: b :: rest))
    else
      (if a.stop = pid then ⟨a.start, pred16 pid⟩ :: b :: rest else ⟨pid, pred16 pid⟩ :: a :: b :: rest)

/-- the vector as the C++ holds it (descending), for state comparison with the implementation -/
def render (l : St) : String :=
  String.intercalate " " (l.reverse.map fun iv => s!"{iv.start}:{iv.stop}")

end Mqtt5V.Model.PidAlloc

namespace Mqtt5V.Model.PidAlloc

/-- operations of a history: the client allocates, and frees an id it holds -/
inductive Op
  | alloc
  | free (p : Nat)
  deriving Repr, DecidableEq

/-- allocator + ghost list of the ids handed out and not yet returned -/
structure Sys where
  st : St
  live : List Nat
  deriving Repr

def Sys.init : Sys := ⟨PidAlloc.init, []⟩

/-- one operation; the output is the id returned by `allocate()` -/
def Sys.step (s : Sys) : Op → Sys × Option Nat
  | .alloc =>
    let r := allocate s.st
    if r.1 = 0 then (⟨r.2, s.live⟩, some 0) else (⟨r.2, r.1 :: s.live⟩, some r.1)
  | .free p => (⟨free p s.st, s.live.erase p⟩, none)

/-- a history is legal when only ids currently held are freed (each holder frees once) -/
def Sys.legal (s : Sys) : Op → Bool
  | .alloc => true
  | .free p => s.live.contains p

/-- run a history; `none` when it is not legal -/
def Sys.run (s : Sys) : List Op → Option Sys
  | [] => some s
  | op :: ops => if s.legal op then (s.step op).1.run ops else none

end Mqtt5V.Model.PidAlloc
