import Mqtt5V.Model.Wire
/-! Model of `impl/codecs/base_encoders.hpp` and `message_encoders.hpp`.

As in the C++, the Remaining Length is computed from `byteSize` and the body from `encode`, two
separate functions per combinator; that they agree is a theorem (Props/C17), not a definition. -/
namespace Mqtt5V.Model.Enc
open Mqtt5V.Wire

/-- the `while (val > 127)` loop of `to_variable_bytes` -/
def varLoop : Nat → Nat → Bs
  | 0, val => [val % 128]
  | fuel + 1, val => if val > 127 then (val % 128 + 128) :: varLoop fuel (val / 128) else [val % 128]

/-- `to_variable_bytes(s, val)`: nothing at all above 0xfffffff -/
def toVariableBytes (val : Nat) : Bs := if val > 0xfffffff then [] else varLoop 4 val

/-- `variable_length(val)` -/
def variableLength (val : Nat) : Nat :=
  if val > 0xfffffff then 0 else if val > 2097151 then 4 else if val > 16383 then 3 else if val > 127 then 2 else 1

def be16 (n : Nat) : Bs := [n / 256 % 256, n % 256]
def be32 (n : Nat) : Bs := [n / 16777216 % 256, n / 65536 % 256, n / 256 % 256, n % 256]

/-- `utf8_` / `binary_`: `int16_t(byte_len)` big endian, then the bytes -/
def lenPrefixed (s : Bs) : Bs := be16 s.length ++ s
def lenPrefixedSize (s : Bs) : Nat := 2 + s.length

def optLenPrefixed : Option Bs → Bs
  | some s => lenPrefixed s
  | none => []
def optLenPrefixedSize : Option Bs → Nat
  | some s => lenPrefixedSize s
  | none => 0

def PVal.encode : PVal → Bs
  | .u8 n => [n % 256]
  | .u16 n => be16 n
  | .u32 n => be32 n
  | .vint n => toVariableBytes n
  | .str b => lenPrefixed b
  | .pair k v => lenPrefixed k ++ lenPrefixed v

def PVal.size : PVal → Nat
  | .u8 _ => 1
  | .u16 _ => 2
  | .u32 _ => 4
  | .vint n => variableLength n
  | .str b => lenPrefixedSize b
  | .pair k v => lenPrefixedSize k + lenPrefixedSize v

def propEncode (p : Property) : Bs := (p.id % 256) :: PVal.encode p.val
def propSize (p : Property) : Nat := 1 + PVal.size p.val

def propsBody : Props → Bs
  | [] => []
  | p :: ps => propEncode p ++ propsBody ps
def propsBodySize : Props → Nat
  | [] => 0
  | p :: ps => propSize p + propsBodySize ps

/-- `props_val::encode` -/
def propsEncode (mayOmit : Bool) (ps : Props) : Bs :=
  let psize := propsBodySize ps
  if mayOmit && psize == 0 then [] else toVariableBytes psize ++ propsBody ps
/-- `props_val::byte_size` -/
def propsSize (mayOmit : Bool) (ps : Props) : Nat :=
  let psize := propsBodySize ps
  if mayOmit && psize == 0 then 0 else psize + variableLength psize

/-- `fixed_header_ & body`: first byte, Remaining Length (from the *declared* size), body -/
def packet (b0 : Nat) (bodySize : Nat) (body : Bs) : Bs := (b0 % 256) :: (toVariableBytes bodySize ++ body)

def ackPacket (b0 : Nat) (pid rc : Nat) (ps : Props) : Bs :=
  packet b0 (2 + 1 + propsSize true ps) (be16 pid ++ [rc % 256] ++ propsEncode true ps)

def encodePuback (pid rc : Nat) (ps : Props) : Bs := ackPacket 0x40 pid rc ps
def encodePubrec (pid rc : Nat) (ps : Props) : Bs := ackPacket 0x50 pid rc ps
def encodePubrel (pid rc : Nat) (ps : Props) : Bs := ackPacket 0x62 pid rc ps
def encodePubcomp (pid rc : Nat) (ps : Props) : Bs := ackPacket 0x70 pid rc ps

def encodePublish (pid : Nat) (topic payload : Bs) (qos retain dup : Nat) (ps : Props) : Bs :=
  let usedPid : Option Nat := if qos ≠ 0 then some pid else none
  let b0 := ((3 * 2 + dup) * 4 + qos) * 2 + retain
  let pidB := match usedPid with | some p => be16 p | none => []
  let pidS := match usedPid with | some _ => 2 | none => 0
  packet b0 (lenPrefixedSize topic + pidS + propsSize false ps + payload.length)
    (lenPrefixed topic ++ pidB ++ propsEncode false ps ++ payload)

def subOptsByte (o : SubOpts) : Nat := (((o.retainHandling * 2 + o.retainAsPublished) * 2 + o.noLocal) * 4 + o.maxQos) % 256

def subTopicsBody : List (Bs × SubOpts) → Bs
  | [] => []
  | (f, o) :: ts => lenPrefixed f ++ [subOptsByte o] ++ subTopicsBody ts
def subTopicsSize : List (Bs × SubOpts) → Nat
  | [] => 0
  | (f, _) :: ts => lenPrefixedSize f + 1 + subTopicsSize ts

def encodeSubscribe (pid : Nat) (topics : List (Bs × SubOpts)) (ps : Props) : Bs :=
  packet 0x82 (2 + propsSize false ps + subTopicsSize topics) (be16 pid ++ propsEncode false ps ++ subTopicsBody topics)

def unsubTopicsBody : List Bs → Bs
  | [] => []
  | f :: ts => lenPrefixed f ++ unsubTopicsBody ts
def unsubTopicsSize : List Bs → Nat
  | [] => 0
  | f :: ts => lenPrefixedSize f + unsubTopicsSize ts

def encodeUnsubscribe (pid : Nat) (topics : List Bs) (ps : Props) : Bs :=
  packet 0xA2 (2 + propsSize false ps + unsubTopicsSize topics) (be16 pid ++ propsEncode false ps ++ unsubTopicsBody topics)

def encodeSuback (pid : Nat) (rcs : List Nat) (ps : Props) : Bs :=
  packet 0x90 (2 + propsSize false ps + rcs.length) (be16 pid ++ propsEncode false ps ++ rcs.map (· % 256))
def encodeUnsuback (pid : Nat) (rcs : List Nat) (ps : Props) : Bs :=
  packet 0xB0 (2 + propsSize false ps + rcs.length) (be16 pid ++ propsEncode false ps ++ rcs.map (· % 256))

def encodePingreq : Bs := [0xC0, 0]
def encodePingresp : Bs := [0xD0, 0]

def encodeDisconnect (rc : Nat) (ps : Props) : Bs := packet 0xE0 (1 + propsSize false ps) ([rc % 256] ++ propsEncode false ps)
def encodeAuth (rc : Nat) (ps : Props) : Bs := packet 0xF0 (1 + propsSize false ps) ([rc % 256] ++ propsEncode false ps)

def encodeConnack (sp rc : Nat) (ps : Props) : Bs := packet 0x20 (1 + 1 + propsSize false ps) ([sp % 256, rc % 256] ++ propsEncode false ps)

def boolN (b : Bool) : Nat := if b then 1 else 0

def connectFlags (user pass : Option Bs) (cleanStart : Nat) (w : Option Will) : Nat :=
  let wr := match w with | some x => x.retain | none => 0
  let wq := match w with | some x => x.qos | none => 0
  (((((boolN user.isSome * 2 + boolN pass.isSome) * 2 + wr) * 4 + wq) * 2 + boolN w.isSome) * 2 + cleanStart) * 2

def connectBody (clientId : Bs) (user pass : Option Bs) (keepAlive cleanStart : Nat) (ps : Props) (w : Option Will) : Bs :=
  let willB := match w with
    | some x => propsEncode false x.props ++ (lenPrefixed x.topic ++ lenPrefixed x.message)
    | none => []
  lenPrefixed [77, 81, 84, 84] ++ ([5] ++ ([connectFlags user pass cleanStart w % 256] ++ (be16 keepAlive ++ (propsEncode false ps ++
    (lenPrefixed clientId ++ (willB ++ (optLenPrefixed user ++ optLenPrefixed pass)))))))

def connectBodySize (clientId : Bs) (user pass : Option Bs) (ps : Props) (w : Option Will) : Nat :=
  let willS := match w with
    | some x => propsSize false x.props + lenPrefixedSize x.topic + lenPrefixedSize x.message
    | none => 0
  lenPrefixedSize [77, 81, 84, 84] + 1 + 1 + 2 + propsSize false ps + lenPrefixedSize clientId + willS
    + optLenPrefixedSize user + optLenPrefixedSize pass

def encodeConnect (clientId : Bs) (user pass : Option Bs) (keepAlive cleanStart : Nat) (ps : Props) (w : Option Will) : Bs :=
  packet 0x10 (connectBodySize clientId user pass ps w) (connectBody clientId user pass keepAlive cleanStart ps w)

/-- `control_packet::set_dup()`: `byte |= 0b00001000` on the first byte -/
def setDup : Bs → Bs
  | [] => []
  | b :: r => (if b / 8 % 2 = 1 then b else b + 8) :: r

/-- the encoder the library uses for each packet value -/
def encode : Packet → Bs
  | .connect c u p ka cs ps w => encodeConnect c u p ka cs ps w
  | .connack sp rc ps => encodeConnack sp rc ps
  | .publish pid t pl q r d ps => encodePublish (pid.getD 0) t pl q r d ps
  | .puback pid rc ps => encodePuback pid rc ps
  | .pubrec pid rc ps => encodePubrec pid rc ps
  | .pubrel pid rc ps => encodePubrel pid rc ps
  | .pubcomp pid rc ps => encodePubcomp pid rc ps
  | .subscribe pid ts ps => encodeSubscribe pid ts ps
  | .suback pid rcs ps => encodeSuback pid rcs ps
  | .unsubscribe pid ts ps => encodeUnsubscribe pid ts ps
  | .unsuback pid rcs ps => encodeUnsuback pid rcs ps
  | .pingreq => encodePingreq
  | .pingresp => encodePingresp
  | .disconnect rc ps => encodeDisconnect rc ps
  | .auth rc ps => encodeAuth rc ps

end Mqtt5V.Model.Enc
