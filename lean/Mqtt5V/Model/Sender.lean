import Mqtt5V.Model.SerialOrder
/-! Model of `async_sender` (impl/async_sender.hpp): write queue, in-flight batch, Receive-Maximum
limit and quota, `do_write` (terminal request alone and first / whole queue / throttled split),
write completion (failed batch back in front, `resend`), `resend` (unanswered requests re-enter first,
then the old queue, quota reset, stable sort), `throttled_op_done`, `cancel`.
The requests awaiting a reply (`replies` waiters of the operations) are kept as `unanswered`;
a throttled request (QoS>0 PUBLISH, re-sent PUBREL) always awaits a reply. -/
namespace Mqtt5V.Model.Sender
open Mqtt5V.Model.SerialOrder

def MAX_LIMIT : Nat := 65535

structure SReq where
  id : Nat
  throttled : Bool
  prioritized : Bool
  terminal : Bool
  serial : Nat
  awaits : Bool        -- after a successful write the operation waits for a reply
  deriving Repr, DecidableEq

inductive Ec | ok | tryAgain | aborted | noRecovery
  deriving Repr, DecidableEq

inductive Ev
  | wr (ids : List Nat)                 -- batch handed to the stream
  | done (id : Nat) (ec : Ec)           -- request finished for good (no resend)
  | svcCancel                            -- `_svc.cancel()` on no_recovery
  deriving Repr, DecidableEq

structure S where
  queue : List SReq := []
  inflight : Option (List SReq) := none
  limit : Nat := MAX_LIMIT
  quota : Nat := MAX_LIMIT
  unanswered : List SReq := []
  rm : Option Nat := none          -- Receive Maximum of the CONNACK currently stored in the context
  deriving Repr

/-- the throttled split of `do_write`: (batch, rest, quota') -/
def split : List SReq → Nat → List SReq × List SReq × Nat
  | [], k => ([], [], k)
  | r :: rs, k =>
    if !r.throttled then
      let t := split rs k; (r :: t.1, t.2.1, t.2.2)
    else if k > 0 then
      let t := split rs (k - 1); (r :: t.1, t.2.1, t.2.2)
    else
      let t := split rs k; (t.1, r :: t.2.1, t.2.2)

/-- `do_write()` -/
def doWrite (s : S) : S × List Ev :=
  if s.inflight.isSome || s.queue.isEmpty then (s, []) else
  match s.queue.find? (·.terminal) with
  | some t => ({ s with queue := s.queue.erase t, inflight := some [t] }, [.wr [t.id]])
  | none =>
    if s.limit = MAX_LIMIT then ({ s with queue := [], inflight := some s.queue }, [.wr (s.queue.map (·.id))])
    else
      let t := split s.queue s.quota
      if t.1.isEmpty then (s, [])
      else ({ s with queue := t.2.1, inflight := some t.1, quota := t.2.2 }, [.wr (t.1.map (·.id))])

def toReq (r : SReq) : Req := ⟨r.id, r.prioritized, r.serial⟩

/-- the stable sort of `resend()` carried over to sender requests -/
def sortReqs (q : List SReq) : List SReq := q.mergeSort (fun a b => le (toReq a) (toReq b))

/-- `resend()` (write not in progress): unanswered requests re-enter first, then the old queue; the quota of the
new connection is computed after those completions; stable sort; write -/
def resend (s : S) : S × List Ev :=
  if s.inflight.isSome then (s, []) else
  let q := s.unanswered ++ s.queue
  let lim := s.rm.getD MAX_LIMIT
  doWrite { s with queue := sortReqs q, unanswered := [], limit := lim, quota := lim }

inductive In
  | send (r : SReq)
  | wdone (ec : Ec)
  | ack (id : Nat)            -- the reply for an unanswered request arrived: its operation completes
  | setRm (rm : Option Nat)   -- a reconnect stored new CONNACK properties
  | resendRead                -- `resend()` called from the read path (no-op while a write is in progress)
  | cancel
  deriving Repr

def step (s : S) : In → S × List Ev
  | .send r =>
    doWrite { s with queue := s.queue ++ [{ r with awaits := r.awaits || r.throttled }] }
  | .wdone ec =>
    match s.inflight with
    | none => (s, [])
    | some b =>
      let s1 := { s with inflight := none }
      match ec with
      | .tryAgain => resend { s1 with queue := b ++ s1.queue }
      | .noRecovery => (s1, .svcCancel :: b.map (fun r => .done r.id .noRecovery))
      | .aborted => (s1, b.map (fun r => .done r.id .aborted))
      | .ok =>
        let fin := (b.filter (fun r => !r.awaits)).map (fun r => Ev.done r.id .ok)
        let r := doWrite { s1 with unanswered := s1.unanswered ++ b.filter (·.awaits) }
        (r.1, fin ++ r.2)
  | .ack id =>
    match s.unanswered.find? (·.id == id) with
    | none => (s, [])
    | some r =>
      let s1 := { s with unanswered := s.unanswered.erase r }
      if r.throttled && s1.limit != MAX_LIMIT then
        let x := doWrite { s1 with quota := (s1.quota + 1) % 65536 }
        (x.1, x.2 ++ [.done id .ok])      -- free_pid → throttled_op_done → do_write, then the handler
      else (s1, [.done id .ok])
  | .setRm rm => ({ s with rm := rm }, [])
  | .resendRead => resend s
  | .cancel => ({ s with queue := [] }, s.queue.map (fun r => .done r.id .aborted))

def run (s : S) : List In → S × List Ev
  | [] => (s, [])
  | i :: is => let r := step s i; let t := run r.1 is; (t.1, r.2 ++ t.2)

def Ec.render : Ec → String
  | .ok => "ok" | .tryAgain => "try_again" | .aborted => "aborted" | .noRecovery => "no_recovery"

def Ev.render : Ev → String
  | .wr ids => "w:" ++ String.intercalate "," (ids.map toString)
  | .done id ec => s!"c:{id}:{ec.render}"
  | .svcCancel => "svc-cancel"

def renderEvs (l : List Ev) : String := if l.isEmpty then "-" else String.intercalate " " (l.map Ev.render)

end Mqtt5V.Model.Sender
