import Mqtt5V.Basic
/-! Model of the session bookkeeping: `session_state` (internal_types.hpp), what `connect_op::on_connack` stores,
`client_service::update_session_state()` (called from the read path and from the write path after every reconnect),
and the flag `subscribe_op::complete` sets after a SUBACK with a success code. -/
namespace Mqtt5V.Model.Session

structure Sess where
  sessionPresent : Bool := false
  subsPresent : Bool := false
  deriving Repr, DecidableEq

inductive In
  | connack (sp : Bool)      -- a reconnect completed: Session Present of its CONNACK is stored
  | update                   -- update_session_state(): first and later try_again of that connection
  | subOk                    -- a SUBACK containing a success code was processed
  deriving Repr, DecidableEq

/-- output: was `session_expired` stored into the receive channel by this step -/
def step (s : Sess) : In → Sess × Bool
  | .connack sp => ({ s with sessionPresent := sp }, false)
  | .update =>
    if !s.sessionPresent then
      ({ sessionPresent := true, subsPresent := false }, s.subsPresent)
    else (s, false)
  | .subOk => (if s.subsPresent then s else { s with subsPresent := true }, false)

def run (s : Sess) : List In → Sess × List Bool
  | [] => (s, [])
  | i :: is => let x := step s i; let y := run x.1 is; (y.1, x.2 :: y.2)

end Mqtt5V.Model.Session
