import Mqtt5V.Basic
/-! Model of `detail::replies` (impl/replies.hpp): reply waiters keyed by (control code, packet id) and the
fast replies (replies that arrived before their waiter registered).  One step = one call followed by a drain of
the executor: completions that the code runs inline come first, posted ones after them, both in order. -/
namespace Mqtt5V.Model.Replies

inductive Rc | ok | tryAgain | aborted
  deriving Repr, DecidableEq

structure Waiter where
  w : Nat           -- identity of the waiting continuation
  code : Nat        -- control code of the awaited reply (0x40 PUBACK, 0x50 PUBREC, 0x62→0x60 PUBREL, 0x70 PUBCOMP, 0x90 SUBACK, 0xB0 UNSUBACK)
  pid : Nat
  deriving Repr, DecidableEq

structure Fast where
  code : Nat
  pid : Nat
  tag : Nat         -- identity of the stored packet bytes
  deriving Repr, DecidableEq

/-- completion of waiter `w` with result `rc`; `tag` identifies the reply bytes handed over (0 = none) -/
structure Ev where
  w : Nat
  rc : Rc
  tag : Nat
  deriving Repr, DecidableEq

structure R where
  handlers : List Waiter := []
  fast : List Fast := []
  deriving Repr

def PUBREL : Nat := 0x60

inductive In
  | wait (w code pid : Nat)            -- async_wait_reply
  | dispatch (code pid tag : Nat)      -- a reply packet arrived
  | resendUnanswered
  | cancelUnanswered
  | clearFast                          -- before every stream write
  | clearPubrels                       -- session not resumed
  deriving Repr, DecidableEq

def sameKey (code pid : Nat) (h : Waiter) : Bool := h.code == code && h.pid == pid

def step (r : R) : In → R × List Ev
  | .wait w code pid =>
    -- an existing waiter with the same key is replaced (aborted by post)
    let dup := r.handlers.find? (sameKey code pid)
    let hs := match dup with | some d => r.handlers.erase d | none => r.handlers
    let dupEv := match dup with | some d => [(⟨d.w, .aborted, 0⟩ : Ev)] | none => []
    match r.fast.find? (fun f => f.code == code && f.pid == pid) with
    | some f => ({ handlers := hs, fast := r.fast.erase f }, dupEv ++ [⟨w, .ok, f.tag⟩])
    | none => ({ handlers := hs ++ [⟨w, code, pid⟩], fast := r.fast }, dupEv)
  | .dispatch code pid tag =>
    match r.handlers.find? (sameKey code pid) with
    | some h => ({ r with handlers := r.handlers.erase h }, [⟨h.w, .ok, tag⟩])
    | none => ({ r with fast := r.fast ++ [⟨code, pid, tag⟩] }, [])
  | .resendUnanswered => ({ r with handlers := [] }, r.handlers.map fun h => ⟨h.w, .tryAgain, 0⟩)
  | .cancelUnanswered => ({ r with handlers := [] }, r.handlers.map fun h => ⟨h.w, .aborted, 0⟩)
  | .clearFast => ({ r with fast := [] }, [])
  | .clearPubrels =>
    ({ r with handlers := r.handlers.filter (fun h => h.code != PUBREL) },
      (r.handlers.filter (fun h => h.code == PUBREL)).map fun h => ⟨h.w, .aborted, 0⟩)

def Rc.render : Rc → String
  | .ok => "ok" | .tryAgain => "try_again" | .aborted => "aborted"

def renderEvs (l : List Ev) : String :=
  if l.isEmpty then "-" else String.intercalate " " (l.map fun e => s!"{e.w}:{e.rc.render}:{e.tag}")

end Mqtt5V.Model.Replies
