import Mqtt5V.Model.Wire
/-! Model of `assemble_op` (frame reassembly, header validation, reply dispatch) over the list of unconsumed bytes.
`max` is the receive buffer size (the Maximum Packet Size the client announced, default 65536; modelled for `max ≥ 5`,
below that the C++ subtraction `recv_size - header` wraps). -/
namespace Mqtt5V.Model.Frame
open Mqtt5V.Wire

/-- `varint_parser` on the bytes after the control byte -/
inductive VI
  | need                    -- ran out of bytes
  | bad                     -- four continuation bytes
  | ok (v used : Nat)
  deriving Repr, DecidableEq

def varint : Bs → VI
  | [] => .need
  | b0 :: r0 =>
    if b0 < 128 then .ok b0 1 else
    match r0 with
    | [] => .need
    | b1 :: r1 =>
      if b1 < 128 then .ok (b0 % 128 + b1 * 128) 2 else
      match r1 with
      | [] => .need
      | b2 :: r2 =>
        if b2 < 128 then .ok (b0 % 128 + b1 % 128 * 128 + b2 * 16384) 3 else
        match r2 with
        | [] => .need
        | b3 :: _ => if b3 < 128 then .ok (b0 % 128 + b1 % 128 * 128 + b2 % 128 * 16384 + b3 * 2097152) 4 else .bad

inductive Step
  | more                                 -- `perform(transfer_at_least(1))`
  | malformed                            -- `complete(malformed_packet)`
  | packet (cb : Nat) (body rest : Bs)   -- one whole packet; `rest` stays in the buffer
  deriving Repr, DecidableEq

/-- `operator()(on_read …)` up to `dispatch`, on a non-empty span -/
def parseOne (max : Nat) (buf : Bs) : Step :=
  match buf with
  | [] => .more
  | cb :: r =>
    if cb / 16 = 0 then .malformed else
    match varint r with
    | .ok v used =>
      if v > max - (1 + used) then .malformed
      else if r.length - used < v then .more
      else .packet cb ((r.drop used).take v) ((r.drop used).drop v)
    | _ => if buf.length < 5 then .more else .malformed

inductive Ev
  | reply (code pid : Nat) (body : Bs)   -- `_replies.dispatch(code, packet_id, first, last)` (body after the Packet Identifier)
  | msg (cb : Nat) (body : Bs)           -- handed to `read_message_op`: PUBLISH, DISCONNECT, AUTH
  | err                                  -- completed with `malformed_packet`: the connection is closed
  deriving Repr, DecidableEq

def validHeader (cb : Nat) : Bool :=
  if cb / 16 = 3 then true else if cb / 16 = 6 then cb % 16 = 2 else cb % 16 = 0

abbrev Out := List Ev × Option Bs      -- events in order, and the bytes left in the buffer (`none` after an error)

def consEv (e : Ev) (p : Out) : Out := (e :: p.1, p.2)

/-- continue with `k` on the bytes left over, unless the stream already ended in an error -/
def andThen (p : Out) (k : Bs → Out) : Out :=
  match p.2 with
  | none => (p.1, none)
  | some r => (p.1 ++ (k r).1, (k r).2)

/-- packets are taken off the buffer until more bytes are needed or the stream is malformed -/
def drain (max : Nat) : Nat → Bs → Out
  | 0, buf => ([], some buf)
  | fuel + 1, buf =>
    match parseOne max buf with
    | .more => ([], some buf)
    | .malformed => ([.err], none)
    | .packet cb body rest =>
      if !validHeader cb then ([.err], none) else
      if cb / 16 = 13 then drain max fuel rest                     -- PINGRESP
      else if cb / 16 ≠ 3 ∧ cb / 16 ≠ 15 ∧ cb / 16 ≠ 14 then      -- a reply: needs a Packet Identifier
        if body.length < 2 then ([.err], none)
        else consEv (.reply (cb / 16) (body.getD 0 0 * 256 + body.getD 1 0) (body.drop 2)) (drain max fuel rest)
      else consEv (.msg cb body) (drain max fuel rest)

def drainFull (max : Nat) (buf : Bs) : Out := drain max (buf.length + 1) buf

/-- one read completes with `chunk` -/
def feed (max : Nat) (st : Option Bs) (chunk : Bs) : Out :=
  match st with
  | none => ([], none)
  | some buf => drainFull max (buf ++ chunk)

/-- a whole connection's worth of reads -/
def feedAll (max : Nat) : Option Bs → List Bs → Out
  | st, [] => ([], st)
  | st, c :: cs => ((feed max st c).1 ++ (feedAll max (feed max st c).2 cs).1, (feedAll max (feed max st c).2 cs).2)

end Mqtt5V.Model.Frame
