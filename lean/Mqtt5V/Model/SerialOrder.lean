import Mqtt5V.Basic
/-! Model of `write_req::operator<` (async_sender.hpp:90-101) on `(prioritized, serial : uint32)` and of the
`std::stable_sort` in `async_sender::resend()`.  `std::stable_sort` is modelled by core `List.mergeSort`
with `le a b := !(b < a)`: for a strict weak order every stable sort gives the same result. -/
namespace Mqtt5V.Model.SerialOrder

structure Req where
  tag : Nat            -- identity of the request (position in the harness vector / operation id)
  prio : Bool          -- send_flag::prioritized
  serial : Nat         -- serial_num_t (uint32); `no_serial` = 0 for everything but PUBLISH/PUBREL
  deriving Repr, DecidableEq

def HALF : Nat := 2 ^ 31     -- 1u << (SERIAL_BITS - 1)
def WRAP : Nat := 2 ^ 32

/-- `write_req::operator<` with uint32 subtraction -/
def lt (a b : Req) : Bool :=
  if a.prio != b.prio then a.prio
  else if a.serial < b.serial then decide ((b.serial - a.serial) % WRAP < HALF)
  else decide ((a.serial - b.serial) % WRAP ≥ HALF)

def le (a b : Req) : Bool := !lt b a

/-- the `std::stable_sort(_write_queue.begin(), _write_queue.end())` of `resend()` -/
def sortQueue (q : List Req) : List Req := q.mergeSort le

/-- `next_serial_num`: uint32 increment -/
def nextSerial (last : Nat) : Nat := (last + 1) % WRAP

end Mqtt5V.Model.SerialOrder
