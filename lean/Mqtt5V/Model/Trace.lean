import Mqtt5V.Model.Verdict
/-! Composed client model, outbound exchanges (DESIGN.md S.8): the part of `mqtt_client` above the stream that
carries a QoS 1 / QoS 2 `async_publish`, an `async_subscribe` or an `async_unsubscribe` from the API call to its
completion, as ONE labelled transition system over the events an observer of the real client sees
(API call accepted, connection up/down, a write starts, each packet of the write, the write ends, an
acknowledgement arrives, a completion handler runs).

The state is keyed by packet identifier, like the reply map of `detail::replies` and the identifier allocator:
`slot pid` is the exchange that currently owns `pid` with the phase of its operation (`publish_send_op`,
`subscribe_op`, `unsubscribe_op`: request queued / in the write in progress / written and waiting for the reply /
QoS 2 second half / reply consumed), the fast reply that arrived while the request was still being written
(`replies::_fast_replies`), the bytes and the DUP rule of the stored PUBLISH (`control_packet::set_dup`); the send
quota of `async_sender` (`_limit`, `_quota`) is kept as the list of identifiers holding a token.

`step` is partial: `none` means "the real client cannot do this".  The model over-approximates the client where
no property depends on the choice (for instance it never gives quota back on an error completion and does not count
the tokens of re-sent PUBRELs); the theorems in `Props/Trace*.lean` hold for EVERY event list the
model accepts, and the tie (`lib/trace_check.py`) feeds it every transcript of the real client. -/
namespace Mqtt5V.Model.Trace
open Mqtt5V Mqtt5V.Model.Verdict

inductive Kind | pub1 | pub2 | sub | unsub | other
  deriving Repr, DecidableEq, Inhabited

inductive AckT | puback | pubrec | pubcomp | suback | unsuback
  deriving Repr, DecidableEq, Inhabited

def AckT.cat : AckT → Category
  | .puback => .puback | .pubrec => .pubrec | .pubcomp => .pubcomp | .suback => .suback | .unsuback => .unsuback

/-- an acknowledgement as delivered by the broker -/
structure Ack where
  t : AckT
  pid : Nat
  rcs : List Nat        -- the reason codes it carries (exactly one for PUBACK / PUBREC / PUBCOMP)
  props : Nat           -- identity of its property block (0 = empty)
  wf : Bool             -- a well-formed MQTT 5 packet (strict reference decoder)
  deriving Repr, DecidableEq, Inhabited

/-- a packet of a client write -/
inductive Out
  | publish (op qos pid : Nat) (dup : Bool) (body : Nat)    -- QoS 1/2 PUBLISH; `body` = identity of the bytes with DUP masked
  | pubrel (pid : Nat)
  | subscribe (op pid body : Nat)
  | unsubscribe (op pid body : Nat)
  | other                                                   -- QoS 0 PUBLISH, PUBACK/PUBREC/PUBCOMP of the inbound side, PINGREQ, DISCONNECT, AUTH
  deriving Repr, DecidableEq, Inhabited

inductive Ev
  | init (op : Nat) (k : Kind) (n : Nat)       -- API call (n = number of topics of a (un)subscribe, 1 otherwise)
  | connUp (rm : Option Nat)                   -- connection established; Receive Maximum of its CONNACK
  | connDown                                   -- the client gave the connection up (shutdown / close)
  | wr                                         -- the sender hands a batch to the stream
  | pk (p : Out)                               -- one packet of that batch
  | wrOk                                       -- the write completed successfully
  | wrFail                                     -- the write failed (try_again, aborted, no_recovery)
  | rx (a : Ack)                               -- an acknowledgement was read
  | doneOk (op : Nat) (rcs : List Nat) (props : Nat)   -- exchange completed without error with these codes / properties
  | doneOther (op : Nat)                       -- any other completion (error of an exchange; completion of another operation)
  | quiescent                                  -- cancel() / a finished async_disconnect, and the execution context has run out of work
  | cancelAll                                  -- cancel() was called (also: a terminal cancellation signal of an exchange, a finished async_disconnect)
  | restart                                    -- async_run() after that
  deriving Repr, DecidableEq, Inhabited

inductive Phase
  | idle              -- request queued (not yet written, or to be written again)
  | writing           -- request is part of the write in progress
  | waiting           -- written, waiting for PUBACK / PUBREC / SUBACK / UNSUBACK
  | relIdle           -- QoS 2: successful PUBREC consumed, PUBREL queued
  | relWriting
  | relWaiting        -- waiting for PUBCOMP
  | finished (rcs : List Nat) (props : Nat)    -- final acknowledgement consumed: what the handler will get
  deriving Repr, DecidableEq, Inhabited

structure Slot where
  op : Nat
  kind : Kind
  n : Nat
  phase : Phase
  fast : Option Ack := none
  body : Nat
  okBefore : Bool := false      -- a transmission of the request was written successfully
  deriving Repr, DecidableEq, Inhabited

structure S where
  slot : Nat → Option Slot := fun _ => none          -- by packet identifier
  known : Nat → Option (Kind × Nat) := fun _ => none -- initiated operations
  pidOf : Nat → Option Nat := fun _ => none          -- identifier an operation was seen with (never forgotten)
  bodyOf : Nat → Option Nat := fun _ => none         -- bytes an operation's request was seen with (never forgotten)
  isDone : Nat → Bool := fun _ => false
  ops : List Nat := []                               -- every initiated operation
  cancelled : Bool := false                          -- cancel() was called and async_run() has not been called again
  writing : Bool := false
  connected : Bool := false
  limit : Nat := 65535
  quota : Nat := 65535
  holders : List Nat := []                           -- identifiers holding a quota token on this connection
  wire : List Nat := []                              -- QoS>0 PUBLISH written on this connection, not yet finally acknowledged on it
  lastPub : Nat := 0                                 -- the latest-initiated QoS>0 publish written on this connection (operations are numbered in initiation order)

def MAX_LIMIT : Nat := 65535

/-- which acknowledgement the exchange in this phase is waiting for -/
def expects (k : Kind) (ph : Phase) : Option AckT :=
  match k, ph with
  | .pub1, .writing | .pub1, .waiting => some .puback
  | .pub2, .writing | .pub2, .waiting => some .pubrec
  | .pub2, .relWriting | .pub2, .relWaiting => some .pubcomp
  | .sub, .writing | .sub, .waiting => some .suback
  | .unsub, .writing | .unsub, .waiting => some .unsuback
  | _, _ => none

/-- decoded, one admissible code per topic (`decode_xxx`, `to_reason_code`, the count check) -/
def goodAck (a : Ack) (n : Nat) : Bool := a.wf && (verdict a.t.cat n a.rcs).isSome

/-- the operation consumes acknowledgement `a` (it was waiting for exactly this type and identifier) -/
def consume (sl : Slot) (a : Ack) : Slot :=
  if goodAck a sl.n then
    match a.t with
    | .pubrec =>
      if a.rcs.all (· < 0x80) then { sl with phase := .relIdle, fast := none }
      else { sl with phase := .finished a.rcs 0, fast := none }        -- failing PUBREC ends the exchange; no PUBCOMP properties exist
    | _ => { sl with phase := .finished a.rcs a.props, fast := none }
  else
    -- malformed acknowledgement: DISCONNECT 0x81; a publish is sent again, a (un)subscribe fails
    match sl.phase with
    | .idle | .writing | .waiting => { sl with phase := .idle, fast := none }
    | .finished _ _ => { sl with fast := none }                      -- (not reachable: nothing is expected any more)
    | _ => { sl with phase := .relIdle, fast := none }

def Slot.onWrOk (sl : Slot) : Slot :=
  match sl.phase with
  | .writing =>
    let s1 := { sl with phase := .waiting, okBefore := true }
    match sl.fast with
    | some a => consume s1 a
    | none => s1
  | .relWriting =>
    let s1 := { sl with phase := .relWaiting }
    match sl.fast with
    | some a => consume s1 a
    | none => s1
  | _ => sl

def Slot.onWrFail (sl : Slot) : Slot :=
  match sl.phase with
  | .writing => { sl with phase := .idle, fast := none }
  | .relWriting => { sl with phase := .relIdle, fast := none }
  | _ => sl

/-- a new connection: `resend_unanswered()` ends every reply wait with try_again, the operations queue their request again -/
def Slot.onConnUp (sl : Slot) : Slot :=
  match sl.phase with
  | .waiting => { sl with phase := .idle }
  | .relWaiting => { sl with phase := .relIdle }
  | _ => sl

def Slot.onRx (sl : Slot) (a : Ack) : Slot :=
  if expects sl.kind sl.phase = some a.t then
    match sl.phase with
    | .waiting | .relWaiting => consume sl a
    | _ => if sl.fast.isNone then { sl with fast := some a } else sl      -- still being written: fast reply, the first one wins
  else sl

/-- does this acknowledgement end a QoS>0 PUBLISH on the wire (PUBACK, PUBCOMP, failing PUBREC) -/
def Ack.final (a : Ack) : Bool :=
  a.wf && (match a.t with
    | .puback | .pubcomp => true
    | .pubrec => a.rcs.any (· ≥ 0x80)
    | _ => false)

def upd {α : Type} (f : Nat → α) (k : Nat) (v : α) : Nat → α := fun i => if i = k then v else f i

/-- a request packet (PUBLISH / SUBSCRIBE / UNSUBSCRIBE) of operation `op` with identifier `pid` enters the write -/
def request (s : S) (op pid : Nat) (k : Kind) (dup : Bool) (body : Nat) : Option S :=
  -- `dup` of a SUBSCRIBE / UNSUBSCRIBE (which have no DUP bit) is passed as the value the rule demands
  if pid = 0 || s.isDone op then none else
  match s.known op with
  | none => none
  | some (k', n) =>
    if k' ≠ k then none else
    match s.slot pid with
    | none =>
      -- first transmission: the identifier must be free, the operation must not have used another one, DUP = 0
      if s.pidOf op ≠ none || dup then none else
      some { s with slot := upd s.slot pid (some { op := op, kind := k, n := n, phase := .writing, body := body }),
                    pidOf := upd s.pidOf op (some pid), bodyOf := upd s.bodyOf op (some body) }
    | some sl =>
      -- retransmission: same operation, same bytes, not after PUBREC, DUP = 1 if a transmission was written before
      if sl.op ≠ op || s.bodyOf op ≠ some body || (sl.okBefore && !dup) then none else
      match sl.phase with
      | .idle => some { s with slot := upd s.slot pid (some { sl with phase := .writing, fast := none }) }
      | _ => none

def addWire (w : List Nat) (pid : Nat) : List Nat := if pid ∈ w then w else pid :: w

/-- quota, wire and order accounting of a QoS>0 PUBLISH of operation `op` entering a write on a live connection: the send queue is kept in
initiation order (serial numbers, stable sort at a resend), so on one connection PUBLISH packets leave in initiation order -/
def account (s : S) (op pid : Nat) : Option S :=
  if !s.connected then some s else
  if op ≤ s.lastPub then none else
  let wire := addWire s.wire pid
  if pid ∈ s.holders then some { s with wire := wire, lastPub := op }
  else if s.quota = 0 then none
  else some { s with wire := wire, holders := pid :: s.holders, quota := s.quota - 1, lastPub := op }

def stepPk (s : S) : Out → Option S
  | .publish op qos pid dup body =>
    if qos = 1 then (request s op pid .pub1 dup body).bind (account · op pid)
    else if qos = 2 then (request s op pid .pub2 dup body).bind (account · op pid)
    else none
  | .subscribe op pid body => request s op pid .sub ((s.slot pid).isSome) body
  | .unsubscribe op pid body => request s op pid .unsub ((s.slot pid).isSome) body
  | .pubrel pid =>
    match s.slot pid with
    | some sl =>
      if sl.kind ≠ .pub2 then none else
      match sl.phase with
      | .relIdle => some { s with slot := upd s.slot pid (some { sl with phase := .relWriting, fast := none }) }
      | _ => none
    | none => none
  | .other => some s

/-- `complete()` → `free_pid(pid, true)` → `throttled_op_done()`: the token goes back when the operation takes the final acknowledgement
(it is waiting for exactly this acknowledgement, which is well-formed with an admissible code; a fast reply taken when the write ends
is counted when it arrives) -/
def releases (s : S) (a : Ack) : Bool :=
  a.final && decide (a.pid ∈ s.holders) && (match s.slot a.pid with
    | some sl => expects sl.kind sl.phase == some a.t && goodAck a sl.n && sl.fast.isNone
    | none => false)

def step (s : S) : Ev → Option S
  | .init op k n =>
    if (s.known op).isSome then none else some { s with known := upd s.known op (some (k, n)), ops := op :: s.ops }
  | .connUp rm =>
    let lim := rm.getD MAX_LIMIT
    some { s with connected := true, limit := lim, quota := lim, holders := [], wire := [], lastPub := 0, slot := fun p => (s.slot p).map Slot.onConnUp }
  | .connDown => some { s with connected := false, holders := [], wire := [], quota := s.limit, lastPub := 0 }
  | .wr => if s.writing then none else some { s with writing := true }
  | .pk p => if s.writing then stepPk s p else none
  | .wrOk => if s.writing then some { s with writing := false, slot := fun p => (s.slot p).map Slot.onWrOk } else none
  | .wrFail => if s.writing then some { s with writing := false, slot := fun p => (s.slot p).map Slot.onWrFail } else none
  | .rx a =>
    some { s with
      wire := if a.final then s.wire.erase a.pid else s.wire,
      holders := if releases s a then s.holders.erase a.pid else s.holders,
      quota := if releases s a then s.quota + 1 else s.quota,
      slot := upd s.slot a.pid ((s.slot a.pid).map (Slot.onRx · a)) }
  | .doneOk op rcs props =>
    -- `cancel()` aborts every reply wait and every queued request: nothing completes successfully until the client runs again
    if s.isDone op || s.cancelled then none else
    match s.pidOf op with
    | none => none
    | some p =>
      match s.slot p with
      | none => none
      | some sl =>
        if sl.op ≠ op || sl.phase ≠ .finished rcs props then none else
        some { s with slot := upd s.slot p none, isDone := upd s.isDone op true }
  | .doneOther op =>
    if s.isDone op || (s.known op).isNone then none else
    let s1 := { s with isDone := upd s.isDone op true }
    match s.pidOf op with
    | none => some s1
    | some p =>
      match s.slot p with
      | some sl => if sl.op = op then some { s1 with slot := upd s.slot p none } else some s1
      | none => some s1
  | .quiescent => if s.ops.all s.isDone then some s else none
  | .cancelAll => some { s with cancelled := true }
  | .restart => some { s with cancelled := false }

-- (the last case of `step`: nothing may be left outstanding when the client has been cancelled and the context has drained)
def run (s : S) : List Ev → Option S
  | [] => some s
  | e :: es => (step s e).bind (run · es)

def init : S := {}

/-- the model accepts the event list -/
def accepts (tr : List Ev) : Bool := (run init tr).isSome

/-- index of the first event the model refuses -/
def firstReject (s : S) : List Ev → Nat → Option Nat
  | [], _ => none
  | e :: es, i => match step s e with
    | none => some i
    | some s' => firstReject s' es (i + 1)

/-! ### Vocabulary for statements about event lists -/

/-- (operation, identifier) of a request packet (PUBLISH QoS 1/2, SUBSCRIBE, UNSUBSCRIBE) -/
def Out.req : Out → Option (Nat × Nat)
  | .publish op _ pid _ _ => some (op, pid)
  | .subscribe op pid _ => some (op, pid)
  | .unsubscribe op pid _ => some (op, pid)
  | _ => none

/-- (operation, identity of the bytes with DUP masked) of a request packet -/
def Out.reqBody : Out → Option (Nat × Nat)
  | .publish op _ _ _ body => some (op, body)
  | .subscribe op _ body => some (op, body)
  | .unsubscribe op _ body => some (op, body)
  | _ => none

/-- a request packet of `op` with bytes `b` was written somewhere in the list -/
def usesBody (hist : List Ev) (op b : Nat) : Prop := ∃ pk, Ev.pk pk ∈ hist ∧ pk.reqBody = some (op, b)

def isWriteEv : Ev → Bool
  | .wr | .wrOk | .wrFail => true
  | _ => false

/-- a PUBLISH of `op` is part of the write in progress -/
def pendingPub (hist : List Ev) (op : Nat) : Prop :=
  ∃ h1 q p d b mid, hist = h1 ++ Ev.pk (.publish op q p d b) :: mid ∧ ∀ e ∈ mid, isWriteEv e = false

/-- a write that contained a PUBLISH of `op` has completed successfully -/
def writtenOk (hist : List Ev) (op : Nat) : Prop :=
  ∃ h1 q p d b mid h2, hist = h1 ++ Ev.pk (.publish op q p d b) :: mid ++ Ev.wrOk :: h2 ∧ ∀ e ∈ mid, isWriteEv e = false

/-- the event is a completion of operation `op` -/
def isDoneEv (op : Nat) : Ev → Prop
  | .doneOk o _ _ => o = op
  | .doneOther o => o = op
  | _ => False

/-- the operation has completed somewhere in the list -/
def doneIn (hist : List Ev) (op : Nat) : Prop := ∃ e ∈ hist, isDoneEv op e

/-- a request packet of `op` carrying identifier `p` was written somewhere in the list -/
def usesPid (hist : List Ev) (op p : Nat) : Prop := ∃ pk, Ev.pk pk ∈ hist ∧ pk.req = some (op, p)

/-- what a broker sees of the flow control, read off the events alone: is a connection up, the Receive Maximum of its CONNACK
(65535 when absent), and the identifiers of the QoS 1/2 PUBLISH packets written on it that no PUBACK, PUBCOMP or failing PUBREC
has ended yet -/
structure Wire where
  connected : Bool := false
  rm : Nat := 65535
  inflight : List Nat := []

def wireStep (w : Wire) : Ev → Wire
  | .connUp rm => { connected := true, rm := rm.getD MAX_LIMIT, inflight := [] }
  | .connDown => { w with connected := false, inflight := [] }
  | .pk (.publish _ _ pid _ _) => if w.connected then { w with inflight := addWire w.inflight pid } else w
  | .rx a => if a.final then { w with inflight := w.inflight.erase a.pid } else w
  | _ => w

def wireOf (tr : List Ev) : Wire := tr.foldl wireStep {}

/-- operations whose QoS 1/2 PUBLISH was written on the current connection, in wire order (read off the events alone) -/
def pubsStep (st : Bool × List Nat) : Ev → Bool × List Nat
  | .connUp _ => (true, [])
  | .connDown => (false, [])
  | .pk (.publish op _ _ _ _) => if st.1 then (st.1, st.2 ++ [op]) else st
  | _ => st

def pubsOf (tr : List Ev) : List Nat := (tr.foldl pubsStep (false, [])).2

/-- has cancel() been called and async_run() not yet again (read off the events alone) -/
def cancelledOf (tr : List Ev) : Bool :=
  tr.foldl (fun b e => match e with | .cancelAll => true | .restart => false | _ => b) false

/-- the list contains events satisfying the predicates, in this order (not necessarily adjacent) -/
def Chain : List (Ev → Prop) → List Ev → Prop
  | [], _ => True
  | P :: Ps, h => ∃ h1 e h2, h = h1 ++ e :: h2 ∧ P e ∧ Chain Ps h2

/-- a request packet of `op` with identifier `p` is written -/
def isReq (op p : Nat) (e : Ev) : Prop := ∃ pk, e = .pk pk ∧ pk.req = some (op, p)
/-- a PUBREL with identifier `p` is written -/
def isRel (p : Nat) (e : Ev) : Prop := e = .pk (.pubrel p)
/-- acknowledgement `a` is read -/
def isRx (a : Ack) (e : Ev) : Prop := e = .rx a

/-- the acknowledgement that ends the first (only) stage of an exchange -/
def mainAck : Kind → Option AckT
  | .pub1 => some .puback | .pub2 => some .pubrec | .sub => some .suback | .unsub => some .unsuback | .other => none

/-- a well-formed PUBREC for `p` with a successful reason code -/
def okRec (p n : Nat) (r : Ack) : Prop := r.t = .pubrec ∧ r.pid = p ∧ goodAck r n = true ∧ r.rcs.all (· < 0x80) = true

/-- **what a successful completion with (`rcs`, `props`) of operation `op` (kind `k`, `n` topics, identifier `p`) must rest on**:
either its request was written and afterwards a well-formed acknowledgement of the right type for `p` was read, carrying exactly
these reason codes (one admissible code per topic) and these properties (a failing PUBREC ends a QoS 2 publish; it has no PUBCOMP
properties to hand over), or — QoS 2 — request, successful PUBREC, PUBREL, and then the PUBCOMP with these codes and properties. -/
def Truthful (hist : List Ev) (op p : Nat) (k : Kind) (n : Nat) (rcs : List Nat) (props : Nat) : Prop :=
  (∃ a, Chain [isReq op p, isRx a] hist ∧ a.pid = p ∧ goodAck a n = true ∧ a.rcs = rcs ∧
      ((mainAck k = some a.t ∧ k ≠ .pub2 ∧ a.props = props) ∨
       (k = .pub2 ∧ a.t = .pubrec ∧ a.rcs.all (· < 0x80) = false ∧ props = 0))) ∨
  (k = .pub2 ∧ ∃ r a, okRec p n r ∧ Chain [isReq op p, isRx r, isRel p, isRx a] hist ∧
      a.t = .pubcomp ∧ a.pid = p ∧ goodAck a n = true ∧ a.rcs = rcs ∧ a.props = props)

end Mqtt5V.Model.Trace
