import Mqtt5V.Model.Wire
/-! Text form of property lists used by the line protocol, and the container semantics of
`prop::properties<...>` (fixed slot order; a non-repeatable slot keeps the last value assigned). -/
namespace Mqtt5V.Model.PropsText
open Mqtt5V Mqtt5V.Wire Mqtt5V.Gen.PropTable

def kindOf (id : Nat) : Option (Kind × Bool) :=
  (table.find? (fun r => r.1 == id)).map (fun r => (r.2.1, r.2.2))

/-- what the C++ container holds after assigning the items in order: slots in declaration order -/
def canon (order : List Nat) (ps : Props) : Props :=
  order.flatMap fun id =>
    let mine := ps.filter (fun p => p.id == id)
    match kindOf id with
    | some (_, true) => mine
    | _ => match mine.getLast? with | some p => [p] | none => []

def natsOfHex (s : String) : Option Bs := (ofHexRep s).map fun b => b.map (·.toNat)

def parseItem (s : String) : Option Property :=
  match s.splitOn "=" with
  | [ids, v] => do
    let id ← ids.toNat?
    let (k, _) ← kindOf id
    if v.startsWith "#" then
      let n ← (v.drop 1).toString.toNat?
      match k with
      | .u8 => some ⟨id, .u8 n⟩ | .u16 => some ⟨id, .u16 n⟩ | .u32 => some ⟨id, .u32 n⟩ | .vint => some ⟨id, .vint n⟩
      | _ => none
    else
      match v.splitOn "/" with
      | [a] => do let b ← natsOfHex a; if k == .str then some ⟨id, .str b⟩ else none
      | [a, b] => do
        let x ← natsOfHex a
        let y ← natsOfHex b
        if k == .pair then some ⟨id, .pair x y⟩ else none
      | _ => none
  | _ => none

def parsePlist (s : String) : Option Props :=
  if s = "-" || s = "" then some [] else (s.splitOn ";").mapM parseItem

def hexNats (b : Bs) : String := toHex (b.map UInt8.ofNat)

def renderItem (p : Property) : String :=
  match p.val with
  | .u8 n | .u16 n | .u32 n | .vint n => s!"{p.id}=#{n}"
  | .str b => s!"{p.id}={hexNats b}"
  | .pair k v => s!"{p.id}={hexNats k}/{hexNats v}"

def renderPlist (ps : Props) : String :=
  if ps.isEmpty then "-" else String.intercalate ";" (ps.map renderItem)

def fnv (b : Bs) : UInt64 :=
  b.foldl (fun h c => (h ^^^ UInt64.ofNat c) * 1099511628211) 1469598103934665603

def showBytes (b : Bs) : String :=
  if b.length ≤ 4096 then hexNats b
  else s!"big {b.length} {(fnv b).toNat} {hexNats (b.take 48)}"

end Mqtt5V.Model.PropsText
