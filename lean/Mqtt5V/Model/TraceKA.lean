import Mqtt5V.Gen.Timing
/-! Composed client model, keep-alive (DESIGN.md S.8): `ping_op` (one timer, re-armed by `update_session_state` and by the completion of the
PINGREQ's write), the sender as far as the PINGREQ is concerned (queued behind the write in progress, written with the next write, a terminal
request leaves alone), and the time-out every read is started with — as one labelled transition system over what an observer with a clock sees.
The three timing expressions are the ones translated from the source (`Gen.Timing`).  `step` is partial: `none` = the real client cannot do this. -/
namespace Mqtt5V.Model.TraceKA
open Mqtt5V.Gen.Timing

inductive Ev
  | cfg (k : Nat)                       -- `keep_alive(k)` before `async_run`
  | run                                 -- `async_run`: `ping_op::perform()`
  | connUp (ska : Option Nat)           -- CONNACK of a new connection: its Server Keep Alive, if any
  | refresh                             -- a read ended with try_again: `update_session_state()` cancels the ping timer → re-armed
  | adv (ms : Nat)                      -- time passes; timers that are due fire
  | rd (t : Option Nat)                 -- a read is started with this time-out (`none` = never)
  | wr (ping : Bool) (terminal : Bool)  -- a write starts; it carries a PINGREQ / it is a DISCONNECT on its own
  | wrOk | wrFail | wrAbort             -- the write ends: ok, try_again (also a session refresh), operation_aborted
  | wrFatal                             -- the write ends with no_recovery: the sender cancels the client
  | stop                                -- `cancel()` / a finished `async_disconnect`: the client is closed
  | eol                                 -- the execution context ran out of ready handlers
  deriving Repr, DecidableEq, Inhabited

inductive Phase
  | idle                                -- no `ping_op`
  | waiting (due : Option Nat)          -- timer pending, expires at `due` (`none` = never: keep-alive 0)
  | sending                             -- the PINGREQ was handed to the sender and its write has not completed
  deriving Repr, DecidableEq, Inhabited

structure S where
  now : Nat := 0
  cfgK : Nat := 60                      -- `mqtt_context::keep_alive` default
  ska : Option Nat := none
  phase : Phase := .idle
  queued : Bool := false                -- the PINGREQ waits in the send queue
  inBatch : Bool := false               -- the PINGREQ is in the write in progress
  writing : Bool := false
  deriving Repr, DecidableEq, Inhabited

/-- `negotiated_keep_alive()` -/
def S.K (s : S) : Nat := negotiated s.ska s.cfgK

/-- `ping_op::perform()`: `expires_after(compute_wait_time())` -/
def arm (s : S) : S := { s with phase := .waiting ((pingWaitMs s.K).map (s.now + ·)), queued := false, inBatch := false }

def step (s : S) : Ev → Option S
  | .cfg k => if s.phase = .idle then some { s with cfgK := k } else none
  | .run => if s.phase = .idle then some (arm s) else none
  | .connUp ska => some { s with ska := ska }
  | .refresh => match s.phase with
    | .waiting _ => some (arm s)
    | _ => some s
  | .adv ms =>
    let s := { s with now := s.now + ms }
    match s.phase with
    | .waiting (some d) => if d ≤ s.now then some { s with phase := .sending, queued := true } else some s
    | _ => some s
  | .rd t => if t = readTimeoutMs s.K then some s else none
  | .wr ping terminal =>
    if s.writing then none
    else if terminal then (if ping then none else some { s with writing := true, inBatch := false })
    else if ping = s.queued then some { s with writing := true, inBatch := ping, queued := false }
    else none
  | .wrOk =>
    if !s.writing then none
    else if s.inBatch then some (arm { s with writing := false })
    else some { s with writing := false }
  | .wrFail =>
    -- `update_session_state()`, then `resend()`: every request, written or queued, completes with try_again → `perform()`
    if !s.writing then none
    else match s.phase with
      | .idle => some { s with writing := false, inBatch := false, queued := false }
      | _ => some (arm { s with writing := false })
  | .wrAbort => if s.writing && s.phase = .idle then some { s with writing := false, inBatch := false } else none   -- only a closed client has its write aborted
  | .wrFatal => if s.writing then some { s with writing := false, phase := .idle, queued := false, inBatch := false } else none
  | .stop => some { s with phase := .idle, queued := false, inBatch := false }
  | .eol => if s.queued && !s.writing then none else some s

def run (s : S) : List Ev → Option S
  | [] => some s
  | e :: es => (step s e).bind (run · es)

def init : S := {}
def accepts (tr : List Ev) : Bool := (run init tr).isSome

def firstReject (s : S) : List Ev → Nat → Option Nat
  | [], _ => none
  | e :: es, i => match step s e with
    | none => some i
    | some s' => firstReject s' es (i + 1)

def stateAt (s : S) : List Ev → Nat → S
  | [], _ => s
  | _ :: _, 0 => s
  | e :: es, i + 1 => match step s e with
    | none => s
    | some s' => stateAt s' es i

/-! ### What an observer can compute from the events alone -/
structure Obs where
  now : Nat := 0
  cfg : Nat := 60
  ska : Option Nat := none
  running : Bool := false
  writing : Bool := false
  batchPing : Bool := false       -- the write in progress carries a PINGREQ
  lastReset : Nat := 0            -- time of the latest of: `async_run`, a session refresh, the end of the write that carried a PINGREQ
  kArm : Nat := 0                 -- the keep-alive negotiated at that moment
  kMax : Nat := 0                 -- the largest keep-alive in force at any such moment
  deriving Repr, DecidableEq, Inhabited

def Obs.K (o : Obs) : Nat := negotiated o.ska o.cfg
def Obs.reset (o : Obs) : Obs := { o with lastReset := o.now, kArm := o.K, kMax := max o.kMax o.K }

def obsStep (o : Obs) : Ev → Obs
  | .cfg k => { o with cfg := k }
  | .run => { o with running := true }.reset
  | .connUp ska => { o with ska := ska }
  | .refresh => o.reset
  | .adv ms => { o with now := o.now + ms }
  | .rd _ => o
  | .wr p t => { o with writing := true, batchPing := p && !t }
  | .wrOk => if o.batchPing then { o with writing := false, batchPing := false }.reset else { o with writing := false }
  | .wrFail => { o with writing := false, batchPing := false }.reset
  | .wrAbort => { o with writing := false, batchPing := false }
  | .wrFatal => { o with writing := false, batchPing := false, running := false }
  | .stop => { o with running := false, batchPing := false }
  | .eol => o

def obs (tr : List Ev) : Obs := tr.foldl obsStep {}

end Mqtt5V.Model.TraceKA
