import Mqtt5V.Basic
/-! Model of `detail::async_mutex` (async_mutex.hpp): `_locked`, the waiting deque (an entry whose
handler was taken by a per-operation cancellation stays in the deque as an empty slot), and the
FIFO of completions posted to the executor.  Completions run when the executor is polled. -/
namespace Mqtt5V.Model.Mutex

inductive Ev
  | grant (w : Nat)      -- handler invoked with success
  | abort (w : Nat)      -- handler invoked with operation_aborted
  deriving Repr, DecidableEq

/-- what sits in the executor's FIFO: a completion, or a task that will emit waiter `w`'s cancellation signal from inside a handler -/
inductive Task
  | ev (e : Ev)
  | emit (w : Nat)
  deriving Repr, DecidableEq

structure M where
  locked : Bool := false
  waiting : List (Option Nat) := []
  posted : List Task := []          -- posted, not yet run (FIFO)
  deriving Repr

inductive In
  | lock (w : Nat)
  | unlock
  | cancelOne (w : Nat) (inside : Bool)   -- per-operation cancellation signal (type ≠ none); `inside` = emitted by a posted task, i.e. from within a handler
  | cancelAll
  | run1                                   -- the executor runs one posted completion
  deriving Repr, DecidableEq

/-- `unlock()`: skip emptied entries, hand over to the first live waiter, else release -/
def unlockQ : List (Option Nat) → Option Nat × List (Option Nat)
  | [] => (none, [])
  | none :: r => unlockQ r
  | some w :: r => (some w, r)

def clearSlot (w : Nat) (q : List (Option Nat)) : List (Option Nat) :=
  q.map fun x => if x = some w then none else x

/-- the slot handler `cancel_waiting_op`: take the handler out of its deque entry; the abort runs inline when emitted from inside a handler, else it is posted -/
def emitSignal (m : M) (w : Nat) (inside : Bool) : M × List Ev :=
  if m.waiting.contains (some w) then
    let m' := { m with waiting := clearSlot w m.waiting }
    if inside then (m', [.abort w]) else ({ m' with posted := m'.posted ++ [.ev (.abort w)] }, [])
  else (m, [])

def M.step (m : M) : In → M × List Ev
  | .lock w =>
    if m.locked then ({ m with waiting := m.waiting ++ [some w] }, [])
    else ({ m with locked := true, posted := m.posted ++ [.ev (.grant w)] }, [])
  | .unlock =>
    match unlockQ m.waiting with
    | (some w, r) => ({ m with waiting := r, posted := m.posted ++ [.ev (.grant w)] }, [])
    | (none, r) => ({ m with waiting := r, locked := false }, [])
  | .cancelOne w inside =>
    if inside then ({ m with posted := m.posted ++ [.emit w] }, []) else emitSignal m w false
  | .cancelAll =>
    ({ m with waiting := [], posted := m.posted ++ (m.waiting.filterMap id).map (fun w => .ev (.abort w)) }, [])
  | .run1 =>
    match m.posted with
    | [] => (m, [])
    | .ev e :: r => ({ m with posted := r }, [e])
    | .emit w :: r => emitSignal { m with posted := r } w true

def Ev.render : Ev → String
  | .grant w => s!"grant {w}"
  | .abort w => s!"abort {w}"

def renderEvs (l : List Ev) : String :=
  if l.isEmpty then "-" else String.intercalate "," (l.map Ev.render)

end Mqtt5V.Model.Mutex

namespace Mqtt5V.Model.Mutex

def live (q : List (Option Nat)) : List Nat := q.filterMap id

def pendingGrants (p : List Task) : List Nat :=
  p.filterMap fun t => match t with | .ev (.grant w) => some w | _ => none

def grantsOf (evs : List Ev) : List Nat :=
  evs.filterMap fun e => match e with | .grant w => some w | _ => none

def abortsOf (evs : List Ev) : List Nat :=
  evs.filterMap fun e => match e with | .abort w => some w | _ => none

/-- the mutex together with the history bookkeeping the theorems talk about (ghost state) -/
structure G where
  m : M := {}
  arrival : List Nat := []      -- waiters in the order they called lock()
  grantedP : List Nat := []     -- waiters the lock was handed to (grant posted), in order
  abortedP : List Nat := []     -- waiters whose abort was posted or run
  delivered : Bool := false     -- the current holder's grant has run and it has not unlocked yet
  trace : List Ev := []         -- every completion that has run so far
  deriving Repr

/-- was the per-operation signal effective (the waiter's handler was still in the deque) -/
def effective (m : M) (w : Nat) : Bool := m.waiting.contains (some w)

def G.step (g : G) (i : In) : G :=
  let r := g.m.step i
  let g' := { g with m := r.1, trace := g.trace ++ r.2 }
  match i with
  | .lock w =>
    if g.m.locked then { g' with arrival := g.arrival ++ [w] }
    else { g' with arrival := g.arrival ++ [w], grantedP := g.grantedP ++ [w], delivered := false }
  | .unlock =>
    match (unlockQ g.m.waiting).1 with
    | some w => { g' with grantedP := g.grantedP ++ [w], delivered := false }
    | none => { g' with delivered := false }
  | .cancelOne w inside =>
    if !inside && effective g.m w then { g' with abortedP := g.abortedP ++ [w] } else g'
  | .cancelAll => { g' with abortedP := g.abortedP ++ live g.m.waiting }
  | .run1 =>
    match g.m.posted with
    | .ev (.grant _) :: _ => { g' with delivered := true }
    | .emit w :: _ => if effective g.m w then { g' with abortedP := g.abortedP ++ [w] } else g'
    | _ => g'

/-- holder discipline: fresh waiter ids; only a waiter whose grant has run unlocks, once -/
def G.legal (g : G) : In → Bool
  | .lock w => !g.arrival.contains w
  | .unlock => g.delivered
  | _ => true

def G.run (g : G) : List In → Option G
  | [] => some g
  | i :: is => if g.legal i then (g.step i).run is else none

end Mqtt5V.Model.Mutex
