import Mqtt5V.Gen.Timing
import Mqtt5V.Model.Dec
import Mqtt5V.Model.Verdict
import Mqtt5V.Model.Enc
/-! Model of connection establishment: `exponential_backoff`, `resolve_op::perform()` (host rotation),
the retry loop of `reconnect_op`, and the handshake of `connect_op` (CONNECT first, 5-byte header read,
exact remainder, CONNACK admission).  Timing constants come from the translator (`Gen.Timing`). -/
namespace Mqtt5V.Model.Connect
open Mqtt5V.Wire Mqtt5V.Gen.Timing Mqtt5V.Model

/-! ## back-off -/

/-- `exponential_backoff::generate()`: `exponent = _curr_exp < _max_exp ? _curr_exp++ : _max_exp`; returns (exponent used, new `_curr_exp`) -/
def backoffStep (cur : Nat) : Nat × Nat :=
  if cur < backoffMaxExp then (cur, cur + 1) else (backoffMaxExp, cur)

/-- `base * _base_mulptilier + noise` with `base = 1 << exponent` -/
def pauseMs (exponent : Nat) (noise : Int) : Int := ((2 ^ exponent * backoffBaseMs : Nat) : Int) + noise

/-! ## host rotation and the retry loop -/

/-- what the network does to one host attempt -/
inductive Outcome
  | resolveFail                 -- resolver error or 5 s resolve time-out: `perform()` moves on to the next host
  | eps (results : List Bool)   -- resolved; per endpoint in order: did TCP connect + MQTT handshake succeed within 5 s
  deriving Repr, DecidableEq

inductive Act
  | pause (exponent : Nat)        -- back-off timer armed with this exponent
  | resolve (host : Nat)          -- `async_resolve` for `_servers[host]`
  | connect (host ep : Nat)       -- a fresh socket, `connect_op` on endpoint #ep of the host
  | established (host ep : Nat)   -- `replace_next_layer`, reconnect completes with success
  | noRecovery                    -- empty broker list
  deriving Repr, DecidableEq

/-- endpoints of one host, in order, until one succeeds -/
def tryEps (host : Nat) : Nat → List Bool → List Act × Bool
  | _, [] => ([], false)
  | j, true :: _ => ([.connect host j, .established host j], true)
  | j, false :: r => let (a, ok) := tryEps host (j + 1) r; (.connect host j :: a, ok)

structure St where
  pos : Nat      -- `_current_host + 1`: how many hosts of the list have been tried in this round
  exp : Nat      -- `_curr_exp` of this reconnect operation's back-off generator
  deriving Repr, DecidableEq

/-- `reconnect_op` from `do_reconnect()`: one outcome is consumed per host tried.  `n` = number of configured brokers. -/
def run (n : Nat) : St → List Outcome → List Act × St
  | s, [] => ([], s)
  | s, o :: os =>
    if n = 0 then ([.noRecovery], s) else
    -- `_current_host + 1 > size`: reset, report try_again, `backoff_and_reconnect()`, then host 0
    let wrapped := s.pos ≥ n
    let pre : List Act := if wrapped then [.pause (backoffStep s.exp).1] else []
    let host := if wrapped then 0 else s.pos
    let s' : St := ⟨host + 1, if wrapped then (backoffStep s.exp).2 else s.exp⟩
    match o with
    | .resolveFail => let (a, sf) := run n s' os; (pre ++ .resolve host :: a, sf)
    | .eps l =>
      let (a, ok) := tryEps host 0 l
      if ok then (pre ++ .resolve host :: a, s')
      else let (b, sf) := run n s' os; (pre ++ .resolve host :: (a ++ b), sf)

/-- the rotation rule, as a predicate on traces: `pos` hosts of the list were tried in this round -/
def Obeys (n : Nat) : Nat → List Act → Prop
  | _, [] => True
  | pos, .pause e :: .resolve i :: r => pos ≥ n ∧ e ≤ backoffMaxExp ∧ i = 0 ∧ Obeys n 1 r  -- a pause only when the list wrapped, then the first broker
  | pos, .resolve i :: r => pos < n ∧ i = pos ∧ Obeys n (pos + 1) r                        -- otherwise the next broker of the list, no pause
  | pos, .connect i _ :: r => i + 1 = pos ∧ Obeys n pos r
  | pos, .established i _ :: r => i + 1 = pos ∧ r = []
  | _, _ => False

/-! ## handshake (`connect_op`) -/

def minPacketSz : Nat := 5

inductive Frame
  | reject            -- neither CONNACK nor AUTH, or no variable-length integer in the 4 bytes: shutdown, try the next endpoint
  | malformed         -- Remaining Length shorter than what was already read
  | more (code bodyFirst bodyLen remain : Nat)   -- read exactly `remain` more bytes; the packet body is `[bodyFirst, bodyFirst + bodyLen)`
  deriving Repr, DecidableEq

/-- `operator()(on_fixed_header …)` on the first `minPacketSz` bytes -/
def frame (first5 : Bs) : Frame :=
  let code := first5.getD 0 0 / 16 * 16
  if code ≠ 0xF0 ∧ code ≠ 0x20 then .reject else
  -- CONNACK and AUTH carry no flags: reserved bits of the first byte must be zero
  if first5.getD 0 0 % 16 ≠ 0 then .malformed else
  match Dec.varint ⟨first5, minPacketSz⟩ 1 minPacketSz with
  | .ok varlen p =>
    -- remain_len = varlen - distance(varlen_ptr, begin + num_read)
    if varlen < minPacketSz - p then .malformed else .more code p varlen (varlen - (minPacketSz - p))
  | _ => .reject

inductive HsVerdict
  | established (sessionPresent : Nat) (caProps : Props)
  | retry                  -- refused / wrong packet: shutdown, next endpoint
  | malformed
  | needMore (n : Nat)     -- the broker has not sent the whole packet yet (5 s timer decides)
  deriving Repr, DecidableEq

/-- everything the broker sent in reply to CONNECT (no authenticator configured) -/
def handshake (rx : Bs) : HsVerdict :=
  if rx.length < minPacketSz then .needMore (minPacketSz - rx.length) else
  match frame (rx.take minPacketSz) with
  | .reject => .retry
  | .malformed => .malformed
  | .more code first len remain =>
    if rx.length < minPacketSz + remain then .needMore (minPacketSz + remain - rx.length) else
    if code ≠ 0x20 then .malformed else       -- AUTH without a configured authentication method
    match Dec.decodeConnack ⟨rx.take (minPacketSz + remain), minPacketSz + remain⟩ first len with
    | .ok (sp, rc, ps) _ =>
      if sp > 1 then .malformed else             -- bits 7-1 of the Connect Acknowledge Flags are reserved
      if !Verdict.admitted .connack rc then .malformed
      else if rc ≥ 0x80 then .retry else .established sp ps
    | _ => .malformed

/-- what `connect_op` writes before the CONNACK: the CONNECT built from the configuration with Clean Start 0 -/
def firstPacket (cid : Bs) (user pass : Option Bs) (keepAlive : Nat) (ps : Props) (w : Option Will) : Bs :=
  Enc.encodeConnect cid user pass keepAlive 0 ps w

end Mqtt5V.Model.Connect
