import Mqtt5V.Basic
import Mqtt5V.Gen.PropTable
/-! Data types shared by the encoder/decoder models and the wire specification.
Bytes inside the codec models are `List Nat` (each < 256 when they come from the wire; strings are copied as is). -/
namespace Mqtt5V.Wire

abbrev Bs := List Nat

inductive PVal
  | u8 (n : Nat) | u16 (n : Nat) | u32 (n : Nat) | vint (n : Nat) | str (b : Bs) | pair (k v : Bs)
  deriving Repr, DecidableEq, Inhabited

structure Property where
  id : Nat
  val : PVal
  deriving Repr, DecidableEq, Inhabited

abbrev Props := List Property

structure Will where
  topic : Bs
  message : Bs
  qos : Nat
  retain : Nat
  props : Props
  deriving Repr, DecidableEq

structure SubOpts where
  maxQos : Nat
  noLocal : Nat
  retainAsPublished : Nat
  retainHandling : Nat
  deriving Repr, DecidableEq

inductive Packet
  | connect (clientId : Bs) (user pass : Option Bs) (keepAlive : Nat) (cleanStart : Nat) (props : Props) (will : Option Will)
  | connack (sessionPresent : Nat) (rc : Nat) (props : Props)
  | publish (pid : Option Nat) (topic payload : Bs) (qos retain dup : Nat) (props : Props)
  | puback (pid rc : Nat) (props : Props)
  | pubrec (pid rc : Nat) (props : Props)
  | pubrel (pid rc : Nat) (props : Props)
  | pubcomp (pid rc : Nat) (props : Props)
  | subscribe (pid : Nat) (topics : List (Bs × SubOpts)) (props : Props)
  | suback (pid : Nat) (rcs : List Nat) (props : Props)
  | unsubscribe (pid : Nat) (topics : List Bs) (props : Props)
  | unsuback (pid : Nat) (rcs : List Nat) (props : Props)
  | pingreq
  | pingresp
  | disconnect (rc : Nat) (props : Props)
  | auth (rc : Nat) (props : Props)
  deriving Repr, DecidableEq

end Mqtt5V.Wire
