import Mqtt5V.Basic
/-! Composed client model, content of requests (DESIGN.md S.8): what an operation's request packets say is what its API call said.
`c` is the identity of (topic, payload, QoS, retain, properties) for a publish, of (topic filters with options, properties) for a
(un)subscribe — computed by the front end once from the arguments of the API call and once from the decoded packet on the wire. -/
namespace Mqtt5V.Model.TraceContent

inductive Ev
  | init (op c : Nat)        -- API call with content `c`
  | req (op c : Nat)         -- a request packet of `op` is written; it decodes to content `c`
  deriving Repr, DecidableEq, Inhabited

structure S where
  said : Nat → Option Nat := fun _ => none

def step (s : S) : Ev → Option S
  | .init op c => if (s.said op).isSome then none else some { said := fun i => if i = op then some c else s.said i }
  | .req op c => if s.said op = some c then some s else none

def run (s : S) : List Ev → Option S
  | [] => some s
  | e :: es => (step s e).bind (run · es)

def init : S := {}
def accepts (tr : List Ev) : Bool := (run init tr).isSome

def firstReject (s : S) : List Ev → Nat → Option Nat
  | [], _ => none
  | e :: es, i => match step s e with
    | none => some i
    | some s' => firstReject s' es (i + 1)

end Mqtt5V.Model.TraceContent
