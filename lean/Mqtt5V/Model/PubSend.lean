import Mqtt5V.Basic
/-! Model of `publish_send_op<qos>` from `send_publish` on (after identifier allocation and validation): the state
machine of one QoS 1 / QoS 2 `async_publish`, driven by the completions of `async_send` and `async_wait_reply`.
The op holds either the PUBLISH (with its DUP bit) or, after a successful PUBREC, only the PUBREL. -/
namespace Mqtt5V.Model.PubSend

/-- result of `async_send` as the op sees it -/
inductive SendRes | ok | tryAgain | failed     -- failed = operation_aborted / no_recovery
  deriving Repr, DecidableEq

/-- what `async_wait_reply` hands over -/
inductive Reply
  | tryAgain                         -- "resend unanswered" after a reconnect
  | failed                           -- operation_aborted
  | undecodable                      -- `decode_xxx` failed
  | badCode                          -- reason code not allowed for this packet type
  | ack (rc : Nat) (props : Nat)     -- decoded, admissible reason code; `props` stands for the decoded properties
  deriving Repr, DecidableEq

inductive In
  | sent (r : SendRes)
  | reply (r : Reply)
  | cancelSignal                     -- the caller's cancellation slot fired (`_handler.cancelled()` becomes non-none)
  deriving Repr, DecidableEq

inductive Act
  | sendPublish (dup : Bool)                     -- `async_send(PUBLISH, serial, throttled)`
  | sendPubrel (throttled : Bool)                -- `async_send(PUBREL, serial, throttled? | prioritized)`
  | waitAck                                      -- `async_wait_reply(PUBACK or PUBREC, id)`
  | waitPubcomp                                  -- `async_wait_reply(PUBCOMP, id)`
  | disconnectMalformed                          -- `async_disconnect(malformed_packet, …, detached)`
  | freePid
  | completeOk (rc props : Nat)                  -- handler(success, rc, props)
  | completeErr                                  -- handler(operation_aborted / the send error, empty)
  deriving Repr, DecidableEq

inductive Phase
  | sendingPublish | waitingAck | sendingPubrel | waitingPubcomp | done
  deriving Repr, DecidableEq

structure S where
  qos2 : Bool
  phase : Phase := .sendingPublish
  dup : Bool := false            -- DUP bit of the stored PUBLISH
  cancelled : Bool := false
  deriving Repr, DecidableEq

def finishErr (s : S) : S × List Act := ({ s with phase := .done }, [.freePid, .completeErr])
def finishOk (s : S) (rc props : Nat) : S × List Act := ({ s with phase := .done }, [.freePid, .completeOk rc props])

/-- `resend_publish`: a cancelled operation is not re-sent -/
def resendPublish (s : S) (dup : Bool) : S × List Act :=
  if s.cancelled then finishErr { s with dup := dup }
  else ({ s with phase := .sendingPublish, dup := dup }, [.sendPublish dup])

/-- the first action: `send_publish` with DUP = 0 -/
def start (qos2 : Bool) : S × List Act := ({ qos2 := qos2 }, [.sendPublish false])

def step (s : S) (i : In) : S × List Act :=
  match i with
  | .cancelSignal => ({ s with cancelled := true }, [])
  | .sent r =>
    match s.phase with
    | .sendingPublish =>
      match r with
      | .tryAgain => resendPublish s s.dup
      | .failed => finishErr s
      | .ok => ({ s with phase := .waitingAck }, [.waitAck])
    | .sendingPubrel =>
      match r with
      | .tryAgain => (s, [.sendPubrel true])
      | .failed => finishErr s
      | .ok => ({ s with phase := .waitingPubcomp }, [.waitPubcomp])
    | _ => (s, [])
  | .reply r =>
    match s.phase with
    | .waitingAck =>
      match r with
      | .tryAgain => resendPublish s true
      | .failed => finishErr s
      | .undecodable | .badCode =>
        let (s', a) := resendPublish s true
        (s', .disconnectMalformed :: a)
      | .ack rc props =>
        if !s.qos2 then finishOk s rc props
        else if rc ≥ 0x80 then finishOk s rc 0            -- failing PUBREC ends the exchange (handler gets empty properties)
        else ({ s with phase := .sendingPubrel }, [.sendPubrel false])
    | .waitingPubcomp =>
      match r with
      | .tryAgain => ({ s with phase := .sendingPubrel }, [.sendPubrel true])
      | .failed => finishErr s
      | .undecodable | .badCode => ({ s with phase := .sendingPubrel }, [.disconnectMalformed, .sendPubrel true])
      | .ack rc props => finishOk s rc props
    | _ => (s, [])

/-- whole history: actions in order -/
def run (s : S) : List In → S × List Act
  | [] => (s, [])
  | i :: is =>
    let (s1, a1) := step s i
    let (s2, a2) := run s1 is
    (s2, a1 ++ a2)

end Mqtt5V.Model.PubSend
