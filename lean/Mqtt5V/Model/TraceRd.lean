import Mqtt5V.Basic
/-! Composed model, the timed read of the stream layer (DESIGN.md S.8): `read_op` runs the socket read and the read timer side by side
(`wait_for_one`); when the timer wins the socket read is cancelled and the connection abandoned (`async_reconnect`).  The alphabet is what an
observer of the real `autoconnect_stream` with a clock sees.  `step` is partial: `none` = the real stream cannot do this. -/
namespace Mqtt5V.Model.TraceRd

inductive Ev
  | start (lim : Option Nat)   -- a timed read begins on a connected stream; its limit in ms (`none` = no limit: keep-alive 0)
  | adv (ms : Nat)             -- time passes; timers that are due fire
  | finish                     -- the read ends for another reason: bytes arrived, the socket reported an error, the stream was cancelled or closed
  | abandon                    -- the read timer fired: the socket read is cancelled and the connection given up
  | eol                        -- the execution context ran out of ready handlers
  deriving Repr, DecidableEq, Inhabited

structure S where
  now : Nat := 0
  cur : Option (Nat × Option Nat) := none     -- the read in progress: when it began, its limit
  deriving Repr, DecidableEq, Inhabited

def step (s : S) : Ev → Option S
  | .start lim => some { s with cur := some (s.now, lim) }
  | .adv ms => some { s with now := s.now + ms }
  | .finish => some { s with cur := none }
  | .abandon =>
    match s.cur with
    | some (t0, some lim) => if t0 + lim ≤ s.now then some { s with cur := none } else none
    | _ => none
  | .eol =>
    match s.cur with
    | some (t0, some lim) => if t0 + lim ≤ s.now then none else some s
    | _ => some s

def run (s : S) : List Ev → Option S
  | [] => some s
  | e :: es => (step s e).bind (run · es)

def init : S := {}
def accepts (tr : List Ev) : Bool := (run init tr).isSome

def firstReject (s : S) : List Ev → Nat → Option Nat
  | [], _ => none
  | e :: es, i => match step s e with
    | none => some i
    | some s' => firstReject s' es (i + 1)

def stateAt (s : S) : List Ev → Nat → S
  | [], _ => s
  | _ :: _, 0 => s
  | e :: es, i + 1 => match step s e with
    | none => s
    | some s' => stateAt s' es i

/-! ### read off the events alone -/
/-- the time -/
def nowOf (tr : List Ev) : Nat := tr.foldl (fun n e => match e with | .adv ms => n + ms | _ => n) 0
/-- the read in progress: when it began and its limit -/
def readStep (st : Nat × Option (Nat × Option Nat)) : Ev → Nat × Option (Nat × Option Nat)
  | .start lim => (st.1, some (st.1, lim))
  | .adv ms => (st.1 + ms, st.2)
  | .finish => (st.1, none)
  | .abandon => (st.1, none)
  | .eol => st
def readOf (tr : List Ev) : Option (Nat × Option Nat) := (tr.foldl readStep (0, none)).2

end Mqtt5V.Model.TraceRd
