import Mqtt5V.Model.ReasonCode
/-! Model of the SUBACK / UNSUBACK verdict check (`subscribe_op::operator()(on_suback…)`, `to_reason_codes`,
and the same in `unsubscribe_op`): admit each code through the category table, require that the
acknowledgement carried exactly one code per requested topic and that all of them were admitted. -/
namespace Mqtt5V.Model.Verdict
open Mqtt5V Mqtt5V.Model.ReasonCode

def admitted (cat : Category) (c : Nat) : Bool :=
  match toReasonCode cat c with
  | .hit _ => true
  | _ => false

/-- `to_reason_codes`: keep the admitted codes, in order -/
def toReasonCodes (cat : Category) (codes : List Nat) : List Nat := codes.filter (admitted cat)

/-- `some codes` = surfaced to the handler as success with these codes; `none` = treated as malformed (DISCONNECT 0x81, resend) -/
def verdict (cat : Category) (numTopics : Nat) (codes : List Nat) : Option (List Nat) :=
  let rcs := toReasonCodes cat codes
  if codes.length != numTopics || rcs.length != numTopics then none else some rcs

end Mqtt5V.Model.Verdict
