import Mqtt5V.Basic
import Mqtt5V.Gen.ReasonCodes
/-! Model of `to_reason_code<cat>(uint8_t)` (reason_codes.hpp): `std::lower_bound` over the
category's table followed by the admission test.  A dereference at or beyond the end of the
table is the explicit outcome `oob`. -/
namespace Mqtt5V.Model.ReasonCode

inductive Lookup
  | hit (v : Nat)      -- `return *it` (the table entry's byte value)
  | miss               -- `return std::nullopt`
  | oob                -- `it` dereferenced at `ptr + len`
  deriving Repr, DecidableEq

/-- the halving loop of `std::lower_bound` (`first`, `count`), fuel = an upper bound on the iterations -/
def lbLoop (t : List Nat) (v : Nat) : Nat → Nat → Nat → Nat
  | 0, first, _ => first
  | fuel + 1, first, count =>
    if count = 0 then first else
    let step := count / 2
    let it := first + step
    if t.getD it 0 < v then lbLoop t v fuel (it + 1) (count - (step + 1))
    else lbLoop t v fuel first step

def lowerBound (t : List Nat) (v : Nat) : Nat := lbLoop t v (t.length + 1) 0 t.length

def lookupIn (guarded : Bool) (t : List Nat) (code : Nat) : Lookup :=
  let i := lowerBound t code
  if guarded then
    if i < t.length ∧ t.getD i 0 = code then .hit (t.getD i 0) else .miss
  else if t.length ≤ i then .oob
  else if t.getD i 0 = code then .hit (t.getD i 0) else .miss

def toReasonCode (cat : Category) (code : Nat) : Lookup :=
  lookupIn Gen.ReasonCodes.lookupGuarded (Gen.ReasonCodes.table cat) code

def Lookup.render : Lookup → String
  | .hit v => s!"hit {v}"
  | .miss => "miss"
  | .oob => "oob"

end Mqtt5V.Model.ReasonCode
