import Mqtt5V.Gen.Timing
/-! Composed client model, the time limit of `async_disconnect` (DESIGN.md S.8): `disconnect_op` runs the DISCONNECT exchange and a timer side by
side; whichever ends first completes the operation.  Alphabet of an observer with a clock; the limit is the constant translated from the
source (`Gen.Timing.disconnectLimitMs`).  `step` is partial: `none` = the real client cannot do this. -/
namespace Mqtt5V.Model.TraceDiscT
open Mqtt5V.Gen.Timing

inductive Ev
  | disc            -- `async_disconnect` is initiated
  | adv (ms : Nat)  -- the clock moves on (everything that was due at the old time, in the client and in the layers below it, has happened)
  | done            -- its completion handler runs
  deriving Repr, DecidableEq, Inhabited

structure S where
  now : Nat := 0
  pending : Option Nat := none     -- when the operation in progress was initiated
  deriving Repr, DecidableEq, Inhabited

def step (s : S) : Ev → Option S
  | .disc => if s.pending.isSome then none else some { s with pending := some s.now }
  | .adv ms =>
    -- the clock does not move on from a moment at or past the limit while the operation is still in progress
    match s.pending with
    | some t0 => if t0 + disconnectLimitMs ≤ s.now then none else some { s with now := s.now + ms }
    | none => some { s with now := s.now + ms }
  | .done => if s.pending.isSome then some { s with pending := none } else none

def run (s : S) : List Ev → Option S
  | [] => some s
  | e :: es => (step s e).bind (run · es)

def init : S := {}
def accepts (tr : List Ev) : Bool := (run init tr).isSome

def firstReject (s : S) : List Ev → Nat → Option Nat
  | [], _ => none
  | e :: es, i => match step s e with
    | none => some i
    | some s' => firstReject s' es (i + 1)

def stateAt (s : S) : List Ev → Nat → S
  | [], _ => s
  | _ :: _, 0 => s
  | e :: es, i + 1 => match step s e with
    | none => s
    | some s' => stateAt s' es i

/-! ### read off the events alone -/
def obsStep (st : Nat × Option Nat) : Ev → Nat × Option Nat
  | .disc => (st.1, some st.1)
  | .adv ms => (st.1 + ms, st.2)
  | .done => (st.1, none)
/-- the time, and when the `async_disconnect` still in progress was initiated -/
def obs (tr : List Ev) : Nat × Option Nat := tr.foldl obsStep (0, none)

end Mqtt5V.Model.TraceDiscT
