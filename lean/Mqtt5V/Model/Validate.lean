import Mqtt5V.Model.Utf8
import Mqtt5V.Model.Enc
/-! Model of the request validation and capability checks of `publish_send_op::perform / validate_publish /
validate_props` and `subscribe_op::perform / validate_subscribe / validate_topic / validate_props`:
`Except error-code bytes` — the packet handed to the sender, or the `client::error` value reported immediately. -/
namespace Mqtt5V.Model.Validate
open Mqtt5V.Wire Mqtt5V.Model.Utf8 Mqtt5V.Model.Enc

/-- what the client reads from the CONNACK it holds (absent properties = the defaults of the code) -/
structure Caps where
  maxQos : Nat := 2
  retainAvailable : Nat := 1
  topicAliasMax : Nat := 0
  maxPacket : Nat := 268435460       -- default_max_send_size
  wildcardAvailable : Nat := 1
  subIdAvailable : Nat := 1
  sharedAvailable : Nat := 1
  deriving Repr

def E_MALFORMED : Nat := 100
def E_TOO_LARGE : Nat := 101
def E_INVALID_TOPIC : Nat := 104
def E_QOS : Nat := 105
def E_RETAIN : Nat := 106
def E_ALIAS : Nat := 107
def E_WILDCARD : Nat := 108
def E_SUBID : Nat := 109
def E_SHARED : Nat := 110

def strOf (ps : Props) (id : Nat) : Option Bs :=
  match ps.find? (·.id == id) with | some ⟨_, .str b⟩ => some b | _ => none
def numOf (ps : Props) (id : Nat) : Option Nat :=
  match ps.find? (·.id == id) with
  | some ⟨_, .u8 n⟩ | some ⟨_, .u16 n⟩ | some ⟨_, .u32 n⟩ | some ⟨_, .vint n⟩ => some n
  | _ => none
def pairsOf (ps : Props) : List (Bs × Bs) :=
  ps.filterMap fun p => match p.val with | .pair k v => if p.id == 38 then some (k, v) else none | _ => none

def userPropsOk (ps : Props) : Bool := (pairsOf ps).all fun (k, v) => isValidStringPair k v

/-- `validate_props` of publish -/
def validatePublishProps (c : Caps) (ps : Props) : Nat :=
  match numOf ps 35 with
  | some a =>
    if c.topicAliasMax = 0 ∨ a > c.topicAliasMax then E_ALIAS
    else if a = 0 then E_MALFORMED
    else rest
  | none => rest
where rest : Nat :=
  if (match strOf ps 8 with | some t => validateTopicName t != 0 | none => false) then E_MALFORMED
  else if !userPropsOk ps then E_MALFORMED
  else if (ps.any (·.id == 11)) then E_MALFORMED
  else if (match strOf ps 3 with | some t => validateUtf8 t != 0 | none => false) then E_MALFORMED
  else 0

/-- `validate_publish` (0 = accepted) -/
def validatePublish (c : Caps) (qos retain : Nat) (topic payload : Bs) (ps : Props) : Nat :=
  let topicOk := if (numOf ps 35).isSome then validateTopicAliasName topic == 0 else validateTopicName topic == 0
  if !topicOk then E_INVALID_TOPIC
  else if qos > c.maxQos then E_QOS
  else if c.retainAvailable = 0 ∧ retain = 1 then E_RETAIN
  else if (numOf ps 1).getD 0 = 1 ∧ validateUtf8 payload ≠ 0 then E_MALFORMED
  else validatePublishProps c ps

/-- `publish_send_op::perform` after the packet id was allocated -/
def publishRequest (c : Caps) (pid qos retain : Nat) (topic payload : Bs) (ps : Props) : Except Nat Bs :=
  let e := validatePublish c qos retain topic payload ps
  if e ≠ 0 then .error e else
  let pkt := encodePublish pid topic payload qos retain 0 ps
  if pkt.length > c.maxPacket then .error E_TOO_LARGE else .ok pkt

def startsWithShare (f : Bs) : Bool := f.take sharedPrefixN.length == sharedPrefixN

/-- `validate_topic` of subscribe -/
def validateSubTopic (c : Caps) (f : Bs) : Nat :=
  let wild := c.wildcardAvailable != 0
  if startsWithShare f && c.sharedAvailable == 0 then E_SHARED else
  let result := if startsWithShare f then validateSharedTopicFilter f wild
    else if wild then validateTopicFilter f else validateTopicName f
  if result = 2 then E_INVALID_TOPIC
  else if !wild ∧ result ≠ 0 then E_WILDCARD
  else 0

def firstErr : List Nat → Nat
  | [] => 0
  | e :: es => if e ≠ 0 then e else firstErr es

def validateSubProps (c : Caps) (ps : Props) : Nat :=
  if !userPropsOk ps then E_MALFORMED else
  match numOf ps 11 with
  | none => 0
  | some sid =>
    if c.subIdAvailable = 0 then E_SUBID
    else if 1 ≤ sid ∧ sid ≤ 268435455 then 0 else E_MALFORMED

def subscribeRequest (c : Caps) (pid : Nat) (topics : List (Bs × SubOpts)) (ps : Props) : Except Nat Bs :=
  if topics.isEmpty then .error E_INVALID_TOPIC else
  let e := firstErr (topics.map fun t => validateSubTopic c t.1)
  if e ≠ 0 then .error e else
  let e2 := validateSubProps c ps
  if e2 ≠ 0 then .error e2 else
  let pkt := encodeSubscribe pid topics ps
  if pkt.length > c.maxPacket then .error E_TOO_LARGE else .ok pkt

end Mqtt5V.Model.Validate
