import Mqtt5V.Basic
/-! Composed client model, the DISCONNECT rule of the sender (DESIGN.md S.8): a DISCONNECT leaves in a write of its own (`do_write` takes the
terminal request alone) and ends the connection (`shutdown_op` swaps the stream out before anything else can be written): after a write that
carried a DISCONNECT has completed successfully nothing more is written on that connection.  The alphabet is the write-level projection of
the transcript: connection up / given up, a write starts, each of its packets (DISCONNECT or something else), the write ends. -/
namespace Mqtt5V.Model.TraceDisc

inductive Ev
  | connUp | connDown
  | wr | pkDisc | pkOther | wrOk | wrFail
  deriving Repr, DecidableEq, Inhabited

structure S where
  connected : Bool := false
  writing : Bool := false
  count : Nat := 0          -- packets of the write in progress
  hasDisc : Bool := false   -- one of them is a DISCONNECT
  said : Bool := false      -- a DISCONNECT was written successfully on this connection

def step (s : S) : Ev → Option S
  | .connUp => some { s with connected := true, said := false }
  | .connDown => some { s with connected := false, said := false }
  | .wr => if s.writing || (s.connected && s.said) then none else some { s with writing := true, count := 0, hasDisc := false }
  | .pkDisc => if s.writing && s.count = 0 then some { s with count := 1, hasDisc := true } else none
  | .pkOther => if s.writing && !s.hasDisc then some { s with count := s.count + 1 } else none
  | .wrOk => if s.writing then some { s with writing := false, said := s.connected && s.hasDisc } else none
  | .wrFail => if s.writing then some { s with writing := false } else none

def run (s : S) : List Ev → Option S
  | [] => some s
  | e :: es => (step s e).bind (run · es)

def init : S := {}
def accepts (tr : List Ev) : Bool := (run init tr).isSome

def firstReject (s : S) : List Ev → Nat → Option Nat
  | [], _ => none
  | e :: es, i => match step s e with
    | none => some i
    | some s' => firstReject s' es (i + 1)

/-- is a connection up after these events (read off the events alone) -/
def connectedOf (tr : List Ev) : Bool := tr.foldl (fun c e => match e with | .connUp => true | .connDown => false | _ => c) false

/-- no connection event in the list -/
def sameConn (l : List Ev) : Prop := ∀ e ∈ l, e ≠ .connUp ∧ e ≠ .connDown
/-- no packet, write start or write end in the list -/
def noWriteEv (l : List Ev) : Prop := ∀ e ∈ l, e ≠ .wr ∧ e ≠ .pkDisc ∧ e ≠ .pkOther ∧ e ≠ .wrOk ∧ e ≠ .wrFail

end Mqtt5V.Model.TraceDisc
