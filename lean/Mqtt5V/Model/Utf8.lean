import Mqtt5V.Basic
import Mqtt5V.Gen.Utf8Rule
/-! Model of `detail/utf8_mqtt.hpp` and `detail/topic_validation.hpp`.

Hand-written port with the C bit operations written as arithmetic (`b & 0x1F` = `b % 32`,
`x << 6 | y` with `y < 64` = `x * 64 + y`, `b & 0xF0` = `b / 16 * 16`); the per-character rule is the
translated `Gen.Utf8Rule.charRule`.  Result codes: 0 valid, 1 has_wildcard_character, 2 invalid. -/
namespace Mqtt5V.Model.Utf8
open Mqtt5V.Gen.Utf8Rule

/-- `(c & 0xC0) == 0x80` -/
def isCont (b : Nat) : Bool := 128 ≤ b && b < 192

/-- `pop_front_unichar` on a non-empty string: `none` = returns -1 without advancing -/
def popFront : List Nat → Option (Nat × List Nat)
  | [] => none
  | b0 :: r =>
    let n := b0 / 16 * 16
    if b0 < 128 then some (b0, r)
    else if n = 0xC0 ∨ n = 0xD0 then
      match r with
      | b1 :: r1 =>
        if isCont b1 then
          let c := (b0 % 32) * 64 + b1 % 64
          if c ≥ 0x80 then some (c, r1) else none
        else none
      | _ => none
    else if n = 0xE0 then
      match r with
      | b1 :: b2 :: r2 =>
        if isCont b1 && isCont b2 then
          let c := (b0 % 16) * 4096 + (b1 % 64) * 64 + b2 % 64
          if c ≥ 0x800 then some (c, r2) else none
        else none
      | _ => none
    else if n = 0xF0 ∧ b0 % 16 < 8 then
      match r with
      | b1 :: b2 :: b3 :: r3 =>
        if isCont b1 && isCont b2 && isCont b3 then
          let c := (b0 % 8) * 262144 + (b1 % 64) * 4096 + (b2 % 64) * 64 + b3 % 64
          if c ≥ 0x10000 ∧ c ≤ 0x10FFFF then some (c, r3) else none
        else none
      | _ => none
    else none

theorem popFront_length {bs : List Nat} {c : Nat} {r : List Nat} (h : popFront bs = some (c, r)) :
    r.length < bs.length := by
  unfold popFront at h
  split at h
  · cases h
  · rename_i b0 r0
    simp only at h
    repeat' split at h
    all_goals first
      | (cases h; done)
      | (simp only [Option.some.injEq, Prod.mk.injEq] at h; obtain ⟨_, rfl⟩ := h; simp only [List.length_cons]; omega)

/-- the character rule applied to the result of `pop_front_unichar` (`-1` is invalid) -/
def classify (o : Option (Nat × List Nat)) : Nat :=
  match o with
  | none => 2
  | some (c, _) => charRule c

/-- the loop of `validate_impl`: stop at the first character whose class the condition rejects -/
def validateLoop (cond : Nat → Bool) (bs : List Nat) : Nat :=
  if bs.isEmpty then 0 else
  match h : popFront bs with
  | none => 2
  | some (c, r) =>
    let res := charRule c
    if cond res then validateLoop cond r else res
termination_by bs.length
decreasing_by exact popFront_length h

def isUtf8 (r : Nat) : Bool := r == 0 || r == 1
def isUtf8NoWildcard (r : Nat) : Bool := r == 0
def isValidStringSize (n : Nat) : Bool := n ≤ maxStringSize
def isValidTopicSize (n : Nat) : Bool := n != 0 && isValidStringSize n

def validateImpl (sizeOk : Nat → Bool) (cond : Nat → Bool) (bs : List Nat) : Nat :=
  if !sizeOk bs.length then 2 else validateLoop cond bs

def validateUtf8 (bs : List Nat) : Nat := validateImpl isValidStringSize isUtf8 bs
def validateTopicName (bs : List Nat) : Nat := validateImpl isValidTopicSize isUtf8NoWildcard bs
def validateTopicAliasName (bs : List Nat) : Nat := validateImpl isValidStringSize isUtf8NoWildcard bs
def validateSharedTopicName (bs : List Nat) : Nat := validateImpl (· != 0) isUtf8NoWildcard bs
def isValidStringPair (a b : List Nat) : Bool := validateUtf8 a == 0 && validateUtf8 b == 0

/-- the character loop of `validate_topic_filter` (`last` = previous code point, `none` = -1) -/
def filterLoop (last : Option Nat) (bs : List Nat) : Nat :=
  if bs.isEmpty then 0 else
  match h : popFront bs with
  | none => 2                      -- c = -1: the rule says invalid and it is not '+'
  | some (c, r) =>
    let single := c == 43 && (r.isEmpty || r.head? == some 47) && (last.isNone || last == some 47)
    if charRule c == 0 || single then filterLoop (some c) r else 2
termination_by bs.length
decreasing_by exact popFront_length h

def validateTopicFilter (bs : List Nat) : Nat :=
  if !isValidTopicSize bs.length then 2 else
  if bs.getLast? == some 35 then
    let s := bs.dropLast
    if !s.isEmpty && s.getLast? != some 47 then 2 else filterLoop none s
  else filterLoop none bs

def sharedPrefixN : List Nat := sharedPrefix.map (·.toNat)

def validateSharedTopicFilter (bs : List Nat) (wildcardAllowed : Bool) : Nat :=
  if !isValidTopicSize bs.length then 2 else
  if bs.take sharedPrefixN.length != sharedPrefixN then 2 else
  let s := bs.drop sharedPrefixN.length
  match s.idxOf? 47 with
  | none => 2
  | some i =>
    if validateSharedTopicName (s.take i) != 0 then 2 else
    let tf := s.drop (i + 1)
    if wildcardAllowed then validateTopicFilter tf else validateTopicName tf

end Mqtt5V.Model.Utf8
