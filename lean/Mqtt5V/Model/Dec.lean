import Mqtt5V.Model.Wire
import Mqtt5V.Model.PropsText
/-! Model of `impl/codecs/base_decoders.hpp` and `message_decoders.hpp`, written over *indices into a buffer*:
every parser gets the position, the limit it is allowed to read up to (`last` of the C++ iterator pair) and the
context knows where the received packet really ends (`realLast`).  A read at an index the C++ would dereference
at or beyond `realLast` is the explicit outcome `oob` — so "never reads outside the packet" is a statement about
these functions (Props/C19), not something true by construction. -/
namespace Mqtt5V.Model.Dec
open Mqtt5V.Wire Mqtt5V.Gen.PropTable Mqtt5V.Model.PropsText

inductive Res (α : Type)
  | ok (v : α) (pos : Nat)
  | fail
  | oob
  deriving Repr

structure Ctx where
  mem : Bs          -- the whole read buffer (bytes after the packet are stale / foreign)
  realLast : Nat    -- index one past the last byte of the received packet

@[inline] def Res.bind {α β} (r : Res α) (f : α → Nat → Res β) : Res β :=
  match r with
  | .ok v p => f v p
  | .fail => .fail
  | .oob => .oob

/-- one byte, guarded by the parser's own limit (`if (first == last) return false; … *first++`) -/
def byte (c : Ctx) (pos lim : Nat) : Res Nat :=
  if pos ≥ lim then .fail else if pos ≥ c.realLast then .oob else .ok (c.mem.getD pos 0) (pos + 1)

def bigWord (c : Ctx) (pos lim : Nat) : Res Nat :=
  (byte c pos lim).bind fun a p => (byte c p lim).bind fun b p' => .ok (a * 256 + b) p'

def bigDword (c : Ctx) (pos lim : Nat) : Res Nat :=
  (bigWord c pos lim).bind fun a p => (bigWord c p lim).bind fun b p' => .ok (a * 65536 + b) p'

/-- `varint_parser`: up to 4 bytes, continuation bit 0x80; non-minimal encodings are accepted -/
def varint (c : Ctx) (pos lim : Nat) : Res Nat :=
  (byte c pos lim).bind fun b0 p0 =>
  if b0 < 128 then .ok b0 p0 else
  (byte c p0 lim).bind fun b1 p1 =>
  if b1 < 128 then .ok (b0 % 128 + b1 * 128) p1 else
  (byte c p1 lim).bind fun b2 p2 =>
  if b2 < 128 then .ok (b0 % 128 + b1 % 128 * 128 + b2 * 16384) p2 else
  (byte c p2 lim).bind fun b3 p3 =>
  if b3 < 128 then .ok (b0 % 128 + b1 % 128 * 128 + b2 % 128 * 16384 + b3 * 2097152) p3 else .fail

/-- `[pos, pos+n)` copied out after the parser compared `n` with `distance(iter, last)` -/
def slice (c : Ctx) (pos n lim : Nat) : Res Bs :=
  if pos + n > lim then .fail else if pos + n > c.realLast then .oob else .ok ((c.mem.drop pos).take n) (pos + n)

/-- `len_prefix_parser` (utf8_ / binary_) -/
def lenPrefix (c : Ctx) (pos lim : Nat) : Res Bs :=
  (bigWord c pos lim).bind fun n p => slice c p n lim

def value (k : Kind) (c : Ctx) (pos lim : Nat) : Res PVal :=
  match k with
  | .u8 => (byte c pos lim).bind fun n p => .ok (.u8 n) p
  | .u16 => (bigWord c pos lim).bind fun n p => .ok (.u16 n) p
  | .u32 => (bigDword c pos lim).bind fun n p => .ok (.u32 n) p
  | .vint => (varint c pos lim).bind fun n p => .ok (.vint n) p
  | .str => (lenPrefix c pos lim).bind fun b p => .ok (.str b) p
  | .pair => (lenPrefix c pos lim).bind fun k p => (lenPrefix c p lim).bind fun v p' => .ok (.pair k v) p'

/-- the `while (iter < scoped_last)` loop of `prop_parser`; `allowed` = the property ids of the packet's container.
The identifier byte is dereferenced guarded only by `iter < scoped_last`. -/
def propLoop (allowed : List Nat) (c : Ctx) : Nat → Nat → Nat → Props → Res Props
  | 0, _, _, _ => .fail
  | fuel + 1, pos, slast, acc =>
    if pos ≥ slast then .ok acc pos else
    if pos ≥ c.realLast then .oob else
    let id := c.mem.getD pos 0
    if !allowed.contains id then .fail else
    match kindOf id with
    | none => .fail
    | some (k, _) =>
      match value k c (pos + 1) slast with
      | .ok v p => propLoop allowed c fuel p slast (acc ++ [⟨id, v⟩])
      | .fail => .fail
      | .oob => .oob

/-- `prop_parser::parse`: nothing left ⇒ no properties; else Property Length, which must lie inside `lim`, then the loop.
The result is what the property container holds afterwards (`canon`: slot order, last value wins for single-valued slots). -/
def props (allowed : List Nat) (c : Ctx) (pos lim : Nat) : Res Props :=
  if pos ≥ lim then .ok [] pos else
  (varint c pos lim).bind fun len p =>
  if len > lim - p then .fail else
  (propLoop allowed c (len + 1) p (p + len) []).bind fun raw p' => .ok (canon allowed raw) p'

/-- `scope_limit<Size>`: the subject has to consume the scope entirely, bytes left over make the packet malformed -/
def whole {α} (lim : Nat) (r : Res α) : Res α :=
  match r with
  | .ok v p => if p = lim then .ok v p else .fail
  | r => r

/-- `x3::byte_ >> props_` inside `scope_limit_(remain)`, with the `remain == 0` short form (PUBACK…, DISCONNECT, AUTH) -/
def rcProps (allowed : List Nat) (c : Ctx) (pos remain : Nat) : Res (Nat × Props) :=
  if remain = 0 then .ok (0, []) pos else
  let lim := pos + remain
  whole lim ((byte c pos lim).bind fun rc p => (props allowed c p lim).bind fun ps p' => .ok (rc, ps) p')

def decodeConnack (c : Ctx) (pos remain : Nat) : Res (Nat × Nat × Props) :=
  let lim := pos + remain
  whole lim ((byte c pos lim).bind fun sp p => (byte c p lim).bind fun rc p1 => (props connackProps c p1 lim).bind fun ps p2 => .ok (sp, rc, ps) p2)

/-- topic, packet id (QoS > 0), flags, properties, payload = the rest of the packet -/
def decodePublish (c : Ctx) (controlByte pos remain : Nat) : Res (Bs × Option Nat × Nat × Props × Bs) :=
  let flags := controlByte % 16
  let qos := flags / 2 % 4
  let lim := pos + remain
  (lenPrefix c pos lim).bind fun topic p =>
  (if qos ≠ 0 then (bigWord c p lim).bind fun pid p' => .ok (some pid) p' else .ok none p).bind fun pid p1 =>
  (props publishProps c p1 lim).bind fun ps p2 =>
  (slice c p2 (lim - p2) lim).bind fun payload p3 => .ok (topic, pid, flags, ps, payload) p3

/-- `props_ >> +byte_` (SUBACK / UNSUBACK bodies after the packet id) -/
def decodeCodes (allowed : List Nat) (c : Ctx) (pos remain : Nat) : Res (Props × List Nat) :=
  let lim := pos + remain
  (props allowed c pos lim).bind fun ps p =>
  if p ≥ lim then .fail else (slice c p (lim - p) lim).bind fun rcs p' => .ok (ps, rcs) p'

/-- `decode_packet_id`: two bytes, limit `it + 2` whatever the packet end is -/
def packetId (c : Ctx) (pos : Nat) : Res Nat := bigWord c pos (pos + 2)

end Mqtt5V.Model.Dec
