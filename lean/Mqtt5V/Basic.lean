/-! Common types shared by generated, spec and model files (core Lean only). -/
namespace Mqtt5V

abbrev Bytes := List UInt8

/-- the nine packet categories that carry reason codes (reason_codes::category minus `none`) -/
inductive Category
  | connack | puback | pubrec | pubrel | pubcomp | suback | unsuback | auth | disconnect
  deriving Repr, DecidableEq, Inhabited

def Category.all : List Category :=
  [.connack, .puback, .pubrec, .pubrel, .pubcomp, .suback, .unsuback, .auth, .disconnect]

def Category.ofString? : String → Option Category
  | "connack" => some .connack | "puback" => some .puback | "pubrec" => some .pubrec
  | "pubrel" => some .pubrel | "pubcomp" => some .pubcomp | "suback" => some .suback
  | "unsuback" => some .unsuback | "auth" => some .auth | "disconnect" => some .disconnect
  | _ => none

def hexDigit (n : Nat) : Char :=
  if n < 10 then Char.ofNat (48 + n) else Char.ofNat (87 + n)

def hexByte (b : UInt8) : String :=
  String.ofList [hexDigit (b.toNat / 16), hexDigit (b.toNat % 16)]

def toHex (bs : Bytes) : String :=
  if bs.isEmpty then "-" else String.join (bs.map hexByte)

def hexVal (c : Char) : Option Nat :=
  if '0' ≤ c ∧ c ≤ '9' then some (c.toNat - 48)
  else if 'a' ≤ c ∧ c ≤ 'f' then some (c.toNat - 87)
  else if 'A' ≤ c ∧ c ≤ 'F' then some (c.toNat - 55)
  else none

def ofHexChars : List Char → Option Bytes
  | [] => some []
  | [_] => none
  | a :: b :: r => do
    let x ← hexVal a
    let y ← hexVal b
    let t ← ofHexChars r
    pure (UInt8.ofNat (x * 16 + y) :: t)

def ofHex (s : String) : Option Bytes :=
  if s = "-" then some [] else ofHexChars s.toList

/-- `<hex>[*count](+<hex>[*count])*` or `-` (the harnesses' compact notation for long strings) -/
def ofHexRep (s : String) : Option Bytes :=
  if s = "-" then some [] else
  (s.splitOn "+").foldlM (fun acc seg =>
    match seg.splitOn "*" with
    | [h] => do let b ← ofHexChars h.toList; pure (acc ++ b)
    | [h, n] => do
      let b ← ofHexChars h.toList
      let k ← n.toNat?
      pure (acc ++ (List.replicate k b).flatten)
    | _ => none) []

end Mqtt5V
