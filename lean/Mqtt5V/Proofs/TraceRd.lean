import Mqtt5V.Model.TraceRd
namespace Mqtt5V.Proofs.TraceRd
open Mqtt5V.Model.TraceRd

theorem run_append (s : S) (a b : List Ev) : run s (a ++ b) = (run s a).bind (run · b) := by
  induction a generalizing s with
  | nil => simp [run]
  | cons e es ih =>
    simp only [List.cons_append, run]
    cases step s e with
    | none => simp
    | some s' => simpa using ih s'

/-- the state is what the events say -/
theorem state_is_obs (tr : List Ev) (st : Nat × Option (Nat × Option Nat)) (s s' : S) (hn : s.now = st.1) (hc : s.cur = st.2)
    (h : run s tr = some s') : s'.now = (tr.foldl readStep st).1 ∧ s'.cur = (tr.foldl readStep st).2 := by
  induction tr generalizing st s with
  | nil => simp only [run, Option.some.injEq] at h; subst h; exact ⟨hn, hc⟩
  | cons e es ih =>
    simp only [run] at h
    cases hs : step s e with
    | none => rw [hs] at h; cases h
    | some s1 =>
      rw [hs] at h
      simp only [Option.bind_some] at h
      simp only [List.foldl_cons]
      apply ih (readStep st e) s1 _ _ h
      · cases e <;> simp only [step] at hs
        · cases hs; simp [readStep, hn]
        · cases hs; simp [readStep, hn]
        · cases hs; simp [readStep, hn]
        · split at hs
          · split at hs
            · cases hs; simp [readStep, hn]
            · cases hs
          · cases hs
        · split at hs
          · split at hs
            · cases hs
            · cases hs; simp [readStep, hn]
          · cases hs; simp [readStep, hn]
      · cases e <;> simp only [step] at hs
        · cases hs; simp [readStep, hn]
        · cases hs; simp [readStep, hc]
        · cases hs; simp [readStep]
        · split at hs
          · split at hs
            · cases hs; simp [readStep]
            · cases hs
          · cases hs
        · split at hs
          · split at hs
            · cases hs
            · cases hs; simp [readStep, hc]
          · cases hs; simp [readStep, hc]

theorem now_fold (tr : List Ev) (st : Nat × Option (Nat × Option Nat)) (n : Nat) (h : st.1 = n) :
    (tr.foldl readStep st).1 = tr.foldl (fun n e => match e with | .adv ms => n + ms | _ => n) n := by
  induction tr generalizing st n with
  | nil => simpa using h
  | cons e es ih =>
    simp only [List.foldl_cons]
    apply ih
    cases e <;> simp [readStep, h]

theorem reach {tr : List Ev} {s : S} (h : run init tr = some s) : s.now = nowOf tr ∧ s.cur = readOf tr := by
  have := state_is_obs tr (0, none) init s rfl rfl h
  refine ⟨?_, this.2⟩
  rw [this.1]; exact now_fold tr (0, none) 0 rfl

theorem run_snoc {tr : List Ev} {e : Ev} {s : S} (h : run init (tr ++ [e]) = some s) :
    ∃ s1, run init tr = some s1 ∧ step s1 e = some s := by
  rw [run_append] at h
  cases h1 : run init tr with
  | none => rw [h1] at h; cases h
  | some s1 =>
    rw [h1] at h
    refine ⟨s1, rfl, ?_⟩
    simp only [Option.bind_some, run] at h
    cases h2 : step s1 e with
    | none => rw [h2] at h; cases h
    | some s2 => rw [h2] at h; simpa using h

/-- **never earlier, never without a limit**: the connection is abandoned by the read timer only when a read with a limit is in progress and at
least that long has passed since it began -/
theorem abandon_only_at_the_limit {tr : List Ev} {s : S} (h : run init (tr ++ [.abandon]) = some s) :
    ∃ t0 lim, readOf tr = some (t0, some lim) ∧ t0 + lim ≤ nowOf tr := by
  obtain ⟨s1, h1, h2⟩ := run_snoc h
  obtain ⟨hn, hc⟩ := reach h1
  simp only [step] at h2
  split at h2
  · rename_i t0 lim hcur
    split at h2
    · rename_i hle
      exact ⟨t0, lim, by rw [← hc]; exact hcur, by rw [← hn]; exact hle⟩
    · cases h2
  · cases h2

/-- **and no later**: whenever the execution context has run out of ready handlers, a read with a limit that is still in progress began less
than its limit ago -/
theorem pending_read_within_limit {tr : List Ev} {s : S} (h : run init (tr ++ [.eol]) = some s) (t0 lim : Nat)
    (hr : readOf tr = some (t0, some lim)) : nowOf tr < t0 + lim := by
  obtain ⟨s1, h1, h2⟩ := run_snoc h
  obtain ⟨hn, hc⟩ := reach h1
  simp only [step] at h2
  rw [← hc] at hr
  rw [hr] at h2
  simp only at h2
  split at h2
  · cases h2
  · rw [← hn]; omega

end Mqtt5V.Proofs.TraceRd
