import Mqtt5V.Proofs.TraceIn2
namespace Mqtt5V.Proofs.TraceIn
open Mqtt5V.Model.TraceIn

theorem beq_toNat_ne {a b : Nat} (h : ¬ a = b) : (a == b).toNat = 0 := by
  have : (a == b) = false := by simpa using h
  simp [this]

theorem inv_step (hist : List Ev) (s : S) (e : Ev) (s' : S) (I : Inv hist s) (h : step s e = some s') : Inv (hist ++ [e]) s' := by
  unfold Inv at *
  cases e with
  | connUp sp =>
    simp only [step, Option.some.injEq] at h; subst h
    have hs : ∀ (s0 : S), s0.ackQ = s.ackQ → s0.recQ = s.recQ → s0.compQ = s.compQ → s0.fastRel = s.fastRel → s0.stored = s.stored → s0.batch = s.batch →
        InvR (hist ++ [Ev.connUp sp]) (requeue s0) (requeue s0).batch := by
      intro s0 e1 e2 e3 e4 e5 e6
      have hb : (requeue s0).batch = s0.batch := by
        unfold requeue; rw [drain_batch _ (fun s it => finishFail_batch s it)]
      rw [hb]
      unfold requeue
      apply drain_inv' (fun s it => finishFail s it) (fun s it rest => finishFail_inv) _ s0.batch
      refine invR_step I ?_ ?_ ?_ ?_
      · intro p; simp [isPuback, isRxPub, mA, qcount]
      · intro p; simp [isPubrec, isRxPub, mR, qcount]
      · intro p; simp [isPubcomp, isGoodRel, mC, qcount, fastN, e4]
      · intro p; simp only [isDeliver2, isGoodRel, mD, List.countP_append, compItems_count, recItems_count, e3, e6, stored2, e5, fastN, e4, qcount, List.countP_nil, Bool.toNat_false]
        omega
    split
    · exact hs s rfl rfl rfl rfl rfl rfl
    · exact hs _ rfl rfl rfl rfl rfl rfl
  | rxPub qos pid msg =>
    simp only [step] at h
    split at h
    · rename_i hq; subst hq
      simp only [Option.some.injEq] at h; subst h
      refine invR_step I ?_ ?_ ?_ ?_
      · intro p; simp [isPuback, isRxPub, mA]
      · intro p; simp [isPubrec, isRxPub, mR]
      · intro p; simp [isPubcomp, isGoodRel, mC, fastN]
      · intro p; simp [isDeliver2, isGoodRel, mD, fastN, stored2, stored2_append]
    · split at h
      · rename_i hq; subst hq
        simp only [Option.some.injEq] at h; subst h
        refine invR_step I ?_ ?_ ?_ ?_
        · intro p; simp [isPuback, isRxPub, mA, qcount_append]
        · intro p; simp [isPubrec, isRxPub, mR]
        · intro p; simp [isPubcomp, isGoodRel, mC, fastN]
        · intro p; simp [isDeliver2, isGoodRel, mD, fastN, stored2]
      · split at h
        · rename_i hq; subst hq
          simp only [Option.some.injEq] at h; subst h
          refine invR_step I ?_ ?_ ?_ ?_
          · intro p; simp [isPuback, isRxPub, mA]
          · intro p; simp [isPubrec, isRxPub, mR, qcount_append]
          · intro p; simp [isPubcomp, isGoodRel, mC, fastN]
          · intro p; simp [isDeliver2, isGoodRel, mD, fastN, stored2]
        · simp at h
  | rxRel pid good =>
    simp only [step] at h
    split at h
    · rename_i hg
      simp only [Option.some.injEq] at h; subst h
      have hg' : good = false := by simpa using hg
      subst hg'
      refine invR_step I ?_ ?_ ?_ ?_ <;> intro p <;> simp [isPuback, isPubrec, isPubcomp, isDeliver2, isRxPub, isGoodRel]
    · rename_i hg
      have hg' : good = true := by simpa using hg
      subst hg'
      split at h
      · rename_i m hm
        simp only [Option.some.injEq] at h; subst h
        refine invR_step I ?_ ?_ ?_ ?_
        · intro p; simp [isPuback, isRxPub, mA]
        · intro p; simp [isPubrec, isRxPub, mR]
        · intro p; simp only [isPubcomp, isGoodRel, mC, fastN, qcount_append, Bool.and_true, Bool.toNat_false]; omega
        · intro p; simp only [isDeliver2, isGoodRel, mD, fastN, stored2, qcount_append, Bool.and_true, Bool.toNat_false]; omega
      · simp only [Option.some.injEq] at h; subst h
        have hf : ∀ p, (upd s.fastRel pid true p).toNat ≤ (s.fastRel p).toNat + (pid == p).toNat := by
          intro p; simp only [upd]
          by_cases hp : p = pid
          · subst hp; simp; try (cases s.fastRel p <;> simp)
          · have : ¬ pid = p := fun h => hp h.symm
            simp [hp, beq_toNat_ne this]
        refine invR_step I ?_ ?_ ?_ ?_
        · intro p; simp [isPuback, isRxPub, mA]
        · intro p; simp [isPubrec, isRxPub, mR]
        · intro p; have := hf p; simp only [isPubcomp, isGoodRel, mC, fastN, Bool.and_true, Bool.toNat_false]; omega
        · intro p; have := hf p; simp only [isDeliver2, isGoodRel, mD, fastN, stored2, Bool.and_true, Bool.toNat_false]; omega
  | wr =>
    simp only [step] at h; split at h
    · simp at h
    · simp only [Option.some.injEq] at h; subst h
      refine invR_step I ?_ ?_ ?_ ?_
      · intro p; simp [isPuback, isRxPub, mA]
      · intro p; simp [isPubrec, isRxPub, mR]
      · intro p; simp [isPubcomp, isGoodRel, mC, fastN]
      · intro p; simp [isDeliver2, isGoodRel, mD, fastN, stored2]
  | pk p0 =>
    simp only [step] at h; split at h
    · cases p0 with
      | puback pid =>
        simp only [stepPk, Option.map_eq_some_iff] at h
        obtain ⟨⟨m, rest⟩, hp, rfl⟩ := h
        have hq := pop_spec hp
        refine invR_step I ?_ ?_ ?_ ?_
        · intro p; have := hq p; simp only [isPuback, isRxPub, mA, Bool.toNat_false]
          by_cases hpp : p = pid
          · subst hpp; simp at this ⊢; omega
          · have h1 : ¬ pid = p := fun h => hpp h.symm
            simp [hpp, beq_toNat_ne h1] at this ⊢; omega
        · intro p; simp [isPubrec, isRxPub, mR]
        · intro p; simp [isPubcomp, isGoodRel, mC, fastN]
        · intro p; simp [isDeliver2, isGoodRel, mD, fastN, stored2, List.countP_append, isCompI]
      | pubrec pid =>
        simp only [stepPk, Option.map_eq_some_iff] at h
        obtain ⟨⟨m, rest⟩, hp, rfl⟩ := h
        have hq := pop_spec hp
        refine invR_step I ?_ ?_ ?_ ?_
        · intro p; simp [isPuback, isRxPub, mA]
        · intro p; have := hq p; simp only [isPubrec, isRxPub, mR, Bool.toNat_false]
          by_cases hpp : p = pid
          · subst hpp; simp at this ⊢; omega
          · have h1 : ¬ pid = p := fun h => hpp h.symm
            simp [hpp, beq_toNat_ne h1] at this ⊢; omega
        · intro p; simp [isPubcomp, isGoodRel, mC, fastN]
        · intro p; simp [isDeliver2, isGoodRel, mD, fastN, stored2, List.countP_append, isCompI]
      | pubcomp pid =>
        simp only [stepPk, Option.map_eq_some_iff] at h
        obtain ⟨⟨m, rest⟩, hp, rfl⟩ := h
        have hq := pop_spec hp
        refine invR_step I ?_ ?_ ?_ ?_
        · intro p; simp [isPuback, isRxPub, mA]
        · intro p; simp [isPubrec, isRxPub, mR]
        · intro p; have := hq p; simp only [isPubcomp, isGoodRel, mC, fastN, Bool.toNat_false]
          by_cases hpp : p = pid
          · subst hpp; simp at this ⊢; omega
          · have h1 : ¬ pid = p := fun h => hpp h.symm
            simp [hpp, beq_toNat_ne h1] at this ⊢; omega
        · intro p; have := hq p
          simp only [isDeliver2, isGoodRel, mD, fastN, stored2, List.countP_append, List.countP_cons, List.countP_nil, isCompI, Bool.toNat_false]
          by_cases hpp : p = pid
          · subst hpp; simp at this ⊢; omega
          · have h1 : ¬ pid = p := fun h => hpp h.symm
            have h2 : (pid == p) = false := by simpa using h1
            simp [hpp, h2] at this ⊢; omega
      | other =>
        simp only [stepPk, Option.some.injEq] at h; subst h
        refine invR_step I ?_ ?_ ?_ ?_ <;> intro p <;> simp [isPuback, isPubrec, isPubcomp, isDeliver2, isRxPub, isGoodRel]
    · simp at h
  | wrOk =>
    simp only [step] at h; split at h
    · simp only [Option.some.injEq] at h; subst h
      rw [drain_batch _ finishOk_batch]
      apply drain_inv' finishOk (fun s it rest => finishOk_inv) s.batch []
      simp only [List.append_nil]
      refine invR_step I ?_ ?_ ?_ ?_ <;> intro p <;> simp [isPuback, isPubrec, isPubcomp, isDeliver2, isRxPub, isGoodRel, mA, mR, mC, mD, fastN, stored2]
    · simp at h
  | wrFail =>
    simp only [step] at h; split at h
    · simp only [Option.some.injEq] at h; subst h
      rw [drain_batch _ finishFail_batch]
      apply drain_inv' finishFail (fun s it rest => finishFail_inv) s.batch []
      simp only [List.append_nil]
      refine invR_step I ?_ ?_ ?_ ?_ <;> intro p <;> simp [isPuback, isPubrec, isPubcomp, isDeliver2, isRxPub, isGoodRel, mA, mR, mC, mD, fastN, stored2]
    · simp at h
  | deliver qos pid msg =>
    simp only [step] at h
    split at h
    · rename_i x rest hst
      split at h
      · rename_i hx; subst hx
        simp only [Option.some.injEq] at h; subst h
        refine invR_step I ?_ ?_ ?_ ?_
        · intro p; simp [isPuback, isRxPub, mA]
        · intro p; simp [isPubrec, isRxPub, mR]
        · intro p; simp [isPubcomp, isGoodRel, mC, fastN]
        · intro p
          simp only [isDeliver2, isGoodRel, mD, fastN, stored2, hst, List.countP_cons, Bool.toNat_false]
          cases hb : (qos == 2 && pid == p) <;> simp [hb] <;> omega
      · simp at h
    · simp at h
  | reset =>
    simp only [step, Option.some.injEq] at h; subst h
    refine invR_step I ?_ ?_ ?_ ?_
    · intro p; simp [isPuback, isRxPub, mA, qcount]
    · intro p; simp [isPubrec, isRxPub, mR, qcount]
    · intro p; simp [isPubcomp, isGoodRel, mC, fastN, qcount]
    · intro p; simp only [isDeliver2, isGoodRel, mD, fastN, stored2, qcount, List.countP_nil, Bool.toNat_false]; omega

theorem inv_reach' {tr : List Ev} {s : S} (h : run init tr = some s) : Inv tr s :=
  inv_reach Inv inv_init inv_step tr s h


/-- **C04 on accepted event lists** (per broker packet identifier `p`, after every prefix): the client has written at most as many
PUBACKs as QoS 1 PUBLISHes it received for `p`, at most as many PUBRECs as QoS 2 PUBLISHes, at most as many PUBCOMPs as good PUBRELs
(so never a PUBCOMP before its PUBREL), and has handed at most as many QoS 2 messages of `p` to the application as good PUBRELs
arrived — a PUBLISH repeated by the broker (DUP) before its PUBREL does not lead to a second delivery -/
theorem inbound_acks_justified {tr : List Ev} (hacc : accepts tr = true) (pre post : List Ev) (hsplit : tr = pre ++ post) (p : Nat) :
    cnt (isPuback p) pre ≤ cnt (isRxPub 1 p) pre ∧ cnt (isPubrec p) pre ≤ cnt (isRxPub 2 p) pre ∧
    cnt (isPubcomp p) pre ≤ cnt (isGoodRel p) pre ∧ cnt (isDeliver2 p) pre ≤ cnt (isGoodRel p) pre := by
  obtain ⟨s, hr⟩ := (accepts_iff _).1 hacc
  rw [hsplit] at hr
  obtain ⟨s1, hr1, _⟩ := run_prefix hr
  have I := inv_reach' hr1
  have h1 := I.a1 p; have h2 := I.a2 p; have h3 := I.a3 p; have h4 := I.b2 p
  exact ⟨by omega, by omega, by omega, by omega⟩

end Mqtt5V.Proofs.TraceIn
