import Mqtt5V.Proofs.TraceInMsg
/-! Order in the composed inbound model: QoS 0 / QoS 1 messages are delivered in arrival order (C04). -/
namespace Mqtt5V.Proofs.TraceIn
open Mqtt5V.Model.TraceIn


/-! ### order: QoS 0 and QoS 1 messages reach the application in the order in which they arrived -/
def storedQ (q : Nat) (s : S) : List Nat := s.stored.filterMap fun x => if x.1 = q then some x.2.2 else none
def ackMsgs (rem : List Item) : List Nat := rem.filterMap fun it => match it with | .ackI _ m => some m | _ => none
def seq1 (s : S) (rem : List Item) : List Nat := storedQ 1 s ++ ackMsgs rem ++ s.ackQ.map (·.2)

structure OrdInv (hist : List Ev) (s : S) (rem : List Item) : Prop where
  q0 : (delivered 0 hist ++ storedQ 0 s).Sublist (received 0 hist)
  q1 : (delivered 1 hist ++ seq1 s rem).Sublist (received 1 hist)

theorem received_snoc (q : Nat) (h : List Ev) (e : Ev) :
    received q (h ++ [e]) = received q h ++ (match e with | .rxPub q' _ m => if q' = q then [m] else [] | _ => []) := by
  simp only [received, List.filterMap_append]
  cases e <;> simp
  split <;> simp_all

theorem delivered_snoc (q : Nat) (h : List Ev) (e : Ev) :
    delivered q (h ++ [e]) = delivered q h ++ (match e with | .deliver q' _ m => if q' = q then [m] else [] | _ => []) := by
  simp only [delivered, List.filterMap_append]
  cases e <;> simp
  split <;> simp_all

theorem waitRel_ord (s : S) (pid msg : Nat) : (waitRel s pid msg).stored = s.stored ∧ (waitRel s pid msg).ackQ = s.ackQ := by
  unfold waitRel; split <;> exact ⟨rfl, rfl⟩

theorem ord_congr {hist : List Ev} {s s' : S} {rem : List Item} (I : OrdInv hist s rem) (h1 : s'.stored = s.stored) (h2 : s'.ackQ = s.ackQ) :
    OrdInv hist s' rem := by
  refine ⟨?_, ?_⟩
  · simpa only [storedQ, h1] using I.q0
  · simpa only [seq1, storedQ, h1, h2] using I.q1

theorem storedQ_append (q : Nat) (s : S) (x : Nat × Nat × Nat) :
    storedQ q { s with stored := s.stored ++ [x] } = storedQ q s ++ (if x.1 = q then [x.2.2] else []) := by
  simp only [storedQ, List.filterMap_append, List.filterMap_cons, List.filterMap_nil]
  by_cases h : x.1 = q <;> simp [h]

theorem finishOk_ord {hist : List Ev} {s : S} {it : Item} {rest : List Item} (I : OrdInv hist s (it :: rest)) : OrdInv hist (finishOk s it) rest := by
  cases it with
  | ackI pid msg =>
    refine ⟨?_, ?_⟩
    · simp only [finishOk, storedQ_append]; simpa using I.q0
    · have := I.q1
      simp only [finishOk, seq1, storedQ_append, ackMsgs, List.filterMap_cons] at this ⊢
      simpa [List.append_assoc] using this
  | recI pid msg =>
    have := waitRel_ord s pid msg
    refine ord_congr (s := s) ?_ this.1 this.2
    exact ⟨I.q0, by have := I.q1; simpa only [seq1, ackMsgs, List.filterMap_cons] using this⟩
  | compI pid msg =>
    refine ⟨?_, ?_⟩
    · simp only [finishOk, storedQ_append]; simpa using I.q0
    · have := I.q1
      simp only [finishOk, seq1, storedQ_append, ackMsgs, List.filterMap_cons] at this ⊢
      simpa [List.append_assoc] using this

theorem sublist_drop_mid {α : Type} (a : List α) (x : α) (b c : List α) (h : (a ++ ([x] ++ b)).Sublist c) : (a ++ b).Sublist c :=
  List.Sublist.trans (List.Sublist.append (List.Sublist.refl a) (List.sublist_append_right [x] b)) h

theorem finishFail_ord {hist : List Ev} {s : S} {it : Item} {rest : List Item} (I : OrdInv hist s (it :: rest)) : OrdInv hist (finishFail s it) rest := by
  cases it with
  | ackI pid msg =>
    refine ⟨I.q0, ?_⟩
    have := I.q1
    simp only [finishFail, seq1, ackMsgs, List.filterMap_cons] at this ⊢
    -- the message of the failed PUBACK is given up: a sublist stays a sublist
    have h2 : (delivered 1 hist ++ storedQ 1 s ++ ([msg] ++ (List.filterMap (fun it => match it with | .ackI _ m => some m | _ => none) rest ++ s.ackQ.map (·.2)))).Sublist (received 1 hist) := by
      simpa [List.append_assoc] using this
    have := sublist_drop_mid _ msg _ _ h2
    simpa [List.append_assoc] using this
  | recI pid msg =>
    exact ⟨I.q0, by have := I.q1; simpa only [finishFail, seq1, ackMsgs, List.filterMap_cons] using this⟩
  | compI pid msg =>
    have := waitRel_ord s pid msg
    refine ord_congr (s := s) ?_ this.1 this.2
    exact ⟨I.q0, by have := I.q1; simpa only [seq1, ackMsgs, List.filterMap_cons] using this⟩

theorem drain_ord {hist : List Ev} (f : S → Item → S) (hf : ∀ s it rest, OrdInv hist s (it :: rest) → OrdInv hist (f s it) rest) :
    ∀ (items : List Item) (s : S), OrdInv hist s items → OrdInv hist (drain f s items) [] := by
  intro items
  induction items with
  | nil => intro s I; simpa [drain] using I
  | cons it rest ih => intro s I; exact ih _ (hf s it rest I)




def Ord (hist : List Ev) (s : S) : Prop := OrdInv hist s s.batch

theorem ord_silent {hist : List Ev} {s s' : S} {rem rem' : List Item} {e : Ev} (I : OrdInv hist s rem)
    (h1 : s'.stored = s.stored) (h2 : s'.ackQ = s.ackQ) (h3 : ackMsgs rem' = ackMsgs rem)
    (hr : ∀ q, received q (hist ++ [e]) = received q hist) (hd : ∀ q, delivered q (hist ++ [e]) = delivered q hist) :
    OrdInv (hist ++ [e]) s' rem' := by
  refine ⟨?_, ?_⟩
  · rw [hr, hd]; simpa only [storedQ, h1] using I.q0
  · rw [hr, hd]; simpa only [seq1, storedQ, h1, h2, h3] using I.q1

theorem ackMsgs_append (a b : List Item) : ackMsgs (a ++ b) = ackMsgs a ++ ackMsgs b := by simp [ackMsgs, List.filterMap_append]

theorem drain_stored_ackQ (f : S → Item → S) (hf : ∀ s it, (f s it).batch = s.batch) : True := trivial

theorem ord_step (hist : List Ev) (s : S) (e : Ev) (s' : S) (I : Ord hist s) (h : step s e = some s') : Ord (hist ++ [e]) s' := by
  unfold Ord at *
  cases e with
  | connUp sp =>
    simp only [step] at h
    have hs : ∀ (s0 : S), (∀ q, q = 0 ∨ q = 1 → storedQ q s0 = storedQ q s) → s0.batch = s.batch → s0.recQ = s0.recQ →
        OrdInv (hist ++ [Ev.connUp sp]) (requeue s0) (requeue s0).batch := by
      intro s0 e5 e6 _
      have hb : (requeue s0).batch = s0.batch := by
        unfold requeue; rw [drain_batch _ (fun s it => finishFail_batch s it)]
      rw [hb]
      -- the drained items are PUBREC / PUBCOMP operations: they touch neither the channel nor the PUBACK queue
      have key : ∀ (items : List Item) (t : S), (∀ it ∈ items, ∀ p m, it ≠ Item.ackI p m) →
          (drain (fun s it => finishFail s it) t items).stored = t.stored ∧ (drain (fun s it => finishFail s it) t items).ackQ = t.ackQ := by
        intro items; induction items with
        | nil => intro t _; exact ⟨rfl, rfl⟩
        | cons it rest ih =>
          intro t hne
          have h1 := ih (finishFail t it) (fun x hx => hne x (List.mem_cons_of_mem _ hx))
          simp only [drain]
          cases it with
          | ackI p m => exact absurd rfl (hne _ (List.mem_cons_self) p m)
          | recI p m => simp only [finishFail] at h1 ⊢; exact h1
          | compI p m => simp only [finishFail] at h1 ⊢; exact ⟨h1.1.trans (waitRel_ord t p m).1, h1.2.trans (waitRel_ord t p m).2⟩
      have hk := key (s0.compQ.map fun x => Item.compI x.1 x.2) { s0 with ackQ := [], recQ := [], compQ := [] }
        (by intro it hit p m; simp only [List.mem_map] at hit
            obtain ⟨x, _, rfl⟩ := hit; simp)
      unfold requeue
      generalize hd : drain (fun s it => finishFail s it) { s0 with ackQ := [], recQ := [], compQ := [] }
        (s0.compQ.map fun x => Item.compI x.1 x.2) = t at hk ⊢
      have hst : ∀ q, q = 0 ∨ q = 1 → storedQ q t = storedQ q s := by
        intro q hq; rw [← e5 q hq]; simp only [storedQ, hk.1]
      have haq : t.ackQ = [] := hk.2
      refine ⟨?_, ?_⟩
      · rw [received_snoc, delivered_snoc]; simp only [List.append_nil, hst 0 (Or.inl rfl)]; exact I.q0
      · rw [received_snoc, delivered_snoc]; simp only [List.append_nil, seq1, hst 1 (Or.inr rfl), haq, e6, List.map_nil]
        have := I.q1
        simp only [seq1] at this
        exact List.Sublist.trans (by simp [List.append_assoc]) this
    split at h
    · simp only [Option.some.injEq] at h; subst h; exact hs s (fun _ _ => rfl) rfl rfl
    · simp only [Option.some.injEq] at h; subst h
      refine hs _ ?_ rfl rfl
      intro q hq; simp only [storedQ]; split
      · rw [List.filterMap_append]
        have : ¬ ((9 : Nat) = q) := by rcases hq with rfl | rfl <;> decide
        simp [this]
      · rfl
  | rxPub qos pid msg =>
    simp only [step] at h
    split at h
    · rename_i hq; subst hq
      simp only [Option.some.injEq] at h; subst h
      refine ⟨?_, ?_⟩
      · rw [received_snoc, delivered_snoc]; simp only [if_true, List.append_nil, storedQ_append]
        have := I.q0; simpa [List.append_assoc] using List.Sublist.append this (List.Sublist.refl [msg])
      · rw [received_snoc, delivered_snoc]
        have : ¬ (0 = 1) := by decide
        simp only [this, if_false, List.append_nil, seq1, storedQ_append]; exact I.q1
    · split at h
      · rename_i hq; subst hq
        simp only [Option.some.injEq] at h; subst h
        refine ⟨?_, ?_⟩
        · rw [received_snoc, delivered_snoc]
          have : ¬ (1 = 0) := by decide
          simp only [this, if_false, List.append_nil, storedQ]; exact I.q0
        · rw [received_snoc, delivered_snoc]; simp only [if_true, List.append_nil, seq1, List.map_append, List.map_cons, List.map_nil]
          have := List.Sublist.append I.q1 (List.Sublist.refl [msg])
          simpa [seq1, storedQ, List.append_assoc] using this
      · split at h
        · rename_i hq; subst hq
          simp only [Option.some.injEq] at h; subst h
          refine ⟨?_, ?_⟩
          · rw [received_snoc, delivered_snoc]
            have : ¬ (2 = 0) := by decide
            simp only [this, if_false, List.append_nil, storedQ]; exact I.q0
          · rw [received_snoc, delivered_snoc]
            have : ¬ (2 = 1) := by decide
            simp only [this, if_false, List.append_nil, seq1, storedQ]; exact I.q1
        · simp at h
  | rxRel pid good =>
    simp only [step] at h
    split at h
    · simp only [Option.some.injEq] at h; subst h
      exact ord_silent I rfl rfl rfl (fun q => by rw [received_snoc]; simp) (fun q => by rw [delivered_snoc]; simp)
    · split at h
      · simp only [Option.some.injEq] at h; subst h
        exact ord_silent I rfl rfl rfl (fun q => by rw [received_snoc]; simp) (fun q => by rw [delivered_snoc]; simp)
      · simp only [Option.some.injEq] at h; subst h
        exact ord_silent I rfl rfl rfl (fun q => by rw [received_snoc]; simp) (fun q => by rw [delivered_snoc]; simp)
  | wr =>
    simp only [step] at h; split at h
    · simp at h
    · simp only [Option.some.injEq] at h; subst h
      exact ord_silent I rfl rfl rfl (fun q => by rw [received_snoc]; simp) (fun q => by rw [delivered_snoc]; simp)
  | pk p0 =>
    simp only [step] at h; split at h
    · cases p0 with
      | puback pid =>
        simp only [stepPk, Option.map_eq_some_iff] at h
        obtain ⟨⟨m, rest⟩, hp, rfl⟩ := h
        have hq := pop_head hp
        refine ⟨?_, ?_⟩
        · rw [received_snoc, delivered_snoc]; simp only [List.append_nil, storedQ]; exact I.q0
        · rw [received_snoc, delivered_snoc]
          have := I.q1
          simp only [seq1, hq, List.map_cons, ackMsgs_append, ackMsgs, List.filterMap_cons, List.filterMap_nil, List.append_nil, storedQ] at this ⊢
          simpa [List.append_assoc] using this
      | pubrec pid =>
        simp only [stepPk, Option.map_eq_some_iff] at h
        obtain ⟨⟨m, rest⟩, hp, rfl⟩ := h
        exact ord_silent I rfl rfl (by simp [ackMsgs_append, ackMsgs]) (fun q => by rw [received_snoc]; simp) (fun q => by rw [delivered_snoc]; simp)
      | pubcomp pid =>
        simp only [stepPk, Option.map_eq_some_iff] at h
        obtain ⟨⟨m, rest⟩, hp, rfl⟩ := h
        exact ord_silent I rfl rfl (by simp [ackMsgs_append, ackMsgs]) (fun q => by rw [received_snoc]; simp) (fun q => by rw [delivered_snoc]; simp)
      | other =>
        simp only [stepPk, Option.some.injEq] at h; subst h
        exact ord_silent I rfl rfl rfl (fun q => by rw [received_snoc]; simp) (fun q => by rw [delivered_snoc]; simp)
    · simp at h
  | wrOk =>
    simp only [step] at h; split at h
    · simp only [Option.some.injEq] at h; subst h
      rw [drain_batch _ finishOk_batch]
      apply drain_ord finishOk (fun s it rest => finishOk_ord) s.batch
      exact ord_silent I rfl rfl rfl (fun q => by rw [received_snoc]; simp) (fun q => by rw [delivered_snoc]; simp)
    · simp at h
  | wrFail =>
    simp only [step] at h; split at h
    · simp only [Option.some.injEq] at h; subst h
      rw [drain_batch _ finishFail_batch]
      apply drain_ord finishFail (fun s it rest => finishFail_ord) s.batch
      exact ord_silent I rfl rfl rfl (fun q => by rw [received_snoc]; simp) (fun q => by rw [delivered_snoc]; simp)
    · simp at h
  | deliver qos pid msg =>
    simp only [step] at h
    split at h
    · rename_i x rest hst
      split at h
      · rename_i hx; subst hx
        simp only [Option.some.injEq] at h; subst h
        refine ⟨?_, ?_⟩
        · rw [received_snoc, delivered_snoc]; simp only [List.append_nil]
          have := I.q0
          simp only [storedQ, hst, List.filterMap_cons] at this ⊢
          by_cases hq : qos = 0
          · subst hq; simpa [List.append_assoc] using this
          · simpa [hq] using this
        · rw [received_snoc, delivered_snoc]; simp only [List.append_nil]
          have := I.q1
          simp only [seq1, storedQ, hst, List.filterMap_cons] at this ⊢
          by_cases hq : qos = 1
          · subst hq; simpa [List.append_assoc] using this
          · simpa [hq] using this
      · simp at h
    · simp at h
  | reset =>
    simp only [step, Option.some.injEq] at h; subst h
    refine ⟨?_, ?_⟩
    · rw [received_snoc, delivered_snoc]; simp only [List.append_nil, storedQ, List.filterMap_nil]
      exact List.Sublist.trans (by simp) I.q0
    · rw [received_snoc, delivered_snoc]; simp only [List.append_nil, seq1, storedQ, List.filterMap_nil, List.map_nil, List.nil_append]
      have := I.q1
      simp only [seq1] at this
      exact List.Sublist.trans (by simp [List.append_assoc]) this

  | subOk =>
    simp only [step, Option.some.injEq] at h; subst h
    exact ord_silent I rfl rfl rfl (fun q => by rw [received_snoc]; simp) (fun q => by rw [delivered_snoc]; simp)
theorem ord_reach {tr : List Ev} {s : S} (h : run init tr = some s) : Ord tr s :=
  inv_reach Ord ⟨by simp [delivered, storedQ, init], by simp [delivered, seq1, storedQ, ackMsgs, init]⟩ ord_step tr s h

/-- **C04 on accepted event lists (order)**: after every prefix, the QoS 0 messages handed to the application are, in this order, a
subsequence of the QoS 0 messages received, and likewise for QoS 1 — messages of one of these QoS levels are never reordered -/
theorem delivered_in_arrival_order {tr : List Ev} (hacc : accepts tr = true) (pre post : List Ev) (hsplit : tr = pre ++ post) :
    (delivered 0 pre).Sublist (received 0 pre) ∧ (delivered 1 pre).Sublist (received 1 pre) := by
  obtain ⟨s, hr⟩ := (accepts_iff _).1 hacc
  rw [hsplit] at hr
  obtain ⟨s1, hr1, _⟩ := run_prefix hr
  have I := ord_reach hr1
  exact ⟨List.Sublist.trans (List.sublist_append_left _ _) I.q0, List.Sublist.trans (List.sublist_append_left _ _) I.q1⟩




/-! ### session_expired reports (C13) -/
def stored9 (s : S) : Nat := s.stored.countP (fun x => x.1 == 9)

structure ExpInv (hist : List Ev) (s : S) : Prop where
  flag : (hist.foldl expiryStep (false, 0)).1 = s.subs
  bound : cnt isDeliverExp hist + stored9 s ≤ (hist.foldl expiryStep (false, 0)).2

theorem waitRel_9 (s : S) (pid msg : Nat) : stored9 (waitRel s pid msg) = stored9 s ∧ (waitRel s pid msg).subs = s.subs := by
  unfold waitRel; split <;> exact ⟨rfl, rfl⟩

theorem finishOk_9 (s : S) (it : Item) : stored9 (finishOk s it) = stored9 s ∧ (finishOk s it).subs = s.subs := by
  cases it with
  | ackI p m => simp [finishOk, stored9, List.countP_append]
  | recI p m => exact waitRel_9 s p m
  | compI p m => simp [finishOk, stored9, List.countP_append]

theorem finishFail_9 (s : S) (it : Item) : stored9 (finishFail s it) = stored9 s ∧ (finishFail s it).subs = s.subs := by
  cases it with
  | ackI p m => exact ⟨rfl, rfl⟩
  | recI p m => exact ⟨rfl, rfl⟩
  | compI p m => exact waitRel_9 s p m

theorem drain_9 (f : S → Item → S) (hf : ∀ s it, stored9 (f s it) = stored9 s ∧ (f s it).subs = s.subs) :
    ∀ (items : List Item) (t : S), stored9 (drain f t items) = stored9 t ∧ (drain f t items).subs = t.subs := by
  intro items; induction items with
  | nil => intro t; exact ⟨rfl, rfl⟩
  | cons it rest ih => intro t; simp only [drain]; have := ih (f t it); have h2 := hf t it; exact ⟨this.1.trans h2.1, this.2.trans h2.2⟩

theorem requeue_9 (s : S) : stored9 (requeue s) = stored9 s ∧ (requeue s).subs = s.subs := by
  unfold requeue
  have := drain_9 (fun s it => finishFail s it) finishFail_9 (s.compQ.map fun x => Item.compI x.1 x.2) { s with ackQ := [], recQ := [], compQ := [] }
  exact ⟨this.1, this.2⟩

theorem exp_keep {hist : List Ev} {s s' : S} {e : Ev} (I : ExpInv hist s) (h1 : stored9 s' = stored9 s) (h2 : s'.subs = s.subs)
    (he : ∀ st, expiryStep st e = st) (hd : isDeliverExp e = false) : ExpInv (hist ++ [e]) s' := by
  refine ⟨?_, ?_⟩
  · simp only [List.foldl_append, List.foldl_cons, List.foldl_nil, he, h2]; exact I.flag
  · simp only [List.foldl_append, List.foldl_cons, List.foldl_nil, he, cnt_snoc', hd, h1]; have := I.bound; simpa using this

theorem exp_step (hist : List Ev) (s : S) (e : Ev) (s' : S) (I : ExpInv hist s) (h : step s e = some s') : ExpInv (hist ++ [e]) s' := by
  cases e with
  | connUp sp =>
    simp only [step] at h; split at h
    · rename_i hsp
      simp only [Option.some.injEq] at h; subst h
      have := requeue_9 s
      refine ⟨?_, ?_⟩
      · simp only [List.foldl_append, List.foldl_cons, List.foldl_nil, expiryStep, hsp, if_true, this.2]; exact I.flag
      · simp only [List.foldl_append, List.foldl_cons, List.foldl_nil, expiryStep, hsp, if_true, cnt_snoc', isDeliverExp, this.1]
        have := I.bound; simpa using this
    · rename_i hsp
      simp only [Option.some.injEq] at h; subst h
      have hq := requeue_9 { s with waiter := fun _ => none, subs := false, stored := if s.subs then s.stored ++ [(9, 0, 0)] else s.stored }
      have hf := I.flag
      refine ⟨?_, ?_⟩
      · simp only [List.foldl_append, List.foldl_cons, List.foldl_nil, expiryStep, hsp, hq.2]; simp
      · simp only [List.foldl_append, List.foldl_cons, List.foldl_nil, expiryStep, hsp, cnt_snoc', isDeliverExp, hq.1]
        have hb := I.bound
        simp only [Bool.false_eq_true, if_false, Bool.toNat_false, Nat.add_zero]
        rw [hf]
        cases hs : s.subs
        · simp only [stored9, hs] at hb ⊢; simpa using hb
        · simp only [stored9, hs, if_true, List.countP_append] at hb ⊢; simp; omega
  | rxPub qos pid msg =>
    simp only [step] at h
    split at h
    · simp only [Option.some.injEq] at h; subst h
      exact exp_keep I (by simp [stored9, List.countP_append]) rfl (fun _ => rfl) rfl
    · split at h
      · simp only [Option.some.injEq] at h; subst h; exact exp_keep I rfl rfl (fun _ => rfl) rfl
      · split at h
        · simp only [Option.some.injEq] at h; subst h; exact exp_keep I rfl rfl (fun _ => rfl) rfl
        · simp at h
  | rxRel pid good =>
    simp only [step] at h
    split at h
    · simp only [Option.some.injEq] at h; subst h; exact exp_keep I rfl rfl (fun _ => rfl) rfl
    · split at h
      · simp only [Option.some.injEq] at h; subst h; exact exp_keep I rfl rfl (fun _ => rfl) rfl
      · simp only [Option.some.injEq] at h; subst h; exact exp_keep I rfl rfl (fun _ => rfl) rfl
  | wr =>
    simp only [step] at h; split at h
    · simp at h
    · simp only [Option.some.injEq] at h; subst h; exact exp_keep I rfl rfl (fun _ => rfl) rfl
  | pk p0 =>
    simp only [step] at h; split at h
    · cases p0 with
      | puback pid => simp only [stepPk, Option.map_eq_some_iff] at h; obtain ⟨⟨m, rest⟩, _, rfl⟩ := h; exact exp_keep I rfl rfl (fun _ => rfl) rfl
      | pubrec pid => simp only [stepPk, Option.map_eq_some_iff] at h; obtain ⟨⟨m, rest⟩, _, rfl⟩ := h; exact exp_keep I rfl rfl (fun _ => rfl) rfl
      | pubcomp pid => simp only [stepPk, Option.map_eq_some_iff] at h; obtain ⟨⟨m, rest⟩, _, rfl⟩ := h; exact exp_keep I rfl rfl (fun _ => rfl) rfl
      | other => simp only [stepPk, Option.some.injEq] at h; subst h; exact exp_keep I rfl rfl (fun _ => rfl) rfl
    · simp at h
  | wrOk =>
    simp only [step] at h; split at h
    · simp only [Option.some.injEq] at h; subst h
      have := drain_9 finishOk finishOk_9 s.batch { s with writing := false, batch := [] }
      exact exp_keep I this.1 this.2 (fun _ => rfl) rfl
    · simp at h
  | wrFail =>
    simp only [step] at h; split at h
    · simp only [Option.some.injEq] at h; subst h
      have := drain_9 finishFail finishFail_9 s.batch { s with writing := false, batch := [] }
      exact exp_keep I this.1 this.2 (fun _ => rfl) rfl
    · simp at h
  | deliver qos pid msg =>
    simp only [step] at h
    split at h
    · rename_i x rest hst
      split at h
      · rename_i hx; subst hx
        simp only [Option.some.injEq] at h; subst h
        refine ⟨?_, ?_⟩
        · simp only [List.foldl_append, List.foldl_cons, List.foldl_nil, expiryStep]; exact I.flag
        · simp only [List.foldl_append, List.foldl_cons, List.foldl_nil, expiryStep, cnt_snoc', isDeliverExp]
          have hb := I.bound
          simp only [stored9, hst, List.countP_cons] at hb ⊢
          cases hq : (qos == 9) <;> simp [hq] at hb ⊢ <;> omega
      · simp at h
    · simp at h
  | reset =>
    simp only [step, Option.some.injEq] at h; subst h
    refine ⟨?_, ?_⟩
    · simp only [List.foldl_append, List.foldl_cons, List.foldl_nil, expiryStep]; exact I.flag
    · simp only [List.foldl_append, List.foldl_cons, List.foldl_nil, expiryStep, cnt_snoc', isDeliverExp, stored9, List.countP_nil]
      have := I.bound; simp at this ⊢; omega
  | subOk =>
    simp only [step, Option.some.injEq] at h; subst h
    refine ⟨?_, ?_⟩
    · simp only [List.foldl_append, List.foldl_cons, List.foldl_nil, expiryStep]
    · simp only [List.foldl_append, List.foldl_cons, List.foldl_nil, expiryStep, cnt_snoc', isDeliverExp]
      have := I.bound; simpa [stored9] using this

theorem exp_reach {tr : List Ev} {s : S} (h : run init tr = some s) : ExpInv tr s :=
  inv_reach ExpInv ⟨rfl, by simp [cnt, stored9, init]⟩ exp_step tr s h

/-- **C13 on accepted event lists**: after every prefix, the number of `session_expired` reports handed to the application is at most the
number that is due (`expiryDue`: one per reconnect with Session Present = 0 that follows a successful subscription not yet reported) -/
theorem expired_reports_bounded {tr : List Ev} (hacc : accepts tr = true) (pre post : List Ev) (hsplit : tr = pre ++ post) :
    cnt isDeliverExp pre ≤ expiryDue pre := by
  obtain ⟨s, hr⟩ := (accepts_iff _).1 hacc
  rw [hsplit] at hr
  obtain ⟨s1, hr1, _⟩ := run_prefix hr
  have := (exp_reach hr1).bound
  unfold expiryDue; omega


/-! ### the liveness half of C04 as far as it holds -/


theorem finishOk_stored_mono (s : S) (it : Item) {x : Nat × Nat × Nat} (h : x ∈ s.stored) : x ∈ (finishOk s it).stored := by
  cases it with
  | ackI p m => simp [finishOk, h]
  | recI p m => simp only [finishOk]; rw [(waitRel_ord s p m).1]; exact h
  | compI p m => simp [finishOk, h]

theorem drain_stored_mono : ∀ (items : List Item) (t : S) {x : Nat × Nat × Nat}, x ∈ t.stored → x ∈ (drain finishOk t items).stored := by
  intro items; induction items with
  | nil => intro t x h; exact h
  | cons it rest ih => intro t x h; exact ih _ (finishOk_stored_mono t it h)

theorem drain_stores_acked : ∀ (items : List Item) (t : S) {p m : Nat},
    (Item.ackI p m ∈ items → (1, p, m) ∈ (drain finishOk t items).stored) ∧ (Item.compI p m ∈ items → (2, p, m) ∈ (drain finishOk t items).stored) := by
  intro items; induction items with
  | nil => intro t p m; exact ⟨by simp, by simp⟩
  | cons it rest ih =>
    intro t p m
    constructor
    · intro hmem
      simp only [List.mem_cons] at hmem
      rcases hmem with rfl | hmem
      · exact drain_stored_mono rest _ (by simp [finishOk])
      · exact (ih (finishOk t it)).1 hmem
    · intro hmem
      simp only [List.mem_cons] at hmem
      rcases hmem with rfl | hmem
      · exact drain_stored_mono rest _ (by simp [finishOk])
      · exact (ih (finishOk t it)).2 hmem

/-- **C04, the liveness half as far as it holds (partial: the hypothesis is that the write succeeds)**: when the write that carries the PUBACK of a
QoS 1 message — or the PUBCOMP of a QoS 2 message — completes successfully, the message is in the receive channel, from which `async_receive`
takes it in first-in-first-out order. The known findings F24–F26 are exactly the cases where that write ends with try_again. -/
theorem acknowledged_is_stored_partial {s s' : S} (h : step s .wrOk = some s') {p m : Nat} :
    (Item.ackI p m ∈ s.batch → (1, p, m) ∈ s'.stored) ∧ (Item.compI p m ∈ s.batch → (2, p, m) ∈ s'.stored) := by
  simp only [step] at h; split at h
  · simp only [Option.some.injEq] at h; subst h
    exact drain_stores_acked s.batch _
  · simp at h




/-! ### the QoS 0 lane with the session_expired reports (C13: the report comes ahead of the messages of the new session) -/
def storedL (s : S) : List Nat := s.stored.filterMap fun x => if x.1 = 0 then some x.2.2 else if x.1 = 9 then some 0 else none

structure LaneInv (hist : List Ev) (s : S) : Prop where
  flag : (hist.foldl laneStep (false, [])).1 = s.subs
  sub : (laneDelivered hist ++ storedL s).Sublist (hist.foldl laneStep (false, [])).2

theorem laneDelivered_snoc (h : List Ev) (e : Ev) :
    laneDelivered (h ++ [e]) = laneDelivered h ++ (match e with | .deliver q _ m => if q = 0 then [m] else if q = 9 then [0] else [] | _ => []) := by
  simp only [laneDelivered, List.filterMap_append]
  cases e <;> simp
  rename_i q p m
  by_cases h0 : q = 0
  · simp [h0]
  · by_cases h9 : q = 9 <;> simp [h0, h9]

theorem storedL_append (s : S) (x : Nat × Nat × Nat) :
    (List.filterMap (fun x : Nat × Nat × Nat => if x.1 = 0 then some x.2.2 else if x.1 = 9 then some 0 else none) (s.stored ++ [x])) =
      storedL s ++ (if x.1 = 0 then [x.2.2] else if x.1 = 9 then [0] else []) := by
  simp only [storedL, List.filterMap_append, List.filterMap_cons, List.filterMap_nil]
  by_cases h0 : x.1 = 0
  · simp [h0]
  · by_cases h9 : x.1 = 9 <;> simp [h0, h9]

theorem waitRel_L (s : S) (pid msg : Nat) : storedL (waitRel s pid msg) = storedL s ∧ (waitRel s pid msg).subs = s.subs := by
  unfold waitRel; split <;> exact ⟨rfl, rfl⟩

theorem finishOk_L (s : S) (it : Item) : storedL (finishOk s it) = storedL s ∧ (finishOk s it).subs = s.subs := by
  cases it with
  | ackI p m => exact ⟨by show List.filterMap _ (s.stored ++ [(1, p, m)]) = _; rw [storedL_append]; simp, rfl⟩
  | recI p m => exact waitRel_L s p m
  | compI p m => exact ⟨by show List.filterMap _ (s.stored ++ [(2, p, m)]) = _; rw [storedL_append]; simp, rfl⟩

theorem finishFail_L (s : S) (it : Item) : storedL (finishFail s it) = storedL s ∧ (finishFail s it).subs = s.subs := by
  cases it with
  | ackI p m => exact ⟨rfl, rfl⟩
  | recI p m => exact ⟨rfl, rfl⟩
  | compI p m => exact waitRel_L s p m

theorem drain_L (f : S → Item → S) (hf : ∀ s it, storedL (f s it) = storedL s ∧ (f s it).subs = s.subs) :
    ∀ (items : List Item) (t : S), storedL (drain f t items) = storedL t ∧ (drain f t items).subs = t.subs := by
  intro items; induction items with
  | nil => intro t; exact ⟨rfl, rfl⟩
  | cons it rest ih => intro t; simp only [drain]; have := ih (f t it); have h2 := hf t it; exact ⟨this.1.trans h2.1, this.2.trans h2.2⟩

theorem requeue_L (s : S) : storedL (requeue s) = storedL s ∧ (requeue s).subs = s.subs := by
  unfold requeue
  have := drain_L (fun s it => finishFail s it) finishFail_L (s.compQ.map fun x => Item.compI x.1 x.2) { s with ackQ := [], recQ := [], compQ := [] }
  exact ⟨this.1, this.2⟩

theorem lane_keep {hist : List Ev} {s s' : S} {e : Ev} (I : LaneInv hist s) (h1 : storedL s' = storedL s) (h2 : s'.subs = s.subs)
    (he : ∀ st, laneStep st e = st) (hd : laneDelivered (hist ++ [e]) = laneDelivered hist) : LaneInv (hist ++ [e]) s' := by
  refine ⟨?_, ?_⟩
  · simp only [List.foldl_append, List.foldl_cons, List.foldl_nil, he, h2]; exact I.flag
  · simp only [List.foldl_append, List.foldl_cons, List.foldl_nil, he, hd, h1]; exact I.sub

theorem lane_step (hist : List Ev) (s : S) (e : Ev) (s' : S) (I : LaneInv hist s) (h : step s e = some s') : LaneInv (hist ++ [e]) s' := by
  cases e with
  | connUp sp =>
    simp only [step] at h; split at h
    · rename_i hsp
      simp only [Option.some.injEq] at h; subst h
      have := requeue_L s
      refine ⟨?_, ?_⟩
      · simp only [List.foldl_append, List.foldl_cons, List.foldl_nil, laneStep, hsp, if_true, this.2]; exact I.flag
      · rw [laneDelivered_snoc]; simp only [List.foldl_append, List.foldl_cons, List.foldl_nil, laneStep, hsp, if_true, this.1, List.append_nil]
        exact I.sub
    · rename_i hsp
      simp only [Option.some.injEq] at h; subst h
      have hq := requeue_L { s with waiter := fun _ => none, subs := false, stored := if s.subs then s.stored ++ [(9, 0, 0)] else s.stored }
      have hf := I.flag
      refine ⟨?_, ?_⟩
      · simp only [List.foldl_append, List.foldl_cons, List.foldl_nil, laneStep, hsp, hq.2]; simp
      · rw [laneDelivered_snoc]; simp only [List.foldl_append, List.foldl_cons, List.foldl_nil, laneStep, hsp, hq.1, List.append_nil]
        simp only [Bool.false_eq_true, if_false]
        rw [hf]
        cases hs : s.subs
        · simp only [storedL, hs, Bool.false_eq_true, if_false]; exact I.sub
        · simp only [hs, if_true]
          have : storedL { s with waiter := fun _ => none, subs := false, stored := s.stored ++ [(9, 0, 0)] } = storedL s ++ [0] := by
            show List.filterMap _ (s.stored ++ [(9, 0, 0)]) = _; rw [storedL_append]; simp
          rw [this]
          have := List.Sublist.append I.sub (List.Sublist.refl [0])
          simpa [List.append_assoc] using this
  | rxPub qos pid msg =>
    simp only [step] at h
    split at h
    · rename_i hq; subst hq
      simp only [Option.some.injEq] at h; subst h
      refine ⟨?_, ?_⟩
      · simp only [List.foldl_append, List.foldl_cons, List.foldl_nil, laneStep, if_true]; exact I.flag
      · rw [laneDelivered_snoc]; simp only [List.foldl_append, List.foldl_cons, List.foldl_nil, laneStep, if_true, List.append_nil]
        have : storedL { s with stored := s.stored ++ [(0, pid, msg)] } = storedL s ++ [msg] := by
          show List.filterMap _ (s.stored ++ [(0, pid, msg)]) = _; rw [storedL_append]; simp
        rw [this]
        have := List.Sublist.append I.sub (List.Sublist.refl [msg])
        simpa [List.append_assoc] using this
    · rename_i hq0
      have hl : ∀ st, laneStep st (Ev.rxPub qos pid msg) = st := by intro st; simp [laneStep, hq0]
      split at h
      · simp only [Option.some.injEq] at h; subst h
        exact lane_keep I rfl rfl hl (by rw [laneDelivered_snoc]; simp)
      · split at h
        · simp only [Option.some.injEq] at h; subst h
          exact lane_keep I rfl rfl hl (by rw [laneDelivered_snoc]; simp)
        · simp at h
  | rxRel pid good =>
    simp only [step] at h
    split at h
    · simp only [Option.some.injEq] at h; subst h; exact lane_keep I rfl rfl (fun _ => rfl) (by rw [laneDelivered_snoc]; simp)
    · split at h
      · simp only [Option.some.injEq] at h; subst h; exact lane_keep I rfl rfl (fun _ => rfl) (by rw [laneDelivered_snoc]; simp)
      · simp only [Option.some.injEq] at h; subst h; exact lane_keep I rfl rfl (fun _ => rfl) (by rw [laneDelivered_snoc]; simp)
  | wr =>
    simp only [step] at h; split at h
    · simp at h
    · simp only [Option.some.injEq] at h; subst h; exact lane_keep I rfl rfl (fun _ => rfl) (by rw [laneDelivered_snoc]; simp)
  | pk p0 =>
    simp only [step] at h; split at h
    · cases p0 with
      | puback pid => simp only [stepPk, Option.map_eq_some_iff] at h; obtain ⟨⟨m, rest⟩, _, rfl⟩ := h; exact lane_keep I rfl rfl (fun _ => rfl) (by rw [laneDelivered_snoc]; simp)
      | pubrec pid => simp only [stepPk, Option.map_eq_some_iff] at h; obtain ⟨⟨m, rest⟩, _, rfl⟩ := h; exact lane_keep I rfl rfl (fun _ => rfl) (by rw [laneDelivered_snoc]; simp)
      | pubcomp pid => simp only [stepPk, Option.map_eq_some_iff] at h; obtain ⟨⟨m, rest⟩, _, rfl⟩ := h; exact lane_keep I rfl rfl (fun _ => rfl) (by rw [laneDelivered_snoc]; simp)
      | other => simp only [stepPk, Option.some.injEq] at h; subst h; exact lane_keep I rfl rfl (fun _ => rfl) (by rw [laneDelivered_snoc]; simp)
    · simp at h
  | wrOk =>
    simp only [step] at h; split at h
    · simp only [Option.some.injEq] at h; subst h
      have := drain_L finishOk finishOk_L s.batch { s with writing := false, batch := [] }
      exact lane_keep I this.1 this.2 (fun _ => rfl) (by rw [laneDelivered_snoc]; simp)
    · simp at h
  | wrFail =>
    simp only [step] at h; split at h
    · simp only [Option.some.injEq] at h; subst h
      have := drain_L finishFail finishFail_L s.batch { s with writing := false, batch := [] }
      exact lane_keep I this.1 this.2 (fun _ => rfl) (by rw [laneDelivered_snoc]; simp)
    · simp at h
  | deliver qos pid msg =>
    simp only [step] at h
    split at h
    · rename_i x rest hst
      split at h
      · rename_i hx; subst hx
        simp only [Option.some.injEq] at h; subst h
        refine ⟨?_, ?_⟩
        · simp only [List.foldl_append, List.foldl_cons, List.foldl_nil, laneStep]; exact I.flag
        · rw [laneDelivered_snoc]; simp only [List.foldl_append, List.foldl_cons, List.foldl_nil, laneStep]
          have := I.sub
          simp only [storedL, hst, List.filterMap_cons] at this ⊢
          by_cases h0 : qos = 0
          · subst h0; simpa [List.append_assoc] using this
          · by_cases h9 : qos = 9
            · subst h9; simpa [List.append_assoc] using this
            · simpa [h0, h9] using this
      · simp at h
    · simp at h
  | reset =>
    simp only [step, Option.some.injEq] at h; subst h
    refine ⟨?_, ?_⟩
    · simp only [List.foldl_append, List.foldl_cons, List.foldl_nil, laneStep]; exact I.flag
    · rw [laneDelivered_snoc]; simp only [List.foldl_append, List.foldl_cons, List.foldl_nil, laneStep, storedL, List.filterMap_nil, List.append_nil]
      exact List.Sublist.trans (by simp) I.sub
  | subOk =>
    simp only [step, Option.some.injEq] at h; subst h
    refine ⟨?_, ?_⟩
    · simp only [List.foldl_append, List.foldl_cons, List.foldl_nil, laneStep]
    · rw [laneDelivered_snoc]; simp only [List.foldl_append, List.foldl_cons, List.foldl_nil, laneStep, List.append_nil]
      exact I.sub

theorem lane_reach {tr : List Ev} {s : S} (h : run init tr = some s) : LaneInv tr s :=
  inv_reach LaneInv ⟨rfl, by simp [laneDelivered, storedL, init]⟩ lane_step tr s h

/-- **C13 / C04 on accepted event lists (order)**: after every prefix, what the application has been handed on the QoS 0 lane — QoS 0 messages and
`session_expired` reports (written 0) — is, in this order, a subsequence of what became due on it: a report that became due before a QoS 0
message arrived is never handed over after that message -/
theorem lane_in_order {tr : List Ev} (hacc : accepts tr = true) (pre post : List Ev) (hsplit : tr = pre ++ post) :
    (laneDelivered pre).Sublist (laneDue pre) := by
  obtain ⟨s, hr⟩ := (accepts_iff _).1 hacc
  rw [hsplit] at hr
  obtain ⟨s1, hr1, _⟩ := run_prefix hr
  exact List.Sublist.trans (List.sublist_append_left _ _) (lane_reach hr1).sub


end Mqtt5V.Proofs.TraceIn
