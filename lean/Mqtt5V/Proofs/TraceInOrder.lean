import Mqtt5V.Proofs.TraceInMsg
/-! Order in the composed inbound model: QoS 0 / QoS 1 messages are delivered in arrival order (C04). -/
namespace Mqtt5V.Proofs.TraceIn
open Mqtt5V.Model.TraceIn


/-! ### order: QoS 0 and QoS 1 messages reach the application in the order in which they arrived -/
def storedQ (q : Nat) (s : S) : List Nat := s.stored.filterMap fun x => if x.1 = q then some x.2.2 else none
def ackMsgs (rem : List Item) : List Nat := rem.filterMap fun it => match it with | .ackI _ m => some m | _ => none
def seq1 (s : S) (rem : List Item) : List Nat := storedQ 1 s ++ ackMsgs rem ++ s.ackQ.map (·.2)

structure OrdInv (hist : List Ev) (s : S) (rem : List Item) : Prop where
  q0 : (delivered 0 hist ++ storedQ 0 s).Sublist (received 0 hist)
  q1 : (delivered 1 hist ++ seq1 s rem).Sublist (received 1 hist)

theorem received_snoc (q : Nat) (h : List Ev) (e : Ev) :
    received q (h ++ [e]) = received q h ++ (match e with | .rxPub q' _ m => if q' = q then [m] else [] | _ => []) := by
  simp only [received, List.filterMap_append]
  cases e <;> simp
  split <;> simp_all

theorem delivered_snoc (q : Nat) (h : List Ev) (e : Ev) :
    delivered q (h ++ [e]) = delivered q h ++ (match e with | .deliver q' _ m => if q' = q then [m] else [] | _ => []) := by
  simp only [delivered, List.filterMap_append]
  cases e <;> simp
  split <;> simp_all

theorem waitRel_ord (s : S) (pid msg : Nat) : (waitRel s pid msg).stored = s.stored ∧ (waitRel s pid msg).ackQ = s.ackQ := by
  unfold waitRel; split <;> exact ⟨rfl, rfl⟩

theorem ord_congr {hist : List Ev} {s s' : S} {rem : List Item} (I : OrdInv hist s rem) (h1 : s'.stored = s.stored) (h2 : s'.ackQ = s.ackQ) :
    OrdInv hist s' rem := by
  refine ⟨?_, ?_⟩
  · simpa only [storedQ, h1] using I.q0
  · simpa only [seq1, storedQ, h1, h2] using I.q1

theorem storedQ_append (q : Nat) (s : S) (x : Nat × Nat × Nat) :
    storedQ q { s with stored := s.stored ++ [x] } = storedQ q s ++ (if x.1 = q then [x.2.2] else []) := by
  simp only [storedQ, List.filterMap_append, List.filterMap_cons, List.filterMap_nil]
  by_cases h : x.1 = q <;> simp [h]

theorem finishOk_ord {hist : List Ev} {s : S} {it : Item} {rest : List Item} (I : OrdInv hist s (it :: rest)) : OrdInv hist (finishOk s it) rest := by
  cases it with
  | ackI pid msg =>
    refine ⟨?_, ?_⟩
    · simp only [finishOk, storedQ_append]; simpa using I.q0
    · have := I.q1
      simp only [finishOk, seq1, storedQ_append, ackMsgs, List.filterMap_cons] at this ⊢
      simpa [List.append_assoc] using this
  | recI pid msg =>
    have := waitRel_ord s pid msg
    refine ord_congr (s := s) ?_ this.1 this.2
    exact ⟨I.q0, by have := I.q1; simpa only [seq1, ackMsgs, List.filterMap_cons] using this⟩
  | compI pid msg =>
    refine ⟨?_, ?_⟩
    · simp only [finishOk, storedQ_append]; simpa using I.q0
    · have := I.q1
      simp only [finishOk, seq1, storedQ_append, ackMsgs, List.filterMap_cons] at this ⊢
      simpa [List.append_assoc] using this

theorem sublist_drop_mid {α : Type} (a : List α) (x : α) (b c : List α) (h : (a ++ ([x] ++ b)).Sublist c) : (a ++ b).Sublist c :=
  List.Sublist.trans (List.Sublist.append (List.Sublist.refl a) (List.sublist_append_right [x] b)) h

theorem finishFail_ord {hist : List Ev} {s : S} {it : Item} {rest : List Item} (I : OrdInv hist s (it :: rest)) : OrdInv hist (finishFail s it) rest := by
  cases it with
  | ackI pid msg =>
    refine ⟨I.q0, ?_⟩
    have := I.q1
    simp only [finishFail, seq1, ackMsgs, List.filterMap_cons] at this ⊢
    -- the message of the failed PUBACK is given up: a sublist stays a sublist
    have h2 : (delivered 1 hist ++ storedQ 1 s ++ ([msg] ++ (List.filterMap (fun it => match it with | .ackI _ m => some m | _ => none) rest ++ s.ackQ.map (·.2)))).Sublist (received 1 hist) := by
      simpa [List.append_assoc] using this
    have := sublist_drop_mid _ msg _ _ h2
    simpa [List.append_assoc] using this
  | recI pid msg =>
    exact ⟨I.q0, by have := I.q1; simpa only [finishFail, seq1, ackMsgs, List.filterMap_cons] using this⟩
  | compI pid msg =>
    have := waitRel_ord s pid msg
    refine ord_congr (s := s) ?_ this.1 this.2
    exact ⟨I.q0, by have := I.q1; simpa only [seq1, ackMsgs, List.filterMap_cons] using this⟩

theorem drain_ord {hist : List Ev} (f : S → Item → S) (hf : ∀ s it rest, OrdInv hist s (it :: rest) → OrdInv hist (f s it) rest) :
    ∀ (items : List Item) (s : S), OrdInv hist s items → OrdInv hist (drain f s items) [] := by
  intro items
  induction items with
  | nil => intro s I; simpa [drain] using I
  | cons it rest ih => intro s I; exact ih _ (hf s it rest I)




def Ord (hist : List Ev) (s : S) : Prop := OrdInv hist s s.batch

theorem ord_silent {hist : List Ev} {s s' : S} {rem rem' : List Item} {e : Ev} (I : OrdInv hist s rem)
    (h1 : s'.stored = s.stored) (h2 : s'.ackQ = s.ackQ) (h3 : ackMsgs rem' = ackMsgs rem)
    (hr : ∀ q, received q (hist ++ [e]) = received q hist) (hd : ∀ q, delivered q (hist ++ [e]) = delivered q hist) :
    OrdInv (hist ++ [e]) s' rem' := by
  refine ⟨?_, ?_⟩
  · rw [hr, hd]; simpa only [storedQ, h1] using I.q0
  · rw [hr, hd]; simpa only [seq1, storedQ, h1, h2, h3] using I.q1

theorem ackMsgs_append (a b : List Item) : ackMsgs (a ++ b) = ackMsgs a ++ ackMsgs b := by simp [ackMsgs, List.filterMap_append]

theorem drain_stored_ackQ (f : S → Item → S) (hf : ∀ s it, (f s it).batch = s.batch) : True := trivial

theorem ord_step (hist : List Ev) (s : S) (e : Ev) (s' : S) (I : Ord hist s) (h : step s e = some s') : Ord (hist ++ [e]) s' := by
  unfold Ord at *
  cases e with
  | connUp sp =>
    simp only [step, Option.some.injEq] at h; subst h
    have hs : ∀ (s0 : S), s0.stored = s.stored → s0.batch = s.batch → s0.recQ = s0.recQ →
        OrdInv (hist ++ [Ev.connUp sp]) (requeue s0) (requeue s0).batch := by
      intro s0 e5 e6 _
      have hb : (requeue s0).batch = s0.batch := by
        unfold requeue; rw [drain_batch _ (fun s it => finishFail_batch s it)]
      rw [hb]
      -- the drained items are PUBREC / PUBCOMP operations: they touch neither the channel nor the PUBACK queue
      have key : ∀ (items : List Item) (t : S), (∀ it ∈ items, ∀ p m, it ≠ Item.ackI p m) →
          (drain (fun s it => finishFail s it) t items).stored = t.stored ∧ (drain (fun s it => finishFail s it) t items).ackQ = t.ackQ := by
        intro items; induction items with
        | nil => intro t _; exact ⟨rfl, rfl⟩
        | cons it rest ih =>
          intro t hne
          have h1 := ih (finishFail t it) (fun x hx => hne x (List.mem_cons_of_mem _ hx))
          simp only [drain]
          cases it with
          | ackI p m => exact absurd rfl (hne _ (List.mem_cons_self) p m)
          | recI p m => simp only [finishFail] at h1 ⊢; exact h1
          | compI p m => simp only [finishFail] at h1 ⊢; exact ⟨h1.1.trans (waitRel_ord t p m).1, h1.2.trans (waitRel_ord t p m).2⟩
      have hk := key (s0.compQ.map fun x => Item.compI x.1 x.2) { s0 with ackQ := [], recQ := [], compQ := [] }
        (by intro it hit p m; simp only [List.mem_map] at hit
            obtain ⟨x, _, rfl⟩ := hit; simp)
      unfold requeue
      generalize hd : drain (fun s it => finishFail s it) { s0 with ackQ := [], recQ := [], compQ := [] }
        (s0.compQ.map fun x => Item.compI x.1 x.2) = t at hk ⊢
      have hst : t.stored = s.stored := hk.1.trans e5
      have haq : t.ackQ = [] := hk.2
      refine ⟨?_, ?_⟩
      · rw [received_snoc, delivered_snoc]; simp only [List.append_nil, storedQ, hst]; exact I.q0
      · rw [received_snoc, delivered_snoc]; simp only [List.append_nil, seq1, storedQ, hst, haq, e6, List.map_nil]
        have := I.q1
        simp only [seq1, storedQ] at this
        exact List.Sublist.trans (by simp [List.append_assoc]) this
    split
    · exact hs s rfl rfl rfl
    · exact hs _ rfl rfl rfl
  | rxPub qos pid msg =>
    simp only [step] at h
    split at h
    · rename_i hq; subst hq
      simp only [Option.some.injEq] at h; subst h
      refine ⟨?_, ?_⟩
      · rw [received_snoc, delivered_snoc]; simp only [if_true, List.append_nil, storedQ_append]
        have := I.q0; simpa [List.append_assoc] using List.Sublist.append this (List.Sublist.refl [msg])
      · rw [received_snoc, delivered_snoc]
        have : ¬ (0 = 1) := by decide
        simp only [this, if_false, List.append_nil, seq1, storedQ_append]; exact I.q1
    · split at h
      · rename_i hq; subst hq
        simp only [Option.some.injEq] at h; subst h
        refine ⟨?_, ?_⟩
        · rw [received_snoc, delivered_snoc]
          have : ¬ (1 = 0) := by decide
          simp only [this, if_false, List.append_nil, storedQ]; exact I.q0
        · rw [received_snoc, delivered_snoc]; simp only [if_true, List.append_nil, seq1, List.map_append, List.map_cons, List.map_nil]
          have := List.Sublist.append I.q1 (List.Sublist.refl [msg])
          simpa [seq1, storedQ, List.append_assoc] using this
      · split at h
        · rename_i hq; subst hq
          simp only [Option.some.injEq] at h; subst h
          refine ⟨?_, ?_⟩
          · rw [received_snoc, delivered_snoc]
            have : ¬ (2 = 0) := by decide
            simp only [this, if_false, List.append_nil, storedQ]; exact I.q0
          · rw [received_snoc, delivered_snoc]
            have : ¬ (2 = 1) := by decide
            simp only [this, if_false, List.append_nil, seq1, storedQ]; exact I.q1
        · simp at h
  | rxRel pid good =>
    simp only [step] at h
    split at h
    · simp only [Option.some.injEq] at h; subst h
      exact ord_silent I rfl rfl rfl (fun q => by rw [received_snoc]; simp) (fun q => by rw [delivered_snoc]; simp)
    · split at h
      · simp only [Option.some.injEq] at h; subst h
        exact ord_silent I rfl rfl rfl (fun q => by rw [received_snoc]; simp) (fun q => by rw [delivered_snoc]; simp)
      · simp only [Option.some.injEq] at h; subst h
        exact ord_silent I rfl rfl rfl (fun q => by rw [received_snoc]; simp) (fun q => by rw [delivered_snoc]; simp)
  | wr =>
    simp only [step] at h; split at h
    · simp at h
    · simp only [Option.some.injEq] at h; subst h
      exact ord_silent I rfl rfl rfl (fun q => by rw [received_snoc]; simp) (fun q => by rw [delivered_snoc]; simp)
  | pk p0 =>
    simp only [step] at h; split at h
    · cases p0 with
      | puback pid =>
        simp only [stepPk, Option.map_eq_some_iff] at h
        obtain ⟨⟨m, rest⟩, hp, rfl⟩ := h
        have hq := pop_head hp
        refine ⟨?_, ?_⟩
        · rw [received_snoc, delivered_snoc]; simp only [List.append_nil, storedQ]; exact I.q0
        · rw [received_snoc, delivered_snoc]
          have := I.q1
          simp only [seq1, hq, List.map_cons, ackMsgs_append, ackMsgs, List.filterMap_cons, List.filterMap_nil, List.append_nil, storedQ] at this ⊢
          simpa [List.append_assoc] using this
      | pubrec pid =>
        simp only [stepPk, Option.map_eq_some_iff] at h
        obtain ⟨⟨m, rest⟩, hp, rfl⟩ := h
        exact ord_silent I rfl rfl (by simp [ackMsgs_append, ackMsgs]) (fun q => by rw [received_snoc]; simp) (fun q => by rw [delivered_snoc]; simp)
      | pubcomp pid =>
        simp only [stepPk, Option.map_eq_some_iff] at h
        obtain ⟨⟨m, rest⟩, hp, rfl⟩ := h
        exact ord_silent I rfl rfl (by simp [ackMsgs_append, ackMsgs]) (fun q => by rw [received_snoc]; simp) (fun q => by rw [delivered_snoc]; simp)
      | other =>
        simp only [stepPk, Option.some.injEq] at h; subst h
        exact ord_silent I rfl rfl rfl (fun q => by rw [received_snoc]; simp) (fun q => by rw [delivered_snoc]; simp)
    · simp at h
  | wrOk =>
    simp only [step] at h; split at h
    · simp only [Option.some.injEq] at h; subst h
      rw [drain_batch _ finishOk_batch]
      apply drain_ord finishOk (fun s it rest => finishOk_ord) s.batch
      exact ord_silent I rfl rfl rfl (fun q => by rw [received_snoc]; simp) (fun q => by rw [delivered_snoc]; simp)
    · simp at h
  | wrFail =>
    simp only [step] at h; split at h
    · simp only [Option.some.injEq] at h; subst h
      rw [drain_batch _ finishFail_batch]
      apply drain_ord finishFail (fun s it rest => finishFail_ord) s.batch
      exact ord_silent I rfl rfl rfl (fun q => by rw [received_snoc]; simp) (fun q => by rw [delivered_snoc]; simp)
    · simp at h
  | deliver qos pid msg =>
    simp only [step] at h
    split at h
    · rename_i x rest hst
      split at h
      · rename_i hx; subst hx
        simp only [Option.some.injEq] at h; subst h
        refine ⟨?_, ?_⟩
        · rw [received_snoc, delivered_snoc]; simp only [List.append_nil]
          have := I.q0
          simp only [storedQ, hst, List.filterMap_cons] at this ⊢
          by_cases hq : qos = 0
          · subst hq; simpa [List.append_assoc] using this
          · simpa [hq] using this
        · rw [received_snoc, delivered_snoc]; simp only [List.append_nil]
          have := I.q1
          simp only [seq1, storedQ, hst, List.filterMap_cons] at this ⊢
          by_cases hq : qos = 1
          · subst hq; simpa [List.append_assoc] using this
          · simpa [hq] using this
      · simp at h
    · simp at h
  | reset =>
    simp only [step, Option.some.injEq] at h; subst h
    refine ⟨?_, ?_⟩
    · rw [received_snoc, delivered_snoc]; simp only [List.append_nil, storedQ, List.filterMap_nil]
      exact List.Sublist.trans (by simp) I.q0
    · rw [received_snoc, delivered_snoc]; simp only [List.append_nil, seq1, storedQ, List.filterMap_nil, List.map_nil, List.nil_append]
      have := I.q1
      simp only [seq1] at this
      exact List.Sublist.trans (by simp [List.append_assoc]) this

theorem ord_reach {tr : List Ev} {s : S} (h : run init tr = some s) : Ord tr s :=
  inv_reach Ord ⟨by simp [delivered, storedQ, init], by simp [delivered, seq1, storedQ, ackMsgs, init]⟩ ord_step tr s h

/-- **C04 on accepted event lists (order)**: after every prefix, the QoS 0 messages handed to the application are, in this order, a
subsequence of the QoS 0 messages received, and likewise for QoS 1 — messages of one of these QoS levels are never reordered -/
theorem delivered_in_arrival_order {tr : List Ev} (hacc : accepts tr = true) (pre post : List Ev) (hsplit : tr = pre ++ post) :
    (delivered 0 pre).Sublist (received 0 pre) ∧ (delivered 1 pre).Sublist (received 1 pre) := by
  obtain ⟨s, hr⟩ := (accepts_iff _).1 hacc
  rw [hsplit] at hr
  obtain ⟨s1, hr1, _⟩ := run_prefix hr
  have I := ord_reach hr1
  exact ⟨List.Sublist.trans (List.sublist_append_left _ _) I.q0, List.Sublist.trans (List.sublist_append_left _ _) I.q1⟩


end Mqtt5V.Proofs.TraceIn
