import Mqtt5V.Model.TraceIn
/-! Reachability, per-identifier budget counting and the acknowledgement theorem of the composed inbound model (C04). -/
namespace Mqtt5V.Proofs.TraceIn
open Mqtt5V.Model.TraceIn


theorem run_append (s : S) (a b : List Ev) : run s (a ++ b) = (run s a).bind (run · b) := by
  induction a generalizing s with
  | nil => simp [run]
  | cons e es ih =>
    simp only [List.cons_append, run]
    cases step s e with
    | none => simp
    | some s1 => simp [ih]

theorem run_prefix {s : S} {a b : List Ev} {s' : S} (h : run s (a ++ b) = some s') : ∃ s1, run s a = some s1 ∧ run s1 b = some s' := by
  rw [run_append] at h
  cases h1 : run s a with
  | none => simp [h1] at h
  | some s1 => exact ⟨s1, rfl, by simpa [h1] using h⟩

theorem inv_run (I : List Ev → S → Prop)
    (hstep : ∀ h s e s', I h s → step s e = some s' → I (h ++ [e]) s') :
    ∀ (tr pre : List Ev) (s s' : S), I pre s → run s tr = some s' → I (pre ++ tr) s' := by
  intro tr
  induction tr with
  | nil => intro pre s s' hI hr; simp [run] at hr; subst hr; simpa using hI
  | cons e es ih =>
    intro pre s s' hI hr
    simp only [run] at hr
    cases h1 : step s e with
    | none => simp [h1] at hr
    | some s1 =>
      simp [h1] at hr
      have := ih (pre ++ [e]) s1 s' (hstep pre s e s1 hI h1) hr
      simpa [List.append_assoc] using this

theorem inv_reach (I : List Ev → S → Prop) (h0 : I [] init)
    (hstep : ∀ h s e s', I h s → step s e = some s' → I (h ++ [e]) s') :
    ∀ tr s, run init tr = some s → I tr s := by
  intro tr s hr
  simpa using inv_run I hstep tr [] init s h0 hr

theorem accepts_iff (tr : List Ev) : accepts tr = true ↔ ∃ s, run init tr = some s := by
  simp [accepts, Option.isSome_iff_exists]

/-! ### counting -/
def qcount (q : List (Nat × Nat)) (p : Nat) : Nat := q.countP (fun x => x.1 == p)
def qcountM (q : List (Nat × Nat)) (p m : Nat) : Nat := q.countP (fun x => x.1 == p && x.2 == m)

def isAckI (p : Nat) : Item → Bool | .ackI q _ => q == p | _ => false
def isRecI (p : Nat) : Item → Bool | .recI q _ => q == p | _ => false
def isCompI (p : Nat) : Item → Bool | .compI q _ => q == p | _ => false

theorem cnt_snoc (P : Ev → Bool) (h : List Ev) (e : Ev) : cnt P (h ++ [e]) = cnt P h + (if P e then 1 else 0) := by
  simp [cnt, List.countP_append, List.countP_cons]

theorem pop_head {q : List (Nat × Nat)} {pid m : Nat} {rest : List (Nat × Nat)} (h : pop q pid = some (m, rest)) : q = (pid, m) :: rest := by
  cases q with
  | nil => simp [pop] at h
  | cons x xs =>
    obtain ⟨p0, m0⟩ := x
    simp only [pop] at h
    split at h
    · rename_i hp; simp only [Option.some.injEq, Prod.mk.injEq] at h; obtain ⟨rfl, rfl⟩ := h; rw [hp]
    · simp at h

theorem pop_spec {q : List (Nat × Nat)} {pid m : Nat} {rest : List (Nat × Nat)} (h : pop q pid = some (m, rest)) :
    ∀ p, qcount q p = qcount rest p + (if p = pid then 1 else 0) := by
  rw [pop_head h]
  intro p; simp only [qcount, List.countP_cons]
  by_cases hpp : p = pid
  · subst hpp; simp
  · have : ¬ (pid = p) := fun h => hpp h.symm
    simp [hpp, this]




theorem cnt_snoc' (P : Ev → Bool) (h : List Ev) (e : Ev) : cnt P (h ++ [e]) = cnt P h + (P e).toNat := by
  simp only [cnt, List.countP_append, List.countP_cons, List.countP_nil]
  cases P e <;> simp

def fastN (s : S) (p : Nat) : Nat := (s.fastRel p).toNat
def stored2 (s : S) (p : Nat) : Nat := s.stored.countP (fun x => x.1 == 2 && x.2.1 == p)
def mA (s : S) (p : Nat) : Nat := qcount s.ackQ p
def mR (s : S) (p : Nat) : Nat := qcount s.recQ p
def mC (s : S) (p : Nat) : Nat := qcount s.compQ p + fastN s p
def mD (s : S) (rem : List Item) (p : Nat) : Nat := stored2 s p + rem.countP (isCompI p) + qcount s.compQ p + fastN s p

/-- acknowledgement bookkeeping, per broker identifier `p`; `rem` = the acknowledgements of the write in progress whose completion
handler has not run yet -/
structure InvR (hist : List Ev) (s : S) (rem : List Item) : Prop where
  a1 : ∀ p, cnt (isPuback p) hist + mA s p ≤ cnt (isRxPub 1 p) hist
  a2 : ∀ p, cnt (isPubrec p) hist + mR s p ≤ cnt (isRxPub 2 p) hist
  a3 : ∀ p, cnt (isPubcomp p) hist + mC s p ≤ cnt (isGoodRel p) hist
  b2 : ∀ p, cnt (isDeliver2 p) hist + mD s rem p ≤ cnt (isGoodRel p) hist

/-- one event: what it adds to the counted history must be covered by what it takes from the state -/
theorem invR_step {hist : List Ev} {s s' : S} {rem rem' : List Item} {e : Ev} (I : InvR hist s rem)
    (h1 : ∀ p, (isPuback p e).toNat + mA s' p ≤ mA s p + (isRxPub 1 p e).toNat)
    (h2 : ∀ p, (isPubrec p e).toNat + mR s' p ≤ mR s p + (isRxPub 2 p e).toNat)
    (h3 : ∀ p, (isPubcomp p e).toNat + mC s' p ≤ mC s p + (isGoodRel p e).toNat)
    (h4 : ∀ p, (isDeliver2 p e).toNat + mD s' rem' p ≤ mD s rem p + (isGoodRel p e).toNat) :
    InvR (hist ++ [e]) s' rem' := by
  refine ⟨?_, ?_, ?_, ?_⟩
  · intro p; have := I.a1 p; have := h1 p; simp only [cnt_snoc']; omega
  · intro p; have := I.a2 p; have := h2 p; simp only [cnt_snoc']; omega
  · intro p; have := I.a3 p; have := h3 p; simp only [cnt_snoc']; omega
  · intro p; have := I.b2 p; have := h4 p; simp only [cnt_snoc']; omega

/-- no event: the state may only lose budget -/
theorem invR_weaken {hist : List Ev} {s s' : S} {rem rem' : List Item} (I : InvR hist s rem)
    (h1 : ∀ p, mA s' p ≤ mA s p) (h2 : ∀ p, mR s' p ≤ mR s p) (h3 : ∀ p, mC s' p ≤ mC s p) (h4 : ∀ p, mD s' rem' p ≤ mD s rem p) :
    InvR hist s' rem' := by
  refine ⟨?_, ?_, ?_, ?_⟩
  · intro p; have := I.a1 p; have := h1 p; omega
  · intro p; have := I.a2 p; have := h2 p; omega
  · intro p; have := I.a3 p; have := h3 p; omega
  · intro p; have := I.b2 p; have := h4 p; omega

theorem qcount_append (q : List (Nat × Nat)) (x : Nat × Nat) (p : Nat) : qcount (q ++ [x]) p = qcount q p + (x.1 == p).toNat := by
  simp only [qcount, List.countP_append, List.countP_cons, List.countP_nil]
  cases (x.1 == p) <;> simp

theorem stored2_append (st : List (Nat × Nat × Nat)) (x : Nat × Nat × Nat) (p : Nat) :
    List.countP (fun x => x.1 == 2 && x.2.1 == p) (st ++ [x]) = List.countP (fun x => x.1 == 2 && x.2.1 == p) st + (x.1 == 2 && x.2.1 == p).toNat := by
  simp only [List.countP_append, List.countP_cons, List.countP_nil]
  cases (x.1 == 2 && x.2.1 == p) <;> simp

/-- `wait_pubrel` never increases the PUBCOMP budget: it either registers a waiter or trades the fast PUBREL for a queued PUBCOMP -/
theorem waitRel_meas (s : S) (pid msg : Nat) :
    (waitRel s pid msg).ackQ = s.ackQ ∧ (waitRel s pid msg).recQ = s.recQ ∧ (waitRel s pid msg).stored = s.stored ∧
    (waitRel s pid msg).batch = s.batch ∧ ∀ p, mC (waitRel s pid msg) p = mC s p := by
  unfold waitRel
  split
  · rename_i hf
    refine ⟨rfl, rfl, rfl, rfl, ?_⟩
    intro p
    simp only [mC, qcount_append, fastN, upd]
    by_cases hp : p = pid
    · subst hp; simp [hf]
    · have : ¬ (pid = p) := fun h => hp h.symm
      simp [hp, this]
  · exact ⟨rfl, rfl, rfl, rfl, fun _ => rfl⟩

theorem mD_eq (s : S) (rem : List Item) (p : Nat) : mD s rem p = stored2 s p + rem.countP (isCompI p) + mC s p := by
  simp only [mD, mC]; omega

theorem finishOk_inv {hist : List Ev} {s : S} {it : Item} {rest : List Item} (I : InvR hist s (it :: rest)) : InvR hist (finishOk s it) rest := by
  cases it with
  | ackI pid msg =>
    refine invR_weaken I (fun _ => Nat.le_refl _) (fun _ => Nat.le_refl _) (fun _ => Nat.le_refl _) ?_
    intro p; simp only [mD, finishOk, stored2, stored2_append, fastN, List.countP_cons, isCompI]; simp
  | recI pid msg =>
    obtain ⟨e1, e2, e3, _, e5⟩ := waitRel_meas s pid msg
    refine invR_weaken I (fun p => by simp [mA, finishOk, e1]) (fun p => by simp [mR, finishOk, e2]) (fun p => by simp [finishOk, e5]) ?_
    intro p; simp only [mD_eq, finishOk, e5, stored2, e3, List.countP_cons, isCompI]; simp
  | compI pid msg =>
    refine invR_weaken I (fun _ => Nat.le_refl _) (fun _ => Nat.le_refl _) (fun _ => Nat.le_refl _) ?_
    intro p; simp only [mD, finishOk, stored2, stored2_append, fastN, List.countP_cons, isCompI]
    by_cases hp : pid = p
    · subst hp; simp; try omega
    · have : (pid == p) = false := by simpa using hp
      simp [this]

theorem finishFail_inv {hist : List Ev} {s : S} {it : Item} {rest : List Item} (I : InvR hist s (it :: rest)) : InvR hist (finishFail s it) rest := by
  cases it with
  | ackI pid msg =>
    refine invR_weaken I (fun _ => Nat.le_refl _) (fun _ => Nat.le_refl _) (fun _ => Nat.le_refl _) ?_
    intro p; simp only [mD, finishFail, List.countP_cons, isCompI]; simp
  | recI pid msg =>
    refine invR_weaken I (fun _ => Nat.le_refl _) (fun _ => Nat.le_refl _) (fun _ => Nat.le_refl _) ?_
    intro p; simp only [mD, finishFail, List.countP_cons, isCompI]; simp
  | compI pid msg =>
    obtain ⟨e1, e2, e3, _, e5⟩ := waitRel_meas s pid msg
    refine invR_weaken I (fun p => by simp [mA, finishFail, e1]) (fun p => by simp [mR, finishFail, e2]) (fun p => by simp [finishFail, e5]) ?_
    intro p; simp only [mD_eq, finishFail, e5, stored2, e3, List.countP_cons, isCompI]
    by_cases hp : pid = p
    · subst hp; simp; try omega
    · have : (pid == p) = false := by simpa using hp
      simp [this]

theorem drain_inv' {hist : List Ev} (f : S → Item → S) (hf : ∀ s it rest, InvR hist s (it :: rest) → InvR hist (f s it) rest) :
    ∀ (items tail : List Item) (s : S), InvR hist s (items ++ tail) → InvR hist (drain f s items) tail := by
  intro items
  induction items with
  | nil => intro tail s I; simpa [drain] using I
  | cons it rest ih => intro tail s I; exact ih tail _ (hf s it (rest ++ tail) (by simpa using I))

theorem drain_batch (f : S → Item → S) (hf : ∀ s it, (f s it).batch = s.batch) : ∀ (items : List Item) (t : S), (drain f t items).batch = t.batch := by
  intro items; induction items with
  | nil => intro t; rfl
  | cons it rest ih => intro t; simp only [drain]; rw [ih, hf]

theorem finishOk_batch (s : S) (it : Item) : (finishOk s it).batch = s.batch := by
  cases it <;> simp only [finishOk] <;> first | rfl | exact (waitRel_meas s _ _).2.2.2.1

theorem finishFail_batch (s : S) (it : Item) : (finishFail s it).batch = s.batch := by
  cases it <;> simp only [finishFail] <;> first | rfl | exact (waitRel_meas s _ _).2.2.2.1

def Inv (hist : List Ev) (s : S) : Prop := InvR hist s s.batch

theorem compItems_count (q : List (Nat × Nat)) (p : Nat) : (q.map fun x => Item.compI x.1 x.2).countP (isCompI p) = qcount q p := by
  induction q with
  | nil => rfl
  | cons x xs ih => simp only [List.map_cons, List.countP_cons, isCompI, qcount] at ih ⊢; rw [ih]; congr 1

theorem recItems_count (q : List (Nat × Nat)) (p : Nat) : (q.map fun x => Item.recI x.1 x.2).countP (isCompI p) = 0 := by
  induction q with
  | nil => rfl
  | cons x xs ih => simp only [List.map_cons, List.countP_cons, isCompI, ih]; simp

theorem inv_init : Inv [] init := by
  refine ⟨?_, ?_, ?_, ?_⟩ <;> intro p <;> simp [cnt, init, mA, mR, mC, mD, qcount, fastN, stored2]




theorem beq_toNat_ne {a b : Nat} (h : ¬ a = b) : (a == b).toNat = 0 := by
  have : (a == b) = false := by simpa using h
  simp [this]

theorem inv_step (hist : List Ev) (s : S) (e : Ev) (s' : S) (I : Inv hist s) (h : step s e = some s') : Inv (hist ++ [e]) s' := by
  unfold Inv at *
  cases e with
  | connUp sp =>
    simp only [step] at h
    have hs : ∀ (s0 : S), s0.ackQ = s.ackQ → s0.recQ = s.recQ → s0.compQ = s.compQ → s0.fastRel = s.fastRel →
        (∀ p, List.countP (fun x => x.1 == 2 && x.2.1 == p) s0.stored = List.countP (fun x => x.1 == 2 && x.2.1 == p) s.stored) → s0.batch = s.batch →
        InvR (hist ++ [Ev.connUp sp]) (requeue s0) (requeue s0).batch := by
      intro s0 e1 e2 e3 e4 e5 e6
      have hb : (requeue s0).batch = s0.batch := by
        unfold requeue; rw [drain_batch _ (fun s it => finishFail_batch s it)]
      rw [hb]
      unfold requeue
      apply drain_inv' (fun s it => finishFail s it) (fun s it rest => finishFail_inv) _ s0.batch
      refine invR_step I ?_ ?_ ?_ ?_
      · intro p; simp [isPuback, isRxPub, mA, qcount]
      · intro p; simp [isPubrec, isRxPub, mR, qcount]
      · intro p; simp [isPubcomp, isGoodRel, mC, qcount, fastN, e4]
      · intro p; simp only [isDeliver2, isGoodRel, mD, List.countP_append, compItems_count, e3, e6, stored2, e5 p, fastN, e4, qcount, List.countP_nil, Bool.toNat_false]
        omega
    split at h
    · simp only [Option.some.injEq] at h; subst h; exact hs s rfl rfl rfl rfl (fun _ => rfl) rfl
    · simp only [Option.some.injEq] at h; subst h
      refine hs _ rfl rfl rfl rfl ?_ rfl
      intro p; simp only []; split
      · simp [List.countP_append]
      · rfl
  | rxPub qos pid msg =>
    simp only [step] at h
    split at h
    · rename_i hq; subst hq
      simp only [Option.some.injEq] at h; subst h
      refine invR_step I ?_ ?_ ?_ ?_
      · intro p; simp [isPuback, isRxPub, mA]
      · intro p; simp [isPubrec, isRxPub, mR]
      · intro p; simp [isPubcomp, isGoodRel, mC, fastN]
      · intro p; simp [isDeliver2, isGoodRel, mD, fastN, stored2, stored2_append]
    · split at h
      · rename_i hq; subst hq
        simp only [Option.some.injEq] at h; subst h
        refine invR_step I ?_ ?_ ?_ ?_
        · intro p; simp [isPuback, isRxPub, mA, qcount_append]
        · intro p; simp [isPubrec, isRxPub, mR]
        · intro p; simp [isPubcomp, isGoodRel, mC, fastN]
        · intro p; simp [isDeliver2, isGoodRel, mD, fastN, stored2]
      · split at h
        · rename_i hq; subst hq
          simp only [Option.some.injEq] at h; subst h
          refine invR_step I ?_ ?_ ?_ ?_
          · intro p; simp [isPuback, isRxPub, mA]
          · intro p; simp [isPubrec, isRxPub, mR, qcount_append]
          · intro p; simp [isPubcomp, isGoodRel, mC, fastN]
          · intro p; simp [isDeliver2, isGoodRel, mD, fastN, stored2]
        · simp at h
  | rxRel pid good =>
    simp only [step] at h
    split at h
    · rename_i hg
      simp only [Option.some.injEq] at h; subst h
      have hg' : good = false := by simpa using hg
      subst hg'
      refine invR_step I ?_ ?_ ?_ ?_ <;> intro p <;> simp [isPuback, isPubrec, isPubcomp, isDeliver2, isRxPub, isGoodRel]
    · rename_i hg
      have hg' : good = true := by simpa using hg
      subst hg'
      split at h
      · rename_i m hm
        simp only [Option.some.injEq] at h; subst h
        refine invR_step I ?_ ?_ ?_ ?_
        · intro p; simp [isPuback, isRxPub, mA]
        · intro p; simp [isPubrec, isRxPub, mR]
        · intro p; simp only [isPubcomp, isGoodRel, mC, fastN, qcount_append, Bool.and_true, Bool.toNat_false]; omega
        · intro p; simp only [isDeliver2, isGoodRel, mD, fastN, stored2, qcount_append, Bool.and_true, Bool.toNat_false]; omega
      · simp only [Option.some.injEq] at h; subst h
        have hf : ∀ p, (upd s.fastRel pid true p).toNat ≤ (s.fastRel p).toNat + (pid == p).toNat := by
          intro p; simp only [upd]
          by_cases hp : p = pid
          · subst hp; simp; try (cases s.fastRel p <;> simp)
          · have : ¬ pid = p := fun h => hp h.symm
            simp [hp, beq_toNat_ne this]
        refine invR_step I ?_ ?_ ?_ ?_
        · intro p; simp [isPuback, isRxPub, mA]
        · intro p; simp [isPubrec, isRxPub, mR]
        · intro p; have := hf p; simp only [isPubcomp, isGoodRel, mC, fastN, Bool.and_true, Bool.toNat_false]; omega
        · intro p; have := hf p; simp only [isDeliver2, isGoodRel, mD, fastN, stored2, Bool.and_true, Bool.toNat_false]; omega
  | wr =>
    simp only [step] at h; split at h
    · simp at h
    · simp only [Option.some.injEq] at h; subst h
      refine invR_step I ?_ ?_ ?_ ?_
      · intro p; simp [isPuback, isRxPub, mA]
      · intro p; simp [isPubrec, isRxPub, mR]
      · intro p; simp [isPubcomp, isGoodRel, mC, fastN]
      · intro p; simp [isDeliver2, isGoodRel, mD, fastN, stored2]
  | pk p0 =>
    simp only [step] at h; split at h
    · cases p0 with
      | puback pid =>
        simp only [stepPk, Option.map_eq_some_iff] at h
        obtain ⟨⟨m, rest⟩, hp, rfl⟩ := h
        have hq := pop_spec hp
        refine invR_step I ?_ ?_ ?_ ?_
        · intro p; have := hq p; simp only [isPuback, isRxPub, mA, Bool.toNat_false]
          by_cases hpp : p = pid
          · subst hpp; simp at this ⊢; omega
          · have h1 : ¬ pid = p := fun h => hpp h.symm
            simp [hpp, beq_toNat_ne h1] at this ⊢; omega
        · intro p; simp [isPubrec, isRxPub, mR]
        · intro p; simp [isPubcomp, isGoodRel, mC, fastN]
        · intro p; simp [isDeliver2, isGoodRel, mD, fastN, stored2, List.countP_append, isCompI]
      | pubrec pid =>
        simp only [stepPk, Option.map_eq_some_iff] at h
        obtain ⟨⟨m, rest⟩, hp, rfl⟩ := h
        have hq := pop_spec hp
        refine invR_step I ?_ ?_ ?_ ?_
        · intro p; simp [isPuback, isRxPub, mA]
        · intro p; have := hq p; simp only [isPubrec, isRxPub, mR, Bool.toNat_false]
          by_cases hpp : p = pid
          · subst hpp; simp at this ⊢; omega
          · have h1 : ¬ pid = p := fun h => hpp h.symm
            simp [hpp, beq_toNat_ne h1] at this ⊢; omega
        · intro p; simp [isPubcomp, isGoodRel, mC, fastN]
        · intro p; simp [isDeliver2, isGoodRel, mD, fastN, stored2, List.countP_append, isCompI]
      | pubcomp pid =>
        simp only [stepPk, Option.map_eq_some_iff] at h
        obtain ⟨⟨m, rest⟩, hp, rfl⟩ := h
        have hq := pop_spec hp
        refine invR_step I ?_ ?_ ?_ ?_
        · intro p; simp [isPuback, isRxPub, mA]
        · intro p; simp [isPubrec, isRxPub, mR]
        · intro p; have := hq p; simp only [isPubcomp, isGoodRel, mC, fastN, Bool.toNat_false]
          by_cases hpp : p = pid
          · subst hpp; simp at this ⊢; omega
          · have h1 : ¬ pid = p := fun h => hpp h.symm
            simp [hpp, beq_toNat_ne h1] at this ⊢; omega
        · intro p; have := hq p
          simp only [isDeliver2, isGoodRel, mD, fastN, stored2, List.countP_append, List.countP_cons, List.countP_nil, isCompI, Bool.toNat_false]
          by_cases hpp : p = pid
          · subst hpp; simp at this ⊢; omega
          · have h1 : ¬ pid = p := fun h => hpp h.symm
            have h2 : (pid == p) = false := by simpa using h1
            simp [hpp, h2] at this ⊢; omega
      | other =>
        simp only [stepPk, Option.some.injEq] at h; subst h
        refine invR_step I ?_ ?_ ?_ ?_ <;> intro p <;> simp [isPuback, isPubrec, isPubcomp, isDeliver2, isRxPub, isGoodRel]
    · simp at h
  | wrOk =>
    simp only [step] at h; split at h
    · simp only [Option.some.injEq] at h; subst h
      rw [drain_batch _ finishOk_batch]
      apply drain_inv' finishOk (fun s it rest => finishOk_inv) s.batch []
      simp only [List.append_nil]
      refine invR_step I ?_ ?_ ?_ ?_ <;> intro p <;> simp [isPuback, isPubrec, isPubcomp, isDeliver2, isRxPub, isGoodRel, mA, mR, mC, mD, fastN, stored2]
    · simp at h
  | wrFail =>
    simp only [step] at h; split at h
    · simp only [Option.some.injEq] at h; subst h
      rw [drain_batch _ finishFail_batch]
      apply drain_inv' finishFail (fun s it rest => finishFail_inv) s.batch []
      simp only [List.append_nil]
      refine invR_step I ?_ ?_ ?_ ?_ <;> intro p <;> simp [isPuback, isPubrec, isPubcomp, isDeliver2, isRxPub, isGoodRel, mA, mR, mC, mD, fastN, stored2]
    · simp at h
  | deliver qos pid msg =>
    simp only [step] at h
    split at h
    · rename_i x rest hst
      split at h
      · rename_i hx; subst hx
        simp only [Option.some.injEq] at h; subst h
        refine invR_step I ?_ ?_ ?_ ?_
        · intro p; simp [isPuback, isRxPub, mA]
        · intro p; simp [isPubrec, isRxPub, mR]
        · intro p; simp [isPubcomp, isGoodRel, mC, fastN]
        · intro p
          simp only [isDeliver2, isGoodRel, mD, fastN, stored2, hst, List.countP_cons, Bool.toNat_false]
          cases hb : (qos == 2 && pid == p) <;> simp [hb] <;> omega
      · simp at h
    · simp at h
  | reset =>
    simp only [step, Option.some.injEq] at h; subst h
    refine invR_step I ?_ ?_ ?_ ?_
    · intro p; simp [isPuback, isRxPub, mA, qcount]
    · intro p; simp [isPubrec, isRxPub, mR, qcount]
    · intro p; simp [isPubcomp, isGoodRel, mC, fastN, qcount]
    · intro p; simp only [isDeliver2, isGoodRel, mD, fastN, stored2, qcount, List.countP_nil, Bool.toNat_false]; omega

  | subOk =>
    simp only [step, Option.some.injEq] at h; subst h
    refine invR_step I ?_ ?_ ?_ ?_ <;> intro p <;> simp [isPuback, isPubrec, isPubcomp, isDeliver2, isRxPub, isGoodRel, mA, mR, mC, mD, fastN, stored2]
theorem inv_reach' {tr : List Ev} {s : S} (h : run init tr = some s) : Inv tr s :=
  inv_reach Inv inv_init inv_step tr s h


/-- **C04 on accepted event lists** (per broker packet identifier `p`, after every prefix): the client has written at most as many
PUBACKs as QoS 1 PUBLISHes it received for `p`, at most as many PUBRECs as QoS 2 PUBLISHes, at most as many PUBCOMPs as good PUBRELs
(so never a PUBCOMP before its PUBREL), and has handed at most as many QoS 2 messages of `p` to the application as good PUBRELs
arrived — a PUBLISH repeated by the broker (DUP) before its PUBREL does not lead to a second delivery -/
theorem inbound_acks_justified {tr : List Ev} (hacc : accepts tr = true) (pre post : List Ev) (hsplit : tr = pre ++ post) (p : Nat) :
    cnt (isPuback p) pre ≤ cnt (isRxPub 1 p) pre ∧ cnt (isPubrec p) pre ≤ cnt (isRxPub 2 p) pre ∧
    cnt (isPubcomp p) pre ≤ cnt (isGoodRel p) pre ∧ cnt (isDeliver2 p) pre ≤ cnt (isGoodRel p) pre := by
  obtain ⟨s, hr⟩ := (accepts_iff _).1 hacc
  rw [hsplit] at hr
  obtain ⟨s1, hr1, _⟩ := run_prefix hr
  have I := inv_reach' hr1
  have h1 := I.a1 p; have h2 := I.a2 p; have h3 := I.a3 p; have h4 := I.b2 p
  exact ⟨by omega, by omega, by omega, by omega⟩


end Mqtt5V.Proofs.TraceIn
