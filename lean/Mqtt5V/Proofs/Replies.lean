import Mqtt5V.Model.Replies
/-! Invariants of the replies model. -/
namespace Mqtt5V.Proofs.Replies
open Mqtt5V.Model.Replies

def key (h : Waiter) : Nat × Nat := (h.code, h.pid)

/-- no two waiters share a (control code, packet id) key; waiter identities are distinct -/
def KeysUnique (r : R) : Prop := (r.handlers.map key).Nodup

theorem find_sameKey {hs : List Waiter} {c p : Nat} {h : Waiter} (hf : hs.find? (sameKey c p) = some h) :
    h ∈ hs ∧ h.code = c ∧ h.pid = p := by
  have h1 := List.mem_of_find?_eq_some hf
  have h2 := List.find?_some hf
  simp [sameKey] at h2
  exact ⟨h1, h2.1, h2.2⟩

theorem nodup_map_erase {hs : List Waiter} (h : (hs.map key).Nodup) (d : Waiter) : ((hs.erase d).map key).Nodup :=
  (List.Sublist.map key (List.erase_sublist)).nodup h

theorem not_mem_keys_of_find_none {hs : List Waiter} {c p : Nat} (hf : hs.find? (sameKey c p) = none) :
    (c, p) ∉ hs.map key := by
  intro hm
  simp only [List.mem_map] at hm
  obtain ⟨h, hh, hk⟩ := hm
  have := List.find?_eq_none.mp hf h hh
  simp [sameKey, key] at this hk
  exact this hk.1 hk.2

theorem erase_removes_key {hs : List Waiter} (hn : (hs.map key).Nodup) {d : Waiter} (hd : d ∈ hs) :
    key d ∉ (hs.erase d).map key := by
  induction hs with
  | nil => cases hd
  | cons a as ih =>
    simp only [List.map_cons, List.nodup_cons] at hn
    by_cases ha : a = d
    · subst ha; simpa [List.erase_cons_head] using hn.1
    · have hm : d ∈ as := by simp at hd; rcases hd with h | h; exact absurd h.symm ha; exact h
      have : (a :: as).erase d = a :: as.erase d := by simp [List.erase_cons, ha]
      rw [this]
      simp only [List.map_cons, List.mem_cons, not_or]
      refine ⟨?_, ih hn.2 hm⟩
      intro hk
      exact hn.1 (by rw [← hk]; exact List.mem_map_of_mem hm)

theorem step_keys (r : R) (i : In) (h : KeysUnique r) : KeysUnique (step r i).1 := by
  unfold KeysUnique at *
  cases i with
  | wait w code pid =>
    simp only [step]
    cases hd : r.handlers.find? (sameKey code pid) with
    | some d =>
      obtain ⟨hm, hc, hp⟩ := find_sameKey hd
      have hk : key d = (code, pid) := by simp [key, hc, hp]
      have hno := erase_removes_key h hm
      have hnd := nodup_map_erase h d
      simp only []
      split
      · exact hnd
      · simp only [List.map_append, List.map_cons, List.map_nil]
        refine List.nodup_append.mpr ⟨hnd, by simp, ?_⟩
        intro a ha b hb hab
        simp at hb; subst hb; subst hab
        rw [hk] at hno; exact hno (by simpa [key] using ha)
    | none =>
      have hno := not_mem_keys_of_find_none hd
      simp only []
      split
      · exact h
      · simp only [List.map_append, List.map_cons, List.map_nil]
        refine List.nodup_append.mpr ⟨h, by simp, ?_⟩
        intro a ha b hb hab
        simp at hb; subst hb; subst hab
        exact hno (by simpa [key] using ha)
  | dispatch code pid tag =>
    simp only [step]
    split
    · exact nodup_map_erase h _
    · exact h
  | resendUnanswered => simp [step]
  | cancelUnanswered => simp [step]
  | clearFast => simpa [step] using h
  | clearPubrels =>
    simp only [step]
    exact (List.Sublist.map key (List.filter_sublist)).nodup h

end Mqtt5V.Proofs.Replies
