import Mqtt5V.Proofs.TraceIn1
namespace Mqtt5V.Proofs.TraceIn
open Mqtt5V.Model.TraceIn

theorem cnt_snoc' (P : Ev → Bool) (h : List Ev) (e : Ev) : cnt P (h ++ [e]) = cnt P h + (P e).toNat := by
  simp only [cnt, List.countP_append, List.countP_cons, List.countP_nil]
  cases P e <;> simp

def fastN (s : S) (p : Nat) : Nat := (s.fastRel p).toNat
def stored2 (s : S) (p : Nat) : Nat := s.stored.countP (fun x => x.1 == 2 && x.2.1 == p)
def mA (s : S) (p : Nat) : Nat := qcount s.ackQ p
def mR (s : S) (p : Nat) : Nat := qcount s.recQ p
def mC (s : S) (p : Nat) : Nat := qcount s.compQ p + fastN s p
def mD (s : S) (rem : List Item) (p : Nat) : Nat := stored2 s p + rem.countP (isCompI p) + qcount s.compQ p + fastN s p

/-- acknowledgement bookkeeping, per broker identifier `p`; `rem` = the acknowledgements of the write in progress whose completion
handler has not run yet -/
structure InvR (hist : List Ev) (s : S) (rem : List Item) : Prop where
  a1 : ∀ p, cnt (isPuback p) hist + mA s p ≤ cnt (isRxPub 1 p) hist
  a2 : ∀ p, cnt (isPubrec p) hist + mR s p ≤ cnt (isRxPub 2 p) hist
  a3 : ∀ p, cnt (isPubcomp p) hist + mC s p ≤ cnt (isGoodRel p) hist
  b2 : ∀ p, cnt (isDeliver2 p) hist + mD s rem p ≤ cnt (isGoodRel p) hist

/-- one event: what it adds to the counted history must be covered by what it takes from the state -/
theorem invR_step {hist : List Ev} {s s' : S} {rem rem' : List Item} {e : Ev} (I : InvR hist s rem)
    (h1 : ∀ p, (isPuback p e).toNat + mA s' p ≤ mA s p + (isRxPub 1 p e).toNat)
    (h2 : ∀ p, (isPubrec p e).toNat + mR s' p ≤ mR s p + (isRxPub 2 p e).toNat)
    (h3 : ∀ p, (isPubcomp p e).toNat + mC s' p ≤ mC s p + (isGoodRel p e).toNat)
    (h4 : ∀ p, (isDeliver2 p e).toNat + mD s' rem' p ≤ mD s rem p + (isGoodRel p e).toNat) :
    InvR (hist ++ [e]) s' rem' := by
  refine ⟨?_, ?_, ?_, ?_⟩
  · intro p; have := I.a1 p; have := h1 p; simp only [cnt_snoc']; omega
  · intro p; have := I.a2 p; have := h2 p; simp only [cnt_snoc']; omega
  · intro p; have := I.a3 p; have := h3 p; simp only [cnt_snoc']; omega
  · intro p; have := I.b2 p; have := h4 p; simp only [cnt_snoc']; omega

/-- no event: the state may only lose budget -/
theorem invR_weaken {hist : List Ev} {s s' : S} {rem rem' : List Item} (I : InvR hist s rem)
    (h1 : ∀ p, mA s' p ≤ mA s p) (h2 : ∀ p, mR s' p ≤ mR s p) (h3 : ∀ p, mC s' p ≤ mC s p) (h4 : ∀ p, mD s' rem' p ≤ mD s rem p) :
    InvR hist s' rem' := by
  refine ⟨?_, ?_, ?_, ?_⟩
  · intro p; have := I.a1 p; have := h1 p; omega
  · intro p; have := I.a2 p; have := h2 p; omega
  · intro p; have := I.a3 p; have := h3 p; omega
  · intro p; have := I.b2 p; have := h4 p; omega

theorem qcount_append (q : List (Nat × Nat)) (x : Nat × Nat) (p : Nat) : qcount (q ++ [x]) p = qcount q p + (x.1 == p).toNat := by
  simp only [qcount, List.countP_append, List.countP_cons, List.countP_nil]
  cases (x.1 == p) <;> simp

theorem stored2_append (st : List (Nat × Nat × Nat)) (x : Nat × Nat × Nat) (p : Nat) :
    List.countP (fun x => x.1 == 2 && x.2.1 == p) (st ++ [x]) = List.countP (fun x => x.1 == 2 && x.2.1 == p) st + (x.1 == 2 && x.2.1 == p).toNat := by
  simp only [List.countP_append, List.countP_cons, List.countP_nil]
  cases (x.1 == 2 && x.2.1 == p) <;> simp

/-- `wait_pubrel` never increases the PUBCOMP budget: it either registers a waiter or trades the fast PUBREL for a queued PUBCOMP -/
theorem waitRel_meas (s : S) (pid msg : Nat) :
    (waitRel s pid msg).ackQ = s.ackQ ∧ (waitRel s pid msg).recQ = s.recQ ∧ (waitRel s pid msg).stored = s.stored ∧
    (waitRel s pid msg).batch = s.batch ∧ ∀ p, mC (waitRel s pid msg) p = mC s p := by
  unfold waitRel
  split
  · rename_i hf
    refine ⟨rfl, rfl, rfl, rfl, ?_⟩
    intro p
    simp only [mC, qcount_append, fastN, upd]
    by_cases hp : p = pid
    · subst hp; simp [hf]
    · have : ¬ (pid = p) := fun h => hp h.symm
      simp [hp, this]
  · exact ⟨rfl, rfl, rfl, rfl, fun _ => rfl⟩

theorem mD_eq (s : S) (rem : List Item) (p : Nat) : mD s rem p = stored2 s p + rem.countP (isCompI p) + mC s p := by
  simp only [mD, mC]; omega

theorem finishOk_inv {hist : List Ev} {s : S} {it : Item} {rest : List Item} (I : InvR hist s (it :: rest)) : InvR hist (finishOk s it) rest := by
  cases it with
  | ackI pid msg =>
    refine invR_weaken I (fun _ => Nat.le_refl _) (fun _ => Nat.le_refl _) (fun _ => Nat.le_refl _) ?_
    intro p; simp only [mD, finishOk, stored2, stored2_append, fastN, List.countP_cons, isCompI]; simp
  | recI pid msg =>
    obtain ⟨e1, e2, e3, _, e5⟩ := waitRel_meas s pid msg
    refine invR_weaken I (fun p => by simp [mA, finishOk, e1]) (fun p => by simp [mR, finishOk, e2]) (fun p => by simp [finishOk, e5]) ?_
    intro p; simp only [mD_eq, finishOk, e5, stored2, e3, List.countP_cons, isCompI]; simp
  | compI pid msg =>
    refine invR_weaken I (fun _ => Nat.le_refl _) (fun _ => Nat.le_refl _) (fun _ => Nat.le_refl _) ?_
    intro p; simp only [mD, finishOk, stored2, stored2_append, fastN, List.countP_cons, isCompI]
    by_cases hp : pid = p
    · subst hp; simp; try omega
    · have : (pid == p) = false := by simpa using hp
      simp [this]

theorem finishFail_inv {hist : List Ev} {s : S} {it : Item} {rest : List Item} (I : InvR hist s (it :: rest)) : InvR hist (finishFail s it) rest := by
  cases it with
  | ackI pid msg =>
    refine invR_weaken I (fun _ => Nat.le_refl _) (fun _ => Nat.le_refl _) (fun _ => Nat.le_refl _) ?_
    intro p; simp only [mD, finishFail, List.countP_cons, isCompI]; simp
  | recI pid msg =>
    obtain ⟨e1, e2, e3, _, e5⟩ := waitRel_meas s pid msg
    refine invR_weaken I (fun p => by simp [mA, finishFail, e1]) (fun p => by simp [mR, finishFail, e2]) (fun p => by simp [finishFail, e5]) ?_
    intro p; simp only [mD_eq, finishFail, e5, stored2, e3, List.countP_cons, isCompI]; simp
  | compI pid msg =>
    obtain ⟨e1, e2, e3, _, e5⟩ := waitRel_meas s pid msg
    refine invR_weaken I (fun p => by simp [mA, finishFail, e1]) (fun p => by simp [mR, finishFail, e2]) (fun p => by simp [finishFail, e5]) ?_
    intro p; simp only [mD_eq, finishFail, e5, stored2, e3, List.countP_cons, isCompI]
    by_cases hp : pid = p
    · subst hp; simp; try omega
    · have : (pid == p) = false := by simpa using hp
      simp [this]

theorem drain_inv' {hist : List Ev} (f : S → Item → S) (hf : ∀ s it rest, InvR hist s (it :: rest) → InvR hist (f s it) rest) :
    ∀ (items tail : List Item) (s : S), InvR hist s (items ++ tail) → InvR hist (drain f s items) tail := by
  intro items
  induction items with
  | nil => intro tail s I; simpa [drain] using I
  | cons it rest ih => intro tail s I; exact ih tail _ (hf s it (rest ++ tail) (by simpa using I))

theorem drain_batch (f : S → Item → S) (hf : ∀ s it, (f s it).batch = s.batch) : ∀ (items : List Item) (t : S), (drain f t items).batch = t.batch := by
  intro items; induction items with
  | nil => intro t; rfl
  | cons it rest ih => intro t; simp only [drain]; rw [ih, hf]

theorem finishOk_batch (s : S) (it : Item) : (finishOk s it).batch = s.batch := by
  cases it <;> simp only [finishOk] <;> first | rfl | exact (waitRel_meas s _ _).2.2.2.1

theorem finishFail_batch (s : S) (it : Item) : (finishFail s it).batch = s.batch := by
  cases it <;> simp only [finishFail] <;> first | rfl | exact (waitRel_meas s _ _).2.2.2.1

def Inv (hist : List Ev) (s : S) : Prop := InvR hist s s.batch

theorem compItems_count (q : List (Nat × Nat)) (p : Nat) : (q.map fun x => Item.compI x.1 x.2).countP (isCompI p) = qcount q p := by
  induction q with
  | nil => rfl
  | cons x xs ih => simp only [List.map_cons, List.countP_cons, isCompI, qcount] at ih ⊢; rw [ih]; congr 1

theorem recItems_count (q : List (Nat × Nat)) (p : Nat) : (q.map fun x => Item.recI x.1 x.2).countP (isCompI p) = 0 := by
  induction q with
  | nil => rfl
  | cons x xs ih => simp only [List.map_cons, List.countP_cons, isCompI, ih]; simp

theorem inv_init : Inv [] init := by
  refine ⟨?_, ?_, ?_, ?_⟩ <;> intro p <;> simp [cnt, init, mA, mR, mC, mD, qcount, fastN, stored2]

end Mqtt5V.Proofs.TraceIn
