import Mqtt5V.Proofs.TraceTruth
/-! Flow-control invariant of the composed outbound model and the Receive Maximum theorem (C07). -/
namespace Mqtt5V.Proofs.Trace
open Mqtt5V.Model.Trace

/-- flow control: the identifiers in flight on the wire all hold a token, tokens + quota = Receive Maximum -/
structure QuotaInv (hist : List Ev) (s : S) : Prop where
  wnd : s.wire.Nodup
  hnd : s.holders.Nodup
  sub : ∀ p ∈ s.wire, p ∈ s.holders
  bal : s.holders.length + s.quota = s.limit
  decl : wireOf hist = { connected := s.connected, rm := s.limit, inflight := s.wire }
  off : s.connected = false → s.wire = []

theorem wireOf_snoc (hist : List Ev) (e : Ev) : wireOf (hist ++ [e]) = wireStep (wireOf hist) e := by
  simp [wireOf, List.foldl_append]

theorem addWire_nodup {w : List Nat} (p : Nat) (h : w.Nodup) : (addWire w p).Nodup := by
  unfold addWire; split
  · exact h
  · rename_i hn; exact List.nodup_cons.2 ⟨hn, h⟩

theorem mem_addWire {w : List Nat} {p q : Nat} : q ∈ addWire w p ↔ q = p ∨ q ∈ w := by
  unfold addWire; split
  · rename_i hm; constructor
    · intro h; exact Or.inr h
    · rintro (rfl | h); exact hm; exact h
  · simp

theorem nodup_subset_length {w h : List Nat} (hw : w.Nodup) (hs : ∀ p ∈ w, p ∈ h) : w.length ≤ h.length := by
  induction w generalizing h with
  | nil => simp
  | cons a w ih =>
    have ha : a ∈ h := hs a (by simp)
    have hw' := List.nodup_cons.1 hw
    have := ih (h := h.erase a) hw'.2 (by
      intro p hp
      have hne : p ≠ a := by rintro rfl; exact hw'.1 hp
      exact (List.mem_erase_of_ne hne).2 (hs p (by simp [hp])))
    rw [List.length_erase_of_mem ha] at this
    have hpos : 0 < h.length := List.length_pos_of_mem ha
    simp only [List.length_cons]; omega

theorem quota_keep {hist : List Ev} {s s' : S} {e : Ev} (I : QuotaInv hist s)
    (h1 : s'.wire = s.wire) (h2 : s'.holders = s.holders) (h3 : s'.quota = s.quota) (h4 : s'.limit = s.limit) (h5 : s'.connected = s.connected)
    (hw : wireStep (wireOf hist) e = wireOf hist) : QuotaInv (hist ++ [e]) s' := by
  refine ⟨h1 ▸ I.wnd, h2 ▸ I.hnd, ?_, ?_, ?_, ?_⟩
  · rw [h1, h2]; exact I.sub
  · rw [h2, h3, h4]; exact I.bal
  · rw [wireOf_snoc, hw, I.decl, h1, h4, h5]
  · rw [h1, h5]; exact I.off

theorem quotaInv_init : QuotaInv [] init := by
  refine ⟨?_, ?_, ?_, ?_, ?_, ?_⟩ <;> simp [init, wireOf]


theorem quotaInv_step (hist : List Ev) (s : S) (e : Ev) (s' : S) (I : QuotaInv hist s) (h : step s e = some s') :
    QuotaInv (hist ++ [e]) s' := by
  cases e with
  | init op k n =>
    simp only [step] at h; split at h
    · simp at h
    · simp only [Option.some.injEq] at h; subst h; exact quota_keep I rfl rfl rfl rfl rfl rfl
  | connUp rm =>
    simp only [step, Option.some.injEq] at h; subst h
    refine ⟨by simp, by simp, by simp, by simp, ?_, by simp⟩
    rw [wireOf_snoc]; simp [wireStep]
  | connDown =>
    simp only [step, Option.some.injEq] at h; subst h
    refine ⟨by simp, by simp, by simp, by simp, ?_, by simp⟩
    rw [wireOf_snoc, I.decl]; simp [wireStep]
  | wr =>
    simp only [step] at h; split at h
    · simp at h
    · simp only [Option.some.injEq] at h; subst h; exact quota_keep I rfl rfl rfl rfl rfl rfl
  | pk p =>
    simp only [step] at h; split at h
    · rcases stepPk_spec h with ⟨op, q, pid, dup, body, k, rfl, _, s1, hr, ha⟩ | ⟨op, pid, body, rfl, hr⟩ | ⟨op, pid, body, rfl, hr⟩ | ⟨pid, sl, rfl, hs, hk, hph, rfl⟩ | ⟨rfl, rfl⟩
      · obtain ⟨_, _, _, f4, f5, f6, f7, f8⟩ := request_frame hr
        have hdecl : wireOf (hist ++ [Ev.pk (.publish op q pid dup body)]) =
            if s.connected then { connected := s.connected, rm := s.limit, inflight := addWire s.wire pid } else { connected := s.connected, rm := s.limit, inflight := s.wire } := by
          rw [wireOf_snoc, I.decl]; simp only [wireStep]
        rcases account_spec ha with ⟨hc, rfl⟩ | ⟨hc, _, hm, rfl⟩ | ⟨hc, _, hm, hq, rfl⟩
        · rw [f4] at hc
          refine ⟨f8 ▸ I.wnd, f7 ▸ I.hnd, by rw [f8, f7]; exact I.sub, by rw [f7, f6, f5]; exact I.bal, ?_, by rw [f8, f4]; exact I.off⟩
          rw [hdecl, f4, f5, f8]; simp [hc]
        · rw [f4] at hc; rw [f7] at hm
          refine ⟨?_, ?_, ?_, ?_, ?_, ?_⟩
          · simp only [f8]; exact addWire_nodup pid I.wnd
          · simp only [f7]; exact I.hnd
          · simp only [f8, f7]; intro p hp; rcases mem_addWire.1 hp with rfl | hp
            · exact hm
            · exact I.sub p hp
          · simp only [f7, f6, f5]; exact I.bal
          · rw [hdecl]; simp [hc, f4, f5, f8]
          · simp [f4, hc]
        · rw [f4] at hc; rw [f7] at hm; rw [f6] at hq
          refine ⟨?_, ?_, ?_, ?_, ?_, ?_⟩
          · simp only [f8]; exact addWire_nodup pid I.wnd
          · simp only [f7]; exact List.nodup_cons.2 ⟨hm, I.hnd⟩
          · simp only [f8, f7]; intro p hp; rcases mem_addWire.1 hp with rfl | hp
            · simp
            · simp [I.sub p hp]
          · simp only [f7, f6, f5, List.length_cons]; have := I.bal; omega
          · rw [hdecl]; simp [hc, f4, f5, f8]
          · simp [f4, hc]
      · obtain ⟨_, _, _, f4, f5, f6, f7, f8⟩ := request_frame hr
        exact quota_keep I f8 f7 f6 f5 f4 rfl
      · obtain ⟨_, _, _, f4, f5, f6, f7, f8⟩ := request_frame hr
        exact quota_keep I f8 f7 f6 f5 f4 rfl
      · exact quota_keep I rfl rfl rfl rfl rfl rfl
      · exact quota_keep I rfl rfl rfl rfl rfl rfl
    · simp at h
  | wrOk =>
    simp only [step] at h; split at h
    · simp only [Option.some.injEq] at h; subst h; exact quota_keep I rfl rfl rfl rfl rfl rfl
    · simp at h
  | wrFail =>
    simp only [step] at h; split at h
    · simp only [Option.some.injEq] at h; subst h; exact quota_keep I rfl rfl rfl rfl rfl rfl
    · simp at h
  | rx a =>
    simp only [step, Option.some.injEq] at h; subst h
    have hdecl : wireOf (hist ++ [Ev.rx a]) =
        if a.final then { connected := s.connected, rm := s.limit, inflight := s.wire.erase a.pid } else { connected := s.connected, rm := s.limit, inflight := s.wire } := by
      rw [wireOf_snoc, I.decl]; simp only [wireStep]
    have hrf : releases s a = true → a.final = true ∧ a.pid ∈ s.holders := by
      intro hr; unfold releases at hr; simp only [Bool.and_eq_true, decide_eq_true_eq] at hr; exact ⟨hr.1.1, hr.1.2⟩
    by_cases hf : a.final = true
    · by_cases hrel : releases s a = true
      · have hm := (hrf hrel).2
        simp only [hf, hrel, if_true]
        refine ⟨I.wnd.erase _, I.hnd.erase _, ?_, ?_, ?_, ?_⟩
        · intro p hp
          have := (I.wnd.mem_erase_iff).1 hp
          exact (List.mem_erase_of_ne this.1).2 (I.sub p this.2)
        · simp only []; rw [List.length_erase_of_mem hm]
          have := I.bal; have hpos : 0 < s.holders.length := List.length_pos_of_mem hm
          omega
        · rw [hdecl]; simp [hf]
        · intro hc; simp only [] at hc ⊢; rw [I.off hc]; simp
      · simp only [hf, hrel, if_true]
        refine ⟨I.wnd.erase _, I.hnd, ?_, I.bal, ?_, ?_⟩
        · intro p hp; exact I.sub p (List.mem_of_mem_erase hp)
        · rw [hdecl]; simp [hf]
        · intro hc; simp only [] at hc ⊢; rw [I.off hc]; simp
    · have hrel : ¬ releases s a = true := fun hr => hf (hrf hr).1
      simp only [hf, hrel]
      refine ⟨I.wnd, I.hnd, I.sub, I.bal, ?_, I.off⟩
      rw [hdecl]; simp [hf]
  | doneOk op rcs props =>
    simp only [step] at h
    repeat' split at h
    all_goals first | (simp at h; done) | skip
    simp only [Option.some.injEq] at h; subst h
    exact quota_keep I rfl rfl rfl rfl rfl rfl
  | doneOther op =>
    simp only [step] at h
    repeat' split at h
    all_goals first | (simp at h; done) | skip
    all_goals simp only [Option.some.injEq] at h; subst h
    all_goals exact quota_keep I rfl rfl rfl rfl rfl rfl
  | quiescent =>
    simp only [step] at h; split at h
    · simp only [Option.some.injEq] at h; subst h; exact quota_keep I rfl rfl rfl rfl rfl rfl
    · simp at h

  | cancelAll => simp only [step, Option.some.injEq] at h; subst h; exact quota_keep I rfl rfl rfl rfl rfl rfl
  | restart => simp only [step, Option.some.injEq] at h; subst h; exact quota_keep I rfl rfl rfl rfl rfl rfl
theorem quotaInv_reach {tr : List Ev} {s : S} (h : run init tr = some s) : QuotaInv tr s :=
  inv_reach QuotaInv quotaInv_init quotaInv_step tr s h

/-- **C07 on accepted event lists**: after every prefix, the number of QoS 1/2 PUBLISH packets in flight on the connection is at most
the Receive Maximum of that connection -/
theorem receive_maximum_respected {tr : List Ev} (hacc : accepts tr = true) (pre post : List Ev) (hsplit : tr = pre ++ post) :
    (wireOf pre).inflight.length ≤ (wireOf pre).rm := by
  obtain ⟨s, hr⟩ := (accepts_iff _).1 hacc
  rw [hsplit] at hr
  obtain ⟨s1, hr1, _⟩ := run_prefix hr
  have I := quotaInv_reach hr1
  rw [I.decl]; simp only []
  have := nodup_subset_length I.wnd I.sub
  have := I.bal
  omega

/-! ### order of PUBLISH packets on a connection (C06) -/


theorem request_lastPub {s s' : S} {op pid : Nat} {k : Kind} {dup : Bool} {body : Nat} (h : request s op pid k dup body = some s') :
    s'.lastPub = s.lastPub ∧ s'.connected = s.connected := by
  obtain ⟨_, _, n, _, hc | ⟨sl, _, _, _, _, _, rfl⟩⟩ := request_spec h
  · obtain ⟨_, _, _, rfl⟩ := hc; exact ⟨rfl, rfl⟩
  · exact ⟨rfl, rfl⟩

/-- order of the PUBLISH packets of the current connection -/
structure OrderInv (hist : List Ev) (s : S) : Prop where
  conn : (hist.foldl pubsStep (false, [])).1 = s.connected
  le : ∀ x ∈ (hist.foldl pubsStep (false, [])).2, x ≤ s.lastPub
  sorted : (hist.foldl pubsStep (false, [])).2.Pairwise (· < ·)

theorem order_keep {hist : List Ev} {s s' : S} {e : Ev} (I : OrderInv hist s) (h1 : s'.connected = s.connected) (h2 : s'.lastPub = s.lastPub)
    (he : ∀ st, pubsStep st e = st) : OrderInv (hist ++ [e]) s' := by
  refine ⟨?_, ?_, ?_⟩ <;> simp only [List.foldl_append, List.foldl_cons, List.foldl_nil, he, h1, h2]
  · exact I.conn
  · exact I.le
  · exact I.sorted

theorem orderInv_step (hist : List Ev) (s : S) (e : Ev) (s' : S) (I : OrderInv hist s) (h : step s e = some s') : OrderInv (hist ++ [e]) s' := by
  cases e with
  | init op k n =>
    simp only [step] at h; split at h
    · simp at h
    · simp only [Option.some.injEq] at h; subst h; exact order_keep I rfl rfl (fun _ => rfl)
  | connUp rm =>
    simp only [step, Option.some.injEq] at h; subst h
    refine ⟨?_, ?_, ?_⟩ <;> simp [List.foldl_append, pubsStep]
  | connDown =>
    simp only [step, Option.some.injEq] at h; subst h
    refine ⟨?_, ?_, ?_⟩ <;> simp [List.foldl_append, pubsStep]
  | wr =>
    simp only [step] at h; split at h
    · simp at h
    · simp only [Option.some.injEq] at h; subst h; exact order_keep I rfl rfl (fun _ => rfl)
  | pk p =>
    simp only [step] at h; split at h
    · rcases stepPk_spec h with ⟨op, q, pid, dup, body, k, rfl, _, s1, hr, ha⟩ | ⟨op, pid, body, rfl, hr⟩ | ⟨op, pid, body, rfl, hr⟩ | ⟨pid, sl, rfl, hs, hk, hph, rfl⟩ | ⟨rfl, rfl⟩
      · obtain ⟨f1, f2⟩ := request_lastPub hr
        rcases account_spec ha with ⟨hc, rfl⟩ | ⟨hc, hl, _, rfl⟩ | ⟨hc, hl, _, _, rfl⟩
        · rw [f2] at hc
          have hst : (hist.foldl pubsStep (false, [])).1 = false := by rw [I.conn, hc]
          refine ⟨?_, ?_, ?_⟩ <;> simp only [List.foldl_append, List.foldl_cons, List.foldl_nil, pubsStep, hst, f1, f2]
          · exact hst.trans hc.symm
          · exact I.le
          · exact I.sorted
        all_goals
          rw [f2] at hc; rw [f1] at hl
          have hst : (hist.foldl pubsStep (false, [])).1 = true := by rw [I.conn, hc]
          refine ⟨?_, ?_, ?_⟩ <;> simp only [List.foldl_append, List.foldl_cons, List.foldl_nil, pubsStep, hst, if_true]
          · simp [f2, hc]
          · intro x hx; simp only [List.mem_append, List.mem_singleton] at hx
            rcases hx with hx | rfl
            · have := I.le x hx; omega
            · exact Nat.le_refl _
          · rw [List.pairwise_append]
            refine ⟨I.sorted, by simp, ?_⟩
            intro a hmem b hb; simp only [List.mem_singleton] at hb; subst hb
            have := I.le a hmem; omega
      · obtain ⟨f1, f2⟩ := request_lastPub hr; exact order_keep I f2 f1 (fun _ => rfl)
      · obtain ⟨f1, f2⟩ := request_lastPub hr; exact order_keep I f2 f1 (fun _ => rfl)
      · exact order_keep I rfl rfl (fun _ => rfl)
      · exact order_keep I rfl rfl (fun _ => rfl)
    · simp at h
  | wrOk =>
    simp only [step] at h; split at h
    · simp only [Option.some.injEq] at h; subst h; exact order_keep I rfl rfl (fun _ => rfl)
    · simp at h
  | wrFail =>
    simp only [step] at h; split at h
    · simp only [Option.some.injEq] at h; subst h; exact order_keep I rfl rfl (fun _ => rfl)
    · simp at h
  | rx a => simp only [step, Option.some.injEq] at h; subst h; exact order_keep I rfl rfl (fun _ => rfl)
  | quiescent =>
    simp only [step] at h; split at h
    · simp only [Option.some.injEq] at h; subst h; exact order_keep I rfl rfl (fun _ => rfl)
    · simp at h
  | cancelAll => simp only [step, Option.some.injEq] at h; subst h; exact order_keep I rfl rfl (fun _ => rfl)
  | restart => simp only [step, Option.some.injEq] at h; subst h; exact order_keep I rfl rfl (fun _ => rfl)
  | doneOk op rcs props =>
    simp only [step] at h
    repeat' split at h
    all_goals first | (simp at h; done) | skip
    simp only [Option.some.injEq] at h; subst h; exact order_keep I rfl rfl (fun _ => rfl)
  | doneOther op =>
    simp only [step] at h
    repeat' split at h
    all_goals first | (simp at h; done) | skip
    all_goals simp only [Option.some.injEq] at h; subst h
    all_goals exact order_keep I rfl rfl (fun _ => rfl)

theorem orderInv_reach {tr : List Ev} {s : S} (h : run init tr = some s) : OrderInv tr s :=
  inv_reach OrderInv ⟨rfl, by simp, by simp⟩ orderInv_step tr s h

/-- **C06 on accepted event lists**: after every prefix, the QoS 1/2 PUBLISH packets written on the current connection are in the order in
which their operations were initiated (operations are numbered in initiation order) — first transmissions and retransmissions alike -/
theorem publish_order {tr : List Ev} (hacc : accepts tr = true) (pre post : List Ev) (hsplit : tr = pre ++ post) :
    (pubsOf pre).Pairwise (· < ·) := by
  obtain ⟨s, hr⟩ := (accepts_iff _).1 hacc
  rw [hsplit] at hr
  obtain ⟨s1, hr1, _⟩ := run_prefix hr
  exact (orderInv_reach hr1).sorted


/-! ### nothing succeeds after cancel() (C05, C09) -/


def CancelInv (hist : List Ev) (s : S) : Prop := cancelledOf hist = s.cancelled

theorem cancelledOf_snoc (h : List Ev) (e : Ev) :
    cancelledOf (h ++ [e]) = (match e with | .cancelAll => true | .restart => false | _ => cancelledOf h) := by
  simp only [cancelledOf, List.foldl_append, List.foldl_cons, List.foldl_nil]
  cases e <;> rfl

theorem cancelInv_step (hist : List Ev) (s : S) (e : Ev) (s' : S) (I : CancelInv hist s) (h : step s e = some s') : CancelInv (hist ++ [e]) s' := by
  unfold CancelInv at *
  rw [cancelledOf_snoc]
  cases e with
  | init op k n =>
    simp only [step] at h; split at h
    · simp at h
    · simp only [Option.some.injEq] at h; subst h; exact I
  | connUp rm => simp only [step, Option.some.injEq] at h; subst h; exact I
  | connDown => simp only [step, Option.some.injEq] at h; subst h; exact I
  | wr =>
    simp only [step] at h; split at h
    · simp at h
    · simp only [Option.some.injEq] at h; subst h; exact I
  | pk p =>
    simp only [step] at h; split at h
    · have : s'.cancelled = s.cancelled := by
        rcases stepPk_spec h with ⟨op, q, pid, dup, body, k, rfl, _, s1, hr, ha⟩ | ⟨op, pid, body, rfl, hr⟩ | ⟨op, pid, body, rfl, hr⟩ | ⟨pid, sl, rfl, hs, hk, hph, rfl⟩ | ⟨rfl, rfl⟩
        · have h1 : s1.cancelled = s.cancelled := by
            obtain ⟨_, _, n, _, hc | ⟨sl, _, _, _, _, _, rfl⟩⟩ := request_spec hr
            · obtain ⟨_, _, _, rfl⟩ := hc; rfl
            · rfl
          rcases account_spec ha with ⟨_, rfl⟩ | ⟨_, _, _, rfl⟩ | ⟨_, _, _, _, rfl⟩ <;> exact h1
        · obtain ⟨_, _, n, _, hc | ⟨sl, _, _, _, _, _, rfl⟩⟩ := request_spec hr
          · obtain ⟨_, _, _, rfl⟩ := hc; rfl
          · rfl
        · obtain ⟨_, _, n, _, hc | ⟨sl, _, _, _, _, _, rfl⟩⟩ := request_spec hr
          · obtain ⟨_, _, _, rfl⟩ := hc; rfl
          · rfl
        · rfl
        · rfl
      rw [this]; exact I
    · simp at h
  | wrOk =>
    simp only [step] at h; split at h
    · simp only [Option.some.injEq] at h; subst h; exact I
    · simp at h
  | wrFail =>
    simp only [step] at h; split at h
    · simp only [Option.some.injEq] at h; subst h; exact I
    · simp at h
  | rx a => simp only [step, Option.some.injEq] at h; subst h; exact I
  | quiescent =>
    simp only [step] at h; split at h
    · simp only [Option.some.injEq] at h; subst h; exact I
    · simp at h
  | cancelAll => simp only [step, Option.some.injEq] at h; subst h; rfl
  | restart => simp only [step, Option.some.injEq] at h; subst h; rfl
  | doneOk op rcs props =>
    simp only [step] at h
    repeat' split at h
    all_goals first | (simp at h; done) | skip
    simp only [Option.some.injEq] at h; subst h; exact I
  | doneOther op =>
    simp only [step] at h
    repeat' split at h
    all_goals first | (simp at h; done) | skip
    all_goals simp only [Option.some.injEq] at h; subst h
    all_goals exact I

theorem cancelInv_reach {tr : List Ev} {s : S} (h : run init tr = some s) : CancelInv tr s :=
  inv_reach CancelInv rfl cancelInv_step tr s h

/-- **C05 / C09 on accepted event lists**: after cancel() (a terminal cancellation, a finished async_disconnect) and until async_run() is
called again, no publish, subscribe or unsubscribe completes successfully -/
theorem no_success_after_cancel {pre post : List Ev} {op : Nat} {rcs : List Nat} {props : Nat}
    (hacc : accepts (pre ++ .doneOk op rcs props :: post) = true) : cancelledOf pre = false := by
  obtain ⟨s, hr⟩ := (accepts_iff _).1 hacc
  obtain ⟨s1, hr1, hr2⟩ := run_prefix hr
  have I := cancelInv_reach hr1
  simp only [run] at hr2
  cases hs : step s1 (.doneOk op rcs props) with
  | none => simp [hs] at hr2
  | some s2 =>
    simp only [step] at hs; split at hs
    · simp at hs
    · rename_i hg
      simp only [Bool.or_eq_true, not_or, Bool.not_eq_true] at hg
      unfold CancelInv at I; rw [I]; exact hg.2


end Mqtt5V.Proofs.Trace
