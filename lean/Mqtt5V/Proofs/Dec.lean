import Mqtt5V.Model.Dec
/-! In-bounds lemmas for the index-based decoder model: when the limit a parser is given lies inside the received
packet, no read outside the packet happens; and positions only move forward, never beyond the limit. -/
namespace Mqtt5V.Proofs.Dec
open Mqtt5V.Wire Mqtt5V.Model.Dec Mqtt5V.Gen.PropTable

def Res.inb {α} : Res α → Prop
  | .oob => False
  | _ => True

/-- result is not a read outside the packet, and a success ends at a position ≤ lim (and ≥ start) -/
def Good {α} (pos lim : Nat) (r : Res α) : Prop :=
  match r with
  | .ok _ p => pos ≤ p ∧ p ≤ lim
  | .fail => True
  | .oob => False

theorem good_bind {α β} {pos lim : Nat} {r : Res α} {f : α → Nat → Res β}
    (hr : Good pos lim r) (hf : ∀ v p, pos ≤ p → p ≤ lim → Good p lim (f v p)) : Good pos lim (r.bind f) := by
  cases r with
  | ok v p =>
    simp only [Res.bind]
    have := hf v p hr.1 hr.2
    cases hfv : f v p with
    | ok w q => rw [hfv] at this; exact ⟨Nat.le_trans hr.1 this.1, this.2⟩
    | fail => trivial
    | oob => rw [hfv] at this; exact this
  | fail => trivial
  | oob => exact hr

theorem good_whole {α} {pos lim : Nat} {r : Res α} (h : Good pos lim r) : Good pos lim (whole lim r) := by
  cases r with
  | ok v p =>
    simp only [whole]
    split
    · exact h
    · trivial
  | fail => trivial
  | oob => exact h

theorem byte_good (c : Ctx) (pos lim : Nat) (h : lim ≤ c.realLast) : Good pos lim (byte c pos lim) := by
  unfold byte
  split
  · trivial
  · split
    · omega
    · exact ⟨by omega, by omega⟩

theorem bigWord_good (c : Ctx) (pos lim : Nat) (h : lim ≤ c.realLast) : Good pos lim (bigWord c pos lim) := by
  unfold bigWord
  apply good_bind (byte_good c pos lim h)
  intro a p _ _
  apply good_bind (byte_good c p lim h)
  intro b p' h1 h2
  exact ⟨Nat.le_refl _, h2⟩

theorem bigDword_good (c : Ctx) (pos lim : Nat) (h : lim ≤ c.realLast) : Good pos lim (bigDword c pos lim) := by
  unfold bigDword
  apply good_bind (bigWord_good c pos lim h)
  intro a p _ _
  apply good_bind (bigWord_good c p lim h)
  intro b p' h1 h2
  exact ⟨Nat.le_refl _, h2⟩

theorem varint_good (c : Ctx) (pos lim : Nat) (h : lim ≤ c.realLast) : Good pos lim (varint c pos lim) := by
  unfold varint
  apply good_bind (byte_good c pos lim h)
  intro b0 p0 h0 h0'
  split
  · exact ⟨Nat.le_refl _, h0'⟩
  · apply good_bind (byte_good c p0 lim h)
    intro b1 p1 h1 h1'
    split
    · exact ⟨Nat.le_refl _, h1'⟩
    · apply good_bind (byte_good c p1 lim h)
      intro b2 p2 h2 h2'
      split
      · exact ⟨Nat.le_refl _, h2'⟩
      · apply good_bind (byte_good c p2 lim h)
        intro b3 p3 h3 h3'
        split
        · exact ⟨Nat.le_refl _, h3'⟩
        · trivial

theorem slice_good (c : Ctx) (pos n lim : Nat) (h : lim ≤ c.realLast) : Good pos lim (slice c pos n lim) := by
  unfold slice
  split
  · trivial
  · split
    · omega
    · exact ⟨by omega, by omega⟩

theorem lenPrefix_good (c : Ctx) (pos lim : Nat) (h : lim ≤ c.realLast) : Good pos lim (lenPrefix c pos lim) := by
  unfold lenPrefix
  apply good_bind (bigWord_good c pos lim h)
  intro n p _ _
  exact slice_good c p n lim h

theorem value_good (k : Kind) (c : Ctx) (pos lim : Nat) (h : lim ≤ c.realLast) : Good pos lim (value k c pos lim) := by
  cases k <;> simp only [value]
  · exact good_bind (byte_good c pos lim h) (fun _ _ h1 h2 => ⟨Nat.le_refl _, h2⟩)
  · exact good_bind (bigWord_good c pos lim h) (fun _ _ h1 h2 => ⟨Nat.le_refl _, h2⟩)
  · exact good_bind (bigDword_good c pos lim h) (fun _ _ h1 h2 => ⟨Nat.le_refl _, h2⟩)
  · exact good_bind (varint_good c pos lim h) (fun _ _ h1 h2 => ⟨Nat.le_refl _, h2⟩)
  · exact good_bind (lenPrefix_good c pos lim h) (fun _ _ h1 h2 => ⟨Nat.le_refl _, h2⟩)
  · apply good_bind (lenPrefix_good c pos lim h)
    intro k p _ _
    exact good_bind (lenPrefix_good c p lim h) (fun _ _ h1 h2 => ⟨Nat.le_refl _, h2⟩)

theorem propLoop_good (allowed : List Nat) (c : Ctx) (slast : Nat) (h : slast ≤ c.realLast) :
    ∀ fuel pos acc, pos ≤ slast → Good pos slast (propLoop allowed c fuel pos slast acc) := by
  intro fuel
  induction fuel with
  | zero => intro pos acc _; trivial
  | succ fuel ih =>
    intro pos acc hp
    simp only [propLoop]
    split
    · exact ⟨Nat.le_refl _, hp⟩
    · rename_i hlt
      split
      · omega
      · split
        · trivial
        · split
          · trivial
          · rename_i k _ _
            have hv := value_good k c (pos + 1) slast h
            cases hval : value k c (pos + 1) slast with
            | ok v p =>
              rw [hval] at hv
              simp only []
              have := ih p (acc ++ [⟨c.mem.getD pos 0, v⟩]) hv.2
              cases hl : propLoop allowed c fuel p slast (acc ++ [⟨c.mem.getD pos 0, v⟩]) with
              | ok w q =>
                rw [hl] at this
                have a1 : pos + 1 ≤ p := hv.1
                have a2 : p ≤ q := this.1
                exact ⟨by omega, this.2⟩
              | fail => trivial
              | oob => rw [hl] at this; exact this
            | fail => trivial
            | oob => rw [hval] at hv; exact hv

theorem props_good (allowed : List Nat) (c : Ctx) (pos lim : Nat) (h : lim ≤ c.realLast) (hp : pos ≤ lim) :
    Good pos lim (props allowed c pos lim) := by
  unfold props
  split
  · exact ⟨Nat.le_refl _, hp⟩
  · apply good_bind (varint_good c pos lim h)
    intro len p h1 h2
    split
    · trivial
    · rename_i hlen
      have hs : p + len ≤ lim := by omega
      have hg := propLoop_good allowed c (p + len) (by omega) (len + 1) p [] (by omega)
      cases hl : propLoop allowed c (len + 1) p (p + len) [] with
      | ok raw q =>
        rw [hl] at hg
        simp only [Res.bind]
        exact ⟨hg.1, by have := hg.2; omega⟩
      | fail => trivial
      | oob => rw [hl] at hg; exact hg

end Mqtt5V.Proofs.Dec
