import Mqtt5V.Model.Connect
import Mqtt5V.Proofs.Dec
/-! Helper lemmas for the connection-establishment model (C10 / C11 / C19 handshake half). -/
namespace Mqtt5V.Proofs.Connect
open Mqtt5V.Wire Mqtt5V.Gen.Timing Mqtt5V.Model Mqtt5V.Model.Connect

/-- pauses of a trace, in order -/
def pausesOf : List Act → List Nat
  | [] => []
  | .pause e :: r => e :: pausesOf r
  | _ :: r => pausesOf r

/-- hosts resolved in a trace, in order -/
def resolvesOf : List Act → List Nat
  | [] => []
  | .resolve i :: r => i :: resolvesOf r
  | _ :: r => resolvesOf r

def isEstablished : Act → Bool
  | .established _ _ => true
  | _ => false

def Outcome.succeeds : Outcome → Bool
  | .resolveFail => false
  | .eps l => l.any id

/-- the exponents a fresh generator at `e` hands out: `min e 4, min (e+1) 4, …` -/
def expected (e : Nat) : Nat → List Nat
  | 0 => []
  | k + 1 => min e backoffMaxExp :: expected (e + 1) k

theorem backoffStep_fst (cur : Nat) : (backoffStep cur).1 = min cur backoffMaxExp := by
  unfold backoffStep; split <;> simp <;> omega

theorem expected_step (cur k : Nat) : expected (backoffStep cur).2 k = expected (cur + 1) k := by
  unfold backoffStep
  split
  · rfl
  · rename_i h
    simp only
    induction k generalizing cur with
    | zero => rfl
    | succ k ih =>
      simp only [expected]
      have h1 : ¬ cur + 1 < backoffMaxExp := by omega
      rw [ih (cur + 1) h1]
      have : min cur backoffMaxExp = min (cur + 1) backoffMaxExp := by omega
      rw [this]

/-! tryEps -/

theorem tryEps_ok (host j : Nat) (l : List Bool) : (tryEps host j l).2 = l.any id := by
  induction l generalizing j with
  | nil => rfl
  | cons b r ih => cases b <;> simp [tryEps, ih]

theorem tryEps_pauses (host j : Nat) (l : List Bool) : pausesOf (tryEps host j l).1 = [] := by
  induction l generalizing j with
  | nil => rfl
  | cons b r ih => cases b <;> simp [tryEps, pausesOf, ih]

theorem tryEps_resolves (host j : Nat) (l : List Bool) : resolvesOf (tryEps host j l).1 = [] := by
  induction l generalizing j with
  | nil => rfl
  | cons b r ih => cases b <;> simp [tryEps, resolvesOf, ih]

theorem pausesOf_append (a b : List Act) : pausesOf (a ++ b) = pausesOf a ++ pausesOf b := by
  induction a with
  | nil => rfl
  | cons x r ih => cases x <;> simp [pausesOf, ih]

theorem resolvesOf_append (a b : List Act) : resolvesOf (a ++ b) = resolvesOf a ++ resolvesOf b := by
  induction a with
  | nil => rfl
  | cons x r ih => cases x <;> simp [resolvesOf, ih]

theorem tryEps_established (host j : Nat) (l : List Bool) :
    (tryEps host j l).1.any isEstablished = (tryEps host j l).2 := by
  induction l generalizing j with
  | nil => rfl
  | cons b r ih => cases b <;> simp [tryEps, isEstablished, ih]

/-- attempts on the endpoints of host `h` obey the rule at position `h+1`, and when none succeeded the rest of the trace follows -/
theorem obeys_tryEps (n host j : Nat) (l : List Bool) (rest : List Act) :
    Obeys n (host + 1) ((tryEps host j l).1 ++ (if (tryEps host j l).2 then [] else rest)) ↔
      ((tryEps host j l).2 = true ∨ Obeys n (host + 1) rest) := by
  induction l generalizing j with
  | nil => simp [tryEps]
  | cons b r ih =>
    cases b
    · simp only [tryEps, List.cons_append, Obeys, true_and]
      exact ih (j + 1)
    · simp [tryEps, Obeys]

end Mqtt5V.Proofs.Connect
