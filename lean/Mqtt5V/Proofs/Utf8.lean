import Mqtt5V.Model.Utf8
import Mqtt5V.Spec.Utf8
/-! Lemmas tying the UTF-8 model (port of the code) to the specification (Table 3-7). -/
namespace Mqtt5V.Proofs.Utf8
open Mqtt5V Model.Utf8 Spec.Utf8

/-- Boolean check over all 16-bit values, evaluated by the kernel -/
def mask16Check : Bool := (List.range 65536).all fun x => ((x &&& 65534) != 65534) == decide (x < 65534)

theorem mask16_all : mask16Check = true := by decide +kernel

theorem mask16 (x : Nat) (h : x < 65536) : ((x &&& 65534) != 65534) = decide (x < 65534) := by
  have := mask16_all
  unfold mask16Check at this
  rw [List.all_eq_true] at this
  have := this x (List.mem_range.mpr h)
  simpa using this

/-- `(c & 0xFFFE) != 0xFFFE` says: the low 16 bits are neither FFFE nor FFFF -/
theorem mask_low16 (c : Nat) : ((c &&& 65534) != 65534) = decide (c % 65536 < 65534) := by
  have h1 : c &&& 65534 = (c % 65536) &&& 65534 := by
    have h2 : c &&& 65535 = c % 65536 := Nat.and_two_pow_sub_one_eq_mod c 16
    have h3 : (65535 : Nat) &&& 65534 = 65534 := by decide
    calc c &&& 65534 = c &&& (65535 &&& 65534) := by rw [h3]
      _ = (c &&& 65535) &&& 65534 := by rw [Nat.and_assoc]
      _ = (c % 65536) &&& 65534 := by rw [h2]
  rw [h1]
  exact mask16 _ (Nat.mod_lt _ (by decide))

theorem ite_ite_none {α} {P Q : Prop} [Decidable P] [Decidable Q] (a : α) :
    (if P then (if Q then some a else none) else none) = (if P ∧ Q then some a else none) := by
  by_cases hp : P <;> by_cases hq : Q <;> simp [hp, hq]

theorem ite_some_congr {α} {P Q : Prop} [Decidable P] [Decidable Q] {a b : α} (h : P ↔ Q) (hv : P → a = b) :
    (if P then some a else none) = (if Q then some b else none) := by
  by_cases hp : P
  · simp [hp, h.mp hp, hv hp]
  · have : ¬ Q := fun hq => hp (h.mpr hq)
    simp [hp, this]

theorem ite_none_of_not {α} {P : Prop} [Decidable P] {a : α} (h : ¬ P) : (if P then some a else none) = none := by
  simp [h]

/-- Table 3-7 with the row for lead byte ED widened to 80..BF: decodes the surrogates D800..DFFF too
(the code decodes them and leaves their rejection to the character rule) -/
def decodeOneLoose : List Nat → Option (Nat × List Nat)
  | [] => none
  | b0 :: r =>
    if b0 ≤ 0x7F then some (b0, r)
    else if inRange 0xC2 0xDF b0 then
      match r with
      | b1 :: r1 => if inRange 0x80 0xBF b1 then some ((b0 - 0xC0) * 64 + (b1 - 0x80), r1) else none
      | _ => none
    else if inRange 0xE0 0xEF b0 then
      match r with
      | b1 :: b2 :: r2 =>
        let lo := if b0 = 0xE0 then 0xA0 else 0x80
        if inRange lo 0xBF b1 && inRange 0x80 0xBF b2 then
          some ((b0 - 0xE0) * 4096 + (b1 - 0x80) * 64 + (b2 - 0x80), r2)
        else none
      | _ => none
    else if inRange 0xF0 0xF4 b0 then
      match r with
      | b1 :: b2 :: b3 :: r3 =>
        let lo := if b0 = 0xF0 then 0x90 else 0x80
        let hi := if b0 = 0xF4 then 0x8F else 0xBF
        if inRange lo hi b1 && inRange 0x80 0xBF b2 && inRange 0x80 0xBF b3 then
          some ((b0 - 0xF0) * 262144 + (b1 - 0x80) * 4096 + (b2 - 0x80) * 64 + (b3 - 0x80), r3)
        else none
      | _ => none
    else none

def isSurrogate (c : Nat) : Bool := 0xD800 ≤ c && c ≤ 0xDFFF

set_option maxRecDepth 8000 in
/-- the decoder of the model is Table 3-7 with the surrogates decoded -/
theorem popFront_eq_loose (bs : List Nat) : popFront bs = decodeOneLoose bs := by
  unfold popFront decodeOneLoose
  cases bs with
  | nil => rfl
  | cons b0 r =>
    simp only [inRange, isCont, Bool.and_eq_true, decide_eq_true_eq, ge_iff_le]
    by_cases h0 : b0 < 128
    · have : b0 ≤ 127 := by omega
      simp only [h0, this, if_true]
    · have h0' : ¬ b0 ≤ 127 := by omega
      simp only [h0, h0', if_false]
      by_cases h2 : b0 / 16 * 16 = 192 ∨ b0 / 16 * 16 = 208
      · -- two-byte lead C0..DF
        have hE : ¬ (224 ≤ b0 ∧ b0 ≤ 239) := by omega
        have hF : ¬ (240 ≤ b0 ∧ b0 ≤ 244) := by omega
        simp only [h2, if_true, hE, hF, if_false]
        cases r with
        | nil => simp
        | cons b1 r1 =>
          simp only []
          by_cases hL : 194 ≤ b0 ∧ b0 ≤ 223
          · simp only [hL, and_self, if_true, ite_ite_none]
            apply ite_some_congr
            · omega
            · intro h; exact Prod.ext (by show _ = _; omega) rfl
          · simp only [hL, if_false, ite_ite_none]
            apply ite_none_of_not; omega
      · simp only [h2, if_false]
        by_cases h3 : b0 / 16 * 16 = 224
        · -- three-byte lead E0..EF
          have hC : ¬ (194 ≤ b0 ∧ b0 ≤ 223) := by omega
          have hE : 224 ≤ b0 ∧ b0 ≤ 239 := by omega
          simp only [h3, if_true, hC, if_false, hE, and_self]
          match r with
          | [] => rfl
          | [_] => rfl
          | b1 :: b2 :: r2 =>
            simp only [ite_ite_none]
            apply ite_some_congr
            · split <;> omega
            · intro h; exact Prod.ext (by show _ = _; omega) rfl
        · simp only [h3, if_false]
          by_cases h4 : b0 / 16 * 16 = 240 ∧ b0 % 16 < 8
          · -- four-byte lead F0..F7
            have hC : ¬ (194 ≤ b0 ∧ b0 ≤ 223) := by omega
            have hE : ¬ (224 ≤ b0 ∧ b0 ≤ 239) := by omega
            simp only [h4, and_self, if_true, hC, hE, if_false]
            by_cases hF : 240 ≤ b0 ∧ b0 ≤ 244
            · simp only [hF, and_self, if_true]
              match r with
              | [] => rfl
              | [_] => rfl
              | [_, _] => rfl
              | b1 :: b2 :: b3 :: r3 =>
                simp only [ite_ite_none]
                apply ite_some_congr
                · split <;> split <;> omega
                · intro h; exact Prod.ext (by show _ = _; omega) rfl
            · simp only [hF, if_false]
              match r with
              | [] => rfl
              | [_] => rfl
              | [_, _] => rfl
              | b1 :: b2 :: b3 :: r3 =>
                simp only [ite_ite_none]
                apply ite_none_of_not; omega
          · have hC : ¬ (194 ≤ b0 ∧ b0 ≤ 223) := by omega
            have hE : ¬ (224 ≤ b0 ∧ b0 ≤ 239) := by omega
            have hF : ¬ (240 ≤ b0 ∧ b0 ≤ 244) := by omega
            simp only [h4, if_false, hC, hE, hF]

def rejectSurrogate (o : Option (Nat × List Nat)) : Option (Nat × List Nat) :=
  match o with
  | some (c, r) => if isSurrogate c then none else some (c, r)
  | none => none

theorem rejectSurrogate_ite {P : Prop} [Decidable P] (c : Nat) (r : List Nat) :
    rejectSurrogate (if P then some (c, r) else none) =
      if P ∧ ¬ (55296 ≤ c ∧ c ≤ 57343) then some (c, r) else none := by
  by_cases hp : P <;> by_cases hs : (55296 ≤ c ∧ c ≤ 57343) <;> simp [rejectSurrogate, isSurrogate, hp, hs] <;> omega

@[simp] theorem rejectSurrogate_none : rejectSurrogate none = none := rfl

set_option maxRecDepth 8000 in
/-- Table 3-7 = the loose decoder followed by rejecting D800..DFFF -/
theorem decodeOne_eq_loose (bs : List Nat) : decodeOne bs = rejectSurrogate (decodeOneLoose bs) := by
  unfold decodeOne decodeOneLoose
  cases bs with
  | nil => rfl
  | cons b0 r =>
    simp only [inRange, Bool.and_eq_true, decide_eq_true_eq]
    by_cases h0 : b0 ≤ 127
    · simp only [h0, if_true, rejectSurrogate, isSurrogate]
      have : ¬ (55296 ≤ b0 ∧ b0 ≤ 57343) := by omega
      simp [this]
    · simp only [h0, if_false]
      by_cases hC : 194 ≤ b0 ∧ b0 ≤ 223
      · simp only [hC, and_self, if_true]
        cases r with
        | nil => rfl
        | cons b1 r1 =>
          simp only [rejectSurrogate_ite]
          apply ite_some_congr
          · omega
          · intro _; rfl
      · simp only [hC, if_false]
        by_cases hE : 224 ≤ b0 ∧ b0 ≤ 239
        · simp only [hE, and_self, if_true]
          match r with
          | [] => rfl
          | [_] => rfl
          | b1 :: b2 :: r2 =>
            simp only [rejectSurrogate_ite]
            apply ite_some_congr
            · split <;> split <;> omega
            · intro _; rfl
        · simp only [hE, if_false]
          by_cases hF : 240 ≤ b0 ∧ b0 ≤ 244
          · simp only [hF, and_self, if_true]
            match r with
            | [] => rfl
            | [_] => rfl
            | [_, _] => rfl
            | b1 :: b2 :: b3 :: r3 =>
              simp only [rejectSurrogate_ite]
              apply ite_some_congr
              · split <;> split <;> omega
              · intro _; rfl
          · simp only [hF, if_false, rejectSurrogate_none]

open Gen.Utf8Rule in
theorem charRule_spec (c : Nat) :
    charRule c = if isWildcard c then 1 else if allowed c && !isSurrogate c then 0 else 2 := by
  unfold charRule
  rw [mask_low16]
  simp only [isWildcard, allowed, isSurrogate, inRange]
  by_cases hw : c = 35 ∨ c = 43
  · have : ((c == 35) || (c == 43)) = true := by rcases hw with h | h <;> simp [h]
    have h2 : (decide (c = 35) || decide (c = 43)) = true := by rcases hw with h | h <;> simp [h]
    simp only [this, h2, if_true]
  · have : ((c == 35) || (c == 43)) = false := by simp; omega
    have h2 : (decide (c = 35) || decide (c = 43)) = false := by simp; omega
    simp only [this, h2, Bool.false_eq_true, if_false]
    congr 1
    simp only [Bool.and_eq_true, Bool.or_eq_true, decide_eq_true_eq, Bool.not_eq_true', decide_eq_false_iff_not, eq_iff_iff]
    simp only [Bool.and_eq_false_iff, decide_eq_false_iff_not]
    omega

theorem decode_nil : decode [] = some [] := by
  rw [decode]; rfl

theorem decode_step_none {bs : List Nat} (hne : bs ≠ []) (h : decodeOne bs = none) : decode bs = none := by
  rw [decode]
  have : bs.isEmpty = false := by cases bs <;> simp_all
  simp only [this, Bool.false_eq_true, if_false]
  split
  · rfl
  · rename_i c r h'; rw [h] at h'; cases h'

theorem decode_step_some {bs : List Nat} {c : Nat} {r : List Nat} (hne : bs ≠ []) (h : decodeOne bs = some (c, r)) :
    decode bs = (decode r).map (c :: ·) := by
  rw [decode]
  have : bs.isEmpty = false := by cases bs <;> simp_all
  simp only [this, Bool.false_eq_true, if_false]
  split
  · rename_i h'; rw [h] at h'; cases h'
  · rename_i c' r' h'; rw [h] at h'; cases h'; rfl

open Gen.Utf8Rule

theorem decodeOne_of_popFront {bs : List Nat} {c : Nat} {r : List Nat} (h : popFront bs = some (c, r)) :
    decodeOne bs = if isSurrogate c then none else some (c, r) := by
  rw [decodeOne_eq_loose, ← popFront_eq_loose, h]; rfl

theorem decodeOne_of_popFront_none {bs : List Nat} (h : popFront bs = none) : decodeOne bs = none := by
  rw [decodeOne_eq_loose, ← popFront_eq_loose, h]; rfl

/-- generic loop lemma: `validateLoop cond` returns 0 exactly when the string decodes (Table 3-7) to code
points that are all accepted by `cond ∘ charRule`; here for conditions that accept class 0 and reject class 2 -/
theorem validateLoop_zero_iff (cond : Nat → Bool) (h0 : cond 0 = true) (h2 : cond 2 = false) (bs : List Nat) :
    validateLoop cond bs = 0 ↔ ∃ cps, decode bs = some cps ∧ ∀ c ∈ cps, cond (charRule c) = true ∧ isSurrogate c = false := by
  fun_induction validateLoop cond bs with
  | case1 bs he =>
    have : bs = [] := by cases bs <;> simp_all
    subst this
    simp [decode_nil]
  | case2 bs he hp =>
    have hne : bs ≠ [] := by intro h; subst h; simp at he
    rw [decode_step_none hne (decodeOne_of_popFront_none hp)]
    simp
  | case3 bs he c r hp res hc ih =>
    have hne : bs ≠ [] := by intro h; subst h; simp at he
    have hd := decodeOne_of_popFront hp
    have hsur : isSurrogate c = false := by
      cases hs : isSurrogate c with
      | false => rfl
      | true =>
        have := charRule_spec c
        have hw : isWildcard c = false := by
          simp only [isSurrogate, Bool.and_eq_true, decide_eq_true_eq] at hs
          simp only [isWildcard]; simp; omega
        simp only [hw, hs, Bool.not_true, Bool.and_false, Bool.false_eq_true, if_false] at this
        simp only [res, this, h2] at hc
        cases hc
    rw [hsur] at hd
    simp only [Bool.false_eq_true, if_false] at hd
    rw [decode_step_some hne hd, ih]
    constructor
    · rintro ⟨cps, h1, h2'⟩
      exact ⟨c :: cps, by simp [h1], by
        intro x hx; simp at hx; rcases hx with rfl | hx
        · exact ⟨hc, hsur⟩
        · exact h2' x hx⟩
    · rintro ⟨cps, h1, h2'⟩
      cases hdr : decode r with
      | none => rw [hdr] at h1; simp at h1
      | some cps' =>
        rw [hdr] at h1; simp at h1; subst h1
        exact ⟨cps', rfl, fun x hx => h2' x (by simp [hx])⟩
  | case4 bs he c r hp res hc =>
    have hne : bs ≠ [] := by intro h; subst h; simp at he
    have hd := decodeOne_of_popFront hp
    constructor
    · intro hres
      simp only [res] at hres hc
      rw [hres, h0] at hc; exact absurd rfl hc
    · rintro ⟨cps, h1, h2'⟩
      exfalso
      cases hs : isSurrogate c with
      | true =>
        rw [hs] at hd; simp only [if_true] at hd
        rw [decode_step_none hne hd] at h1; cases h1
      | false =>
        rw [hs] at hd; simp only [Bool.false_eq_true, if_false] at hd
        rw [decode_step_some hne hd] at h1
        cases hdr : decode r with
        | none => rw [hdr] at h1; simp at h1
        | some cps' =>
          rw [hdr] at h1; simp at h1; subst h1
          have := (h2' c (by simp)).1
          simp only [res] at hc
          rw [this] at hc; exact hc rfl


theorem decodeOne_no_surrogate {bs : List Nat} {c : Nat} {r : List Nat} (h : decodeOne bs = some (c, r)) :
    isSurrogate c = false := by
  rw [decodeOne_eq_loose] at h
  unfold rejectSurrogate at h
  split at h
  · split at h
    · cases h
    · rename_i hs; simp only [Option.some.injEq, Prod.mk.injEq] at h; obtain ⟨rfl, _⟩ := h; simpa using hs
  · cases h

theorem decode_no_surrogate (bs : List Nat) : ∀ cps, decode bs = some cps → ∀ c ∈ cps, isSurrogate c = false := by
  fun_induction decode bs with
  | case1 bs he => intro cps h c hc; simp at h; subst h; simp at hc
  | case2 bs he hd => intro cps h; cases h
  | case3 bs he c r hd ih =>
    intro cps h x hx
    cases hdr : decode r with
    | none => rw [hdr] at h; simp at h
    | some cps' =>
      rw [hdr] at h; simp at h; subst h
      simp at hx
      rcases hx with rfl | hx
      · exact decodeOne_no_surrogate hd
      · exact ih cps' hdr x hx

end Mqtt5V.Proofs.Utf8
