import Mqtt5V.Proofs.TraceIn4
namespace Mqtt5V.Proofs.TraceIn
open Mqtt5V.Model.TraceIn

def itemW (it : Item) (q p m : Nat) : Nat :=
  match it with
  | .ackI p' m' => (q == 1 && p' == p && m' == m).toNat
  | .recI p' m' => (q == 2 && p' == p && m' == m).toNat
  | .compI p' m' => (q == 2 && p' == p && m' == m).toNat

theorem countP_cons_toNat {α : Type} (P : α → Bool) (x : α) (l : List α) : (x :: l).countP P = l.countP P + (P x).toNat := by
  simp only [List.countP_cons]; cases P x <;> simp

theorem hold_cons (s : S) (it : Item) (rest : List Item) (q p m : Nat) : hold s (it :: rest) q p m = hold s rest q p m + itemW it q p m := by
  simp only [hold, countP_cons_toNat, itemW]
  by_cases h1 : q = 1
  · subst h1; cases it <;> simp [isAckM, isRecM, isCompM] <;> omega
  · by_cases h2 : q = 2
    · subst h2; cases it <;> simp [isAckM, isRecM, isCompM] <;> omega
    · have e1 : (q == 1) = false := by simpa using h1
      have e2 : (q == 2) = false := by simpa using h2
      cases it <;> simp [h1, h2, e1, e2]

theorem hold_stored (s : S) (x : Nat × Nat × Nat) (rem : List Item) (q p m : Nat) :
    hold { s with stored := s.stored ++ [x] } rem q p m = hold s rem q p m + (x.1 == q && x.2.1 == p && x.2.2 == m).toNat := by
  simp only [hold, storedM, storedM_append, waitM]; omega

theorem beq_comm3 (a q : Nat) (x y : Bool) : (a == q && x && y) = (q == a && x && y) := by
  have : (a == q) = (q == a) := by
    by_cases h : a = q
    · subst h; rfl
    · have h1 : (a == q) = false := by simpa using h
      have h2 : (q == a) = false := by simpa using fun e : q = a => h e.symm
      rw [h1, h2]
  rw [this]

theorem finishOk_invM {hist : List Ev} {s : S} {it : Item} {rest : List Item} (I : InvM hist s (it :: rest)) : InvM hist (finishOk s it) rest := by
  refine invM_weaken I ?_
  intro q p m; rw [hold_cons]
  cases it with
  | ackI pid msg =>
    simp only [finishOk, hold_stored, itemW]
    rw [beq_comm3 1 q]; omega
  | recI pid msg => simp only [finishOk, itemW]; exact waitRel_hold s pid msg rest q p m
  | compI pid msg =>
    simp only [finishOk, hold_stored, itemW]
    rw [beq_comm3 2 q]; omega

theorem finishFail_invM {hist : List Ev} {s : S} {it : Item} {rest : List Item} (I : InvM hist s (it :: rest)) : InvM hist (finishFail s it) rest := by
  refine invM_weaken I ?_
  intro q p m; rw [hold_cons]
  cases it with
  | ackI pid msg => simp only [finishFail]; omega
  | recI pid msg => simp only [finishFail, itemW]; exact waitRel_hold s pid msg rest q p m
  | compI pid msg => simp only [finishFail, itemW]; exact waitRel_hold s pid msg rest q p m

theorem drain_invM {hist : List Ev} (f : S → Item → S) (hf : ∀ s it rest, InvM hist s (it :: rest) → InvM hist (f s it) rest) :
    ∀ (items tail : List Item) (s : S), InvM hist s (items ++ tail) → InvM hist (drain f s items) tail := by
  intro items
  induction items with
  | nil => intro tail s I; simpa [drain] using I
  | cons it rest ih => intro tail s I; exact ih tail _ (hf s it (rest ++ tail) (by simpa using I))

theorem compItems_ack (q0 : List (Nat × Nat)) (p m : Nat) : (q0.map fun x => Item.compI x.1 x.2).countP (isAckM p m) = 0 := by
  induction q0 with
  | nil => rfl
  | cons x xs ih => rw [List.map_cons, countP_cons_toNat, ih]; simp [isAckM]

theorem compItems_rec (q0 : List (Nat × Nat)) (p m : Nat) : (q0.map fun x => Item.compI x.1 x.2).countP (isRecM p m) = 0 := by
  induction q0 with
  | nil => rfl
  | cons x xs ih => rw [List.map_cons, countP_cons_toNat, ih]; simp [isRecM]

theorem compItems_comp (q0 : List (Nat × Nat)) (p m : Nat) : (q0.map fun x => Item.compI x.1 x.2).countP (isCompM p m) = qcM q0 p m := by
  induction q0 with
  | nil => rfl
  | cons x xs ih => rw [List.map_cons, countP_cons_toNat, ih]; simp only [qcM, countP_cons_toNat, isCompM]

theorem recItems_ack (q0 : List (Nat × Nat)) (p m : Nat) : (q0.map fun x => Item.recI x.1 x.2).countP (isAckM p m) = 0 := by
  induction q0 with
  | nil => rfl
  | cons x xs ih => rw [List.map_cons, countP_cons_toNat, ih]; simp [isAckM]

theorem recItems_comp (q0 : List (Nat × Nat)) (p m : Nat) : (q0.map fun x => Item.recI x.1 x.2).countP (isCompM p m) = 0 := by
  induction q0 with
  | nil => rfl
  | cons x xs ih => rw [List.map_cons, countP_cons_toNat, ih]; simp [isCompM]

theorem recItems_rec (q0 : List (Nat × Nat)) (p m : Nat) : (q0.map fun x => Item.recI x.1 x.2).countP (isRecM p m) = qcM q0 p m := by
  induction q0 with
  | nil => rfl
  | cons x xs ih => rw [List.map_cons, countP_cons_toNat, ih]; simp only [qcM, countP_cons_toNat, isRecM]

theorem hold_append_comp (s : S) (r0 q0 : List (Nat × Nat)) (rem : List Item) (q p m : Nat) :
    hold { s with ackQ := [], recQ := [], compQ := [] } (((r0.map fun x => Item.recI x.1 x.2) ++ (q0.map fun x => Item.compI x.1 x.2)) ++ rem) q p m
      ≤ hold { s with recQ := r0, compQ := q0 } rem q p m := by
  simp only [hold, storedM, waitM, List.countP_append, compItems_ack, compItems_rec, compItems_comp, recItems_ack, recItems_comp, recItems_rec]
  simp only [qcM, List.countP_nil]
  split <;> split <;> omega

end Mqtt5V.Proofs.TraceIn
